#!/usr/bin/env python3
"""Apply each seeded change under /verif/seeded/<prop>/<m>/ to /repo's working tree, confirm its demonstration
(fails with the change, passes without), run the property's registered check(s), and undo the change.

usage: tools/seeded_eval.py [--only C05/m1 ...] [--tier quick] [--checks C05,C03]  (extra checks besides the own property)
Writes /verif/seeded/RESULTS.json (one record per change) and prints a table.  Never commits anything in /repo.
"""
import json
import os
import subprocess
import sys
import time

ROOT = os.path.dirname(os.path.dirname(os.path.abspath(__file__)))
REPO = "/repo"
# EVAL_WT=<dir>: evaluate in a scratch git worktree of /repo's HEAD instead of /repo's own working tree (created on demand, reset to HEAD
# before use); the checks are then run with VERIF_REPO=<dir>.  /repo itself is never touched in that mode.
if os.environ.get("EVAL_WT"):
    _wt = os.environ["EVAL_WT"]
    _head = subprocess.run("git -C /repo rev-parse HEAD", shell=True, capture_output=True, text=True).stdout.strip()
    if not os.path.exists(os.path.join(_wt, ".git")):
        subprocess.run("git -C /repo worktree add --detach %s %s" % (_wt, _head), shell=True, capture_output=True)
    subprocess.run("git -C %s checkout -q --detach %s && git -C %s checkout -- . && git -C %s clean -fdq -- bip_utils" % (_wt, _head, _wt, _wt), shell=True)
    REPO = _wt
    os.environ["VERIF_REPO"] = _wt
PY = "/venv/bin/python"


def sh(cmd, **kw):
    return subprocess.run(cmd, shell=True, capture_output=True, text=True, **kw)


def clean():
    st = sh("git -C %s status --porcelain" % REPO).stdout.strip()
    return st == ""


def demo(path):
    env = dict(os.environ, PYTHONPATH=REPO, PYTHONDONTWRITEBYTECODE="1")
    try:
        r = subprocess.run([PY, path], capture_output=True, text=True, env=env, timeout=900, cwd="/tmp")
        return r.returncode
    except subprocess.TimeoutExpired:
        return 124


def run_check(prop, tier):
    t = time.time()
    r = sh("cd %s && ./check %s --tier %s" % (ROOT, prop, tier))
    lines = [l for l in r.stdout.splitlines() if l.startswith("VIOLATION")]
    return {"exit": r.returncode, "violations": len(lines), "first": lines[0] if lines else None,
            "no_failing_input": any(l.rstrip().endswith("no-failing-input-found") for l in lines) and not any(not l.rstrip().endswith("no-failing-input-found") for l in lines),
            "wall": round(time.time() - t, 1), "tail": (r.stdout + r.stderr)[-400:] if r.returncode not in (0, 1) else ""}


def main():
    args = sys.argv[1:]
    tier = "quick"
    only = []
    extra = []
    i = 0
    while i < len(args):
        if args[i] == "--tier":
            tier = args[i + 1]; i += 2
        elif args[i] == "--checks":
            extra = args[i + 1].split(","); i += 2
        elif args[i] == "--only":
            i += 1
            while i < len(args) and not args[i].startswith("--"):
                only.append(args[i]); i += 1
        else:
            i += 1
    if not clean():
        print("refusing: /repo working tree is not clean"); return 2
    sd = os.path.join(ROOT, "seeded")
    resf = os.path.join(sd, "RESULTS.json")
    results = json.load(open(resf)) if os.path.exists(resf) else {}
    for prop in sorted(os.listdir(sd)):
        pd = os.path.join(sd, prop)
        if not os.path.isdir(pd):
            continue
        for m in sorted(os.listdir(pd)):
            key = "%s/%s" % (prop, m)
            md = os.path.join(pd, m)
            if only and key not in only:
                continue
            if not os.path.exists(os.path.join(md, "patch.diff")):
                continue
            meta = json.load(open(os.path.join(md, "meta.json")))
            rec = {"title": meta.get("title"), "tier": tier}
            rec["demo_clean"] = demo(os.path.join(md, "demo.py"))
            ap = sh("git -C %s apply %s" % (REPO, os.path.join(md, "patch.diff")))
            if ap.returncode != 0:
                rec["apply"] = ap.stderr[-300:]
                results[key] = rec
                print(key, "PATCH DOES NOT APPLY")
                continue
            try:
                rec["demo_patched"] = demo(os.path.join(md, "demo.py"))
                rec["checks"] = {}
                for c in [prop.split("-")[0]] + [e for e in extra if e != prop]:
                    rec["checks"][c] = run_check(c, tier)
            finally:
                sh("git -C %s checkout -- ." % REPO)
                sh("git -C %s clean -fdq -- bip_utils" % REPO)
            own = rec["checks"][prop.split("-")[0]]
            rec["caught"] = own["exit"] == 1 and own["violations"] > 0
            rec["witness"] = rec["caught"] and not own["no_failing_input"]
            results[key] = rec
            json.dump(results, open(resf, "w"), indent=1, sort_keys=True)
            print("%-8s demo clean=%s patched=%s | check exit=%s viol=%s witness=%s wall=%ss | %s" % (
                key, rec["demo_clean"], rec["demo_patched"], own["exit"], own["violations"], rec["witness"], own["wall"], (meta.get("title") or "")[:70]), flush=True)
    assert clean(), "/repo left dirty"
    return 0


if __name__ == "__main__":
    sys.exit(main())
