#!/usr/bin/env python3
"""Apply each behaviour-preserving change under /verif/harmless/<id>/ to /repo's working tree, confirm its equivalence script prints the
same digest as on the clean tree, run every registered check (quick tier) and report any alarm; undo the change.
usage: tools/harmless_eval.py [--only A/h1 ...] [--checks C01,C05]   Writes /verif/harmless/RESULTS.json."""
import json, os, subprocess, sys, time

ROOT = os.path.dirname(os.path.dirname(os.path.abspath(__file__)))
REPO = "/repo"
# EVAL_WT=<dir>: evaluate in a scratch git worktree of /repo's HEAD instead of /repo's own working tree (created on demand, reset to HEAD
# before use); the checks are then run with VERIF_REPO=<dir>.  /repo itself is never touched in that mode.
if os.environ.get("EVAL_WT"):
    _wt = os.environ["EVAL_WT"]
    _head = subprocess.run("git -C /repo rev-parse HEAD", shell=True, capture_output=True, text=True).stdout.strip()
    if not os.path.exists(os.path.join(_wt, ".git")):
        subprocess.run("git -C /repo worktree add --detach %s %s" % (_wt, _head), shell=True, capture_output=True)
    subprocess.run("git -C %s checkout -q --detach %s && git -C %s checkout -- . && git -C %s clean -fdq -- bip_utils" % (_wt, _head, _wt, _wt), shell=True)
    REPO = _wt
    os.environ["VERIF_REPO"] = _wt
PY = "/venv/bin/python"


def sh(cmd):
    return subprocess.run(cmd, shell=True, capture_output=True, text=True)


def digest(path):
    env = dict(os.environ, PYTHONPATH=REPO, PYTHONDONTWRITEBYTECODE="1")
    r = subprocess.run([PY, path], capture_output=True, text=True, env=env, timeout=1800, cwd="/tmp")
    return r.returncode, r.stdout.strip().splitlines()[-1] if r.stdout.strip() else ""


def main():
    args = sys.argv[1:]
    only, checks = [], ["C%02d" % i for i in range(1, 21)]
    i = 0
    while i < len(args):
        if args[i] == "--checks":
            checks = args[i + 1].split(","); i += 2
        elif args[i] == "--only":
            i += 1
            while i < len(args) and not args[i].startswith("--"):
                only.append(args[i]); i += 1
        else:
            i += 1
    assert sh("git -C %s status --porcelain" % REPO).stdout.strip() == "", "/repo not clean"
    hd = os.path.join(ROOT, "harmless")
    resf = os.path.join(hd, "RESULTS.json")
    results = json.load(open(resf)) if os.path.exists(resf) else {}
    for grp in sorted(os.listdir(hd)):
        gd = os.path.join(hd, grp)
        if not os.path.isdir(gd):
            continue
        for h in sorted(os.listdir(gd)):
            key = "%s/%s" % (grp, h)
            d = os.path.join(gd, h)
            if (only and key not in only) or not os.path.exists(os.path.join(d, "patch.diff")):
                continue
            meta = json.load(open(os.path.join(d, "meta.json")))
            rec = {"title": meta.get("title")}
            rec["digest_clean"] = digest(os.path.join(d, "equiv.py"))
            ap = sh("git -C %s apply %s" % (REPO, os.path.join(d, "patch.diff")))
            if ap.returncode != 0:
                rec["apply"] = ap.stderr[-300:]
                results[key] = rec
                print(key, "PATCH DOES NOT APPLY", ap.stderr[-200:])
                continue
            try:
                rec["digest_patched"] = digest(os.path.join(d, "equiv.py"))
                rec["alarms"] = {}
                t0 = time.time()
                from concurrent.futures import ThreadPoolExecutor
                with ThreadPoolExecutor(int(os.environ.get("EVAL_JOBS", "1"))) as ex:
                    outs = list(ex.map(lambda c: (c, sh("cd %s && ./check %s --tier quick" % (ROOT, c))), checks))
                for c, r in outs:
                    if r.returncode != 0:
                        rec["alarms"][c] = {"exit": r.returncode, "lines": [l for l in r.stdout.splitlines() if l.startswith(("VIOLATION", "HARNESS", "TIMEOUT"))][:3],
                                            "tail": (r.stdout + r.stderr)[-600:]}
                rec["wall"] = round(time.time() - t0, 1)
            finally:
                sh("git -C %s checkout -- ." % REPO)
                sh("git -C %s clean -fdq -- bip_utils" % REPO)
            results[key] = rec
            json.dump(results, open(resf, "w"), indent=1, sort_keys=True)
            print("%-10s equiv=%s alarms=%s wall=%ss | %s" % (key, rec["digest_clean"] == rec["digest_patched"], sorted(rec["alarms"]) or "none", rec["wall"], (meta.get("title") or "")[:80]), flush=True)
    assert sh("git -C %s status --porcelain" % REPO).stdout.strip() == "", "/repo left dirty"


if __name__ == "__main__":
    main()
