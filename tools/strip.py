#!/usr/bin/env python3
"""print python sources without docstrings/comments (reading aid)"""
import sys,ast
for f in sys.argv[1:]:
    tree=ast.parse(open(f).read())
    for node in ast.walk(tree):
        if isinstance(node,(ast.FunctionDef,ast.ClassDef,ast.Module,ast.AsyncFunctionDef)):
            b=node.body
            if b and isinstance(b[0],ast.Expr) and isinstance(getattr(b[0],'value',None),ast.Constant) and isinstance(b[0].value.value,str):
                node.body=b[1:] or [ast.Pass()]
    print('#####',f); print(ast.unparse(tree))
