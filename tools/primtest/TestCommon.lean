import BipVerif
open BipVerif BipVerif.Prim

def unhex (s : String) : Bytes := if s == "-" then [] else (Bytes.ofHex s).getD [0xde, 0xad]
def rehex (b : Bytes) : String := if b.isEmpty then "-" else b.toHex

def runLine (l : String) : Option (String × Bool) :=
  match l.splitOn " " with
  | ["sha256", m, e] => some ("sha256", rehex (sha256 (unhex m)) == e)
  | ["sha256d", m, e] => some ("sha256d", rehex (sha256d (unhex m)) == e)
  | ["sha512", m, e] => some ("sha512", rehex (sha512 (unhex m)) == e)
  | ["sha512_256", m, e] => some ("sha512_256", rehex (sha512_256 (unhex m)) == e)
  | ["hmac256", k, m, e] => some ("hmac256", rehex (hmacSha256 (unhex k) (unhex m)) == e)
  | ["hmac512", k, m, e] =>
    let (l, r) := hmacSha512Halves (unhex k) (unhex m)
    some ("hmac512", rehex (hmacSha512 (unhex k) (unhex m)) == e && rehex (l ++ r) == e && l.length == 32)
  | ["pbkdf2_512", p, s, it, dk, e] =>
    some ("pbkdf2_512", rehex (pbkdf2HmacSha512 (unhex p) (unhex s) it.toNat! dk.toNat!) == e)
  | ["pbkdf2_256", p, s, it, dk, e] =>
    some ("pbkdf2_256", rehex (pbkdf2HmacSha256 (unhex p) (unhex s) it.toNat! dk.toNat!) == e)
  | _ => none

def runVectors (path : String) : IO UInt32 := do
  let lines := (← IO.FS.lines path).toList.filter (· ≠ "")
  let mut pass := 0
  let mut fail := 0
  let mut bad := 0
  for l in lines do
    match runLine l with
    | some (_, true) => pass := pass + 1
    | some (n, false) => fail := fail + 1; IO.println s!"FAIL {n}: {l.take 120}"
    | none => bad := bad + 1; IO.println s!"UNPARSED: {l.take 120}"
  IO.println s!"vectors: {lines.length}  pass: {pass}  fail: {fail}  unparsed: {bad}"
  return if fail == 0 && bad == 0 then 0 else 1
