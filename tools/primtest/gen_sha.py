import hashlib, hmac, random
random.seed(12345)
H = lambda b: b.hex() if b else "-"
out = []
special = [0,1,55,56,63,64,65,111,112,119,120,127,128,129,183,184,191,192,193,239,240,247,248,255,256,257,300]
lens = special + [random.randrange(0,301) for _ in range(50)]
for n in lens:
    m = random.randbytes(n)
    out.append(f"sha256 {H(m)} {hashlib.sha256(m).hexdigest()}")
    out.append(f"sha256d {H(m)} {hashlib.sha256(hashlib.sha256(m).digest()).hexdigest()}")
    out.append(f"sha512 {H(m)} {hashlib.sha512(m).hexdigest()}")
    out.append(f"sha512_256 {H(m)} {hashlib.new('sha512_256', m).hexdigest()}")
for m in [b"abc", b"a"*1000, bytes(range(256))*5]:
    out.append(f"sha256 {H(m)} {hashlib.sha256(m).hexdigest()}")
    out.append(f"sha512 {H(m)} {hashlib.sha512(m).hexdigest()}")
    out.append(f"sha512_256 {H(m)} {hashlib.new('sha512_256', m).hexdigest()}")
klens = [0,1,20,32,63,64,65,100,127,128,129,131,200,300]
for kl in klens:
    for ml in [0,1,37,55,56,64,111,112,128,150,300]:
        k = random.randbytes(kl); m = random.randbytes(ml)
        out.append(f"hmac256 {H(k)} {H(m)} {hmac.new(k,m,hashlib.sha256).hexdigest()}")
        out.append(f"hmac512 {H(k)} {H(m)} {hmac.new(k,m,hashlib.sha512).hexdigest()}")
# RFC 4231 test case 6 (131-byte key)
k = b"\xaa"*131; m = b"Test Using Larger Than Block-Size Key - Hash Key First"
out.append(f"hmac256 {H(k)} {H(m)} {hmac.new(k,m,hashlib.sha256).hexdigest()}")
out.append(f"hmac512 {H(k)} {H(m)} {hmac.new(k,m,hashlib.sha512).hexdigest()}")
for it in [1,2,3,2048]:
    for dk in [0,1,20,32,33,64,65,96,128,130]:
        for (pl, sl) in [(0,0),(8,8),(24,12),(64,60),(65,64),(128,124),(129,125),(200,200)]:
            if it == 2048 and (pl,sl) not in [(24,12),(129,125)]: continue
            p = random.randbytes(pl); s = random.randbytes(sl)
            if dk > 0:
                out.append(f"pbkdf2_512 {H(p)} {H(s)} {it} {dk} {H(hashlib.pbkdf2_hmac('sha512',p,s,it,dk))}")
                out.append(f"pbkdf2_256 {H(p)} {H(s)} {it} {dk} {H(hashlib.pbkdf2_hmac('sha256',p,s,it,dk))}")
            else:
                out.append(f"pbkdf2_512 {H(p)} {H(s)} {it} 0 -")
                out.append(f"pbkdf2_256 {H(p)} {H(s)} {it} 0 -")
# BIP39 style vector
p = "legal winner thank year wave sausage worth useful legal winner thank yellow".encode(); s = b"mnemonicTREZOR"
out.append(f"pbkdf2_512 {H(p)} {H(s)} 2048 64 {H(hashlib.pbkdf2_hmac('sha512',p,s,2048,64))}")
open("/tmp/primsha/vectors.txt","w").write("\n".join(out)+"\n")
print(len(out), "vectors")
