import BipVerif.Prim.Bytes
import BipVerif.Prim.ChaCha20Poly1305
import BipVerif.Prim.Aes
import BipVerif.Prim.Scrypt

open BipVerif BipVerif.Prim

def hexTok (s : String) : Option Bytes := if s = "-" then some [] else Bytes.ofHex s

/-- flip one bit of the first byte (or produce a non-empty string from an empty one). -/
def corrupt : Bytes → Bytes
  | [] => [0]
  | x :: xs => (x ^^^ 1) :: xs

structure Tally where
  pass : Nat := 0
  fail : Nat := 0

def runLine (line : String) : IO (Option (String × Bool)) := do
  let toks := (line.splitOn " ").filter (· ≠ "")
  match toks with
  | ["chacha20block", k, c, n, e] =>
    let some k := hexTok k | return some ("chacha20block", false)
    let some n := hexTok n | return some ("chacha20block", false)
    let some e := hexTok e | return some ("chacha20block", false)
    return some ("chacha20block", chacha20Block k c.toNat! n == e)
  | ["chacha20xor", k, c, n, d, e] =>
    let some k := hexTok k | return some ("chacha20xor", false)
    let some n := hexTok n | return some ("chacha20xor", false)
    let some d := hexTok d | return some ("chacha20xor", false)
    let some e := hexTok e | return some ("chacha20xor", false)
    let r := chacha20Xor k c.toNat! n d
    return some ("chacha20xor", r == e && chacha20Xor k c.toNat! n e == d)
  | ["poly1305", k, m, t] =>
    let some k := hexTok k | return some ("poly1305", false)
    let some m := hexTok m | return some ("poly1305", false)
    let some t := hexTok t | return some ("poly1305", false)
    return some ("poly1305", poly1305 k m == t)
  | ["aead", k, n, a, p, c, t] =>
    let some k := hexTok k | return some ("aead", false)
    let some n := hexTok n | return some ("aead", false)
    let some a := hexTok a | return some ("aead", false)
    let some p := hexTok p | return some ("aead", false)
    let some c := hexTok c | return some ("aead", false)
    let some t := hexTok t | return some ("aead", false)
    let (c', t') := chacha20Poly1305Encrypt k n a p
    let ok1 := c' == c && t' == t
    let ok2 := chacha20Poly1305Decrypt k n a c t == some p
    let ok3 := chacha20Poly1305Decrypt k n a c (corrupt t) == none
    let ok4 := chacha20Poly1305Decrypt k n (corrupt a) c t == none
    let ok5 := chacha20Poly1305Decrypt k n a (corrupt c) t == none
    let ok6 := chacha20Poly1305Decrypt k n a c (t.take 15) == none
    return some ("aead", ok1 && ok2 && ok3 && ok4 && ok5 && ok6)
  | ["aesblock", k, p, c] =>
    let some k := hexTok k | return some ("aesblock", false)
    let some p := hexTok p | return some ("aesblock", false)
    let some c := hexTok c | return some ("aesblock", false)
    return some ("aesblock", aes256EncryptBlock k p == c && aes256DecryptBlock k c == p)
  | ["aesecb", k, p, c] =>
    let some k := hexTok k | return some ("aesecb", false)
    let some p := hexTok p | return some ("aesecb", false)
    let some c := hexTok c | return some ("aesecb", false)
    return some ("aesecb", aes256EcbEncrypt k p == c && aes256EcbDecrypt k c == p)
  | ["scrypt", pw, salt, n, r, p, dk, e] =>
    let some pw := hexTok pw | return some ("scrypt", false)
    let some salt := hexTok salt | return some ("scrypt", false)
    let some e := hexTok e | return some ("scrypt", false)
    let t0 ← IO.monoMsNow
    let ok ← IO.lazyPure fun _ => scrypt pw salt n.toNat! r.toNat! p.toNat! dk.toNat! == e
    let t1 ← IO.monoMsNow
    if n.toNat! * r.toNat! * p.toNat! ≥ 1024 then
      IO.println s!"  scrypt N={n} r={r} p={p} dkLen={dk}: {t1 - t0} ms  {if ok then "ok" else "FAIL"}"
    return some ("scrypt", ok)
  | [] => return none
  | _ => return some ("unparsed", false)

def main (args : List String) : IO UInt32 := do
  let path := args.headD "test/vectors.txt"
  let lines ← IO.FS.lines path
  let mut tally : List (String × Tally) := []
  let mut n := 0
  for line in lines do
    n := n + 1
    match ← runLine line with
    | none => pure ()
    | some (kind, ok) =>
      unless ok do IO.println s!"FAIL line {n}: {line.take 100}"
      let cur := (tally.lookup kind).getD {}
      let cur := if ok then { cur with pass := cur.pass + 1 } else { cur with fail := cur.fail + 1 }
      tally := (kind, cur) :: tally.filter (·.1 ≠ kind)
  let mut totalFail := 0
  let mut totalPass := 0
  for (kind, t) in tally.reverse do
    IO.println s!"{kind}: pass {t.pass} fail {t.fail}"
    totalFail := totalFail + t.fail
    totalPass := totalPass + t.pass
  IO.println s!"TOTAL: pass {totalPass} fail {totalFail}"
  return if totalFail = 0 then 0 else 1
