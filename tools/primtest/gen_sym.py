import os, random, hashlib, struct
from Crypto.Cipher import ChaCha20_Poly1305, ChaCha20, AES
from Crypto.Protocol.KDF import scrypt as pc_scrypt
from Crypto.Hash import Poly1305

rnd = random.Random(20260929)
def rb(n): return bytes(rnd.getrandbits(8) for _ in range(n))
def hx(b): return b.hex() if len(b) else "-"
out = []
def emit(*toks): out.append(" ".join(str(t) for t in toks))

# ---- ChaCha20 block / xor
def chacha_stream(key, counter, nonce, data):
    c = ChaCha20.new(key=key, nonce=nonce); c.seek(64 * counter); return c.encrypt(data)
# RFC 8439 2.3.2
key = bytes(range(32)); nonce = bytes.fromhex("000000090000004a00000000")
blk = chacha_stream(key, 1, nonce, bytes(64))
assert blk.hex().startswith("10f1e7e4d13b5915500fdd1fa32071c4")
emit("chacha20block", hx(key), 1, hx(nonce), hx(blk))
# RFC 8439 2.4.2
nonce = bytes.fromhex("000000000000004a00000000")
pt = b"Ladies and Gentlemen of the class of '99: If I could offer you only one tip for the future, sunscreen would be it."
ct = chacha_stream(key, 1, nonce, pt)
assert ct.hex().startswith("6e2e359a2568f98041ba0728dd0d6981")
emit("chacha20xor", hx(key), 1, hx(nonce), hx(pt), hx(ct))
for ctr in [0, 1, 2, 7, 255, 256, 65535, 2**24, 2**31, 2**32 - 2]:
    k, n = rb(32), rb(12)
    emit("chacha20block", hx(k), ctr, hx(n), hx(chacha_stream(k, ctr, n, bytes(64))))
lens = [0, 1, 15, 16, 17, 63, 64, 65, 127, 128, 129, 200] + [rnd.randrange(0, 201) for _ in range(30)]
for L in lens:
    k, n, d = rb(32), rb(12), rb(L); ctr = rnd.choice([0, 1, 5, 1000, 2**20])
    emit("chacha20xor", hx(k), ctr, hx(n), hx(d), hx(chacha_stream(k, ctr, n, d)))

# ---- Poly1305
def poly(key, msg):
    # pure python reference (RFC 8439 2.5.1)
    r = int.from_bytes(key[:16], "little") & 0x0ffffffc0ffffffc0ffffffc0fffffff
    s = int.from_bytes(key[16:], "little"); p = (1 << 130) - 5; acc = 0
    for i in range(0, len(msg), 16):
        acc = (acc + int.from_bytes(msg[i:i+16] + b"\x01", "little")) * r % p
    return ((acc + s) % (1 << 128)).to_bytes(16, "little")
def poly_pc(key, msg):
    # pycryptodome: Poly1305 with ChaCha20 cipher derives r,s from key+nonce; so use it to cross-check via AEAD below.
    return poly(key, msg)
k = bytes.fromhex("85d6be7857556d337f4452fe42d506a80103808afb0db2fd4abff6af4149f51b")
m = b"Cryptographic Forum Research Group"
assert poly(k, m).hex() == "a8061dc1305136c6c22b8baf0c0127a9"
emit("poly1305", hx(k), hx(m), hx(poly(k, m)))
# edge: r = all ones, s = all ones, msg all ff  (carry stress)
for k, m in [(b"\xff"*32, b"\xff"*64), (b"\xff"*32, b"\xff"*17), (bytes(32), rb(40)), (b"\xff"*16 + bytes(16), b"\xff"*16),
             (bytes.fromhex("02"+"00"*15+"ff"*16), bytes.fromhex("02"+"00"*15)),
             (bytes.fromhex("01"+"00"*15+"00"*16), bytes.fromhex("ff"*16+"fb"+"fe"*15+"01"*16))]:
    emit("poly1305", hx(k), hx(m), hx(poly(k, m)))
for L in lens:
    k, m = rb(32), rb(L)
    emit("poly1305", hx(k), hx(m), hx(poly(k, m)))
# cross-check the python poly reference against pycryptodome: Poly1305.new(key=32B, cipher=ChaCha20, nonce=12B) derives (r,s) from chacha block 0
for L in [0, 5, 16, 33, 100]:
    k, n, m = rb(32), rb(12), rb(L)
    otk = chacha_stream(k, 0, n, bytes(32))
    mac = Poly1305.new(key=k, cipher=ChaCha20, nonce=n, data=m).digest()
    assert mac == poly(otk, m), "poly reference mismatch"

# ---- AEAD
def aead(key, nonce, aad, pt):
    c = ChaCha20_Poly1305.new(key=key, nonce=nonce)
    if aad: c.update(aad)
    ct, tag = c.encrypt_and_digest(pt)
    return ct, tag
key = bytes(range(0x80, 0xa0)); nonce = bytes.fromhex("070000004041424344454647"); aad = bytes.fromhex("50515253c0c1c2c3c4c5c6c7")
ct, tag = aead(key, nonce, aad, pt)
assert tag.hex() == "1ae10b594f09e26a7e902ecbd0600691" and ct.hex().startswith("d31a8d34648e60db7b86afbc53ef7ec2")
emit("aead", hx(key), hx(nonce), hx(aad), hx(pt), hx(ct), hx(tag))
aadlens = [0, 0, 1, 12, 15, 16, 17, 32, 50]
for L in lens + lens[:12]:
    k, n, a, d = rb(32), rb(12), rb(rnd.choice(aadlens)), rb(L)
    ct, tag = aead(k, n, a, d)
    emit("aead", hx(k), hx(n), hx(a), hx(d), hx(ct), hx(tag))
for L in [0, 16, 64]:   # explicit empty AAD and empty plaintext combos
    for A in [0, 16, 13]:
        k, n, a, d = rb(32), rb(12), rb(A), rb(L)
        ct, tag = aead(k, n, a, d)
        emit("aead", hx(k), hx(n), hx(a), hx(d), hx(ct), hx(tag))

# ---- AES-256
k = bytes(range(32)); p = bytes.fromhex("00112233445566778899aabbccddeeff")
c = AES.new(k, AES.MODE_ECB).encrypt(p)
assert c.hex() == "8ea2b7ca516745bfeafc49904b496089"
emit("aesblock", hx(k), hx(p), hx(c))
for k, p in [(bytes(32), bytes(16)), (b"\xff"*32, b"\xff"*16), (bytes(32), b"\xff"*16), (b"\xff"*32, bytes(16))]:
    emit("aesblock", hx(k), hx(p), hx(AES.new(k, AES.MODE_ECB).encrypt(p)))
for _ in range(60):
    k, p = rb(32), rb(16)
    emit("aesblock", hx(k), hx(p), hx(AES.new(k, AES.MODE_ECB).encrypt(p)))
for nb in [0, 1, 2, 3, 5, 12] + [rnd.randrange(0, 13) for _ in range(15)]:
    k, d = rb(32), rb(16 * nb)
    emit("aesecb", hx(k), hx(d), hx(AES.new(k, AES.MODE_ECB).encrypt(d)))

# ---- scrypt
def sc(pw, salt, n, r, p, dk):
    a = hashlib.scrypt(pw, salt=salt, n=n, r=r, p=p, dklen=dk, maxmem=2**31 - 1)
    b = pc_scrypt(pw, salt, dk, n, r, p)
    assert a == b
    return a
v = sc(b"", b"", 16, 1, 1, 64)
assert v.hex().startswith("77d6576238657b203b19ca42c18a0497")
emit("scrypt", hx(b""), hx(b""), 16, 1, 1, 64, hx(v))
v = sc(b"password", b"NaCl", 1024, 8, 16, 64)
assert v.hex().startswith("fdbabe1c9d3472007856e7190d01e9fe")
emit("scrypt", hx(b"password"), hx(b"NaCl"), 1024, 8, 16, 64, hx(v))
v = sc(b"pleaseletmein", b"SodiumChloride", 16384, 8, 1, 64)
assert v.hex().startswith("7023bdcb3afd7348461c06cd81fd38eb")
emit("scrypt", hx(b"pleaseletmein"), hx(b"SodiumChloride"), 16384, 8, 1, 64, hx(v))
# small / odd shapes
for (n, r, p, dk) in [(2, 1, 1, 32), (4, 1, 2, 16), (16, 2, 3, 100), (64, 3, 2, 1), (128, 8, 1, 33), (1024, 1, 1, 64), (1024, 1, 1, 32), (256, 4, 4, 65), (8, 16, 1, 64)]:
    for _ in range(2):
        pw, salt = rb(rnd.randrange(0, 40)), rb(rnd.randrange(0, 20))
        emit("scrypt", hx(pw), hx(salt), n, r, p, dk, hx(sc(pw, salt, n, r, p, dk)))
# long password (> 64 bytes: HMAC key hashing path)
pw, salt = rb(100), rb(70)
emit("scrypt", hx(pw), hx(salt), 32, 2, 2, 64, hx(sc(pw, salt, 32, 2, 2, 64)))
# BIP-38 style: N=16384 r=8 p=8 dkLen=64
for pw, salt in [(b"TestingOneTwoThree", bytes.fromhex("e957a24a")), ("ϓ\x00𐐀💩".encode(), rb(4)), (rb(12), rb(8))]:
    emit("scrypt", hx(pw), hx(salt), 16384, 8, 8, 64, hx(sc(pw, salt, 16384, 8, 8, 64)))
# BIP-38 EC-multiply second stage: N=1024 r=1 p=1
pw, salt = rb(33), rb(12)
emit("scrypt", hx(pw), hx(salt), 1024, 1, 1, 64, hx(sc(pw, salt, 1024, 1, 1, 64)))

open(os.path.join(os.path.dirname(__file__), "vectors.txt"), "w").write("\n".join(out) + "\n")
from collections import Counter
print(Counter(l.split()[0] for l in out))
