import random, hashlib, binascii
from Crypto.Hash import RIPEMD160, keccak, SHA3_256, SHA3_512
random.seed(12345)
hx = lambda b: b.hex() if b else "-"
lens = list(range(0, 20)) + [55,56,57,63,64,65,71,72,73,119,120,127,128,129,135,136,137,143,144,145,191,192,193,255,256,257,271,272,273,300]
lens += [random.randrange(0, 301) for _ in range(40)]
msgs = [bytes(random.randrange(256) for _ in range(n)) for n in lens]
msgs += [b"abc", b"The quick brown fox jumps over the lazy dog", b"\x00"*128, b"\xff"*200]
out = []
for m in msgs:
    out.append(f"rmd {hx(m)} {RIPEMD160.new(m).hexdigest()}")
    out.append(f"k256 {hx(m)} {keccak.new(digest_bits=256, data=m).hexdigest()}")
    out.append(f"s256 {hx(m)} {SHA3_256.new(m).hexdigest()}")
    out.append(f"s512 {hx(m)} {SHA3_512.new(m).hexdigest()}")
    out.append(f"crc32 {hx(m)} {binascii.crc32(m):x}")
    out.append(f"crc16 {hx(m)} {binascii.crc_hqx(m,0):x}")
    for n in [4,5,20,28,32,64]:
        out.append(f"b2b {n} - - {hx(m)} {hashlib.blake2b(m, digest_size=n).hexdigest()}")
    # keyed / salted
    for _ in range(3):
        n = random.choice([1,4,5,16,20,28,32,48,63,64])
        key = bytes(random.randrange(256) for _ in range(random.choice([0,1,16,32,63,64])))
        salt = bytes(random.randrange(256) for _ in range(random.choice([0,16,16,7])))
        out.append(f"b2b {n} {hx(key)} {hx(salt)} {hx(m)} {hashlib.blake2b(m, digest_size=n, key=key, salt=salt).hexdigest()}")
open("vectors.txt","w").write("\n".join(out)+"\n")
print(len(msgs), len(out))
