import TestCommon
def main : IO UInt32 := runVectors "/tmp/primsha/vectors.txt"
