/- Kernel-checked (`decide +kernel`, axiom-free) sanity theorems.  Run: `lake env lean Kernel.lean` (~1.5 s). -/
import BipVerif
open BipVerif BipVerif.Prim

theorem secp256k1_G_onCurve : secp256k1.onCurve (.aff secp256k1.gx secp256k1.gy) = true := by decide +kernel
theorem nist256p1_G_onCurve : nist256p1.onCurve nist256p1.G = true := by decide +kernel
theorem edBase_onCurve : edOnCurve edBase = true := by decide +kernel
theorem secp256k1_nG : secp256k1.mul secp256k1.n (.aff secp256k1.gx secp256k1.gy) = .inf := by decide +kernel
theorem nist256p1_nG : nist256p1.mul nist256p1.n nist256p1.G = .inf := by decide +kernel
theorem ed_lB : edMulBase edL = edIdentity := by decide +kernel
theorem secp256k1_decode_G :
    secp256k1.decode (2 :: Bytes.ofNatBE 32 secp256k1.gx) = some secp256k1.G := by decide +kernel
theorem nist256p1_roundtrip_7G :
    (nist256p1.compress (nist256p1.mulG 7)).bind nist256p1.decode = some (nist256p1.mulG 7) := by decide +kernel
theorem ed_roundtrip_B : edDecodeStrict (edEncode edBase) = some edBase := by decide +kernel
theorem ed_x0_signbit :   -- y = 1 with the sign bit set: the library-style decoder yields the unreduced x = p
    edDecodeLib (Bytes.ofNatLE 32 (1 + 2 ^ 255)) = some ⟨edP, 1⟩ ∧
    edDecodeLenient (Bytes.ofNatLE 32 (1 + 2 ^ 255)) = some ⟨0, 1⟩ ∧
    edDecodeStrict (Bytes.ofNatLE 32 (1 + 2 ^ 255)) = none := by decide +kernel
#print axioms secp256k1_nG
#print axioms ed_lB
#print axioms secp256k1_decode_G
#print axioms ed_x0_signbit
