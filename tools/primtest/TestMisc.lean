import BipVerif
open BipVerif BipVerif.Prim

def unhex (s : String) : Bytes := if s == "-" then [] else (Bytes.ofHex s).getD []
def natHex (n : Nat) : String := String.ofList (Nat.toDigits 16 n)

def check (line : String) : Option String :=
  let got : Option (String × String) :=
    match line.splitOn " " with
    | ["rmd", m, e] => some (Bytes.toHex (ripemd160 (unhex m)), e)
    | ["k256", m, e] => some (Bytes.toHex (keccak256 (unhex m)), e)
    | ["s256", m, e] => some (Bytes.toHex (sha3_256 (unhex m)), e)
    | ["s512", m, e] => some (Bytes.toHex (sha3_512 (unhex m)), e)
    | ["crc32", m, e] => some (natHex (crc32 (unhex m)), e)
    | ["crc16", m, e] => some (natHex (crc16Xmodem (unhex m)), e)
    | ["b2b", n, k, s, m, e] =>
      let n := n.toNat!
      let r := blake2b n (unhex k) (unhex s) (unhex m)
      let r2 := if k == "-" && s == "-" then
          (match n with
           | 4 => blake2b32 (unhex m) | 5 => blake2b40 (unhex m) | 20 => blake2b160 (unhex m)
           | 28 => blake2b224 (unhex m) | 32 => blake2b256 (unhex m) | 64 => blake2b512 (unhex m)
           | _ => r) else r
      if r == r2 then some (Bytes.toHex r, e) else some ("convenience-mismatch", e)
    | _ => none
  match got with
  | some (g, e) => if g == e then none else some s!"MISMATCH {line}\n   got {g}"
  | none => some s!"BADLINE {line}"

def main : IO Unit := do
  let lines := (← IO.FS.lines "vectors.txt").toList.filter (· ≠ "")
  let bad := lines.filterMap check
  for b in bad do IO.println b
  IO.println s!"checked {lines.length} vectors, {bad.length} failures"

-- fixed known-answer vectors
#eval Bytes.toHex (ripemd160 []) == "9c1185a5c5e9fc54612808977ee8f548b2258d31"
#eval Bytes.toHex (ripemd160 (Bytes.ofAscii "abc")) == "8eb208f7e05d987a9b044a8e98c6b087f15a0bfc"
#eval Bytes.toHex (keccak256 []) == "c5d2460186f7233c927e7db2dcc703c0e500b653ca82273b7bfad8045d85a470"
#eval Bytes.toHex (sha3_256 []) == "a7ffc6f8bf1ed76651c14756a061d662f580ff4de43b49fa82d80a4b80f8434a"
#eval Bytes.toHex (blake2b512 (Bytes.ofAscii "abc")) == "ba80a53f981c4d0d6a2797b69f12f6e94c212f14685ac4b74b12bb6fdbffa2d17d87c5392aab792dc252d5de4533cc9518d38aa8dbf1925ab92386edd4009923"
#eval crc32 (Bytes.ofAscii "123456789") == 0xCBF43926
#eval crc16Xmodem (Bytes.ofAscii "123456789") == 0x31C3
