#!/venv/bin/python
"""Generates Test.lean: vectors from ecdsa / coincurve / PyNaCl / bip_utils.ed25519_lib, checked by #eval."""
import random, binascii
import ecdsa, coincurve
from ecdsa.ellipticcurve import Point, INFINITY
from ecdsa.errors import MalformedPointError
from nacl import bindings as nb
from bip_utils.ecc.ed25519.lib import ed25519_lib as el

rnd = random.Random(20260929)
out = []
w = out.append
hx = lambda b: '"' + binascii.hexlify(b).decode() + '"'
opt = lambda s: "none" if s is None else f"(some {s})"

w("import BipVerif\nopen BipVerif BipVerif.Prim\n")
w("""def hexB (s : String) : Bytes := (Bytes.ofHex s).getD []
def wpt : Option (Nat × Nat) → WPoint | none => .inf | some (x, y) => .aff x y
def edpt : Option (Nat × Nat) → Option EdPoint := fun o => o.map fun (x, y) => ⟨x, y⟩
/-- run named checks, print failures and a summary -/
def report (group : String) (cs : List (String × Bool)) : IO Unit := do
  let bad := cs.filter (!·.2)
  for (n, _) in bad do IO.println s!"MISMATCH [{group}] {n}"
  IO.println s!"{group}: {cs.length - bad.length}/{cs.length} ok"
""")

# ---------------- Weierstrass ----------------
curves = [("secp256k1", ecdsa.SECP256k1), ("nist256p1", ecdsa.NIST256p)]
def comp(P): return P.to_bytes("compressed")
def unc(P): return P.to_bytes("uncompressed")
def py_decode(cv, b):
    """ecdsa's SEC1 decoder (VerifyingKey.from_string, as used by bip_utils) restricted to compressed/uncompressed.
    NB the low-level ecdsa Point.from_bytes accepts compressed x >= p (keeps x unreduced); VerifyingKey does not."""
    try:
        P = ecdsa.VerifyingKey.from_string(b, curve=cv, valid_encodings=("compressed", "uncompressed")).pubkey.point
        assert P.x() < cv.curve.p() and P.y() < cv.curve.p()
        return P
    except (MalformedPointError, ValueError):
        return None
def cc_decode(b):
    try:
        return coincurve.PublicKey(b).format(compressed=False)
    except Exception:
        return None

for name, cv in curves:
    c, g, n, p = cv.curve, cv.generator, cv.order, cv.curve.p()
    w(f"-- ===== {name} =====")
    w(f"#eval report \"{name} params\" [")
    w(f"  (\"p\", {name}.p == {p}), (\"a\", {name}.a == {c.a() % p}), (\"b\", {name}.b == {c.b()}),")
    w(f"  (\"gx\", {name}.gx == {g.x()}), (\"gy\", {name}.gy == {g.y()}), (\"n\", {name}.n == {n}),")
    w(f"  (\"p%4=3\", {name}.p % 4 == 3), (\"coordLen\", {name}.coordLen == 32),")
    w(f"  (\"G on curve\", {name}.onCurve {name}.G), (\"inf on curve\", {name}.onCurve .inf),")
    w(f"  (\"n•G = inf\", {name}.mulG {name}.n == .inf), (\"0•G = inf\", {name}.mulG 0 == .inf),")
    w(f"  (\"1•G = G\", {name}.mulG 1 == {name}.G), (\"(n+1)•G = G\", {name}.mulG ({name}.n + 1) == {name}.G),")
    w(f"  (\"(n-1)•G = -G\", {name}.mulG ({name}.n - 1) == {name}.neg {name}.G),")
    w(f"  (\"G + (-G) = inf\", {name}.add {name}.G ({name}.neg {name}.G) == .inf),")
    w(f"  (\"G + inf\", {name}.add {name}.G .inf == {name}.G), (\"inf + G\", {name}.add .inf {name}.G == {name}.G),")
    w(f"  (\"inf + inf\", {name}.add .inf .inf == .inf), (\"k•inf\", {name}.mul 5 .inf == .inf),")
    w(f"  (\"G+G = 2G\", {name}.add {name}.G {name}.G == {name}.mulG 2),")
    w(f"  (\"compress inf\", {name}.compress .inf == none), (\"uncompressed inf\", {name}.uncompressed .inf == none)]")

    # scalar mults of G: 30 random in [1,n), plus small, plus > n (up to 320 bits)
    ks = [1, 2, 3, 4, 5, 7, 8, 255, 256, n - 2, n - 1] + [rnd.randrange(1, n) for _ in range(30)] \
         + [rnd.getrandbits(b) | 1 << (b - 1) for b in (257, 300, 320, 512)] + [rnd.getrandbits(rnd.randrange(1, 256)) | 1 for _ in range(10)]
    rows = []
    for k in ks:
        P = g * k
        if name == "secp256k1":   # cross-check ecdsa vs coincurve
            assert coincurve.PublicKey.from_secret((k % n).to_bytes(32, "big")).format(True) == comp(P)
        rows.append(f"({k}, {hx(comp(P))}, {hx(unc(P))}, {P.x()}, {P.y()})")
    w(f"def {name}MulG : List (Nat × String × String × Nat × Nat) := [\n  " + ",\n  ".join(rows) + "]")
    w(f"""#eval report "{name} mulG/compress/decode ({len(ks)} scalars)" ({name}MulG.flatMap fun (k, cs, us, x, y) =>
  let P := {name}.mulG k
  [(s!"mulG {{k}}", P == .aff x y), (s!"onCurve {{k}}", {name}.onCurve P),
   (s!"compress {{k}}", {name}.compress P == some (hexB cs)), (s!"uncompressed {{k}}", {name}.uncompressed P == some (hexB us)),
   (s!"decode-compressed {{k}}", {name}.decode (hexB cs) == some P), (s!"decode-uncompressed {{k}}", {name}.decode (hexB us) == some P)])""")

    # additions and mul of arbitrary points
    rows = []
    def pt(P): return "none" if P == INFINITY else f"(some ({P.x()}, {P.y()}))"
    cases = []
    for _ in range(30):
        k1, k2 = rnd.randrange(1, n), rnd.randrange(1, n)
        cases.append((g * k1, g * k2))
    for _ in range(5):
        k1 = rnd.randrange(1, n); P = g * k1
        cases += [(P, P), (P, -P), (P, INFINITY), (INFINITY, P), (P, g * (n - k1))]
    for P, Q in cases:
        rows.append(f"({pt(P)}, {pt(Q)}, {pt(P + Q)})")
    w(f"def {name}Add : List (Option (Nat × Nat) × Option (Nat × Nat) × Option (Nat × Nat)) := [\n  " + ",\n  ".join(rows) + "]")
    w(f"""#eval report "{name} add ({len(cases)} cases)" ({name}Add.zipIdx.flatMap fun ((a, b, r), i) =>
  [(s!"add #{{i}}", {name}.add (wpt a) (wpt b) == wpt r), (s!"add-comm #{{i}}", {name}.add (wpt b) (wpt a) == wpt r)])""")
    rows = []
    for _ in range(15):
        k1 = rnd.randrange(1, n); k = rnd.choice([rnd.randrange(1, n), rnd.getrandbits(300), rnd.getrandbits(20), n, 2 * n, 0])
        P = g * k1
        rows.append(f"({k}, {pt(P)}, {pt(P * k)})")
    w(f"def {name}Mul : List (Nat × Option (Nat × Nat) × Option (Nat × Nat)) := [\n  " + ",\n  ".join(rows) + "]")
    w(f"""#eval report "{name} mul k P ({len(rows)} cases)" ({name}Mul.zipIdx.map fun ((k, a, r), i) =>
  (s!"mul #{{i}}", {name}.mul k (wpt a) == wpt r))""")

    # decode: arbitrary inputs compared with ecdsa's decoder (and coincurve for secp256k1)
    inputs = []
    P = g * rnd.randrange(1, n)
    xb, yb = P.x().to_bytes(32, "big"), P.y().to_bytes(32, "big")
    for t in range(0, 9): inputs.append(bytes([t]) + xb)                   # all prefixes on a 33-byte string
    for t in range(0, 9): inputs.append(bytes([t]) + xb + yb)              # all prefixes on a 65-byte string
    inputs += [b"", b"\x02", b"\x04", b"\x02" + xb[:31], b"\x02" + xb + b"\x00", xb, xb + yb, b"\x04" + xb + yb[:31], b"\x04" + xb + yb + b"\x00", b"\x00"]
    inputs.append(b"\x04" + xb + (P.y() ^ 1).to_bytes(32, "big"))          # off curve
    inputs.append(b"\x04" + xb + ((p - P.y())).to_bytes(32, "big"))        # -P, on curve
    inputs.append(b"\x04" + yb + xb)
    for x in [p, p + 1, 2**256 - 1, p - 1, 0, 1, 2, 3, 4, 5]:              # x >= p and small x (some non-residue)
        for t in (2, 3): inputs.append(bytes([t]) + x.to_bytes(32, "big"))
    # x ≥ p that would be on-curve after reduction: find small x0 on curve, use x0 + p if it fits
    for x0 in range(0, 200):
        if x0 + p < 2**256 and py_decode(cv, b"\x02" + x0.to_bytes(32, "big")) is not None:
            Q = py_decode(cv, b"\x02" + x0.to_bytes(32, "big"))
            inputs.append(b"\x02" + (x0 + p).to_bytes(32, "big"))
            inputs.append(b"\x04" + (x0 + p).to_bytes(32, "big") + Q.y().to_bytes(32, "big"))
            if Q.y() + p < 2**256: inputs.append(b"\x04" + x0.to_bytes(32, "big") + (Q.y() + p).to_bytes(32, "big"))
            break
    for _ in range(40):                                                     # random x: about half are off-curve
        inputs.append(bytes([rnd.choice((2, 3))]) + rnd.getrandbits(256).to_bytes(32, "big"))
    for _ in range(10):
        inputs.append(b"\x04" + rnd.getrandbits(512).to_bytes(64, "big"))
    rows, nnone = [], 0
    for b in inputs:
        Q = py_decode(cv, b)
        if name == "secp256k1":
            cq = cc_decode(b) if len(b) in (33, 65) and b[0] in (2, 3, 4) else None   # coincurve also takes hybrid 06/07
            assert (cq is None) == (Q is None) and (Q is None or cq == unc(Q)), (b.hex(), cq, Q)
        nnone += Q is None
        rows.append(f"({hx(b)}, {opt(None if Q is None else f'({Q.x()}, {Q.y()})')})")
    w(f"-- {nnone} of {len(inputs)} inputs are rejected by python-ecdsa")
    w(f"def {name}Dec : List (String × Option (Nat × Nat)) := [\n  " + ",\n  ".join(rows) + "]")
    w(f"""#eval report "{name} decode arbitrary ({len(inputs)} inputs, {nnone} invalid)" ({name}Dec.map fun (s, r) =>
  (s!"decode {{s}}", {name}.decode (hexB s) == r.map fun (x, y) => .aff x y))""")

# ---------------- ed25519 ----------------
Q_, L_ = el._Q, el._L
w("-- ===== ed25519 =====")
w(f"""#eval report "ed25519 params" [
  ("p", edP == {Q_}), ("d", edD == {el._D % Q_}), ("d·121666 = -121665", edD * 121666 % edP == edP - 121665),
  ("l", edL == {L_}), ("B", edBase == ⟨{el._G[0]}, {el._G[1]}⟩), ("p%8=5", edP % 8 == 5),
  ("B on curve", edOnCurve edBase), ("id on curve", edOnCurve edIdentity), ("l•B = id", edMulBase edL == edIdentity),
  ("0•B", edMulBase 0 == edIdentity), ("1•B", edMulBase 1 == edBase), ("(l+1)•B", edMulBase (edL + 1) == edBase),
  ("(l-1)•B = -B", edMulBase (edL - 1) == edNeg edBase), ("B + -B", edAdd edBase (edNeg edBase) == edIdentity),
  ("B + id", edAdd edBase edIdentity == edBase), ("id + B", edAdd edIdentity edBase == edBase),
  ("B + B", edAdd edBase edBase == edMulBase 2), ("k•id", edMul 12345 edIdentity == edIdentity),
  ("enc B", edEncode edBase == hexB {hx(el._G_ENC_BYTES)}),
  ("sqrt 4", (sqrtMod25519 4).map (fun r => r * r % edP) == some 4), ("sqrt 2 (non-residue)", sqrtMod25519 2 == none),
  ("sqrt -1", (sqrtMod25519 (edP - 1)).map (fun r => r * r % edP) == some (edP - 1)), ("sqrt 0", sqrtMod25519 0 == some 0)]""")

def sm_base(k): return nb.crypto_scalarmult_ed25519_base_noclamp(k.to_bytes(32, "little"))
def sm(k, P): return nb.crypto_scalarmult_ed25519_noclamp(k.to_bytes(32, "little"), P)
ks = [1, 2, 3, 4, 5, 8, 255, L_ - 1, L_ + 1, L_ + 7, 2 * L_ + 3, 2**255 - 1] + [rnd.randrange(1, L_) for _ in range(30)] \
     + [rnd.randrange(L_, 2**255) for _ in range(5)] + [rnd.getrandbits(rnd.randrange(1, 250)) | 1 for _ in range(10)]
rows = []
for k in ks:
    e = sm_base(k)
    assert e == sm_base(k % L_) and e == el.point_scalar_mul_base(k)
    x, y = el.point_decode(e)
    assert el.point_encode((x, y)) == e
    rows.append(f"({k}, {hx(e)}, {x}, {y})")
w("def edMulB : List (Nat × String × Nat × Nat) := [\n  " + ",\n  ".join(rows) + "]")
w(f"""#eval report "ed25519 mulBase/encode/decode ({len(ks)} scalars)" (edMulB.flatMap fun (k, es, x, y) =>
  let P := edMulBase k
  [(s!"mulBase {{k}}", P == ⟨x, y⟩), (s!"onCurve {{k}}", edOnCurve P), (s!"encode {{k}}", edEncode P == hexB es),
   (s!"decodeStrict {{k}}", edDecodeStrict (hexB es) == some P), (s!"decodeLenient {{k}}", edDecodeLenient (hexB es) == some P),
   (s!"decodeLib {{k}}", edDecodeLib (hexB es) == some P), (s!"decodeNoCheck {{k}}", edDecodeNoCheck (hexB es) == some P)])""")
# big scalar beyond what nacl accepts (k ≥ 2^255): compare with k mod l
for k in [rnd.getrandbits(300), rnd.getrandbits(512), 2**255, 2**256 + 5]:
    rows = f"({k}, {hx(sm_base(k % L_))})"
    w(f"#eval report \"ed25519 mulBase big k\" [(\"{k.bit_length()} bits\", edEncode (edMulBase {k}) == hexB {hx(sm_base(k % L_))})]")

rows = []
for i in range(30):
    k1, k2 = rnd.randrange(1, L_), rnd.randrange(1, L_)
    if i % 6 == 5: k2 = k1
    if i % 6 == 4: k2 = L_ - k1
    A, B = sm_base(k1), sm_base(k2)
    try: R = nb.crypto_core_ed25519_add(A, B)
    except Exception: R = None
    if (k1 + k2) % L_ == 0: R = el.point_encode((0, 1))
    k = rnd.choice([rnd.randrange(1, L_), rnd.randrange(1, 2**255), rnd.getrandbits(16) + 1])
    M = sm(k, A)
    rows.append(f"({hx(A)}, {hx(B)}, {hx(R)}, {k}, {hx(M)})")
w("def edAddMul : List (String × String × String × Nat × String) := [\n  " + ",\n  ".join(rows) + "]")
w(f"""#eval report "ed25519 add / mul k P ({len(rows)} cases)" (edAddMul.zipIdx.flatMap fun ((a, b, r, k, m), i) =>
  match edDecodeStrict (hexB a), edDecodeStrict (hexB b) with
  | some A, some B => [(s!"add #{{i}}", edEncode (edAdd A B) == hexB r), (s!"add-comm #{{i}}", edEncode (edAdd B A) == hexB r),
                       (s!"mul #{{i}}", edEncode (edMul k A) == hexB m)]
  | _, _ => [(s!"decode #{{i}}", false)])""")

# decoding of arbitrary 32-byte strings: lib (no_check / checked), strict RFC 8032 reference, lenient
def rfc_decode(b):
    """RFC 8032 §5.1.3 / §6 reference `point_decompress`"""
    if len(b) != 32: return None
    y = int.from_bytes(b, "little"); sign = y >> 255; y &= (1 << 255) - 1
    if y >= Q_: return None
    x2 = (y * y - 1) * pow(el._D * y * y + 1, Q_ - 2, Q_) % Q_
    if x2 == 0: return None if sign else (0, y)
    x = pow(x2, (Q_ + 3) // 8, Q_)
    if (x * x - x2) % Q_ != 0: x = x * pow(2, (Q_ - 1) // 4, Q_) % Q_
    if (x * x - x2) % Q_ != 0: return None
    if (x & 1) != sign: x = Q_ - x
    return (x, y)
def lib_decode(b):
    try: return el.point_decode(b)
    except ValueError: return None
def lib_nocheck(b):
    try: return el.point_decode_no_check(b)
    except ValueError: return None
def lenient(b):
    r = lib_decode(b)
    return None if r is None else (r[0] % Q_, r[1] % Q_)
inputs = []
for y in [0, 1, 2, Q_ - 1, Q_ - 2] + [Q_ + t for t in range(19)]:      # includes every non-canonical y (p .. 2^255-1)
    for s in (0, 1): inputs.append((y | s << 255).to_bytes(32, "little"))
inputs += [b"", b"\x01", bytes(31), bytes(33), bytes(64), el._G_DEC_BYTES, b"\xff" * 32]
inputs += [rnd.getrandbits(256).to_bytes(32, "little") for _ in range(80)]
inputs += [rnd.getrandbits(rnd.randrange(1, 250)).to_bytes(32, "little") for _ in range(10)]
rows = []; cnt = dict(lib=0, strict=0, differ=0)
tup = lambda r: opt(None if r is None else f"({r[0]}, {r[1]})")
for b in inputs:
    a, c_, s, l = lib_nocheck(b), lib_decode(b), rfc_decode(b), lenient(b)
    cnt["lib"] += c_ is not None; cnt["strict"] += s is not None; cnt["differ"] += (c_ != s)
    rows.append(f"({hx(b)}, {tup(a)}, {tup(c_)}, {tup(s)}, {tup(l)})")
w(f"-- accepted by lib.point_decode: {cnt['lib']}, by strict RFC: {cnt['strict']}, results differ on {cnt['differ']} of {len(inputs)}")
w("def edDec : List (String × Option (Nat × Nat) × Option (Nat × Nat) × Option (Nat × Nat) × Option (Nat × Nat)) := [\n  " + ",\n  ".join(rows) + "]")
w(f"""#eval report "ed25519 decode arbitrary ({len(inputs)} inputs; lib accepts {cnt['lib']}, strict {cnt['strict']}, differ {cnt['differ']})" (edDec.flatMap fun (s, a, c, st, l) =>
  [(s!"noCheck {{s}}", edDecodeNoCheck (hexB s) == edpt a), (s!"lib {{s}}", edDecodeLib (hexB s) == edpt c),
   (s!"strict {{s}}", edDecodeStrict (hexB s) == edpt st), (s!"lenient {{s}}", edDecodeLenient (hexB s) == edpt l),
   (s!"lenient-onCurve {{s}}", (edDecodeLenient (hexB s)).all edOnCurve)])""")
# lib.point_is_on_curve on 64-byte "decoded" form and encode with unreduced coords
rows = []
for _ in range(10):
    x, y = rnd.getrandbits(255), rnd.getrandbits(255)
    rows.append(f"({x}, {y}, {'true' if el.point_is_on_curve((x, y)) else 'false'})")
for k in (1, 5, 77):
    x, y = el.point_decode(sm_base(k))
    rows.append(f"({x}, {y}, {'true' if el.point_is_on_curve((x, y)) else 'false'})")
    if y + Q_ < 2**255: rows.append(f"({x}, {y + Q_}, {'true' if el.point_is_on_curve((x, y + Q_)) else 'false'})")
    rows.append(f"({x + Q_}, {y}, {'true' if el.point_is_on_curve((x + Q_, y)) else 'false'})")
w("def edOn : List (Nat × Nat × Bool) := [\n  " + ",\n  ".join(rows) + "]")
w("""#eval report "ed25519 onCurveModP vs lib.point_is_on_curve" (edOn.map fun (x, y, r) => (s!"onCurveModP {x}", edOnCurveModP ⟨x, y⟩ == r))""")

# ---------------- modular ----------------
rows = []
for _ in range(20):
    m = rnd.choice([Q_, ecdsa.SECP256k1.curve.p(), rnd.getrandbits(64) + 2, 1, 2, 97])
    b, e = rnd.getrandbits(300), rnd.choice([0, 1, 2, rnd.getrandbits(10), rnd.getrandbits(256)])
    rows.append(f"({b}, {e}, {m}, {pow(b, e, m)})")
w("def powVec : List (Nat × Nat × Nat × Nat) := [\n  " + ",\n  ".join(rows) + "]")
w("""#eval report "powMod vs python pow" (powVec.map fun (b, e, m, r) => (s!"powMod {b} {e} {m}", powMod b e m == r))""")
rows = []
for m in (ecdsa.SECP256k1.curve.p(), ecdsa.NIST256p.curve.p(), Q_):
    for _ in range(10):
        a = rnd.randrange(1, m)
        rows.append(f"({a}, {m}, {pow(a, -1, m)}, {'true' if pow(a, (m - 1) // 2, m) == 1 else 'false'})")
w("def invVec : List (Nat × Nat × Nat × Bool) := [\n  " + ",\n  ".join(rows) + "]")
w("""#eval report "invMod / sqrt vs python" (invVec.flatMap fun (a, m, r, isQR) =>
  let s := if m % 4 == 3 then sqrtMod3mod4 a m else sqrtMod5mod8 a m
  [(s!"invMod {a}", invMod a m == r), (s!"subMod {a}", subMod a r m == (a + m - r) % m && subMod r a m == (r + m - a) % m),
   (s!"sqrt-exists {a}", s.isSome == isQR), (s!"sqrt-square {a}", s.all fun t => t < m && t * t % m == a)])""")

open("Test.lean", "w").write("\n".join(out) + "\n")
print("Test.lean written:", sum(len(s) for s in out), "chars")
