#!/venv/bin/python
"""Generate BenchTable.lean: kernel-checked facts about real word lists.

usage: gen_bench_table.py [out.lean] [french korean monero ...]

Every word is encoded as  int.from_bytes(b"\\x01" + w.encode("utf-8"), "big")  and written as a
raw literal (`nat_lit n`: no `OfNat` wrapper, halves the elaboration time of the big list and
saves the kernel an unfolding per comparison).
"""
import sys
from bip_utils.bip.bip39.bip39_mnemonic_utils import Bip39WordsListGetter
from bip_utils import Bip39Languages
from bip_utils.monero.mnemonic.monero_mnemonic_utils import MoneroWordsListGetter
from bip_utils import MoneroLanguages


def enc(w: str) -> int:
    return int.from_bytes(b"\x01" + w.encode("utf-8"), "big")


def bip39(lang):
    wl = Bip39WordsListGetter().GetByLanguage(lang)
    return [wl.GetWordAtIdx(i) for i in range(wl.Length())]


def monero(lang):
    wl = MoneroWordsListGetter().GetByLanguage(lang)
    return [wl.GetWordAtIdx(i) for i in range(wl.Length())]


def min_prefix(words):
    """smallest k such that the first k code points separate all words"""
    k = 1
    while len(set(w[:k] for w in words)) != len(words):
        k += 1
    return k


def list_def(name, words):
    nums = ", ".join("nat_lit " + str(enc(w)) for w in words)
    return (f"set_option maxRecDepth 1000000 in\n"
            f"def {name} : List Nat := [{nums}]\n")


# name -> (Lean identifier, words, nominal unique-prefix length or None)
LISTS = {
    "french": lambda: ("frenchList", bip39(Bip39Languages.FRENCH), 4),
    "korean": lambda: ("koreanList", bip39(Bip39Languages.KOREAN), None),
    "monero": lambda: ("moneroEnList", monero(MoneroLanguages.ENGLISH), 3),
}


def main(out, which):
    o = ["import BipVerif.Lemmas.Table", "open BipVerif.Table", ""]
    for key in which:
        name, words, k = LISTS[key]()
        kmin = min_prefix(words)
        nbytes = max(len(w.encode("utf-8")) for w in words) + 1
        o.append(list_def(name, words))
        thms = []

        def thm(tname, stmt):
            o.append(f"theorem {tname} : {stmt} := by decide +kernel")
            thms.append(tname)

        thm(f"{name}_length", f"{name}.length = {len(words)}")
        thm(f"{name}_nodupCheck", f"nodupCheck {name} = true")
        thm(f"{name}_allLt", f"allLt (2 ^ {8 * nbytes}) {name} = true")
        thm(f"{name}_prefix{kmin}Check", f"prefixNodupCheck {kmin} {name} = true")
        if k is not None and k < kmin:
            # the nominal prefix length does not separate the words when counted in code points
            # (bip_utils keeps the BIP-39 lists NFKD-decomposed: "é" is two code points)
            thm(f"{name}_prefix{k}Check_fails", f"prefixNodupCheck {k} {name} = false")
            # ... which, by completeness of the checker, refutes the unique-prefix claim
            o.append(f"theorem {name}_prefix{k}_not_unique :\n"
                     f"    ¬ ({name}.map (fun w => utf8Prefix {k} (wordBytesNat w))).Nodup :=\n"
                     f"  not_prefix_nodup_of_check_eq_false {k} _ (by rw [{name}_length]; decide)\n"
                     f"    {name}_prefix{k}Check_fails")
            thms.append(f"{name}_prefix{k}_not_unique")
        # the facts themselves, through the soundness theorems
        o.append(f"theorem {name}_nodup : {name}.Nodup := nodupCheck_sound _ {name}_nodupCheck")
        o.append(f"theorem {name}_prefix{kmin}_nodup :\n"
                 f"    ({name}.map (fun w => utf8Prefix {kmin} (wordBytesNat w))).Nodup :=\n"
                 f"  prefixNodupCheck_sound _ _ {name}_prefix{kmin}Check")
        o.append(f"theorem {name}_lt : ∀ x ∈ {name}, x < 2 ^ {8 * nbytes} := "
                 f"allLt_sound _ _ {name}_allLt")
        thms += [f"{name}_nodup", f"{name}_prefix{kmin}_nodup", f"{name}_lt"]
        for t in thms:
            o.append(f"#print axioms {t}")
        o.append("")
    if "french" in which:
        # list equality: checker vs. plain `DecidableEq (List Nat)`
        name, words, _ = LISTS["french"]()
        o.append(list_def(name + "Copy", words))
        o.append(f"theorem {name}_eqCheck : listEqCheck {name} {name}Copy = true := by decide +kernel")
        o.append(f"theorem {name}_eq : {name} = {name}Copy := listEqCheck_sound _ _ {name}_eqCheck")
        o.append(f"theorem {name}_eq_plain : {name} = {name}Copy := by decide +kernel")
        o.append(f"#print axioms {name}_eq")
        o.append(f"#print axioms {name}_eq_plain")
        o.append("")
    open(out, "w").write("\n".join(o))


if __name__ == "__main__":
    out = sys.argv[1] if len(sys.argv) > 1 else "BenchTable.lean"
    which = sys.argv[2:] or ["french", "korean", "monero"]
    main(out, which)
