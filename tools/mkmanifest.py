#!/usr/bin/env python3
"""Regenerate MANIFEST.json from the table below (kept valid at all times)."""
import json, os
V = os.path.dirname(os.path.dirname(os.path.abspath(__file__)))
props = [json.loads(l) for l in open(os.path.join(V, "properties.jsonl"))]
CLAIMED = json.load(open(os.path.join(V, "tools", "claimed.json")))
BASE = json.load(open("/root/.vp/BASELINE.json"))["cmd"] if os.path.exists("/root/.vp/BASELINE.json") else \
    "cd /repo && /venv/bin/python -m pytest -ra -q -p no:cacheprovider --timeout=900 --continue-on-collection-errors --junitxml=<file>"
checks, na = [], []
for p in props:
    pid = p["id"]
    c = CLAIMED.get(pid)
    if not c:
        na.append({"property_id": pid, "reason": "not yet claimed: the Lean model/theorems/correspondence for this property are not built yet (see DESIGN.md section 3)"})
        continue
    checks.append({
        "property_id": pid,
        "quick_cmd": "./check %s --tier quick" % pid,
        "thorough_cmd": "./check %s --tier thorough" % pid,
        "evidence_file": "evidence/%s.json" % pid,
        "replay_cmd_template": "./check %s --replay {path}" % pid,
        "engine": "lean-model",
        "level_claimed": {"category": "proof", "text": c["text"], "design_ref": c.get("design_ref", "DESIGN.md section 3, " + pid)},
        "level_note": c["note"],
        "technique": c.get("technique", "Lean 4 theorems about an executable model + differential correspondence of the compiled model against the Python implementation"),
    })
m = {
    "version": 1,
    "setup_cmd": "./setup.sh",
    "hooks": {"guard": "BIP_UTILS_VERIF", "enable": "no hooks are needed: the harness imports /repo in-process and patches os.urandom from outside",
              "baseline_off_cmd": BASE, "source_commits": [], "add_only": True},
    "engines": [{"name": "lean-model", "path": "lean/", "serves_properties": [c["property_id"] for c in checks],
                 "kind_free_text": "Lean 4 proofs (lake build + #print axioms audit) + compiled model driver bipdrv + Python correspondence harness harness/"}],
    "checks": checks,
    "notes": "Exit codes: 0 held, 1 violation (VIOLATION line), 2 harness error/timeout. See DESIGN.md.",
    "not_applicable": na,
}
json.dump(m, open(os.path.join(V, "MANIFEST.json"), "w"), indent=1)
print("claimed", [c["property_id"] for c in checks])
