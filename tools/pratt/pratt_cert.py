import sys, json, time
from sympy import factorint, isprime, primitive_root
sys.setrecursionlimit(10000)
cert={}
HINT={2**252+27742317777372353535851937790883648493:{2:2,3:1,11:1,198211423230930754013084525763697:1,276602624281642239937218680557139826668747:1}}
# the two large cofactors of l-1 are the well-known factorisation (checked by multiplication in gen_pratt_lean.py and by the Lean kernel)
def go(p):
    if p in cert or p < 100: return
    t=time.time()
    f=HINT[p] if p in HINT else factorint(p-1)
    # find witness
    a=2
    while True:
        if pow(a,p-1,p)==1 and all(pow(a,(p-1)//q,p)!=1 for q in f): break
        a+=1
    cert[p]=(a,sorted(f.items()))
    print(p.bit_length(), 'bits', round(time.time()-t,1),'s', file=sys.stderr, flush=True)
    for q in f: go(q)
for name,p in [("secp_p",2**256-2**32-977),("secp_n",0xFFFFFFFFFFFFFFFFFFFFFFFFFFFFFFFEBAAEDCE6AF48A03BBFD25E8CD0364141),
  ("p256_p",0xFFFFFFFF00000001000000000000000000000000FFFFFFFFFFFFFFFFFFFFFFFF),("p256_n",0xFFFFFFFF00000000FFFFFFFFFFFFFFFFBCE6FAADA7179E84F3B9CAC2FC632551),
  ("ed_p",2**255-19),("ed_l",2**252+27742317777372353535851937790883648493)]:
    go(p); print(name,'done',file=sys.stderr,flush=True)
    json.dump({str(k):[v[0],[[str(q),e] for q,e in v[1]]] for k,v in cert.items()}, open(__import__('os').path.join(__import__('os').path.dirname(__import__('os').path.abspath(__file__)),'pratt.json'),'w'))
