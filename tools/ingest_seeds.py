#!/usr/bin/env python3
"""Confirm seeded changes delivered by sub-agents in their scratch worktrees and copy them into /verif/seeded.
usage: tools/ingest_seeds.py <round-dir> C06 [C07 ...]     (round-dir/<prop>/ is the agent's worktree, deliverables in _out/mNN)
For each change: the worktree must be clean; the patch is applied there, the whole suite must pass, the demo must fail;
after undoing it the demo must pass.  Only then the directory is copied to /verif/seeded/<prop>/<mNN> (meta.json gains "confirmed")."""
import json, os, shutil, subprocess, sys

ROOT = os.path.dirname(os.path.dirname(os.path.abspath(__file__)))
PY = "/venv/bin/python"

def sh(cmd, cwd=None, env=None, timeout=1800):
    return subprocess.run(cmd, shell=True, capture_output=True, text=True, cwd=cwd, env=env, timeout=timeout)

def main():
    rd = sys.argv[1]
    for prop in sys.argv[2:]:
        wt = os.path.join(rd, prop)
        out = os.path.join(wt, "_out")
        if not os.path.isdir(out):
            print(prop, "no _out"); continue
        for m in sorted(os.listdir(out)):
            md = os.path.join(out, m)
            pf = os.path.join(md, "patch.diff")
            if not os.path.exists(pf):
                continue
            env = dict(os.environ, PYTHONPATH=wt, PYTHONDONTWRITEBYTECODE="1")
            sh("git checkout -- . ", cwd=wt)
            st = sh("git status --porcelain --untracked-files=no", cwd=wt).stdout.strip()
            rec = {"clean_before": st == ""}
            r = sh("git apply --check %s" % pf, cwd=wt)
            if r.returncode != 0:
                print(prop, m, "patch does not apply:", r.stderr[:200]); continue
            touched = sh("git apply --numstat %s" % pf, cwd=wt).stdout
            rec["touches_tests"] = any(l.split("\t")[-1].startswith("tests/") for l in touched.splitlines())
            sh("git apply %s" % pf, cwd=wt)
            t = sh("%s -m pytest -q -p no:cacheprovider --timeout=900 -n 6 2>&1 | tail -3" % PY, cwd=wt, env=env)
            rec["tests_tail"] = t.stdout.strip().splitlines()[-1] if t.stdout.strip() else ""
            rec["tests_pass"] = " passed" in rec["tests_tail"] and "failed" not in rec["tests_tail"] and "error" not in rec["tests_tail"]
            d = subprocess.run([PY, os.path.join(md, "demo.py")], capture_output=True, text=True, env=env, cwd="/tmp", timeout=900)
            rec["demo_with"] = d.returncode
            sh("git checkout -- .", cwd=wt)
            d = subprocess.run([PY, os.path.join(md, "demo.py")], capture_output=True, text=True, env=env, cwd="/tmp", timeout=900)
            rec["demo_without"] = d.returncode
            ok = rec["tests_pass"] and rec["demo_with"] != 0 and rec["demo_without"] == 0 and not rec["touches_tests"]
            print(prop, m, "OK" if ok else "REJECT", rec)
            if ok:
                dst = os.path.join(ROOT, "seeded", prop, m)
                if os.path.exists(dst):
                    shutil.rmtree(dst)
                shutil.copytree(md, dst)
                meta = json.load(open(os.path.join(dst, "meta.json")))
                meta["confirmed"] = {"round": int(os.environ.get("SEED_ROUND", "7")), "suite": rec["tests_tail"], "demo_with_patch_exit": rec["demo_with"], "demo_without_exit": 0,
                                     "how": "tools/ingest_seeds.py in the agent's scratch worktree"}
                json.dump(meta, open(os.path.join(dst, "meta.json"), "w"), indent=1, ensure_ascii=False)

main()
