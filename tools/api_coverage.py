#!/usr/bin/env python3
"""Generator-quality instrument: which public functions/methods of bip_utils are never entered by any check?
usage: run the checks with VERIF_COVER=<file> (see harness/core.py), then tools/api_coverage.py <file>."""
import ast, os, sys

SRC = os.path.join(os.environ.get("VERIF_REPO", "/repo"), "bip_utils")
seen = set(l.strip() for l in open(sys.argv[1]))
allf = []
for dp, dn, fn in os.walk(SRC):
    for f in fn:
        if not f.endswith(".py"):
            continue
        rel = os.path.relpath(os.path.join(dp, f), SRC)
        tree = ast.parse(open(os.path.join(dp, f)).read())

        def walk(node, prefix):
            for ch in ast.iter_child_nodes(node):
                if isinstance(ch, ast.ClassDef):
                    walk(ch, prefix + ch.name + ".")
                elif isinstance(ch, (ast.FunctionDef, ast.AsyncFunctionDef)):
                    allf.append((rel, prefix + ch.name))
        walk(tree, "")
pub = [(r, q) for r, q in allf if not any(p.startswith("_") and not p.startswith("__init__") for p in q.split(".")) or q.endswith("__init__")]
pub = [(r, q) for r, q in pub if not q.split(".")[0].startswith("_")]
miss = [(r, q) for r, q in pub if "%s:%s" % (r, q) not in seen]
print("public functions/methods: %d, entered by some check: %d, never entered: %d" % (len(pub), len(pub) - len(miss), len(miss)))
for r, q in sorted(miss):
    print("  %s:%s" % (r, q))
