"""C15 order-independence catalogue: named pure observations of the public API.

Every entry is a thunk whose result (a canonical string, errors mapped to their class) must be a function of the entry alone:
the same whether it is the first call of a fresh interpreter or comes after any sequence of other entries, in any thread.
Run as a script: `python -m harness.c15_catalogue [--threads N] '<json list of names>'` executes the names in order in THIS
interpreter and prints the JSON list of results (with --threads the list is dealt round-robin to N threads running with a
minimal switch interval; results are reported in list order).
`python -m harness.c15_catalogue --reuse '<json spec>'` replays ONE history on ONE long-lived object (see `reuse_run`) and prints, per call,
the answer of the reused object next to the answer of a fresh object of the same construction."""
import hashlib, json, sys, threading


def _canon(v):
    if isinstance(v, bytes):
        return v.hex()
    if isinstance(v, (list, tuple)):
        return "[" + ",".join(_canon(x) for x in v) + "]"
    if isinstance(v, dict):
        return "{" + ",".join("%s:%s" % (k, _canon(v[k])) for k in sorted(v)) + "}"
    if isinstance(v, type):
        return v.__name__
    if isinstance(v, (str, int, bool)) or v is None:
        return str(v)
    if hasattr(v, "ToBytes"):
        return _canon(v.ToBytes())
    if hasattr(v, "name") and hasattr(v, "value"):
        return str(v.name)
    return "<" + type(v).__name__ + ">"



def _run(f):
    from harness.canon import exc_kind
    try:
        return "ok " + _canon(f())
    except Exception as ex:  # noqa
        return "err " + exc_kind(ex)


def _shared_words(a, b):
    """a valid 12-word sentence in list `a` (checksum computed for `a`) made only of words that also belong to list `b`"""
    import os
    import bip_utils
    d = os.path.join(os.path.dirname(bip_utils.__file__), "bip", "bip39", "wordlist")
    la = [w.strip() for w in open(os.path.join(d, a + ".txt"), encoding="utf-8") if w.strip()]
    lb = set(w.strip() for w in open(os.path.join(d, b + ".txt"), encoding="utf-8") if w.strip())
    common = [i for i, w in enumerate(la) if w in lb]
    if len(common) < 16:
        return None
    # deterministic search: 11 common words, then a 12th common word whose low 4 bits are the checksum
    k = 0
    while True:
        idx = [common[(k * 7 + j * 13) % len(common)] for j in range(11)]
        for last in common:
            bits = 0
            for i in idx + [last]:
                bits = (bits << 11) | i
            ent = (bits >> 4).to_bytes(16, "big")
            if hashlib.sha256(ent).digest()[0] >> 4 == bits & 15:
                return " ".join(la[i] for i in idx + [last])
        k += 1


# ---- reused objects -------------------------------------------------------------------------------------------------------------
# A decoder / validator / encoder object is a value: whatever it was asked before (other languages, failed calls, the same question),
# the next answer is the one a fresh object built the same way gives. A history is a JSON-able spec
#   {"cls": "<class exported by bip_utils>", "args": [<constructor arguments>], "calls": [[<method>, <argument>], ...]}
# arguments: null, "E:<Enum>.<MEMBER>" (an enumeration exported by bip_utils), "s:<text>", "b:<hex bytes>", "m:<text>" (a Mnemonic object
# made from the text for this call only).

def _reuse_arg(a):
    import bip_utils
    if a is None:
        return None
    kind, _, val = a.partition(":")
    if kind == "E":
        en, _, mem = val.partition(".")
        return getattr(bip_utils, en)[mem]
    if kind == "s":
        return val
    if kind == "b":
        return bytes.fromhex(val)
    if kind == "m":
        from bip_utils.utils.mnemonic import Mnemonic
        return Mnemonic.FromString(val)
    raise ValueError(a)


def reuse_make(spec):
    import bip_utils
    return getattr(bip_utils, spec["cls"])(*[_reuse_arg(a) for a in spec["args"]])


def reuse_call(obj, method, arg):
    return _run(lambda: getattr(obj, method)(_reuse_arg(arg)))


def reuse_run(spec):
    """-> [[answer of the reused object, answer of a fresh object], ...] one pair per call of the history"""
    shared = reuse_make(spec)
    return [[reuse_call(shared, m, a), reuse_call(reuse_make(spec), m, a)] for m, a in spec["calls"]]


_DYNAMIC = {}      # factories of parametrised entries, filled by build()


def resolve(C, name):
    """the thunk of a catalogue name: a fixed entry, or a parametrised one (`toggleseq.<family>.<coin>.<setter>.<pattern>`)"""
    if name in C:
        return C[name]
    kind, _, rest = name.partition(".")
    if kind == "toggleseq":
        fam, mem, setter, pattern = rest.split(".")
        if set(pattern) <= set("TF"):
            return lambda: _DYNAMIC[kind](fam, mem, setter, pattern)
    raise KeyError(name)


def build():
    from bip_utils import (Bip39MnemonicDecoder, Bip39MnemonicEncoder, Bip39Languages, Bip39MnemonicValidator, Bip39SeedGenerator,
                           MoneroMnemonicEncoder, MoneroMnemonicDecoder, MoneroLanguages, ElectrumV1MnemonicEncoder, ElectrumV1MnemonicDecoder,
                           ElectrumV2MnemonicDecoder, ElectrumV2MnemonicGenerator, ElectrumV2MnemonicTypes, ElectrumV2Languages,
                           AlgorandMnemonicEncoder, AlgorandMnemonicDecoder,
                           Bip44, Bip49, Bip84, Bip86, Cip1852, Bip44Coins, Bip49Coins, Bip84Coins, Bip86Coins, Cip1852Coins, Bip44Changes,
                           Bip44ConfGetter, Bip49ConfGetter, Bip84ConfGetter, Bip86ConfGetter, Cip1852ConfGetter,
                           CardanoShelley, CardanoByronLegacy, CardanoIcarusSeedGenerator, Bip32Slip10Secp256k1, Bip32Slip10Ed25519, Bip32KholawEd25519,
                           Substrate, SubstrateCoins, Monero, MoneroCoins, ElectrumV1, ElectrumV2Standard, ElectrumV2Segwit,
                           P2PKHAddrEncoder, P2PKHAddrDecoder, EthAddrEncoder, SolAddrEncoder, XmrAddrDecoder, WifEncoder, WifDecoder,
                           Base58Decoder, Bech32Decoder, SS58Decoder, Bip38Encrypter, Bip38Decrypter)
    C = {}
    seed = bytes(range(64))
    ent = bytes(range(16))
    # --- mnemonics: explicit-language work (loads word lists), automatic detection, failures
    for lang in Bip39Languages:
        C["bip39.enc." + lang.name] = lambda lang=lang: Bip39MnemonicEncoder(lang).Encode(ent).ToStr()
        C["bip39.dec.auto." + lang.name] = lambda lang=lang: Bip39MnemonicDecoder().Decode(Bip39MnemonicEncoder(lang).Encode(bytes(range(3, 19))).ToStr())
        C["bip39.valid." + lang.name] = lambda lang=lang: Bip39MnemonicValidator(lang).IsValid("abandon " * 11 + "about")
    for a, b in (("english", "french"), ("french", "english"), ("chinese_simplified", "chinese_traditional"), ("chinese_traditional", "chinese_simplified")):
        s = _shared_words(a, b)
        if s:
            C["bip39.dec.auto.shared.%s.%s" % (a, b)] = lambda s=s: Bip39MnemonicDecoder().Decode(s)
            C["bip39.valid.auto.shared.%s.%s" % (a, b)] = lambda s=s: Bip39MnemonicValidator().IsValid(s)
            C["bip39.seed.auto.shared.%s.%s" % (a, b)] = lambda s=s: Bip39SeedGenerator(s).Generate("x")
    C["bip39.dec.bad"] = lambda: Bip39MnemonicDecoder().Decode("abandon " * 12)
    C["bip39.dec.notaword"] = lambda: Bip39MnemonicDecoder(Bip39Languages.ENGLISH).Decode("zzz " * 12)
    for lang in (MoneroLanguages.ENGLISH, MoneroLanguages.ITALIAN, MoneroLanguages.JAPANESE, MoneroLanguages.RUSSIAN):
        C["monero.enc." + lang.name] = lambda lang=lang: MoneroMnemonicEncoder(lang).EncodeWithChecksum(bytes(range(32))).ToStr()
        C["monero.dec.auto." + lang.name] = lambda lang=lang: MoneroMnemonicDecoder().Decode(MoneroMnemonicEncoder(lang).EncodeWithChecksum(bytes(range(32))).ToStr())
    C["electrumv1.roundtrip"] = lambda: ElectrumV1MnemonicDecoder().Decode(ElectrumV1MnemonicEncoder().Encode(ent).ToStr())
    C["algorand.roundtrip"] = lambda: AlgorandMnemonicDecoder().Decode(AlgorandMnemonicEncoder().Encode(bytes(range(32))).ToStr())
    C["electrumv2.dec.bad"] = lambda: ElectrumV2MnemonicDecoder().Decode("abandon " * 12)
    # --- ONE long-lived auto-detecting decoder / validator per class for the life of the interpreter, asked about mnemonics of different
    #     languages and about a failing one: each answer is the one of a fresh object (first call of a fresh interpreter), after any history
    import bip_utils as _BU
    _shared = {}

    def shared_obj(cls_name):
        if cls_name not in _shared:
            _shared[cls_name] = getattr(_BU, cls_name)()
        return _shared[cls_name]

    def bad_last_word(sentence):
        ws = sentence.split(" ")
        return " ".join(ws[:-1] + [ws[0] if ws[0] != ws[-1] else ws[1]])
    for lang in (Bip39Languages.ENGLISH, Bip39Languages.ITALIAN, Bip39Languages.KOREAN):
        C["shared.bip39.dec." + lang.name] = lambda lang=lang: shared_obj("Bip39MnemonicDecoder").Decode(Bip39MnemonicEncoder(lang).Encode(bytes(range(5, 21))).ToStr())
    for lang in (Bip39Languages.FRENCH, Bip39Languages.CZECH):
        C["shared.bip39.valid." + lang.name] = lambda lang=lang: shared_obj("Bip39MnemonicValidator").IsValid(Bip39MnemonicEncoder(lang).Encode(bytes(range(7, 31))).ToStr())
    C["shared.bip39.dec.failing.SPANISH"] = lambda: shared_obj("Bip39MnemonicDecoder").Decode(bad_last_word(Bip39MnemonicEncoder(Bip39Languages.SPANISH).Encode(bytes(range(9, 25))).ToStr()))
    for lang in (MoneroLanguages.ENGLISH, MoneroLanguages.SPANISH):
        C["shared.monero.dec." + lang.name] = lambda lang=lang: shared_obj("MoneroMnemonicDecoder").Decode(MoneroMnemonicEncoder(lang).EncodeWithChecksum(bytes(range(2, 34))).ToStr())
    C["shared.monero.valid.GERMAN"] = lambda: shared_obj("MoneroMnemonicValidator").IsValid(MoneroMnemonicEncoder(MoneroLanguages.GERMAN).EncodeWithChecksum(bytes(range(4, 20))).ToStr())
    # --- hierarchies, one entry per coin family incl. the toggled ones; conf dumps; wrappers that copy a shared configuration
    fams = {"Bip44": (Bip44, Bip44Coins, Bip44ConfGetter), "Bip49": (Bip49, Bip49Coins, Bip49ConfGetter), "Bip84": (Bip84, Bip84Coins, Bip84ConfGetter),
            "Bip86": (Bip86, Bip86Coins, Bip86ConfGetter), "Cip1852": (Cip1852, Cip1852Coins, Cip1852ConfGetter)}
    picks = [("Bip44", "BITCOIN"), ("Bip44", "BITCOIN_CASH"), ("Bip44", "LITECOIN"), ("Bip44", "ETHEREUM"), ("Bip44", "SOLANA"), ("Bip44", "CARDANO_BYRON_ICARUS"),
             ("Bip44", "NEO"), ("Bip44", "MONERO_ED25519_SLIP"), ("Bip49", "BITCOIN_CASH"), ("Bip49", "LITECOIN"), ("Bip84", "LITECOIN"), ("Bip86", "BITCOIN"),
             ("Cip1852", "CARDANO_ICARUS"), ("Cip1852", "CARDANO_LEDGER"), ("Cip1852", "CARDANO_ICARUS_TESTNET")]

    def dump_conf(conf):
        out = {"addr_cls": conf.AddrClass(), "addr_params": conf.AddrParams(), "coin_idx": conf.CoinIndex(), "def_path": conf.DefaultPath(),
               "kv": [conf.KeyNetVersions().Public(), conf.KeyNetVersions().Private()], "wif": conf.WifNetVersion() or b""}
        return out

    def addr_of(cls, coin):
        b = cls.FromSeed(seed, coin).DeriveDefaultPath()
        return [b.PublicKey().RawCompressed().ToBytes(), b.PublicKey().ToExtended(), _run(lambda: b.PublicKey().ToAddress()), _run(lambda: b.PrivateKey().ToWif())]

    for fam, mem in picks:
        cls, en, getter = fams[fam]
        coin = en[mem]
        C["conf.%s.%s" % (fam, mem)] = lambda getter=getter, coin=coin: dump_conf(getter.GetConfig(coin))
        C["derive.%s.%s" % (fam, mem)] = lambda cls=cls, coin=coin: addr_of(cls, coin)
        C["wronglevel.%s.%s" % (fam, mem)] = lambda cls=cls, coin=coin: cls.FromSeed(seed, coin).Coin()
    for mem in ("CARDANO_ICARUS", "CARDANO_LEDGER", "CARDANO_ICARUS_TESTNET"):
        def shelley(mem=mem):
            acc = Cip1852.FromSeed(seed, Cip1852Coins[mem]).Purpose().Coin().Account(0)
            sh = CardanoShelley.FromCip1852Object(acc)
            a = sh.Change(Bip44Changes.CHAIN_EXT).AddressIndex(0)
            return [a.PublicKeys().ToAddress(), a.PublicKeys().ToStakingAddress(), sh.StakingObject().PublicKey().ToAddress()]
        C["shelley." + mem] = shelley
    C["byronlegacy"] = lambda: CardanoByronLegacy.FromSeed(seed[:32]).GetAddress(0, 1)

    def toggled(fam, mem, setter):
        cls, en, getter = fams[fam]
        conf = getter.GetConfig(en[mem])
        getattr(conf, setter)(True)
        try:
            return addr_of(cls, en[mem])
        finally:
            getattr(conf, setter)(False)
    def toggled_in_worker(fam, mem, setter):
        """the option is set by this thread and observed from a second thread started afterwards (and the other way round):
        a process-wide option is visible to every thread, so both equal the single-threaded observation"""
        cls, en, getter = fams[fam]
        conf = getter.GetConfig(en[mem])
        box = {}

        def observe(k):
            box[k] = _run(lambda: addr_of(cls, en[mem]))
        getattr(conf, setter)(True)
        try:
            t = threading.Thread(target=observe, args=("worker-sees-main",))
            t.start(); t.join()
        finally:
            getattr(conf, setter)(False)

        def set_observe_restore():
            getattr(conf, setter)(True)
        t = threading.Thread(target=set_observe_restore)
        t.start(); t.join()
        try:
            observe("main-sees-worker")
        finally:
            getattr(conf, setter)(False)
        observe("restored")
        return box
    C["threadtoggle.bch.legacy"] = lambda: toggled_in_worker("Bip44", "BITCOIN_CASH", "UseLegacyAddress")
    C["threadtoggle.bch49.legacy"] = lambda: toggled_in_worker("Bip49", "BITCOIN_CASH", "UseLegacyAddress")
    C["threadtoggle.ltc.depr"] = lambda: toggled_in_worker("Bip44", "LITECOIN", "UseDeprecatedAddress")
    C["toggle.bch.legacy"] = lambda: toggled("Bip44", "BITCOIN_CASH", "UseLegacyAddress")
    C["toggle.bch49.legacy"] = lambda: toggled("Bip49", "BITCOIN_CASH", "UseLegacyAddress")
    C["toggle.ltc.depr"] = lambda: toggled("Bip44", "LITECOIN", "UseDeprecatedAddress")
    C["toggle.ltc.altkeynet"] = lambda: toggled("Bip44", "LITECOIN", "UseAlternateKeyNetVersions")
    def toggleseq(fam, mem, setter, pattern):
        """PARAMETRISED entry `toggleseq.<family>.<coin>.<setter>.<pattern>`: the boolean option `setter` of the coin's shared configuration is
        called once per letter of `pattern` (T = True, F = False, possibly none), then the coin is observed (keys, extended keys of both kinds,
        address, WIF), then the option is put back to False. An option is a switch: the observation is a function of the LAST value given."""
        cls, en, getter = fams[fam]
        conf = getter.GetConfig(en[mem])
        try:
            for ch in pattern:
                getattr(conf, setter)(ch == "T")
            mst = cls.FromSeed(seed, en[mem])
            return addr_of(cls, en[mem]) + [mst.PrivateKey().ToExtended(), mst.PublicKey().ToExtended()]
        finally:
            getattr(conf, setter)(False)
    _DYNAMIC["toggleseq"] = toggleseq
    # --- plain BIP-32, conversion to public-only after use, other wallets
    def convert_after_use():
        b = Bip32Slip10Secp256k1.FromSeed(seed)
        c1 = b.ChildKey(5)
        b.ConvertToPublic()
        c2 = b.ChildKey(5)
        return [c1.PublicKey().RawCompressed().ToBytes(), c2.IsPublicOnly(), c2.PublicKey().RawCompressed().ToBytes(), _run(lambda: b.ChildKey(2**31))]
    C["bip32.convert_after_use"] = convert_after_use
    C["bip32.path"] = lambda: Bip32Slip10Secp256k1.FromSeedAndPath(seed, "m/0'/1/2'").PrivateKey().ToExtended()
    C["bip32.ed25519"] = lambda: Bip32Slip10Ed25519.FromSeedAndPath(seed, "m/0'/1'").PublicKey().RawCompressed().ToBytes()
    C["bip32.ed25519.soft"] = lambda: Bip32Slip10Ed25519.FromSeed(seed).ChildKey(1)
    C["substrate.polkadot"] = lambda: Substrate.FromSeedAndPath(seed[:32], "//hard/soft", SubstrateCoins.POLKADOT).PublicKey().ToAddress()
    def substrate_siblings():
        par = Substrate.FromSeed(seed[:32], SubstrateCoins.KUSAMA).ChildKey("//base")
        a, b = par.ChildKey("/one"), par.ChildKey("//two")
        a2 = par.ChildKey("/one")
        return [par.Path().ToStr(), a.Path().ToStr(), b.Path().ToStr(), a2.Path().ToStr(), a.PublicKey().ToAddress(), a2.PublicKey().ToAddress(), b.PublicKey().ToAddress()]
    C["substrate.siblings"] = substrate_siblings

    def bip32_siblings():
        par = Bip32Slip10Secp256k1.FromSeed(seed).ChildKey(1)
        kids = [par.ChildKey(i) for i in (0, 2**31, 0, 7)]
        return [par.PublicKey().RawCompressed().ToBytes(), int(par.Depth()), int(par.Index())] + [k.PublicKey().RawCompressed().ToBytes() for k in kids] + [int(k.Index()) for k in kids]
    C["bip32.siblings"] = bip32_siblings

    def ev1_pairs():
        w = ElectrumV1.FromSeed(seed[:32])
        pairs = [(0, 5), (1, 5), (0, 5), (1, 0), (0, 0), (1, 5)]
        return [w.GetAddress(c, i) for c, i in pairs] + [w.GetPrivateKey(c, i).Raw().ToBytes() for c, i in pairs[:3]]
    C["electrum.v1.pairs"] = ev1_pairs

    def ev2_pairs():
        w = ElectrumV2Standard.FromSeed(seed)
        pairs = [(0, 5), (1, 5), (0, 5), (1, 0)]
        return [w.GetAddress(c, i) for c, i in pairs]
    C["electrum.v2.pairs"] = ev2_pairs
    C["monero.wallet"] = lambda: [Monero.FromSeed(seed[:32], MoneroCoins.MONERO_MAINNET).PrimaryAddress(), Monero.FromSeed(seed[:32]).Subaddress(1, 2)]
    C["electrum.v1"] = lambda: ElectrumV1.FromSeed(seed[:32]).GetAddress(0, 3)
    C["electrum.v2"] = lambda: [ElectrumV2Standard.FromSeed(seed).GetAddress(0, 1), ElectrumV2Segwit.FromSeed(seed).GetAddress(1, 0)]
    # --- codecs and address classes called with keyword dictionaries
    pub = Bip32Slip10Secp256k1.FromSeed(seed).PublicKey().RawCompressed().ToBytes()
    C["addr.p2pkh"] = lambda: [P2PKHAddrEncoder.EncodeKey(pub, net_ver=b"\x00"), P2PKHAddrDecoder.DecodeAddr(P2PKHAddrEncoder.EncodeKey(pub, net_ver=b"\x00"), net_ver=b"\x00")]
    C["addr.eth"] = lambda: EthAddrEncoder.EncodeKey(pub)
    C["addr.p2pkh.badver"] = lambda: P2PKHAddrDecoder.DecodeAddr(P2PKHAddrEncoder.EncodeKey(pub, net_ver=b"\x00"), net_ver=b"\x05")
    C["wif"] = lambda: [WifEncoder.Encode(bytes(31) + b"\x01"), WifDecoder.Decode(WifEncoder.Encode(bytes(31) + b"\x01"))[0]]
    C["b58.bad"] = lambda: Base58Decoder.CheckDecode("1111111")
    C["bech32.bad"] = lambda: Bech32Decoder.Decode("bc", "bc1qqqq")
    C["ss58.bad"] = lambda: SS58Decoder.Decode("111")
    return C


def main():
    args = sys.argv[1:]
    nth = 0
    if args[0] == "--threads":
        nth = int(args[1]); args = args[2:]
    if args[0] == "--reuse":
        spec = json.loads(args[1])
        res = reuse_run(spec)
        for (m, a), (got, want) in zip(spec["calls"], res):
            print("%s.%s(%s)\n    reused object: %s\n    fresh object : %s%s" % (spec["cls"], m, a, got, want, "" if got == want else "      <-- DIFFERS"))
        print(json.dumps(res))
        sys.exit(1 if any(g != w for g, w in res) else 0)
    if args[0] == "--list":
        print(json.dumps(sorted(build())))
        return
    names = json.loads(args[0])
    C = build()
    out = [None] * len(names)
    if nth:
        sys.setswitchinterval(1e-6)

        def worker(i):
            for j in range(i, len(names), nth):
                out[j] = _run(resolve(C, names[j]))
        ths = [threading.Thread(target=worker, args=(i,)) for i in range(nth)]
        for t in ths:
            t.start()
        for t in ths:
            t.join()
    else:
        for j, n in enumerate(names):
            out[j] = _run(resolve(C, n))
    print(json.dumps(out))


if __name__ == "__main__":
    main()
