"""C07 — BIP-44/49/84/86/CIP-1852 level discipline holds for every call sequence."""
import itertools
from harness.core import Case, HarnessError
from harness.canon import hx
from harness.props.bip44_common import IMPL, FAM
from harness.props.bip32_common import rand_seed, IDX_EDGE

LEAN_MODULES = ["BipVerif.Props.C07", "BipVerif.Props.C07Tables"]
PATH = ["P", "C", "A0", "X0", "I0"]


def pre_build():
    from gen import gen_consts, gen_unicode, gen_coins
    gen_unicode.main()
    gen_consts.main()
    gen_coins.main()


def members():
    out = []
    for fam, (cls, en, getter) in FAM.items():
        for m in en:
            out.append((fam, m.name))
    return out


def edge_ops():
    return ["P", "C", "A0", "A5", "A2147483647", "A2147483648", "A4294967295", "A4294967296", "X0", "X1", "X2", "I0", "I7", "I2147483648",
            "I4294967296", "D", "N", "RX", "RR0", "RR3", "RR5", "RR6", "RR255"]


def gen(rng, tier):
    mem = members()
    ops = edge_ops()
    seed = rand_seed(rng)
    # every (depth, pubOnly) state x every op, for every coin enum member (exhaustive at the abstract level)
    prefixes = [[], ["P"], ["P", "C"], ["P", "C", "A0"], ["P", "C", "A0", "X1"], ["P", "C", "A0", "X0", "I3"],
                ["P", "C", "A0", "N"], ["P", "C", "A0", "X0", "N"], ["P", "C", "A0", "X0", "I1", "N"], ["N"], ["P", "N"]]
    for fam, m in mem:
        use = prefixes if tier == "thorough" else rng.sample(prefixes, 2)
        for pre in use:
            for op in (ops if tier == "thorough" else rng.sample(ops, 4)):
                yield Case("bip44", [fam, m, "-", hx(seed), ",".join(pre + [op])], "edge")
        yield Case("bip44", [fam, m, "-", hx(seed), "D"], "default-path")
    # the object returned by DeriveDefaultPath is an ordinary object of its depth (3, 4 or 5 according to the coin's default path): every
    # operation applied to it is admitted or refused exactly as on the manually derived object. One member per (family, default-path
    # length) x every operation, then random (member, operation) pairs; thorough: every member x every operation
    after_default = ["P", "C", "A0", "A2147483648", "X0", "X1", "I0", "I5", "D", "N", "RX", "RR3"]
    groups = {}
    for fam, m in mem:
        cls, en, getter = FAM[fam]
        groups.setdefault((fam, getter.GetConfig(en[m]).DefaultPath().count("/")), []).append((fam, m))
    if tier == "thorough":
        pairs = [(fm, op) for fm in mem for op in after_default]
    else:
        pairs = [(rng.choice(groups[g]), op) for g in sorted(groups) for op in after_default]
        pairs += [(mem[rng.randrange(len(mem))], rng.choice(after_default)) for _ in range(30)]
    for (fam, m), op in pairs:
        yield Case("bip44", [fam, m, "-", hx(seed), "D," + op], "after-default-path")
        if op in ("N", "RX", "RR3"):      # ... and so is the object obtained from it by conversion / re-import
            yield Case("bip44", [fam, m, "-", hx(seed), "D,%s,%s" % (op, rng.choice(after_default[:9]))], "after-default-path")
    # re-import with arbitrary depth metadata (raw key + depth, parent fingerprint left at its all-zero default), then every operation:
    # the level is the depth, whatever the fingerprint or the history says
    fams = sorted({f for f, _ in mem})
    picks = [rng.choice([x for x in mem if x[0] == f]) for f in fams] + [mem[rng.randrange(len(mem))] for _ in range(2 if tier == "quick" else 40)]
    for fam, m in picks:
        for pre in ([], ["P", "C", "A0"], ["P", "C", "A0", "N"]):       # re-import of a private master, a private account, a public-only account
            for d in range(0, 7):
                full = ["P", "C", "A0", "X0", "I0", "D"] if tier == "quick" else ["P", "C", "A0", "X0", "X1", "I0", "D", "N", "RX"]
                for op in (full if not pre or tier == "thorough" else ["P", "X0", "D"]):
                    yield Case("bip44", [fam, m, "-", hx(seed), ",".join(pre + ["RR%d" % d, op])], "reimport-depth")
    # random histories
    for i in range(120 if tier == "quick" else 6000):
        fam, m = mem[rng.randrange(len(mem))]
        n = rng.randrange(1, 13)
        seq = []
        depth = 0
        for _ in range(n):
            first_default = i % 8 == 7 and not seq     # one history in eight starts from the default-path object
            if not first_default and rng.random() < 0.7 and depth < 5:       # mostly the legal next step
                op = [PATH[0], PATH[1], "A%d" % rng.choice(IDX_EDGE[:4] + [rng.getrandbits(31)]), "X%d" % rng.randrange(2),
                      "I%d" % rng.choice(IDX_EDGE[:4] + [rng.getrandbits(31)])][depth]
                depth += 1
            else:
                op = "D" if first_default else rng.choice(ops)
                if op == "D" and depth == 0:       # the history continues from the depth of the coin's default path
                    depth = 3 + FAM[fam][2].GetConfig(FAM[fam][1][m]).DefaultPath().count("/")
            seq.append(op)
        yield Case("bip44", [fam, m, "-", hx(rand_seed(rng)), ",".join(seq)], "history")


class _Tree:
    """a history over SEVERAL live objects of one wallet: every hierarchy operation may be applied to any object obtained so far (not only
    to the latest one), any number of times, and the in-place conversion to public-only to any of them. Each object carries its *lineage*:
    the linear operation sequence that produced it (the operations of its ancestors as they stood when the next link was derived, then
    its own conversion) — the 'successful sequence' of the statement, whose result must be the plain derivation the model computes."""

    def __init__(self, fam, mem, seed, eager=True):
        self.fam, self.mem, self.seed = fam, mem, seed
        self.eager = eager          # look at every object as soon as it is returned / converted (otherwise only at the end of the history)
        self.cls, en, _ = FAM[fam]
        self.coin = en[mem]
        self.objs, self.lin, self.story, self.checks, self.derived = [], [], [], [], []
        self.objs.append(self.cls.FromSeed(seed, self.coin))
        self.lin.append([])

    def observe(self, i, when):
        """what object #i shows now next to what its lineage demands (compared with the model reply for the lineage afterwards)"""
        from harness.props.bip44_common import b44_out, level_defect
        from harness.canon import exc_kind
        try:
            bad = level_defect(self.objs[i])
            got = ("err LevelIsNotDepth " + bad) if bad else "ok " + b44_out(self.objs[i])
        except Exception as ex:  # noqa
            got = "err %s while reading the keys of the object" % exc_kind(ex)
        self.checks.append((tuple(self.lin[i]), got, "object #%d %s" % (i, when), len(self.story)))

    def apply(self, i, op):
        """apply `op` to object #i; returns the number of the resulting object (i itself for the in-place conversion), None when refused"""
        from harness.props.bip44_common import apply_op
        from harness.canon import exc_kind
        try:
            o = apply_op(self.cls, self.coin, self.objs[i], op)
        except Exception as ex:  # noqa   the same refusal is demanded of the linear sequence
            self.story.append("%s on #%d refused" % (op, i))
            self.checks.append((tuple(self.lin[i] + [op]), "err " + exc_kind(ex), "operation %s on object #%d" % (op, i), len(self.story)))
            return None
        if op == "N":
            self.lin[i] = self.lin[i] + ["N"]
            self.story.append("N on #%d" % i)
            if self.eager:
                self.observe(i, "right after its conversion")
            return i
        self.objs.append(o)
        self.lin.append(self.lin[i] + [op])
        j = len(self.objs) - 1
        self.story.append("#%d = %s on #%d" % (j, op, i))
        self.derived.append((i, op))
        if self.eager:
            self.observe(j, "when it was returned")
        return j

    def depth(self, i):
        return int(self.objs[i].Bip32Object().Depth())

    def finish(self):
        for i in range(len(self.objs)):
            self.observe(i, "at the end of the history")


def _next_op(rng, depth):
    return [PATH[0], PATH[1], "A%d" % rng.choice(IDX_EDGE[:3] + [rng.getrandbits(31)]), "X%d" % rng.randrange(2),
            "I%d" % rng.choice(IDX_EDGE[:3] + [rng.getrandbits(31)])][depth]


def _directed_trees(rng, fam, mem, seed, eager):
    """for every level: the same operation with the same argument twice on ONE parent object, with something done in between to the first
    result (converted in place, derived from) or to the parent (converted in place); then a further step from every result"""
    for k in range(5):
        for pattern in ("child-converted", "parent-converted", "child-used", "default-path"):
            if pattern == "default-path" and k not in (0, 3):
                continue
            t = _Tree(fam, mem, seed, eager)
            p = 0
            for d in range(k):
                p = t.apply(p, _next_op(rng, d))
            if p is None:
                continue
            if pattern == "default-path":
                c1 = t.apply(0, "D")
                if c1 is not None:
                    t.apply(c1, "N")
                c2 = t.apply(0, "D")
                if k == 3:             # ... and the account object converted between two walks below it
                    x1 = t.apply(p, "X0")
                    t.apply(p, "N")
                    x2 = t.apply(p, "X0")
                    for x in (x1, x2):
                        if x is not None:
                            t.apply(x, "I0")
                t.finish()
                yield t
                continue
            op = _next_op(rng, k)
            c1 = t.apply(p, op)
            if pattern == "child-converted" and c1 is not None:
                t.apply(c1, "N")
            elif pattern == "parent-converted":
                t.apply(p, "N")
            elif c1 is not None and k < 4:
                t.apply(c1, _next_op(rng, k + 1))
            c2 = t.apply(p, op)
            for c in (c1, c2):
                if c is not None and k < 4:
                    g = t.apply(c, _next_op(rng, k + 1))
                    if g is not None and pattern != "child-used":
                        t.apply(g, "N")
            t.finish()
            yield t


def _random_tree(rng, fam, mem, seed, steps, ops):
    t = _Tree(fam, mem, seed, rng.random() < 0.5)
    for _ in range(steps):
        r = rng.random()
        if t.derived and r < 0.35:                 # an earlier call again: same object, same argument
            i, op = rng.choice(t.derived)
        else:
            i = rng.randrange(len(t.objs)) if rng.random() < 0.5 else len(t.objs) - 1
            d = t.depth(i)
            if r < 0.75 and d < 5:
                op = _next_op(rng, d)
            elif r < 0.9:
                op = "N"
            else:
                op = rng.choice(ops)
        t.apply(i, op)
    t.finish()
    return t


def relations(rng, tier, rpt):
    """'after ANY successful sequence … its keys equal plain derivation … public-only objects exist only from account level down' with the
    sequence read per OBJECT: hierarchy operations applied to any live object of a wallet, repeatedly and with in-place conversions to
    public-only in between (see _Tree). Every object, when returned and again at the end, must show exactly what the compiled Lean model
    returns for the object's own linear lineage — its state is a function of the calls that produced it, not of what else was done to its
    parent, its siblings or an earlier result of the same call."""
    from harness.core import run_driver
    bad = []
    mem = members()
    by_curve = {}
    for fam, m in mem:
        cls, en, getter = FAM[fam]
        by_curve.setdefault((fam == "Cip1852", getter.GetConfig(en[m]).Bip32Class().__name__), []).append((fam, m))
    trees = []
    groups = sorted(by_curve)
    directed = [rng.choice(by_curve[g]) for g in (groups if tier == "thorough" else rng.sample(groups, min(2, len(groups))))]
    directed.append(rng.choice([x for x in mem if x[0] != "Cip1852" and FAM[x[0]][2].GetConfig(FAM[x[0]][1][x[1]]).Bip32Class().__name__.endswith("Secp256k1")]))
    for fam, m in directed:
        sd, st = rand_seed(rng), rng.getstate()
        trees += list(_directed_trees(rng, fam, m, sd, True))
        rng.setstate(st)           # the same histories once more, every object looked at only at the end
        trees += list(_directed_trees(rng, fam, m, sd, False))
    ops = edge_ops()
    for _ in range(20 if tier == "quick" else 400):
        fam, m = mem[rng.randrange(len(mem))]
        trees.append(_random_tree(rng, fam, m, rand_seed(rng), rng.randrange(4, 14), ops))
    lines = {}
    for t in trees:
        for lin, got, what, upto in t.checks:
            lines.setdefault("bip44 %s %s - %s %s" % (t.fam, t.mem, hx(t.seed), ",".join(lin) or "-"), None)
    order = sorted(lines)
    for l, m in zip(order, run_driver(order)):
        lines[l] = m
    n = 0
    for t in trees:
        for lin, got, what, upto in t.checks:
            n += 1
            line = "bip44 %s %s - %s %s" % (t.fam, t.mem, hx(t.seed), ",".join(lin) or "-")
            want = lines[line]
            if want.startswith("bad-"):
                raise HarnessError("driver rejected request %r: %s" % (line, want))
            if got != want and not want.startswith("err OracleMiss"):
                bad.append({"property": "C07", "entry_point": "%s.%s: operations on several live objects of one wallet" % (t.fam, t.mem), "request_lines": [line],
                            "relation": "an object does not show the plain derivation of the operation sequence that produced it (%s); the request line is "
                                        "that sequence applied to a fresh object, for which model and implementation agree" % what,
                            "input": "%s.FromSeed(%s, %s) = #0; %s" % (t.fam, t.seed.hex(), t.mem, "; ".join(t.story[:upto])),
                            "impl_output": got, "model_output": want, "no_failing_input": False})
                break
    rpt.extra["object_tree_history_checks"] = n
    rpt.extra["object_tree_histories"] = len(trees)
    return bad[:6]


def search_broken(broken, rng):
    """the coin-type/default-path table theorem failed: exhibit a seed whose default-path key differs from plain derivation along
    m/purpose'/registered coin type'/registered default path."""
    from harness.props.c08 import search_broken as sb8
    return sb8(broken, rng, fields=("coinIdx", "defPath", "bip32"))
