"""C07 — BIP-44/49/84/86/CIP-1852 level discipline holds for every call sequence."""
import itertools
from harness.core import Case
from harness.canon import hx
from harness.props.bip44_common import IMPL, FAM
from harness.props.bip32_common import rand_seed, IDX_EDGE

LEAN_MODULES = ["BipVerif.Props.C07", "BipVerif.Props.C07Tables"]
PATH = ["P", "C", "A0", "X0", "I0"]


def pre_build():
    from gen import gen_consts, gen_unicode, gen_coins
    gen_unicode.main()
    gen_consts.main()
    gen_coins.main()


def members():
    out = []
    for fam, (cls, en, getter) in FAM.items():
        for m in en:
            out.append((fam, m.name))
    return out


def edge_ops():
    return ["P", "C", "A0", "A5", "A2147483647", "A2147483648", "A4294967295", "A4294967296", "X0", "X1", "X2", "I0", "I7", "I2147483648",
            "I4294967296", "D", "N", "RX", "RR0", "RR3", "RR5", "RR6", "RR255"]


def gen(rng, tier):
    mem = members()
    ops = edge_ops()
    seed = rand_seed(rng)
    # every (depth, pubOnly) state x every op, for every coin enum member (exhaustive at the abstract level)
    prefixes = [[], ["P"], ["P", "C"], ["P", "C", "A0"], ["P", "C", "A0", "X1"], ["P", "C", "A0", "X0", "I3"],
                ["P", "C", "A0", "N"], ["P", "C", "A0", "X0", "N"], ["P", "C", "A0", "X0", "I1", "N"], ["N"], ["P", "N"]]
    for fam, m in mem:
        use = prefixes if tier == "thorough" else rng.sample(prefixes, 2)
        for pre in use:
            for op in (ops if tier == "thorough" else rng.sample(ops, 4)):
                yield Case("bip44", [fam, m, "-", hx(seed), ",".join(pre + [op])], "edge")
        yield Case("bip44", [fam, m, "-", hx(seed), "D"], "default-path")
    # the object returned by DeriveDefaultPath is an ordinary object of its depth (3, 4 or 5 according to the coin's default path): every
    # operation applied to it is admitted or refused exactly as on the manually derived object. One member per (family, default-path
    # length) x every operation, then random (member, operation) pairs; thorough: every member x every operation
    after_default = ["P", "C", "A0", "A2147483648", "X0", "X1", "I0", "I5", "D", "N", "RX", "RR3"]
    groups = {}
    for fam, m in mem:
        cls, en, getter = FAM[fam]
        groups.setdefault((fam, getter.GetConfig(en[m]).DefaultPath().count("/")), []).append((fam, m))
    if tier == "thorough":
        pairs = [(fm, op) for fm in mem for op in after_default]
    else:
        pairs = [(rng.choice(groups[g]), op) for g in sorted(groups) for op in after_default]
        pairs += [(mem[rng.randrange(len(mem))], rng.choice(after_default)) for _ in range(30)]
    for (fam, m), op in pairs:
        yield Case("bip44", [fam, m, "-", hx(seed), "D," + op], "after-default-path")
        if op in ("N", "RX", "RR3"):      # ... and so is the object obtained from it by conversion / re-import
            yield Case("bip44", [fam, m, "-", hx(seed), "D,%s,%s" % (op, rng.choice(after_default[:9]))], "after-default-path")
    # re-import with arbitrary depth metadata (raw key + depth, parent fingerprint left at its all-zero default), then every operation:
    # the level is the depth, whatever the fingerprint or the history says
    fams = sorted({f for f, _ in mem})
    picks = [rng.choice([x for x in mem if x[0] == f]) for f in fams] + [mem[rng.randrange(len(mem))] for _ in range(2 if tier == "quick" else 40)]
    for fam, m in picks:
        for pre in ([], ["P", "C", "A0"], ["P", "C", "A0", "N"]):       # re-import of a private master, a private account, a public-only account
            for d in range(0, 7):
                full = ["P", "C", "A0", "X0", "I0", "D"] if tier == "quick" else ["P", "C", "A0", "X0", "X1", "I0", "D", "N", "RX"]
                for op in (full if not pre or tier == "thorough" else ["P", "X0", "D"]):
                    yield Case("bip44", [fam, m, "-", hx(seed), ",".join(pre + ["RR%d" % d, op])], "reimport-depth")
    # random histories
    for i in range(120 if tier == "quick" else 6000):
        fam, m = mem[rng.randrange(len(mem))]
        n = rng.randrange(1, 13)
        seq = []
        depth = 0
        for _ in range(n):
            first_default = i % 8 == 7 and not seq     # one history in eight starts from the default-path object
            if not first_default and rng.random() < 0.7 and depth < 5:       # mostly the legal next step
                op = [PATH[0], PATH[1], "A%d" % rng.choice(IDX_EDGE[:4] + [rng.getrandbits(31)]), "X%d" % rng.randrange(2),
                      "I%d" % rng.choice(IDX_EDGE[:4] + [rng.getrandbits(31)])][depth]
                depth += 1
            else:
                op = "D" if first_default else rng.choice(ops)
                if op == "D" and depth == 0:       # the history continues from the depth of the coin's default path
                    depth = 3 + FAM[fam][2].GetConfig(FAM[fam][1][m]).DefaultPath().count("/")
            seq.append(op)
        yield Case("bip44", [fam, m, "-", hx(rand_seed(rng)), ",".join(seq)], "history")


def search_broken(broken, rng):
    """the coin-type/default-path table theorem failed: exhibit a seed whose default-path key differs from plain derivation along
    m/purpose'/registered coin type'/registered default path."""
    from harness.props.c08 import search_broken as sb8
    return sb8(broken, rng, fields=("coinIdx", "defPath", "bip32"))
