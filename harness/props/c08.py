"""C08 — every configured coin works end-to-end and keeps its network constants."""
import json, os
from harness.core import Case, VERIF
from harness.canon import hx, tx, unhx, untx
from harness.props.bip44_common import IMPL as B44_IMPL, FAM, Toggle
from harness.props.bip32_common import rand_seed
from harness.props.c07 import pre_build as _pre, members

LEAN_MODULES = ["BipVerif.Props.C08"]
IMPL = dict(B44_IMPL)
from harness.props.c19 import IMPL as _C19_IMPL, ORACLES  # noqa  (sr25519 answers come from the bindings, called directly)
from harness.props.c16 import IMPL as _C16_IMPL
IMPL["substrate"] = _C19_IMPL["substrate"]
IMPL["xmrwallet"] = _C16_IMPL["xmrwallet"]


def pre_build():
    _pre()


def variants():
    from gen.gen_coins import rows
    return [(r["family"], r["member"], r["variant"] or "-") for r in rows()]


def gen(rng, tier):
    seeds = [rand_seed(rng) for _ in range(2 if tier == "quick" else 25)]
    for fam, m, var in variants():
        for s in seeds:
            yield Case("bip44", [fam, m, var, hx(s), "D"], "default-" + fam)
            yield Case("bip44", [fam, m, var, hx(s), "P,C,A0"], "account-" + fam)
    # the Substrate and Monero enumerations: every member x seeds (x every constructor for Monero), wallet keys and addresses
    from bip_utils import SubstrateCoins, MoneroCoins
    seeds32 = [bytes(rng.randrange(256) for _ in range(32)) for _ in range(2)]
    for coin in SubstrateCoins:
        for s in seeds32:
            for path in ("", "//hard/soft", "/1"):
                yield Case("substrate", ["seed", hx(s[:32]), coin.name, tx(path), 99], "substrate-" + ("master" if not path else "path"))
    for coin in MoneroCoins:
        for s in seeds32:
            pid = bytes(rng.randrange(256) for _ in range(8))
            for kind in ("seed", "bip44", "spend"):
                key = s[:32] if kind != "spend" else (int.from_bytes(s[:32], "little") % (2**252 + 27742317777372353535851937790883648493)).to_bytes(32, "little")
                yield Case("xmrwallet", [kind, hx(key), "-", coin.name, 1, 2, hx(pid)], "monero-" + kind)
    # output-dependent: Taproot output keys with a leading zero byte (fixed 32-byte witness program)
    for m in ("BITCOIN", "BITCOIN_TESTNET") if tier == "quick" else ("BITCOIN", "BITCOIN_TESTNET", "BITCOIN_REGTEST"):
        for s in _taproot_leading_zero_seeds(rng, m, 1 if tier == "quick" else 6):
            yield Case("bip44", ["Bip86", m, "-", hx(s), "D"], "taproot-leading-zero")
    yield from _ledger_cases(rng, tier)


def _ledger_cases(rng, tier):
    """output-dependent: seeds whose Ledger-style Cardano master key takes many links of the HMAC chain (every seed has a master key)"""
    from harness.canon import kholaw_long_round_seeds
    for t, s in kholaw_long_round_seeds(rng, (6, 9, 11) if tier == "quick" else (6, 9, 10, 11, 12, 13, 14), 12000 if tier == "quick" else 120000):
        for fam, m in (("Bip44", "CARDANO_BYRON_LEDGER"), ("Cip1852", "CARDANO_LEDGER"), ("Cip1852", "CARDANO_LEDGER_TESTNET")):
            yield Case("bip44", [fam, m, "-", hx(s), "D"], "ledger-master-links-%d" % t)


def _taproot_leading_zero_seeds(rng, coin_member, want):
    """seeds whose BIP-86 default-path output key Q = lift_x(P) + H_TapTweak(P.x)·G starts with a zero byte; Q is computed with
    hashlib and coincurve directly (not through the address classes under test)"""
    import hashlib
    from coincurve import PublicKey
    from bip_utils import Bip86, Bip86Coins
    tag = hashlib.sha256(b"TapTweak").digest()
    out = []
    for _ in range(4000):
        seed = rand_seed(rng)
        x = Bip86.FromSeed(seed, Bip86Coins[coin_member]).DeriveDefaultPath().PublicKey().RawCompressed().ToBytes()[1:]
        t = hashlib.sha256(tag + tag + x).digest()
        q = PublicKey(b"\x02" + x).add(t).format(compressed=True)[1:]
        if q[0] == 0:
            out.append(seed)
            if len(out) == want:
                break
    return out


def relations(rng, tier, rpt):
    """on the implementation: the coin's own decoder accepts the produced address and returns the payload determined by the
    public key; extended keys and WIF round-trip; aliases denote the same configuration object."""
    from harness.props.addr_common import fmt_table, conv_kw
    from gen.gen_coins import rows, ADDR_FMT
    from bip_utils import WifDecoder, Bip32KeyNetVersions
    bad = []
    n = 0
    T = fmt_table()

    def rep(what, inp, got, want):
        bad.append({"property": "C08", "entry_point": what, "request_lines": [], "relation": what, "input": inp,
                    "impl_output": got, "model_output": want, "no_failing_input": False})

    seed = rand_seed(rng)
    seed32 = (seed * 2)[:32]      # Substrate and Monero take exactly/at least 32 bytes; BIP-32 seeds may be as short as 16
    for r in rows():
        cls, en, getter = FAM[r["family"]]
        coin = en[r["member"]]
        conf = getter.GetConfig(coin)
        with Toggle(conf, r["variant"]):
            b = cls.FromSeed(seed, coin).DeriveDefaultPath()
            n += 1
            from harness.props.accessors_common import bip44_key_wrappers
            for what, inp, got, want in bip44_key_wrappers(b, "%s.%s" % (r["family"], r["member"])):
                rep(what, inp, got, want)
            fmt = r["addrFmt"]
            if fmt in T and fmt not in ("xmr", "xmrint"):
                addr = b.PublicKey().ToAddress()
                _, enc, dec, _ = T[fmt]
                kw = {k: v for k, v in conf.AddrParams().items() if k not in ("pub_key_mode", "trim_zeroes")}
                try:
                    payload = dec.DecodeAddr(addr, **kw)
                    again = enc.EncodeKey(b.PublicKey().Bip32Key().KeyObject(), **conf.AddrParams())
                    if again != addr:
                        rep("address is not a function of the public key and the coin parameters", "%s.%s" % (r["family"], r["member"]), again, addr)
                except Exception as ex:  # noqa
                    rep("the coin's own decoder rejects the coin's address", "%s.%s %s" % (r["family"], r["member"], addr), type(ex).__name__, "accepted")
            x = b.PrivateKey().ToExtended()
            b2 = cls.FromExtendedKey(x, coin)
            if b2.PrivateKey().ToExtended() != x or b2.PublicKey().ToExtended() != b.PublicKey().ToExtended():
                rep("extended key does not round-trip under the coin's version bytes", "%s.%s" % (r["family"], r["member"]), b2.PrivateKey().ToExtended(), x)
            from bip_utils import WifPubKeyModes, WifEncoder
            pk = b.PrivateKey()
            modes = [None, WifPubKeyModes.UNCOMPRESSED, WifPubKeyModes.COMPRESSED]
            if n % 2:
                modes.reverse()
            for md in modes:      # both modes from one key object, in both orders
                w = pk.ToWif() if md is None else pk.ToWif(md)
                if not w:
                    continue
                want_mode = WifPubKeyModes.COMPRESSED if md is None else md
                k, gm = WifDecoder.Decode(w, conf.WifNetVersion())
                ref = WifEncoder.Encode(pk.Raw().ToBytes(), conf.WifNetVersion(), want_mode)
                if k != pk.Raw().ToBytes() or gm != want_mode or w != ref:
                    rep("WIF does not round-trip (key, compression mode) under the coin's version byte", "%s.%s mode=%s" % (r["family"], r["member"], want_mode),
                        "%s %s %s" % (w, k.hex(), gm), "%s %s %s" % (ref, pk.Raw().ToHex(), want_mode))
    # output-dependent: private keys whose LAST byte is 0x01 (the value of the WIF compression suffix) and keys that start with a zero byte,
    # found by scanning seeds; both modes must round-trip to (key, mode) under the coin's byte
    import bip_utils as _B
    Bip44, Bip44Coins, Bip44ConfGetter, Cip1852ConfGetter = _B.Bip44, _B.Bip44Coins, _B.Bip44ConfGetter, _B.Cip1852ConfGetter
    for coin in (Bip44Coins.BITCOIN, Bip44Coins.LITECOIN, Bip44Coins.DOGECOIN_TESTNET):
        need = {"ends-01", "starts-00"}
        wv = Bip44ConfGetter.GetConfig(coin).WifNetVersion()
        for j in range(3000):
            if not need:
                break
            sd = rng.getrandbits(128).to_bytes(16, "big")
            kbytes = Bip44.FromSeed(sd, coin).PrivateKey().Raw().ToBytes()
            tag = "ends-01" if kbytes[-1] == 1 else "starts-00" if kbytes[0] == 0 else None
            if tag in need:
                need.discard(tag)
                pk = Bip44.FromSeed(sd, coin).PrivateKey()
                for md in (WifPubKeyModes.UNCOMPRESSED, WifPubKeyModes.COMPRESSED):
                    n += 1
                    w = pk.ToWif(md)
                    try:
                        got = WifDecoder.Decode(w, wv)
                    except Exception as ex:  # noqa
                        got = type(ex).__name__
                    if got != (kbytes, md):
                        rep("WIF of a key that %s does not round-trip to (key, mode)" % ("ends with 0x01" if tag == "ends-01" else "starts with 0x00"),
                            "%s master of seed %s mode=%s wif=%s" % (coin.name, sd.hex(), md, w), str(got), "(%s, %s)" % (kbytes.hex(), md))
    # Substrate and Monero members: the coin's own decoder, with the coin's own parameters, accepts the coin's addresses
    from bip_utils import (Substrate, SubstrateCoins, SubstrateSr25519AddrDecoder, Monero, MoneroCoins, XmrAddrDecoder, XmrIntegratedAddrDecoder,
                           Ed25519PrivateKey)
    from bip_utils.substrate.conf import SubstrateConfGetter
    from bip_utils.monero.conf import MoneroConfGetter
    for coin in SubstrateCoins:
        conf = SubstrateConfGetter.GetConfig(coin)
        for path in ("", "//a/b"):
            w = Substrate.FromSeedAndPath(seed32, path, coin)
            addr = w.PublicKey().ToAddress()
            n += 1
            try:
                back = SubstrateSr25519AddrDecoder.DecodeAddr(addr, ss58_format=conf.SS58Format())
                if back != w.PublicKey().RawCompressed().ToBytes():
                    rep("Substrate address decodes to a different key", "%s %s" % (coin.name, addr), back.hex(), w.PublicKey().RawCompressed().ToHex())
            except Exception as ex:  # noqa
                rep("the coin's own decoder (its SS58 format) rejects the coin's address", "%s format=%d %s" % (coin.name, conf.SS58Format(), addr), type(ex).__name__, "accepted")
    for coin in MoneroCoins:
        conf = MoneroConfGetter.GetConfig(coin)
        pid = bytes(range(8))
        wallets = {"FromSeed": Monero.FromSeed(seed32, coin), "FromBip44PrivateKey(bytes)": Monero.FromBip44PrivateKey(seed32, coin),
                   "FromBip44PrivateKey(key object)": Monero.FromBip44PrivateKey(Ed25519PrivateKey.FromBytes(seed32), coin)}
        full = wallets["FromSeed"]
        wallets["FromPrivateSpendKey"] = Monero.FromPrivateSpendKey(full.PrivateSpendKey().Raw().ToBytes(), coin)
        wallets["FromWatchOnly"] = Monero.FromWatchOnly(full.PrivateViewKey().Raw().ToBytes(), full.PublicSpendKey().RawCompressed().ToBytes(), coin)
        for how, w in wallets.items():
            n += 1
            keys = w.PublicSpendKey().RawCompressed().ToBytes() + w.PublicViewKey().RawCompressed().ToBytes()
            for what, addr, f in (("primary", w.PrimaryAddress(), lambda a: XmrAddrDecoder.DecodeAddr(a, net_ver=conf.AddrNetVersion())),
                                  ("sub-address", w.Subaddress(3, 1), lambda a: XmrAddrDecoder.DecodeAddr(a, net_ver=conf.SubaddrNetVersion())),
                                  ("integrated", w.IntegratedAddress(pid), lambda a: XmrIntegratedAddrDecoder.DecodeAddr(a, net_ver=conf.IntegratedAddrNetVersion(), payment_id=pid))):
                try:
                    back = f(addr)
                    if what != "sub-address" and back != keys:
                        rep("Monero %s address decodes to different keys" % what, "%s %s" % (coin.name, how), back.hex(), keys.hex())
                except Exception as ex:  # noqa
                    rep("the coin's own decoder (its network bytes) rejects the coin's %s address" % what, "%s via %s: %s" % (coin.name, how, addr), type(ex).__name__, "accepted")
    # the coin constants are the same after the flows as before them: wrappers that specialise a configuration (CardanoShelley for
    # CIP-1852, the toggles above) must leave the shared configuration objects as they found them
    from bip_utils import CardanoShelley, Cip1852, Cip1852Coins, Bip44Changes
    snap0 = json.dumps(rows(), sort_keys=True, default=str)
    from bip_utils import AdaShelleyAddrDecoder, AdaShelleyStakingAddrDecoder
    for coin in Cip1852Coins:
        acc = Cip1852.FromSeed(seed, coin).Purpose().Coin().Account(0)
        sh = CardanoShelley.FromCip1852Object(acc)
        leaf = sh.Change(Bip44Changes.CHAIN_EXT).AddressIndex(0)
        pay = leaf.PublicKeys().ToAddress()
        sh.StakingObject().PublicKey().ToAddress()
        # every route to the staking / reward address of a member agrees, and the member's own decoders (its own network tag) accept them
        net_tag = Cip1852ConfGetter.GetConfig(coin).AddrParams()["net_tag"]
        stk = {"PublicKeys().ToStakingAddress()": leaf.PublicKeys().ToStakingAddress(), "PublicKeys().ToRewardAddress()": leaf.PublicKeys().ToRewardAddress(),
               "StakingObject().PublicKey().ToAddress()": sh.StakingObject().PublicKey().ToAddress(), "RewardObject().PublicKey().ToAddress()": sh.RewardObject().PublicKey().ToAddress()}
        n += 1
        if len(set(stk.values())) != 1:
            rep("the routes to the staking address of one CIP-1852 wallet disagree", coin.name, str(stk), "one address")
        for what, a, dec in [(k, v, AdaShelleyStakingAddrDecoder) for k, v in stk.items()] + [("PublicKeys().ToAddress()", pay, AdaShelleyAddrDecoder)]:
            try:
                dec.DecodeAddr(a, net_tag=net_tag)
            except Exception as ex:  # noqa
                rep("the coin's own decoder (its network tag) rejects the coin's %s" % what, "%s %s" % (coin.name, a), type(ex).__name__, "accepted")
        try:
            plain = acc.Change(Bip44Changes.CHAIN_EXT).AddressIndex(0).PublicKey().ToAddress()
            rep("a plain CIP-1852 object yields an address although its format needs the staking key (configuration changed by a wrapper?)", coin.name, plain, "ValueError")
        except ValueError:
            pass
    try:
        snap1 = json.dumps(rows(), sort_keys=True, default=str)
    except Exception as ex:  # noqa  the table can no longer be read with the vocabulary it was read with before the flows
        snap1 = json.dumps([{"family": "?", "member": "?", "error": "%s: %s" % (type(ex).__name__, ex)}])
    if snap0 != snap1:
        a, b = json.loads(snap0), json.loads(snap1)
        diff = [(x["family"], x["member"], [k for k in x if x.get(k) != y.get(k)]) for x, y in zip(a, b) if x != y] or b[:1]
        rep("coin constants differ after the end-to-end flows (a wrapper edited a shared configuration object)", "Cip1852 + CardanoShelley flows", str(diff[:4]), "unchanged")
        rpt.extra["impl_end_to_end_checks"] = n
        return bad[:8]          # the remaining relations read the configurations again and assume they are the registered ones
    rpt.extra["impl_end_to_end_checks"] = n
    rpt.extra["per_key_parameter_checks"] = _per_key_params(rng, tier, rep, seed)
    rpt.extra["option_isolation_checks"] = _option_isolation(rng, tier, rep, seed)
    rpt.extra["concurrent_address_checks"] = _concurrent_addresses(rng, tier, rep, seed, seed32)
    return bad[:8]


def _option_isolation(rng, tier, rep, seed):
    """'the coin's constants equal the registry values' for every member, in every position of the option switches of the OTHER
    configurations: an option belongs to the configuration object it was switched on. (1) each switch alone: with it on, every member whose
    configuration is another object still shows its registry row (and the members of that object show the registry row of the variant);
    (2) sequences of switches on several configurations (on A, on B, off A, …; at most one option per object at a time, which is what the
    registry lists): after every step each member shows the row of its own object's current position. Constants are read through the
    public accessors only (gen_coins.snapshot); a member that differs is also shown by the address of its default path."""
    from gen.gen_coins import rows, snapshot
    purpose = {"Bip44": 44, "Bip49": 49, "Bip84": 84, "Bip86": 86, "Cip1852": 1852}
    skip = ("confId", "variant")
    try:
        all_rows = rows()
    except BaseException as ex:  # noqa  the same call succeeded in this process before the flows (pre_build): the configuration objects changed
        rep("the coin configurations can no longer be read through their public accessors after the end-to-end flows of this run "
            "(a flow edited a shared configuration object)", "gen_coins.rows() after the C08 relations", "%s: %s" % (type(ex).__name__, ex), "the registry rows")
        return 0
    ref = {(r["family"], r["member"], r["variant"]): {k: v for k, v in r.items() if k not in skip} for r in all_rows}
    mem = [(fam, m.name, getter.GetConfig(m)) for fam, (cls, en, getter) in FAM.items() for m in en]
    switches, seen = [], set()
    for (fam, name, var) in ref:
        if var:
            conf = FAM[fam][2].GetConfig(FAM[fam][1][name])
            if (id(conf), var) not in seen:
                seen.add((id(conf), var))
                switches.append((fam, name, var, conf))
    with_switch = {id(c) for _, _, _, c in switches}
    active = {}          # id(configuration object) -> (variant switched on, label)
    done = [0]

    def check(which, story):
        for fam, name, conf in which:
            want = ref.get((fam, name, active[id(conf)][0] if id(conf) in active else ""))
            if want is None:
                continue
            done[0] += 1
            try:
                got = {k: v for k, v in snapshot(fam, name, "", conf, {}, purpose[fam]).items() if k not in skip}
            except BaseException as ex:  # noqa  (the translator ends the process on a value it has no name for)
                got = {"error": "%s: %s" % (type(ex).__name__, ex)}
            if got != want:
                fields = sorted(k for k in set(got) | set(want) if got.get(k) != want.get(k))
                cls, en, _ = FAM[fam]
                addr = opt_addr(lambda: cls.FromSeed(seed, en[name]).DeriveDefaultPath().PublicKey().ToAddress())
                rep("the constants of a coin differ from its registry row after an option of ANOTHER configuration object was switched (or do not follow "
                    "the switches of its own)", "%s; then %s.%s read through its configuration getter" % ("; ".join(story), fam, name),
                    "%s; address of the default path of seed %s: %s" % ({k: got.get(k) for k in fields}, seed.hex(), addr), str({k: want.get(k) for k in fields}))
                return False
        return True

    def opt_addr(f):
        try:
            return f()
        except Exception as ex:  # noqa
            return "(%s)" % type(ex).__name__

    def flip(sw, on, story):
        fam, name, var, conf = sw
        Toggle(conf, var)._set(on)
        story.append("%s.%s %s := %s" % (fam, name, var, on))
        if on:
            active[id(conf)] = (var, sw)
        else:
            active.pop(id(conf), None)

    try:
        ok = True
        for sw in switches:                    # (1)
            story = []
            flip(sw, True, story)
            ok = check(mem, story)
            flip(sw, False, story)
            ok = ok and check([x for x in mem if id(x[2]) in with_switch], story)
            if not ok:
                break
        for _ in range((8 if tier == "quick" else 300) if ok else 0):            # (2)
            story = []
            for _step in range(rng.randrange(3, 8)):
                sw = rng.choice(switches)
                cur = active.get(id(sw[3]))
                if cur is not None:                    # at most one option per object at a time: the one that is on goes off first
                    flip(cur[1], False, story)
                    if rng.random() < 0.5:
                        flip(sw, True, story)
                else:
                    flip(sw, True, story)
                if not check([x for x in mem if id(x[2]) in with_switch] + rng.sample(mem, 5), story):
                    ok = False
                    break
            for var, sw in list(active.values()):
                flip(sw, False, story)
            if not ok or not check(mem if tier == "thorough" else [x for x in mem if id(x[2]) in with_switch], story):
                break
    finally:
        for _, _, var, conf in switches:
            Toggle(conf, var)._set(False)
    return done[0]


def _concurrent_addresses(rng, tier, rep, seed, seed32):
    """'an address is produced, the format's decoder with the coin's own parameters accepts that address and returns the payload determined
    by the public key' — also when several threads do so at once, each for its own key: every thread must obtain, every time, the address
    and the payload that the same calls give single-threaded (encoders and decoders are stateless functions of their arguments; helper
    objects they share must not carry a computation across calls). One member per address format (thorough: every member), one Substrate
    and one Monero coin; per thread: ToAddress() of its own key object, of a fresh object re-imported from the extended public key, and
    DecodeAddr of its own address."""
    import sys, threading, time
    from gen.gen_coins import rows
    from harness.props.addr_common import fmt_table
    from bip_utils import Bip44Changes
    T = fmt_table()
    nthreads = 4
    dur = 0.06 if tier == "quick" else 0.25
    done = 0

    def race(name, jobs):
        """jobs: one list of (what, thunk) per thread; expected values are what the thunks return now, single-threaded"""
        want = [[f() for _, f in job] for job in jobs]
        errs = []
        start = threading.Barrier(len(jobs))

        def worker(idx):
            start.wait()
            deadline = time.time() + dur
            for rnd in range(100000):
                for j, (what, f) in enumerate(jobs[idx]):
                    try:
                        got = f()
                    except Exception as ex:  # noqa  (the same call succeeded single-threaded)
                        got = "raised %s: %s" % (type(ex).__name__, str(ex)[:80])
                    if got != want[idx][j]:
                        errs.append((idx, rnd, what, got, want[idx][j]))
                        return
                if errs or (rnd >= 12 and time.time() > deadline):
                    return
        old = sys.getswitchinterval()
        sys.setswitchinterval(1e-6)
        try:
            ths = [threading.Thread(target=worker, args=(i,)) for i in range(len(jobs))]
            for t in ths:
                t.start()
            for t in ths:
                t.join()
        finally:
            sys.setswitchinterval(old)
        if errs:
            idx, rnd, what, got, w = errs[0]
            show = lambda v: v.hex() if isinstance(v, bytes) else str(v)
            rep("a call returns something else than single-threaded when other threads produce and decode addresses of other keys of the same coin",
                "%s: %s, round %d of thread %d of %d" % (name, what, rnd, idx, len(jobs)), show(got), show(w))
        return not errs

    allrows = [r for r in rows() if r["addrFmt"] in T and r["addrFmt"] not in ("xmr", "xmrint", "adashelley")]
    by_fmt = {}
    for r in allrows:
        by_fmt.setdefault(r["addrFmt"], []).append(r)
    picked = allrows if tier == "thorough" else [rng.choice(by_fmt[f]) for f in sorted(by_fmt)]
    for r in picked:
        cls, en, getter = FAM[r["family"]]
        coin = en[r["member"]]
        conf = getter.GetConfig(coin)
        name = "%s.%s%s" % (r["family"], r["member"], "/" + r["variant"] if r["variant"] else "")
        with Toggle(conf, r["variant"]):
            chg = cls.FromSeed(seed, coin).Purpose().Coin().Account(rng.randrange(3)).Change(Bip44Changes.CHAIN_EXT)
            i0 = rng.randrange(1000)
            _, enc, dec, _ = T[r["addrFmt"]]
            kw = {k: v for k, v in conf.AddrParams().items() if k not in ("pub_key_mode", "trim_zeroes")}
            jobs = []
            for j in range(nthreads):
                node = chg.AddressIndex(i0 + j)
                k = node.PublicKey()
                xpub = k.ToExtended()
                addr = k.ToAddress()
                job = [("ToAddress() of key %s" % k.RawCompressed().ToHex(), k.ToAddress),
                       ("%s.DecodeAddr(%s)" % (dec.__name__, addr), lambda a=addr: dec.DecodeAddr(a, **kw))]
                job.append(("FromExtendedKey(%s).PublicKey().ToAddress()" % xpub, lambda x=xpub: cls.FromExtendedKey(x, coin).PublicKey().ToAddress()))
                jobs.append(job)
            try:
                for job in jobs:
                    for _, f in job:
                        f()
            except Exception:  # noqa  a call that fails single-threaded is the business of the end-to-end loop above
                continue
            done += 1
            if not race(name, jobs):
                break
    from bip_utils import Substrate, SubstrateCoins, SubstrateSr25519AddrDecoder, Monero, MoneroCoins, XmrAddrDecoder
    from bip_utils.substrate.conf import SubstrateConfGetter
    from bip_utils.monero.conf import MoneroConfGetter
    for coin in (list(SubstrateCoins) if tier == "thorough" else [rng.choice(list(SubstrateCoins))]):
        fmt = SubstrateConfGetter.GetConfig(coin).SS58Format()
        jobs = []
        for j in range(nthreads):
            k = Substrate.FromSeedAndPath(seed32, "//%d/x" % j, coin).PublicKey()
            addr = k.ToAddress()
            jobs.append([("ToAddress() of key %s" % k.RawCompressed().ToHex(), k.ToAddress),
                         ("SubstrateSr25519AddrDecoder.DecodeAddr(%s)" % addr, lambda a=addr: SubstrateSr25519AddrDecoder.DecodeAddr(a, ss58_format=fmt))])
        done += 1
        race("Substrate " + coin.name, jobs)
    for coin in (list(MoneroCoins) if tier == "thorough" else [rng.choice(list(MoneroCoins))]):
        nv = MoneroConfGetter.GetConfig(coin).AddrNetVersion()
        jobs = []
        for j in range(nthreads):
            w = Monero.FromSeed(bytes([j]) + seed32[1:], coin)
            addr = w.PrimaryAddress()
            jobs.append([("PrimaryAddress() of a wallet", w.PrimaryAddress), ("Subaddress(1, %d)" % j, lambda w=w, j=j: w.Subaddress(1, j)),
                         ("XmrAddrDecoder.DecodeAddr(%s)" % addr, lambda a=addr: XmrAddrDecoder.DecodeAddr(a, net_ver=nv))])
        done += 1
        race("Monero " + coin.name, jobs)
    return done


def _canon_params(p):
    """an address-parameter dictionary as plain comparable data (values read through public accessors only)"""
    import enum

    def cv(v):
        if isinstance(v, (bytes, bytearray)):
            return "b:" + bytes(v).hex()
        if isinstance(v, enum.Enum):
            return "e:%s.%s" % (type(v).__name__, v.name)
        if isinstance(v, (str, int, bool)) or v is None:
            return "v:%r" % (v,)
        if hasattr(v, "ToBytes"):
            return "o:" + bytes(v.ToBytes()).hex()
        return "?:" + type(v).__name__          # an unresolved placeholder (or anything else): only its kind
    return tuple(sorted((k, cv(v)) for k, v in p.items()))


def _byron_root(pub_key_bytes, chain_code_bytes):
    """address root of a Byron (Icarus-style, no attributes) address: BLAKE2b-224(SHA3-256(CBOR([0, [0, pub || chain code], {}]))), with
    hashlib and a hand-written CBOR prefix (definite lengths: array(3) 0 array(2) 0 bytes(64) ... map(0))"""
    import hashlib
    ext = pub_key_bytes + chain_code_bytes
    assert len(ext) == 64
    ser = b"\x83\x00\x82\x00\x58\x40" + ext + b"\xa0"
    return hashlib.blake2b(hashlib.sha3_256(ser).digest(), digest_size=28).digest()


def _per_key_params(rng, tier, rep, seed):
    """'the address is computed by the configured encoder with the configured parameters, including the parameters resolved from the key':
    the parameters of a key belong to that key. For every coin whose address parameters depend on the key (found by comparing the public
    accessors AddrParams() and AddrParamsWithResolvedCalls(key), not by name) and a sample of the others (thorough: all):
    (1) history/aliasing — the parameters obtained for key A still describe key A after the parameters of other keys of the same coin were
        obtained and their addresses computed: they are unchanged, encoder(A, parameters of A) is A's address, and A's address is the
        one it had before; for Byron addresses the decoded address root is the one hashlib gives for A's key and A's chain code;
    (2) interleaving — several threads, each computing the address of its own key of the coin again and again, obtain the
        single-threaded address every time."""
    import sys, threading, time
    from gen.gen_coins import rows
    from bip_utils import Bip44Changes, AdaByronAddrDecoder
    done = 0
    try:
        allrows = rows()
    except BaseException as ex:  # noqa  the same call succeeded in this process before the flows (pre_build): the configuration objects changed
        rep("the coin configurations can no longer be read through their public accessors after the end-to-end flows of this run "
            "(a flow edited a shared configuration object)", "gen_coins.rows() after the C08 flows", "%s: %s" % (type(ex).__name__, ex), "the registry rows")
        return 0
    sample = set(range(len(allrows))) if tier == "thorough" else set(rng.sample(range(len(allrows)), 10))
    nkeys = 4
    for ri, r in enumerate(allrows):
        cls, en, getter = FAM[r["family"]]
        coin = en[r["member"]]
        conf = getter.GetConfig(coin)
        name = "%s.%s%s" % (r["family"], r["member"], "/" + r["variant"] if r["variant"] else "")
        if r["addrFmt"] in ("adashelley", "xmr") or not hasattr(conf, "AddrParamsWithResolvedCalls"):
            continue          # these addresses need a second key and are produced by the wrappers checked above
        with Toggle(conf, r["variant"]):
            mst = cls.FromSeed(seed, coin)
            first = mst.DeriveDefaultPath().PublicKey()
            per_key = _canon_params(conf.AddrParamsWithResolvedCalls(first.Bip32Key())) != _canon_params(conf.AddrParams())
            if not per_key and ri not in sample:
                continue
            chg = mst.Purpose().Coin().Account(rng.randrange(3)).Change(Bip44Changes.CHAIN_EXT)
            i0 = rng.randrange(1000)
            keys = [first] + [chg.AddressIndex(i0 + j).PublicKey() for j in range(nkeys - 1)]
            enc = conf.AddrClass()
            # (1) parameters and address of every key, taken one key after the other; then everything is looked at again
            held, addr0 = [], []
            for k in keys:
                p = conf.AddrParamsWithResolvedCalls(k.Bip32Key())
                held.append((p, _canon_params(p)))
                addr0.append(k.ToAddress())
            done += 1
            for j, k in enumerate(keys):
                p, view = held[j]
                what = None
                if _canon_params(p) != view:
                    what, got, want = "the address parameters obtained for one key changed when the parameters of another key of the coin were obtained", str(_canon_params(p)), str(view)
                elif enc.EncodeKey(k.Bip32Key().KeyObject(), **p) != addr0[j]:
                    what, got, want = "the configured encoder with the parameters obtained for the key does not give the address of the key", enc.EncodeKey(k.Bip32Key().KeyObject(), **p), addr0[j]
                elif k.ToAddress() != addr0[j]:
                    what, got, want = "the address of a key changed after addresses of other keys of the coin were computed", k.ToAddress(), addr0[j]
                elif r["addrFmt"] == "adabyronicarus":
                    root = AdaByronAddrDecoder.DecodeAddr(addr0[j])[:28]
                    ref = _byron_root(k.RawCompressed().ToBytes()[1:], k.ChainCode().ToBytes())
                    if root != ref:
                        what, got, want = "the decoded address root is not the one determined by the public key and its chain code", root.hex(), ref.hex()
                if what:
                    rep(what, "%s key %d of %s" % (name, j, [x.RawCompressed().ToHex() for x in keys]), got, want)
                    break
            if not per_key:
                continue
            # (2) the same keys from one thread each
            errs = []
            start = threading.Barrier(nkeys)
            deadline = time.time() + (1.0 if tier == "quick" else 6.0)

            def worker(idx):
                k, want = keys[idx], addr0[idx]
                start.wait()
                for rnd in range(100000):
                    try:
                        got = k.ToAddress()
                    except Exception as ex:  # noqa  (a valid key of the coin always has an address)
                        got = "raised " + type(ex).__name__
                    if got != want:
                        errs.append((idx, rnd, got, want))
                        return
                    if errs or (rnd % 16 == 15 and time.time() > deadline):
                        return
            old = sys.getswitchinterval()
            sys.setswitchinterval(1e-6)
            try:
                ths = [threading.Thread(target=worker, args=(i,)) for i in range(nkeys)]
                for t in ths:
                    t.start()
                for t in ths:
                    t.join()
            finally:
                sys.setswitchinterval(old)
            done += 1
            if errs:
                idx, rnd, got, want = errs[0]
                rep("ToAddress() of a key returns another address when other threads compute addresses of other keys of the same coin",
                    "%s key %s, call %d of its thread, %d threads" % (name, keys[idx].RawCompressed().ToHex(), rnd, nkeys), got, want)
    return done


def search_broken(broken, rng, fields=None):
    """a table theorem failed: localise (member, field) against the pinned registry and exhibit a seed on which an observable
    (address, extended keys, WIF, derived key) differs from the one obtained with the registered constants."""
    from gen.gen_coins import rows, ADDR_FMT
    from harness.props.addr_common import fmt_table, conv_kw
    from bip_utils import Bip32KeyNetVersions, WifEncoder, Bip32KeyIndex
    from bip_utils.bip.bip32.bip32_key_ser import Bip32PublicKeySerializer, Bip32PrivateKeySerializer
    gold = json.load(open(os.path.join(VERIF, "golden", "registry.json")))["coinRows"]
    cur = {(r["family"], r["member"], r["variant"]): r for r in rows()}
    T = fmt_table()
    seed = rand_seed(rng)
    unobservable = []
    for g in gold:
        key = (g["family"], g["member"], g["variant"])
        c = cur.get(key)
        if c is None:
            return {"relation": "registered coin %s.%s is no longer configured" % key[:2], "impl_output": "missing", "model_output": "present",
                    "entry_point": "%sConfGetter.GetConfig" % g["family"]}
        gp = [tuple(p) for p in g["addrParams"]]
        diffs = [f for f in g if f != "addrParams" and g[f] != c[f]] + (["addrParams"] if gp != [tuple(p) for p in c["addrParams"]] else [])
        if fields is not None:
            diffs = [f for f in diffs if f in fields]
        if not diffs:
            continue
        cls, en, getter = FAM[g["family"]]
        coin = en[g["member"]]
        conf = getter.GetConfig(coin)
        with Toggle(conf, g["variant"]):
            try:
                b = cls.FromSeed(seed, coin).DeriveDefaultPath()
                got = {"addr": b.PublicKey().ToAddress() if g["addrFmt"] not in ("xmr", "adashelley") else "", "xpub": b.PublicKey().ToExtended(),
                       "xprv": b.PrivateKey().ToExtended(), "wif": b.PrivateKey().ToWif(), "pub": b.PublicKey().RawCompressed().ToHex()}
            except Exception as ex:  # noqa
                return {"relation": "coin %s.%s no longer derives its default path (field %s changed)" % (key[0], key[1], diffs), "impl_output": type(ex).__name__,
                        "model_output": "derivation succeeds", "request_lines": ["bip44 %s %s %s %s D" % (key[0], key[1], key[2] or "-", hx(seed))]}
            # expectation with the registered constants, from lower-level calls
            bip32_cls = conf.Bip32Class()
            kv = Bip32KeyNetVersions(bytes(g["keyNetPub"]), bytes(g["keyNetPriv"]))
            o = bip32_cls.FromSeed(seed, kv)
            purpose = {"Bip44": 44, "Bip49": 49, "Bip84": 84, "Bip86": 86, "Cip1852": 1852}[g["family"]]
            try:
                o = o.ChildKey(Bip32KeyIndex.HardenIndex(purpose)).ChildKey(Bip32KeyIndex.HardenIndex(g["coinIdx"])).DerivePath(g["defPath"])
                want = {"pub": o.PublicKey().RawCompressed().ToHex(), "xpub": o.PublicKey().ToExtended(), "xprv": o.PrivateKey().ToExtended()}
                want["wif"] = WifEncoder.Encode(o.PrivateKey().Raw().ToBytes(), bytes(g["wifNetVer"])) if g["wifNetVer"] is not None else ""
                if g["addrFmt"] in T and g["addrFmt"] not in ("xmr", "xmrint"):
                    kw = {k: v for k, v in gp}
                    want["addr"] = T[g["addrFmt"]][1].EncodeKey(o.PublicKey().KeyObject(), **conv_kw(g["addrFmt"], kw))
            except Exception as ex:  # noqa
                continue
            for f in ("pub", "xpub", "xprv", "wif", "addr"):
                if f in want and want[f] != got[f]:
                    return {"relation": "coin %s.%s: field(s) %s differ from the registry and change the %s" % (key[0], key[1], diffs, f),
                            "entry_point": "%s.FromSeed(seed, %s).DeriveDefaultPath()" % (key[0], key[1]), "input": seed.hex(),
                            "impl_output": got[f], "model_output": want[f],
                            "request_lines": ["bip44 %s %s %s %s D" % (key[0], key[1], key[2] or "-", hx(seed))]}
            unobservable.append((key, diffs))
    return None
