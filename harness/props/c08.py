"""C08 — every configured coin works end-to-end and keeps its network constants."""
import json, os
from harness.core import Case, VERIF
from harness.canon import hx, tx, unhx, untx
from harness.props.bip44_common import IMPL as B44_IMPL, FAM, Toggle
from harness.props.bip32_common import rand_seed
from harness.props.c07 import pre_build as _pre, members

LEAN_MODULES = ["BipVerif.Props.C08"]
IMPL = dict(B44_IMPL)


def pre_build():
    _pre()


def variants():
    from gen.gen_coins import rows
    return [(r["family"], r["member"], r["variant"] or "-") for r in rows()]


def gen(rng, tier):
    seeds = [rand_seed(rng) for _ in range(2 if tier == "quick" else 25)]
    for fam, m, var in variants():
        for s in seeds:
            yield Case("bip44", [fam, m, var, hx(s), "D"], "default-" + fam)
            yield Case("bip44", [fam, m, var, hx(s), "P,C,A0"], "account-" + fam)


def relations(rng, tier, rpt):
    """on the implementation: the coin's own decoder accepts the produced address and returns the payload determined by the
    public key; extended keys and WIF round-trip; aliases denote the same configuration object."""
    from harness.props.addr_common import fmt_table, conv_kw
    from gen.gen_coins import rows, ADDR_FMT
    from bip_utils import WifDecoder, Bip32KeyNetVersions
    bad = []
    n = 0
    T = fmt_table()

    def rep(what, inp, got, want):
        bad.append({"property": "C08", "entry_point": what, "request_lines": [], "relation": what, "input": inp,
                    "impl_output": got, "model_output": want, "no_failing_input": False})

    seed = rand_seed(rng)
    for r in rows():
        cls, en, getter = FAM[r["family"]]
        coin = en[r["member"]]
        conf = getter.GetConfig(coin)
        with Toggle(conf, r["variant"]):
            b = cls.FromSeed(seed, coin).DeriveDefaultPath()
            n += 1
            fmt = r["addrFmt"]
            if fmt in T and fmt not in ("xmr", "xmrint"):
                addr = b.PublicKey().ToAddress()
                _, enc, dec, _ = T[fmt]
                kw = {k: v for k, v in conf.AddrParams().items() if k not in ("pub_key_mode", "trim_zeroes")}
                try:
                    payload = dec.DecodeAddr(addr, **kw)
                    again = enc.EncodeKey(b.PublicKey().Bip32Key().KeyObject(), **conf.AddrParams())
                    if again != addr:
                        rep("address is not a function of the public key and the coin parameters", "%s.%s" % (r["family"], r["member"]), again, addr)
                except Exception as ex:  # noqa
                    rep("the coin's own decoder rejects the coin's address", "%s.%s %s" % (r["family"], r["member"], addr), type(ex).__name__, "accepted")
            x = b.PrivateKey().ToExtended()
            b2 = cls.FromExtendedKey(x, coin)
            if b2.PrivateKey().ToExtended() != x or b2.PublicKey().ToExtended() != b.PublicKey().ToExtended():
                rep("extended key does not round-trip under the coin's version bytes", "%s.%s" % (r["family"], r["member"]), b2.PrivateKey().ToExtended(), x)
            w = b.PrivateKey().ToWif()
            if w:
                k, _ = WifDecoder.Decode(w, conf.WifNetVersion())
                if k != b.PrivateKey().Raw().ToBytes():
                    rep("WIF does not round-trip under the coin's version byte", "%s.%s" % (r["family"], r["member"]), k.hex(), b.PrivateKey().Raw().ToHex())
    rpt.extra["impl_end_to_end_checks"] = n
    return bad[:8]
