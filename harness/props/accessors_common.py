"""Accessor-consistency relations over the public API: the small accessors and alternate entry points that no model operation goes through
(`UnderlyingObject`, `*Length`, `CurveType`, `Point`/`FromPoint`, `Bip32Utils.*`, wrapper key objects, master-key accessors, random
generators) — found with tools/api_coverage.py as "public functions never entered by any check".  Each clause is an identity the property
statements imply between two public routes to the same value, so it cannot fire on a correct library.
Every function yields tuples (what, input, got, want)."""


def key_class_accessors(rng, n_keys=3):
    """C12: for every curve, key, point and curve objects agree with each other: lengths are the lengths of the raw encodings, curve types are
    the curve's, Point()/FromPoint and Raw()/FromBytes round-trip, UnderlyingObject exists, generator and order are those of the getter."""
    from bip_utils import EllipticCurveGetter, EllipticCurveTypes
    for t in EllipticCurveTypes:
        c = EllipticCurveGetter.FromType(t)
        priv_cls, pub_cls, pt_cls = c.PrivateKeyClass(), c.PublicKeyClass(), c.PointClass()
        name = t.name
        if priv_cls.CurveType() != t or pub_cls.CurveType() != t or pt_cls.CurveType() != t:
            yield ("CurveType() of the key/point classes of a curve differs from the curve's type", name,
                   str((priv_cls.CurveType(), pub_cls.CurveType(), pt_cls.CurveType())), str(t))
        for _ in range(n_keys):
            if name in ("SECP256K1", "NIST256P1"):
                kb = rng.randrange(1, c.Order()).to_bytes(32, "big")
            elif name == "ED25519_MONERO":
                kb = rng.randrange(1, c.Order()).to_bytes(32, "little")
            elif name == "ED25519_KHOLAW":
                kb = bytes([rng.randrange(256) & 0xf8] + [rng.randrange(256) for _ in range(30)] + [64 | (rng.randrange(256) & 0x1f)] + [rng.randrange(256) for _ in range(32)])
            elif name == "SR25519":
                kb = None
            else:
                kb = bytes(rng.randrange(256) for _ in range(32))
            if kb is None:
                # sr25519: keys come from a 32-byte mini-secret through the public bindings; only the public class is exercised from bytes
                import sr25519
                pub_b, priv_b = sr25519.pair_from_seed(bytes(rng.randrange(256) for _ in range(32)))
                priv = priv_cls.FromBytes(priv_b)
                if priv.PublicKey().RawCompressed().ToBytes() != pub_b:
                    yield ("Sr25519PrivateKey.PublicKey() differs from the pair's public key", priv_b.hex(), priv.PublicKey().RawCompressed().ToHex(), pub_b.hex())
            else:
                priv = priv_cls.FromBytes(kb)
            pub = priv.PublicKey()
            if priv.Raw().ToBytes() != (kb if kb is not None else priv_b) or len(priv.Raw().ToBytes()) != priv_cls.Length():
                yield ("PrivateKey.Raw()/Length() disagree with the bytes the key was built from", "%s %s" % (name, priv.Raw().ToHex()),
                       str((priv.Raw().ToHex(), priv_cls.Length())), "the input bytes and their length")
            if priv.UnderlyingObject() is None or pub.UnderlyingObject() is None:
                yield ("UnderlyingObject() is None", name, "None", "an object")
            comp, unc = pub.RawCompressed().ToBytes(), pub.RawUncompressed().ToBytes()
            if len(comp) != pub_cls.CompressedLength() or len(unc) != pub_cls.UncompressedLength():
                yield ("CompressedLength()/UncompressedLength() are not the lengths of RawCompressed()/RawUncompressed()", "%s %s" % (name, comp.hex()),
                       str((pub_cls.CompressedLength(), pub_cls.UncompressedLength())), str((len(comp), len(unc))))
            for enc in (comp, unc):
                again = pub_cls.FromBytes(enc)
                if again.RawCompressed().ToBytes() != comp or again.RawUncompressed().ToBytes() != unc:
                    yield ("a public key re-read from its own encoding is a different key", "%s %s" % (name, enc.hex()), again.RawCompressed().ToHex(), comp.hex())
            if not pub_cls.IsValidBytes(comp) or not pub_cls.IsValidBytes(unc):
                yield ("IsValidBytes refuses a key's own encoding", "%s %s" % (name, comp.hex()), "False", "True")
            if name == "SR25519":
                continue                       # no point arithmetic for sr25519 (the library provides dummies)
            pt = pub.Point()
            if pt.UnderlyingObject() is None:
                yield ("Point.UnderlyingObject() is None", name, "None", "an object")
            back = pub_cls.FromPoint(pt)
            if back.RawCompressed().ToBytes() != comp:
                yield ("PublicKey.FromPoint(key.Point()) is a different key", "%s %s" % (name, comp.hex()), back.RawCompressed().ToHex(), comp.hex())
            if not pub_cls.IsValidPoint(pt):
                yield ("IsValidPoint refuses the point of a valid key", "%s %s" % (name, comp.hex()), "False", "True")
            x, y = pt.X(), pt.Y()
            for what, p2 in (("FromCoordinates(X(), Y())", pt_cls.FromCoordinates(x, y)), ("FromBytes(Raw())", pt_cls.FromBytes(pt.Raw().ToBytes())),
                             ("FromBytes(RawEncoded())", pt_cls.FromBytes(pt.RawEncoded().ToBytes())), ("FromBytes(RawDecoded())", pt_cls.FromBytes(pt.RawDecoded().ToBytes()))):
                if (p2.X(), p2.Y()) != (x, y):
                    yield ("Point.%s is a different point" % what, "%s %s" % (name, comp.hex()), str((p2.X(), p2.Y())), str((x, y)))
            cl = pt_cls.CoordinateLength()
            if len(pt.RawDecoded().ToBytes()) != 2 * cl:
                yield ("RawDecoded() is not two coordinates of CoordinateLength() bytes", "%s %s" % (name, comp.hex()), str(len(pt.RawDecoded().ToBytes())), str(2 * cl))
            # the key's point is (private scalar)·G for the curves whose private key IS the scalar, and G·1 = G, G·(n+1) = G always
            g = c.Generator()
            if name in ("SECP256K1", "NIST256P1", "ED25519_MONERO"):
                k = int.from_bytes(kb, "big" if name != "ED25519_MONERO" else "little")
                kg = g * k
                if (kg.X(), kg.Y()) != (x, y):
                    yield ("the public key's point is not scalar·Generator()", "%s k=%d" % (name, k), str((x, y)), str((kg.X(), kg.Y())))
                if (k * g).X() != kg.X():
                    yield ("int * Point differs from Point * int", "%s k=%d" % (name, k), str((k * g).X()), str(kg.X()))
            g1 = g * (c.Order() + 1)
            if (g1.X(), g1.Y()) != (g.X(), g.Y()):
                yield ("Generator()·(Order()+1) is not the generator", name, str((g1.X(), g1.Y())), str((g.X(), g.Y())))


def bip32_utils_clauses(rng):
    """C06: Bip32Utils.* are the index helpers under another name"""
    from bip_utils import Bip32Utils, Bip32KeyIndex
    for _ in range(50):
        i = rng.choice([0, 1, 2**31 - 1, 2**31, 2**32 - 1, rng.randrange(2**32)])
        want = (Bip32KeyIndex.HardenIndex(i), Bip32KeyIndex.UnhardenIndex(i), Bip32KeyIndex.IsHardenedIndex(i))
        got = (Bip32Utils.HardenIndex(i), Bip32Utils.UnhardenIndex(i), Bip32Utils.IsHardenedIndex(i))
        ref = (i | 2**31, i & (2**31 - 1), i >= 2**31)
        if got != ref or want != ref:
            yield ("Bip32Utils / Bip32KeyIndex index helpers differ from index|2^31, index&(2^31-1), index>=2^31", str(i), str((got, want)), str(ref))
        o = Bip32KeyIndex(i)
        if (o.Harden().ToInt(), o.Unharden().ToInt(), o.IsHardened(), o.ToInt(), int(o)) != (ref[0], ref[1], ref[2], i, i):
            yield ("Bip32KeyIndex instance helpers differ from the static ones (or change their receiver)", str(i),
                   str((o.Harden().ToInt(), o.Unharden().ToInt(), o.IsHardened(), o.ToInt())), str(ref + (i,)))


def _addr(pub):
    """address or the class of the refusal (the Bip44 Monero coin refers to the Monero class with ValueError)"""
    try:
        return pub.ToAddress()
    except ValueError as ex:
        return "refused:" + type(ex).__name__


def bip44_key_wrappers(obj, label):
    """C08: the key wrappers of a BIP-44 object expose the wrapped BIP-32 keys unchanged"""
    b32 = obj.Bip32Object()
    pub = obj.PublicKey()
    if pub.Bip32Key().RawCompressed().ToBytes() != b32.PublicKey().RawCompressed().ToBytes() or pub.RawCompressed().ToBytes() != b32.PublicKey().RawCompressed().ToBytes() \
            or pub.RawUncompressed().ToBytes() != b32.PublicKey().RawUncompressed().ToBytes() or pub.ChainCode().ToBytes() != b32.ChainCode().ToBytes() \
            or pub.ToExtended() != b32.PublicKey().ToExtended():
        yield ("Bip44PublicKey accessors differ from the wrapped BIP-32 public key", label, pub.RawCompressed().ToHex(), b32.PublicKey().RawCompressed().ToHex())
    if not obj.IsPublicOnly():
        prv = obj.PrivateKey()
        if prv.Bip32Key().Raw().ToBytes() != b32.PrivateKey().Raw().ToBytes() or prv.Raw().ToBytes() != b32.PrivateKey().Raw().ToBytes() \
                or prv.ChainCode().ToBytes() != b32.ChainCode().ToBytes() or prv.ToExtended() != b32.PrivateKey().ToExtended() \
                or prv.PublicKey().RawCompressed().ToBytes() != pub.RawCompressed().ToBytes() or _addr(prv.PublicKey()) != _addr(pub):
            yield ("Bip44PrivateKey accessors differ from the wrapped BIP-32 private key / its public key", label, prv.Raw().ToHex(), b32.PrivateKey().Raw().ToHex())


def generators_valid():
    """C01/C17: a sentence produced by FromWordsNumber (random entropy) has the requested word count and is accepted by the scheme's own validator"""
    from bip_utils import (Bip39MnemonicGenerator, Bip39MnemonicValidator, Bip39WordsNum, Bip39Languages, AlgorandMnemonicGenerator, AlgorandMnemonicValidator,
                           AlgorandWordsNum, ElectrumV1MnemonicGenerator, ElectrumV1MnemonicValidator, ElectrumV1WordsNum, ElectrumV2MnemonicGenerator,
                           ElectrumV2MnemonicValidator, ElectrumV2WordsNum, ElectrumV2MnemonicTypes, MoneroMnemonicGenerator, MoneroMnemonicValidator, MoneroWordsNum)
    for wn in Bip39WordsNum:
        for lang in (Bip39Languages.ENGLISH, Bip39Languages.SPANISH, Bip39Languages.KOREAN):
            m = Bip39MnemonicGenerator(lang).FromWordsNumber(wn)
            if m.WordsCount() != int(wn) or not Bip39MnemonicValidator(lang).IsValid(m):
                yield ("Bip39MnemonicGenerator.FromWordsNumber gives a sentence of the wrong length or one its validator refuses", "%s %s" % (lang.name, wn.name), m.ToStr(), "valid, %d words" % int(wn))
    for wn in AlgorandWordsNum:
        m = AlgorandMnemonicGenerator().FromWordsNumber(wn)
        if m.WordsCount() != int(wn) or not AlgorandMnemonicValidator().IsValid(m):
            yield ("AlgorandMnemonicGenerator.FromWordsNumber: wrong length or refused", wn.name, m.ToStr(), "valid")
    for wn in ElectrumV1WordsNum:
        m = ElectrumV1MnemonicGenerator().FromWordsNumber(wn)
        if m.WordsCount() != int(wn) or not ElectrumV1MnemonicValidator().IsValid(m):
            yield ("ElectrumV1MnemonicGenerator.FromWordsNumber: wrong length or refused", wn.name, m.ToStr(), "valid")
    for wn in ElectrumV2WordsNum:
        for mt in ElectrumV2MnemonicTypes:
            m = ElectrumV2MnemonicGenerator(mt).FromWordsNumber(wn)
            if m.WordsCount() != int(wn) or not ElectrumV2MnemonicValidator(mt).IsValid(m):
                yield ("ElectrumV2MnemonicGenerator.FromWordsNumber: wrong length or refused", "%s %s" % (mt.name, wn.name), m.ToStr(), "valid")
    for wn in MoneroWordsNum:
        m = MoneroMnemonicGenerator().FromWordsNumber(wn)
        if m.WordsCount() != int(wn) or not MoneroMnemonicValidator().IsValid(m):
            yield ("MoneroMnemonicGenerator.FromWordsNumber: wrong length or refused", wn.name, m.ToStr(), "valid")


def cardano_wrappers(rng):
    """C18: the Cardano wallet wrappers hand out the keys of the objects they wrap: master keys of the Byron-legacy wallet are those of its
    BIP-32 object; the Shelley key bundles are (address key of the CIP-1852 object, key at account/2/0), `Reward*` is a synonym of `Staking*`,
    private and public bundles agree, and the address of the bundle is the object's address"""
    from bip_utils import CardanoByronLegacy, CardanoByronLegacyBip32, CardanoShelley, Cip1852, Cip1852Coins, Bip44Changes
    seed = bytes(rng.randrange(256) for _ in range(32))
    w = CardanoByronLegacy.FromSeed(seed)
    ref = CardanoByronLegacyBip32.FromSeed(seed)
    if (w.MasterPrivateKey().Raw().ToBytes(), w.MasterPublicKey().RawCompressed().ToBytes(), w.Bip32Object().PrivateKey().Raw().ToBytes(), w.MasterPrivateKey().ChainCode().ToBytes()) != \
            (ref.PrivateKey().Raw().ToBytes(), ref.PublicKey().RawCompressed().ToBytes(), ref.PrivateKey().Raw().ToBytes(), ref.ChainCode().ToBytes()):
        yield ("CardanoByronLegacy master key accessors differ from the Byron-legacy BIP-32 master of the same seed", seed.hex(), w.MasterPrivateKey().Raw().ToHex(), ref.PrivateKey().Raw().ToHex())
    i, j = rng.randrange(4), rng.randrange(2**31)
    ch = ref.DerivePath("m/%d'/%d'" % (i, j))
    if w.GetPrivateKey(i, j).Raw().ToBytes() != ch.PrivateKey().Raw().ToBytes() or w.GetPublicKey(i, j).RawCompressed().ToBytes() != ch.PublicKey().RawCompressed().ToBytes():
        yield ("CardanoByronLegacy.GetPrivateKey/GetPublicKey differ from m/i'/j' of the master", "%s %d %d" % (seed.hex(), i, j), w.GetPrivateKey(i, j).Raw().ToHex(), ch.PrivateKey().Raw().ToHex())
    for coin in Cip1852Coins:
        acc_idx = rng.randrange(3)
        acc = Cip1852.FromSeed(seed, coin).Purpose().Coin().Account(acc_idx)
        sh = CardanoShelley.FromCip1852Object(acc)
        stake_ref = acc.Bip32Object().DerivePath("2/0")
        addr_obj = sh.Change(Bip44Changes.CHAIN_EXT).AddressIndex(rng.randrange(5))
        idx = addr_obj.PublicKeys().AddressKey()
        prv, pub = addr_obj.PrivateKeys(), addr_obj.PublicKeys()
        label = "%s account %d" % (coin.name, acc_idx)
        want_stake_pub = stake_ref.PublicKey().RawCompressed().ToBytes()
        got = (pub.StakingKey().RawCompressed().ToBytes(), pub.RewardKey().RawCompressed().ToBytes(), prv.StakingKey().Raw().ToBytes(), prv.RewardKey().Raw().ToBytes(),
               prv.PublicKeys().StakingKey().RawCompressed().ToBytes(), sh.StakingObject().PublicKey().RawCompressed().ToBytes(), sh.RewardObject().PublicKey().RawCompressed().ToBytes())
        want = (want_stake_pub, want_stake_pub, stake_ref.PrivateKey().Raw().ToBytes(), stake_ref.PrivateKey().Raw().ToBytes(), want_stake_pub, want_stake_pub, want_stake_pub)
        if got != want:
            yield ("CardanoShelley staking/reward keys are not the key at account/2/0 (through every accessor)", label, str([g.hex()[:16] for g in got]), str([g.hex()[:16] for g in want]))
        if prv.AddressKey().PublicKey().RawCompressed().ToBytes() != idx.RawCompressed().ToBytes() or prv.PublicKeys().AddressKey().RawCompressed().ToBytes() != idx.RawCompressed().ToBytes():
            yield ("CardanoShelley private and public address keys disagree", label, prv.AddressKey().PublicKey().RawCompressed().ToHex(), idx.RawCompressed().ToHex())
        if pub.ToRewardAddress() != pub.ToStakingAddress() or prv.PublicKeys().ToAddress() != pub.ToAddress() or sh.PublicKeys().ToStakingAddress() != pub.ToStakingAddress():
            yield ("CardanoShelley addresses differ between equivalent accessors", label, str((pub.ToRewardAddress(), prv.PublicKeys().ToAddress())), str((pub.ToStakingAddress(), pub.ToAddress())))
        if sh.IsPublicOnly() or addr_obj.IsPublicOnly():
            yield ("CardanoShelley built from a private object reports public-only", label, "True", "False")


def substrate_wrappers(rng):
    """C19: key wrappers, path objects and the coin configuration of a Substrate wallet are consistent with each other"""
    from bip_utils import Substrate, SubstrateCoins, SubstratePathParser, SubstrateBip39SeedGenerator
    seed = bytes(rng.randrange(256) for _ in range(32))
    for coin in (SubstrateCoins.POLKADOT, SubstrateCoins.KUSAMA, list(SubstrateCoins)[rng.randrange(len(SubstrateCoins))]):
        w = Substrate.FromSeedAndPath(seed, "//hard/soft", coin)
        pub, prv = w.PublicKey(), w.PrivateKey()
        if pub.KeyObject().RawCompressed().ToBytes() != pub.RawCompressed().ToBytes() or pub.RawUncompressed().ToBytes() != pub.KeyObject().RawUncompressed().ToBytes() \
                or prv.KeyObject().Raw().ToBytes() != prv.Raw().ToBytes() or prv.PublicKey().RawCompressed().ToBytes() != pub.RawCompressed().ToBytes() \
                or prv.KeyObject().PublicKey().RawCompressed().ToBytes() != pub.RawCompressed().ToBytes():
            yield ("Substrate key wrappers disagree with the key objects they wrap", coin.name, pub.RawCompressed().ToHex(), pub.KeyObject().RawCompressed().ToHex())
        from bip_utils.substrate.conf import SubstrateConfGetter
        if w.CoinConf().CoinNames().Name() != SubstrateConfGetter.GetConfig(coin).CoinNames().Name() or w.CoinConf().SS58Format() != SubstrateConfGetter.GetConfig(coin).SS58Format():
            yield ("Substrate.CoinConf() is not the coin's configuration", coin.name, str(w.CoinConf()), str(SubstrateConfGetter.GetConfig(coin)))
        p = w.Path()
        elems = list(p)
        if p.Length() != 2 or len(elems) != 2 or (elems[0].IsHard(), elems[0].IsSoft(), elems[1].IsHard(), elems[1].IsSoft()) != (True, False, False, True) \
                or p.ToStr() != "//hard/soft" or SubstratePathParser.Parse(p.ToStr()).ToList() != p.ToList():
            yield ("SubstratePath of a derived wallet: Length/IsHard/IsSoft/ToStr disagree with the derivation string", coin.name, str((p.Length(), p.ToStr())), "(2, '//hard/soft')")
