"""C17 — Monero / Algorand / Electrum v1 / Electrum v2 mnemonics are canonical codecs with sound checksums."""
import unicodedata
from harness.core import Case
from harness.canon import hx, tx
from harness.props.mnemonic_common import IMPL, MONERO_LANGS, V2_LANGS, V2_TYPES, oracle_for
from harness.props.c01 import pre_build  # same tables
from bip_utils import (MoneroLanguages, MoneroMnemonicEncoder, MoneroMnemonicDecoder, AlgorandMnemonicEncoder, AlgorandMnemonicDecoder,
                       ElectrumV1MnemonicEncoder, ElectrumV1MnemonicDecoder, ElectrumV2MnemonicEncoder, ElectrumV2MnemonicDecoder,
                       ElectrumV2MnemonicTypes, ElectrumV2Languages, Bip39Languages)
from bip_utils.monero.mnemonic.monero_mnemonic_utils import MoneroWordsListGetter
from bip_utils.electrum.mnemonic_v1.electrum_v1_mnemonic_utils import ElectrumV1WordsListGetter
from bip_utils.bip.bip39.bip39_mnemonic_utils import Bip39WordsListGetter
from bip_utils import ElectrumV1Languages

LEAN_MODULES = ["BipVerif.Props.C17", "BipVerif.Props.C17Tables", "BipVerif.Props.C17Langs"]
N = 1626


def mon_words(lang):
    wl = MoneroWordsListGetter().GetByLanguage(MoneroLanguages[lang])
    return [wl.GetWordAtIdx(i) for i in range(wl.Length())]


def triple_cases(rng, tier):
    """index triples around the 2^32 boundary of w1 + n*d2 + n^2*d3 (d = successive differences mod n)."""
    out = []
    # d3 band where n^2*d3 crosses 2^32: d3 = 1624 (below) / 1625 (may cross)
    for d3 in (0, 1, 1623, 1624, 1625):
        for d2 in ([0, 1, 2, 812, 1624, 1625] if tier == "quick" else list(range(0, N, 29)) + [1624, 1625]):
            for w1 in ([0, 1, 1625] if tier == "quick" else [0, 1, 500, 1624, 1625]):
                out.append((w1, (w1 + d2) % N, (w1 + d2 + d3) % N))
    if tier == "thorough":
        # exhaustive over d2 at d3 = 1624/1625 (the band that straddles 2^32)
        for d3 in (1624, 1625):
            for d2 in range(N):
                out.append((7, (7 + d2) % N, (7 + d2 + d3) % N))
    for _ in range(150 if tier == "quick" else 5000):
        out.append(tuple(rng.randrange(N) for _ in range(3)))
    return out


def v2_valid_entropy(rng, bits, t, lang):
    """search upwards (as Electrum does) for an entropy whose sentence has the type's version prefix."""
    v = rng.getrandbits(bits) | (1 << (bits - 1))
    enc = ElectrumV2MnemonicEncoder(ElectrumV2MnemonicTypes[t], ElectrumV2Languages[lang])
    for i in range(20000):
        try:
            e = (v + i).to_bytes((bits + 7) // 8, "big")
            return e, enc.Encode(e).ToStr()
        except ValueError:
            continue
    return None, None


def v2_prefix_phrases(rng, words, wanted, n_words=12, budget=60000):
    """random phrases over `words` whose HMAC-SHA512('Seed version', phrase) hex digest starts with each prefix of `wanted` (searched with hmac/hashlib)"""
    import hmac, hashlib
    out = {}
    index = {w: i for i, w in enumerate(words)}
    for _ in range(budget):
        ws_ = [rng.choice(words) for _ in range(n_words)]
        ph = " ".join(ws_)
        # Electrum refuses sentences that are also valid BIP-39 (1 in 16 random ones): keep those out, the prefix rule is what is probed
        v_ = 0
        for w in ws_:
            v_ = (v_ << 11) | index[w]
        cs_ = n_words * 11 // 33
        ent_ = (v_ >> cs_).to_bytes((n_words * 11 - cs_) // 8, "big")
        if hashlib.sha256(ent_).digest()[0] >> (8 - cs_) == v_ & ((1 << cs_) - 1):
            continue
        hx_ = hmac.new(b"Seed version", ph.encode("utf-8"), hashlib.sha512).hexdigest()
        for w in wanted:
            if w not in out and hx_.startswith(w):
                out[w] = ph
        if len(out) == len(wanted):
            break
    return out


def v2_phrases_also_bip39(rng, words, prefix, n_words=12, budget=40000):
    """a sentence over `words` that is a checksum-valid BIP-39 sentence AND whose 'Seed version' HMAC starts with `prefix`: Electrum refuses
    these in every language (the BIP-39 exclusion).  Built from random entropy with the BIP-39 checksum (hashlib), then filtered by HMAC"""
    import hmac, hashlib
    ent_len = n_words * 32 // 3 // 8
    cs = n_words * 11 - ent_len * 8
    for _ in range(budget):
        ent = bytes(rng.randrange(256) for _ in range(ent_len))
        v = (int.from_bytes(ent, "big") << cs) | (hashlib.sha256(ent).digest()[0] >> (8 - cs))
        ph = " ".join(words[(v >> (11 * (n_words - 1 - i))) & 2047] for i in range(n_words))
        if hmac.new(b"Seed version", unicodedata.normalize("NFKD", ph).encode("utf-8"), hashlib.sha512).hexdigest().startswith(prefix):
            return ph
    return None


def v2_phrase_with_word(rng, words, prefix, n_words, pos, wi, bip39_lists=(), budget=400000):
    """a phrase of `n_words` words over `words` whose word at `pos` has index `wi` (the rest random) and whose 'Seed version' HMAC-SHA512 hex
    digest starts with `prefix` (hmac/hashlib search), that is not a checksum-valid BIP-39 sentence in any of `bip39_lists` (the exclusion
    rule is not what is probed).  Electrum v2 is little-endian in words: word 0 is the LEAST significant base-2048 digit.
    Returns ([words], entropy integer = sum index_i * 2048^i) or (None, None)."""
    import hmac, hashlib
    from harness.props.c01 import ref_read
    idxs = [{w: i for i, w in enumerate(l)} for l in bip39_lists]
    for _ in range(budget):
        ii = [rng.randrange(len(words)) for _ in range(n_words)]
        ii[pos] = wi
        ws = [words[i] for i in ii]
        if not hmac.new(b"Seed version", " ".join(ws).encode("utf-8"), hashlib.sha512).hexdigest().startswith(prefix):
            continue
        if any(ref_read(ix, ws)[0] == "ok" for ix in idxs):
            continue
        return ws, sum(i * len(words) ** k for k, i in enumerate(ii))
    return None, None


V2_PREFIX = {"STANDARD": "01", "SEGWIT": "100", "STANDARD_2FA": "101", "SEGWIT_2FA": "102"}


def v2_lists():
    out = {}
    for lang in V2_LANGS:
        wl = Bip39WordsListGetter().GetByLanguage(Bip39Languages[lang])
        out[lang] = [wl.GetWordAtIdx(i) for i in range(wl.Length())]
    return out


def v2_digit_sweep(rng, tier):
    """Electrum v2 phrases with an extreme base-2048 digit (the first or the last word of the list: an all-zero / all-one 11-bit group) at
    every word position of 12- and 24-word phrases, every language, standard type everywhere and the three 3-digit-prefix types at
    rotating positions: [(language, type, [words], entropy integer, position, digit)].  A digit is zero for 1 entropy in 2048, so random
    entropies practically never show what a codec does with it at a given position."""
    out = []
    lists = v2_lists()
    k = 0
    for lang in V2_LANGS:
        words = lists[lang]
        for n_words in (12, 24):
            # quick: every position for 12 English words, elsewhere both ends, the words next to them and one inner position
            for pos in (range(n_words) if tier == "thorough" or (lang == "ENGLISH" and n_words == 12) else sorted({0, 1, rng.randrange(2, n_words - 2), n_words - 2, n_words - 1})):
                digits = [0, len(words) - 1] if tier == "thorough" or pos in (0, 1, n_words - 2, n_words - 1) else [(0, len(words) - 1)[(pos + k) % 2]]
                for wi in digits:
                    k += 1
                    types = ["STANDARD"]
                    if tier == "thorough":
                        types.append(["SEGWIT", "STANDARD_2FA", "SEGWIT_2FA"][k % 3])
                    elif k % 32 == 0 or (pos == 0 and wi == 0 and n_words == 12 and lang == "ENGLISH"):
                        types.append(["SEGWIT", "STANDARD_2FA", "SEGWIT_2FA"][(k // 32) % 3])
                    for t in types:
                        ws, v = v2_phrase_with_word(rng, words, V2_PREFIX[t], n_words, pos, wi, [words])
                        if ws is not None:
                            out.append((lang, t, ws, v, pos, wi))
    _SWEEP[0] = out
    return out


_SWEEP = [None]      # the sweep of this run, built by gen and looked at again by the relations (the direct observation points)


def mon_ref_words(words, ent):
    """Monero's 4 bytes -> 3 words rule (little-endian chunk, chained offsets), from its definition"""
    n = len(words)
    out = []
    for i in range(0, len(ent), 4):
        x = int.from_bytes(ent[i:i + 4], "little")
        w1 = x % n
        w2 = (x // n + w1) % n
        w3 = (x // n // n + w2) % n
        out += [words[w1], words[w2], words[w3]]
    return out


def gen(rng, tier):
    # ---- Electrum v2: extreme digits at every word position (decoder with the language and type given / detected, and the encoder)
    for lang, t, ws, v, pos, wi in v2_digit_sweep(rng, tier):
        s = " ".join(ws)
        cls = "v2-digit-%s-at-%s" % ("zero" if wi == 0 else "max", "first" if pos == 0 else "last" if pos == len(ws) - 1 else "inner")
        yield Case("ev2dec", [lang, t, tx(s), oracle_for(s)], cls)
        yield Case("ev2dec", ["auto", "any", tx(s), oracle_for(s)], cls)
        yield Case("ev2enc", [lang, t, hx(v.to_bytes((v.bit_length() + 7) // 8, "big"))], cls + "-enc")
    # ---- Monero
    for lang in MONERO_LANGS:
        words = mon_words(lang)
        for sz in (16, 32):
            ents = [bytes(sz), b"\xff" * sz] + [bytes(rng.randrange(256) for _ in range(sz)) for _ in range(3 if tier == "quick" else 120)]
            for e in ents:
                for ck in (0, 1):
                    yield Case("monenc", [lang, hx(e), ck], "mon-enc")
                    enc = MoneroMnemonicEncoder(MoneroLanguages[lang])
                    s = (enc.EncodeWithChecksum(e) if ck else enc.EncodeNoChecksum(e)).ToStr()
                    yield Case("mondec", [lang, tx(s)], "mon-dec")
                    yield Case("mondec", ["auto", tx(s)], "mon-dec-auto")
                    ws = s.split(" ")
                    k = rng.randrange(5)
                    if k == 0:
                        ws[rng.randrange(len(ws))] = rng.choice(words)
                    elif k == 1:
                        ws[-1] = rng.choice(words)
                    elif k == 2:
                        ws = ws[:rng.choice([0, 1, 11, 14, 23, 26])] if len(ws) > 12 else ws + [ws[0]] * rng.choice([2, 3])
                    elif k == 3:
                        ws[rng.randrange(len(ws))] = rng.choice(["x", "", "é", "ABBEY", "abbeyy"])
                        ws = [w for w in ws if w]
                    else:
                        ws = [w.upper() if i == 3 else w for i, w in enumerate(ws)]
                    yield Case("mondec", [rng.choice([lang, "auto"]), tx(" ".join(ws))], "neg-mon")
                    if ck:
                        # the checksum word is never looked up in the list when the language is given: a near miss of it
                        # (same unique prefix, not a list word; a list word with the same prefix length; wrong case) must be refused
                        w2 = s.split(" ")
                        for near in (w2[-1] + "zz", w2[-1][:-1], w2[-1] + w2[-1][-1], w2[-1].capitalize()):
                            if near and near != w2[-1]:
                                yield Case("mondec", [lang, tx(" ".join(w2[:-1] + [near]))], "neg-mon-checksum-word")
        for sz in (0, 4, 15, 17, 24, 33):
            yield Case("monenc", [lang, hx(bytes(sz)), 1], "neg-mon-entlen")
    words = mon_words("ENGLISH")
    v1w = ElectrumV1WordsListGetter().GetByLanguage(ElectrumV1Languages.ENGLISH)
    v1words = [v1w.GetWordAtIdx(i) for i in range(v1w.Length())]
    for t in triple_cases(rng, tier):
        ws = [words[i] for i in t] * 4
        yield Case("mondec", ["ENGLISH", tx(" ".join(ws))], "triple")
        ws1 = [v1words[i] for i in t] * 4
        yield Case("ev1dec", [tx(" ".join(ws1)), "-"], "triple-v1")
    # ---- Electrum v1
    for _ in range(20 if tier == "quick" else 1500):
        e = bytes(rng.randrange(256) for _ in range(16))
        yield Case("ev1enc", [hx(e)], "v1-enc")
        s = ElectrumV1MnemonicEncoder().Encode(e).ToStr()
        yield Case("ev1dec", [tx(s), "-"], "v1-dec")
        ws = s.split(" ")
        ws[rng.randrange(12)] = rng.choice(v1words + ["x", "é"])
        yield Case("ev1dec", [tx(" ".join(ws if rng.random() < 0.8 else ws[:11])), oracle_for(" ".join(ws))], "neg-v1")
    for sz in (0, 4, 15, 17, 32):
        yield Case("ev1enc", [hx(bytes(sz))], "neg-v1-entlen")
    # ---- Algorand
    eng = Bip39WordsListGetter().GetByLanguage(Bip39Languages.ENGLISH)
    for _ in range(25 if tier == "quick" else 2000):
        e = bytes(rng.randrange(256) for _ in range(32))
        yield Case("algoenc", [hx(e)], "algo-enc")
        ws = AlgorandMnemonicEncoder().Encode(e).ToList()
        yield Case("algodec", ["ENGLISH", tx(" ".join(ws)), "-"], "algo-dec")
        yield Case("algodec", ["auto", tx(" ".join(ws)), "-"], "algo-dec")
        k = rng.randrange(4)
        if k == 0:      # non-canonical 24th word: unused high bits set
            i = eng.GetWordIdx(ws[23])
            ws[23] = eng.GetWordAtIdx((i & 7) | (rng.randrange(1, 256) << 3))
        elif k == 1:
            ws[24] = eng.GetWordAtIdx(rng.randrange(2048))
        elif k == 2:
            ws[rng.randrange(24)] = eng.GetWordAtIdx(rng.randrange(2048))
        else:
            ws = ws[:rng.choice([0, 12, 24])] if rng.random() < 0.5 else ws + ["abandon"]
        yield Case("algodec", ["ENGLISH", tx(" ".join(ws)), "-"], "neg-algo")
    # the 24th word carries 3 bits: every way of setting the unused high bits (each single bit, all of them, small multiples)
    # all 2048 words in the 24th position, each under the checksum word of the entropy its low 3 bits denote: exactly 8 are accepted
    for _ in range(1 if tier == "quick" else 10):
        e = bytearray(rng.randrange(256) for _ in range(32))
        by_low = {}
        for low in range(8):
            e[31] = (e[31] & 0x1f) | (low << 5)          # the last 3 entropy bits are the low bits of word 24
            ws = AlgorandMnemonicEncoder().Encode(bytes(e)).ToList()
            by_low[eng.GetWordIdx(ws[23]) & 7] = ws
        for v in range(2048):
            ws = by_low.get(v & 7)
            if ws is None:
                continue
            w2 = list(ws)
            w2[23] = eng.GetWordAtIdx(v)
            yield Case("algodec", ["ENGLISH", tx(" ".join(w2)), "-"], "algo-word24-sweep" if v < 8 else "neg-algo-padbits")
    for sz in (0, 16, 31, 33):
        yield Case("algoenc", [hx(bytes(sz))], "neg-algo-entlen")
    # ---- Electrum v2: bit-length boundaries of the entropy integer
    for b in (119, 120, 121, 122, 130, 131, 132, 133, 134, 252, 253, 254, 262, 263, 264, 265, 266):
        for d in (0, 1, 12367, (1 << (b - 1)) - 1):
            v = (1 << (b - 1)) + d            # an integer of exactly b bits
            for t in ("STANDARD", "SEGWIT"):
                yield Case("ev2enc", ["ENGLISH", t, hx(v.to_bytes((v.bit_length() + 7) // 8, "big"))], "v2-boundary")
    for i in range(6 if tier == "quick" else 150):
        t = V2_TYPES[i % 4]
        lang = V2_LANGS[i % 4]
        bits = (132, 264)[i % 2]
        e, s = v2_valid_entropy(rng, bits, t, lang)
        if e is None:
            continue
        yield Case("ev2enc", [lang, t, hx(e)], "v2-enc")
        yield Case("ev2dec", [lang, t, tx(s), oracle_for(s)], "v2-dec")
        yield Case("ev2dec", ["auto", "any", tx(s), oracle_for(s)], "v2-dec")
        other = V2_TYPES[(i + 1) % 4]
        yield Case("ev2dec", [lang, other, tx(s), oracle_for(s)], "neg-v2-type")
        ws = s.split(" ")
        ws[rng.randrange(len(ws))] = "abandon"
        yield Case("ev2dec", [lang, "any", tx(" ".join(ws)), oracle_for(" ".join(ws))], "neg-v2")
        yield Case("ev2dec", [lang, "any", tx(" ".join(ws[:-1])), oracle_for(" ".join(ws[:-1]))], "neg-v2")
    # languages the scheme does NOT define (F-ev2-foreign-language): a sentence of 12 words of another BIP-39 list whose version hash has the
    # standard prefix (found with hmac, 1 in 256) is made of words that belong to no Electrum-v2 list: refused with automatic detection
    import hmac as _hmac, hashlib as _hashlib, unicodedata as _ud
    for lang in ("ITALIAN", "FRENCH", "CZECH", "KOREAN", "CHINESE_TRADITIONAL") if tier != "quick" else ("ITALIAN", ("FRENCH", "CZECH", "KOREAN")[rng.randrange(3)]):
        wl = Bip39WordsListGetter().GetByLanguage(Bip39Languages[lang])
        own = [wl.GetWordAtIdx(i) for i in range(2048)]
        if lang in ("FRENCH", "CHINESE_TRADITIONAL"):     # keep only words no defined list contains (English / simplified Chinese overlap)
            other = Bip39WordsListGetter().GetByLanguage(Bip39Languages["ENGLISH" if lang == "FRENCH" else "CHINESE_SIMPLIFIED"])
            shared = {other.GetWordAtIdx(i) for i in range(2048)}
            own = [w for w in own if w not in shared]
        for _ in range(4000):
            ph = " ".join(rng.choice(own) for _ in range(12))
            if _hmac.new(b"Seed version", _ud.normalize("NFKD", ph).encode("utf-8"), _hashlib.sha512).hexdigest().startswith("01"):
                yield Case("ev2dec", ["auto", "any", tx(ph), oracle_for(ph)], "neg-v2-foreign-language")
                yield Case("ev2dec", ["auto", "STANDARD", tx(ph), oracle_for(ph)], "neg-v2-foreign-language")
                break
    # the BIP-39 exclusion, in every language of the scheme: a sentence with the standard version prefix that is also checksum-valid BIP-39
    for lang in V2_LANGS:
        wl = Bip39WordsListGetter().GetByLanguage(Bip39Languages[lang])
        lw = [wl.GetWordAtIdx(i) for i in range(2048)]
        for k in range(1 if tier == "quick" else 4):
            ph = v2_phrases_also_bip39(rng, lw, "01")
            if ph is not None:
                yield Case("ev2dec", [lang, "any", tx(ph), oracle_for(ph)], "neg-v2-also-bip39")
                yield Case("ev2dec", [lang, "STANDARD", tx(ph), oracle_for(ph)], "neg-v2-also-bip39")
                yield Case("ev2dec", ["auto", "any", tx(ph), oracle_for(ph)], "neg-v2-also-bip39")
    # the version prefix, digit by digit: 01 / 100 / 101 / 102 are the four types, every neighbour (103…10f, 00x, 02x, 11x) is none
    engw = [eng.GetWordAtIdx(i) for i in range(2048)]
    wanted = ["01", "100", "101", "102", "103", "104", "107", "108", "10f", "00", "02", "11", "1f"] if tier == "quick" else \
        ["01", "100", "101", "102"] + ["10%x" % d for d in range(3, 16)] + ["00", "02", "03", "11", "12", "1f", "f1"]
    for pre, ph in sorted(v2_prefix_phrases(rng, engw, wanted).items()):
        yield Case("ev2dec", ["ENGLISH", "any", tx(ph), oracle_for(ph)], "v2-prefix-" + ("type" if pre in ("01", "100", "101", "102") else "none"))
        yield Case("ev2dec", ["auto", "any", tx(ph), oracle_for(ph)], "v2-prefix-" + ("type" if pre in ("01", "100", "101", "102") else "none"))


class _cpu_limit:
    """promptness guard counted in CPU time of this process (ITIMER_VIRTUAL), so that what fits in it does not depend on the load of the
    machine: raises harness.core.Hang (a BaseException: library `except` clauses do not swallow it) inside the running call"""

    def __init__(self, sec):
        self.sec = sec

    def _fire(self, signum, frame):
        from harness.core import Hang
        raise Hang()

    def __enter__(self):
        import signal, threading
        self.on = threading.current_thread() is threading.main_thread()
        if self.on:
            self.old = signal.signal(signal.SIGVTALRM, self._fire)
            signal.setitimer(signal.ITIMER_VIRTUAL, self.sec)
        return self

    def __exit__(self, *a):
        import signal
        if self.on:
            signal.setitimer(signal.ITIMER_VIRTUAL, 0)
            signal.signal(signal.SIGVTALRM, self.old)
        return False


def _v2_generator_boundaries(rng, tier, rep):
    """ElectrumV2MnemonicGenerator.FromEntropy takes the given entropy as the start of an upward search for a value whose phrase carries the
    version prefix.  Near 2^132 / 2^264 the search runs out of 12-/24-word values (and below 2^121 / 2^253 it has none to start from).
    Whatever the generator returns is a phrase of the scheme: 12 words for a start of at most 132 bits (24 for 264), accepted by the
    validator and the decoder of the same type, and canonical (re-encoding the decoded entropy reproduces it).  Refusing is always allowed.
    A refusing search is long (10^6 attempts), so in the quick tier a call is given a fixed CPU budget and no answer counts as no answer."""
    from harness.core import Hang
    from bip_utils import ElectrumV2MnemonicGenerator, ElectrumV2MnemonicValidator
    n = 0
    if tier == "quick":
        combos = [("STANDARD", "ENGLISH", 132), ("STANDARD", V2_LANGS[rng.randrange(len(V2_LANGS))], 264)]
    else:
        combos = [(t, V2_LANGS[(i + j) % len(V2_LANGS)], b) for i, t in enumerate(V2_TYPES) for j, b in enumerate((132, 264))]
    for t, lang, bits in combos:
        T, L = ElectrumV2MnemonicTypes[t], ElectrumV2Languages[lang]
        top = 1 << bits
        starts = [top - 1 - rng.randrange(3)]                                              # (almost) nothing left below the boundary
        if tier == "thorough":
            starts += [top - 1, top - 2 - rng.randrange(60)]
        if t == "STANDARD":                                                                # 1 value in 256 carries the 2-digit prefix: quick searches
            starts += [top - 2500 - rng.randrange(3000), (1 << (bits - 11)), (1 << (bits - 11)) - 1 - rng.randrange(50), (1 << (bits - 1)) + rng.getrandbits(bits - 2)]
        for start in starts:
            n += 1
            raw = start.to_bytes((start.bit_length() + 7) // 8, "big")
            inp = "ElectrumV2MnemonicGenerator(%s, %s).FromEntropy(%s)  [2^%d - %d]" % (t, lang, raw.hex(), bits, top - start)
            try:
                with _cpu_limit(0.8 if tier == "quick" else 600):
                    m = ElectrumV2MnemonicGenerator(T, L).FromEntropy(raw)
                    phrase, count = m.ToStr(), m.WordsCount()
            except ValueError:
                continue
            except Hang:
                continue
            legal = 12 if bits == 132 else 24
            if count != legal:
                rep("Electrum v2 generator emits a phrase of %d words for a start value of at most %d bits" % (count, bits), inp, phrase, "%d words or refusal" % legal)
                continue
            if not ElectrumV2MnemonicValidator(T, L).IsValid(phrase):
                rep("Electrum v2 generator emits a phrase its own validator rejects", inp, phrase, "an accepted phrase or refusal")
                continue
            try:
                back = ElectrumV2MnemonicDecoder(T, L).Decode(phrase)
                again = ElectrumV2MnemonicEncoder(T, L).Encode(back).ToStr()
            except ValueError as ex:
                again = type(ex).__name__
            if again != phrase:
                rep("Electrum v2 generator emits a phrase that is not canonical (decode, then encode, does not reproduce it)", inp, again, phrase)
    return n


def _first_use(rng, tier, rep):
    """decoding is a function of (language, phrase) also when it is the first thing several threads do with a word list at the same moment
    (fresh interpreter; the list never loaded, or loaded by an encoder / a decoder constructor but never searched): Monero in its ten
    languages, Electrum v2 in its four, Electrum v1, Algorand.  References: the entropies the phrases were encoded from."""
    from harness.props.mnemonic_common import first_use_concurrently, task
    from bip_utils import AlgorandLanguages
    n = 0
    for run in range(1 if tier == "quick" else 6):
        plan = []                 # (label, before, [(task, want)])
        for lang in MONERO_LANGS:
            L = MoneroLanguages[lang]
            enc = MoneroMnemonicEncoder(L)
            before = [[], [task("MoneroMnemonicEncoder", [L], "EncodeWithChecksum", bytes(16))], [task("MoneroMnemonicDecoder", [L])]][rng.randrange(3)]
            tw = []
            for i in range(10):
                ent = b"\xff" * (16, 32)[i] if i < 2 else bytes(rng.randrange(256) for _ in range(rng.choice([16, 32])))
                ph = (enc.EncodeWithChecksum(ent) if i % 2 else enc.EncodeNoChecksum(ent)).ToStr()
                lg = L
                if i % 4 == 3:      # auto-detection, where this process (single-threaded, lists long in use) attributes the phrase to its language
                    try:
                        lg = None if MoneroMnemonicDecoder().Decode(ph) == ent else L
                    except ValueError:
                        lg = L
                if i % 3 == 2:
                    tw.append((task("MoneroMnemonicValidator", [lg], "IsValid", ph), "True"))
                else:
                    tw.append((task("MoneroMnemonicDecoder", [lg], "Decode", ph), ent.hex()))
            plan.append(("Monero " + lang, before, tw))
        for k, lang in enumerate(V2_LANGS if run % 2 == 0 else V2_LANGS[::-1]):
            L = ElectrumV2Languages[lang]
            tw = []
            e, ph = v2_valid_entropy(rng, 132 if tier == "quick" else (132, 264)[run % 2], "STANDARD", lang)      # (one search per language: it is the threads that matter)
            for i in range(6):
                if ph is not None:
                    tw.append((task("ElectrumV2MnemonicDecoder", [ElectrumV2MnemonicTypes.STANDARD if i % 2 else None, L if i % 3 else None], "Decode", ph), e.hex()))
            if tw:
                plan.append(("Electrum v2 " + lang, [[], [task("ElectrumV2MnemonicDecoder", [None, L])]][k % 2], tw))
        tw = []
        for i in range(8):
            ent = b"\xff" * 16 if i == 0 else bytes(rng.randrange(256) for _ in range(16))
            tw.append((task("ElectrumV1MnemonicDecoder", [], "Decode", ElectrumV1MnemonicEncoder().Encode(ent).ToStr()), ent.hex()))
        plan.append(("Electrum v1", [], tw))
        tw = []
        for i in range(8):
            ent = b"\xff" * 32 if i == 0 else bytes(rng.randrange(256) for _ in range(32))
            tw.append((task("AlgorandMnemonicDecoder", [AlgorandLanguages.ENGLISH if i % 2 else None], "Decode", AlgorandMnemonicEncoder().Encode(ent).ToStr()), ent.hex()))
        plan.append(("Algorand", [], tw))
        if run % 2:
            plan = plan[::-1]
        rounds = [{"before": before, "tasks": [t for t, _w in tw], "stagger": rng.choice([0, 40, 150, 600])} for _label, before, tw in plan]
        for (label, before, tw), res in zip(plan, first_use_concurrently(rounds)):
            for (t, w), (got, detail) in zip(tw + [(b_, "no exception") for b_ in before], res):
                n += 1
                if got != w:
                    rep("a valid %s phrase is not decoded to its entropy when %d threads use the word list for the first time at the same moment "
                        "(fresh interpreter; %s.%s)" % (label, len(tw), t["cls"], t["meth"]), t["arg"][1] if t["arg"] else "", (got + " " + detail).strip(), w)
    return n


def _v2_digit_points(rng, tier, rep):
    """every observation point accepts a phrase of legal count, in-list words and verifying version prefix whatever its base-2048 digits
    are, and reads it little-endian (independent integer); when the most significant digit is not zero the phrase is the encoder's phrase
    for that entropy (canonical), and the generator started at that entropy returns it"""
    from bip_utils import ElectrumV2MnemonicValidator, ElectrumV2SeedGenerator, ElectrumV2MnemonicGenerator, ElectrumV2Mnemonic
    v1 = set(_v1_words())
    n = 0

    def gen_round_trip(T, L, raw):
        g = ElectrumV2MnemonicGenerator(T, L).FromEntropy(raw).ToStr()
        return "reproduced" if ElectrumV2MnemonicEncoder(T, L).Encode(ElectrumV2MnemonicDecoder(T, L).Decode(g)).ToStr() == g else "not reproduced: " + g

    sweep = _SWEEP[0] if _SWEEP[0] is not None else v2_digit_sweep(rng, tier)
    for lang, t, ws, v, pos, wi in sweep:
        if all(w in v1 for w in ws) or ws[-1] == v2_lists()[lang][0]:      # Electrum-v1 exclusion; most significant digit zero (listed finding F-v2-noncanon)
            continue
        T, L = ElectrumV2MnemonicTypes[t], ElectrumV2Languages[lang]
        s = " ".join(ws)
        raw = v.to_bytes((v.bit_length() + 7) // 8, "big")
        where = "Electrum v2 %s %s phrase of %d words whose word %d (base-2048 digit %d, word 0 is the least significant) is %r" % (lang, t, len(ws), pos, pos, ws[pos])
        obs = [("ElectrumV2MnemonicDecoder(%s, %s).Decode" % (t, lang), lambda: ElectrumV2MnemonicDecoder(T, L).Decode(s).hex(), raw.hex()),
               ("ElectrumV2MnemonicDecoder().Decode", lambda: ElectrumV2MnemonicDecoder().Decode(s).hex(), raw.hex()),
               ("ElectrumV2MnemonicDecoder(None, %s).Decode(ElectrumV2Mnemonic object)" % lang, lambda: ElectrumV2MnemonicDecoder(None, L).Decode(ElectrumV2Mnemonic.FromList(list(ws))).hex(), raw.hex()),
               ("ElectrumV2MnemonicValidator(%s, %s).IsValid" % (t, lang), lambda: str(ElectrumV2MnemonicValidator(T, L).IsValid(s)), "True"),
               ("ElectrumV2MnemonicValidator().Validate", lambda: str(ElectrumV2MnemonicValidator().Validate(s)), "None"),
               ("ElectrumV2SeedGenerator(phrase, %s)" % lang, lambda: "a generator" if ElectrumV2SeedGenerator(s, L) else "", "a generator"),
               ("ElectrumV2MnemonicEncoder(%s, %s).Encode" % (t, lang), lambda: ElectrumV2MnemonicEncoder(T, L).Encode(raw).ToStr(), s),
               # (where the generator's upward search starts is its own business: whatever it returns from here is decodable and canonical)
               ("ElectrumV2MnemonicGenerator(%s, %s).FromEntropy(this entropy), decoded and re-encoded" % (t, lang), lambda: gen_round_trip(T, L, raw), "reproduced")]
        for name, f, want in obs:
            n += 1
            try:
                got = f()
            except Exception as ex:  # noqa
                got = "refused (%s: %s)" % (type(ex).__name__, str(ex)[:80])
            if got != want:
                rep("%s departs from the Electrum v2 codec on a %s" % (name, where), "%s | entropy %s" % (s, raw.hex()), got, want)
    return n


def _v1_words():
    wl = ElectrumV1WordsListGetter().GetByLanguage(ElectrumV1Languages.ENGLISH)
    return [wl.GetWordAtIdx(i) for i in range(wl.Length())]


def _history(rng, tier, rep):
    """'a phrase is accepted if and only if …' speaks about the phrase: a decoder / validator object that has been asked before, about valid
    phrases and about phrases it refused (at whatever word and for whatever reason), answers the next phrase as a fresh object does —
    Monero, Algorand, Electrum v1, Electrum v2; language given and auto-detecting."""
    from bip_utils import (MoneroMnemonicValidator, AlgorandMnemonicValidator, AlgorandLanguages, ElectrumV1MnemonicValidator, ElectrumV2MnemonicValidator, MoneroMnemonic)
    from harness.props.mnemonic_common import history_independent
    from harness.props.c01 import _rejected_variants
    n = 0

    def script_of(valid, words, foreign):
        sc = []
        for ws in valid:
            good = ("valid %d-word phrase" % len(ws), " ".join(ws))
            for rej in _rejected_variants(rng, words, ws, foreign):
                sc += [rej, good]
            sc.append(good)
        if tier == "quick":
            pairs = [sc[i:i + 2] for i in range(0, len(sc) - 1, 2)]
            sc = [x for pr in rng.sample(pairs, min(len(pairs), 20)) for x in pr]
        return sc

    mlists = {l: mon_words(l) for l in MONERO_LANGS}
    msets = {l: set(mlists[l]) for l in MONERO_LANGS}
    for lang in (MONERO_LANGS if tier == "thorough" else rng.sample(MONERO_LANGS, 2)):
        L, words = MoneroLanguages[lang], mlists[lang]
        enc = MoneroMnemonicEncoder(L)
        valid = []
        for sz in (16, 32):
            e = bytes(rng.randrange(256) for _ in range(sz))
            valid += [enc.EncodeWithChecksum(e).ToList(), enc.EncodeNoChecksum(e).ToList()]
        rng.shuffle(valid)
        foreign = [w for l in MONERO_LANGS if l != lang for w in rng.sample(mlists[l], 6) if w not in words]
        sc = script_of(valid, words, foreign)
        for lg_name, lg in ((lang, L), ("auto-detected", None)):
            # auto-detecting objects are only asked about token sequences that at most one list can read (which list answers otherwise is not this clause)
            sc2 = [(k, p) for k, p in sc if lg is not None or not p.split() or sum(1 for l in MONERO_LANGS if all(w in msets[l] for w in p.split())) <= 1]
            n += history_independent(rep, "Monero %s" % lang, [
                ("MoneroMnemonicDecoder(%s).Decode" % lg_name, lambda: MoneroMnemonicDecoder(lg), lambda o, p: o.Decode(p)),
                ("MoneroMnemonicValidator(%s).IsValid" % lg_name, lambda: MoneroMnemonicValidator(lg), lambda o, p: o.IsValid(p)),
                ("MoneroMnemonicDecoder(%s).Decode(MoneroMnemonic object)" % lg_name, lambda: MoneroMnemonicDecoder(lg), lambda o, p: o.Decode(MoneroMnemonic.FromString(p))),
                ("MoneroMnemonicValidator(%s).Validate" % lg_name, lambda: MoneroMnemonicValidator(lg), lambda o, p: o.Validate(p))], sc2)
    eng = Bip39WordsListGetter().GetByLanguage(Bip39Languages.ENGLISH)
    engw = [eng.GetWordAtIdx(i) for i in range(2048)]
    foreign = [w for w in rng.sample(mlists["ENGLISH"] + mlists[MONERO_LANGS[-1]], 24) if w not in engw][:8] or ["qqqq"]
    valid = [AlgorandMnemonicEncoder().Encode(bytes(rng.randrange(256) for _ in range(32))).ToList() for _ in range(2)]
    for lg_name, lg in (("ENGLISH", AlgorandLanguages.ENGLISH), ("auto-detected", None)):
        n += history_independent(rep, "Algorand", [
            ("AlgorandMnemonicDecoder(%s).Decode" % lg_name, lambda: AlgorandMnemonicDecoder(lg), lambda o, p: o.Decode(p)),
            ("AlgorandMnemonicValidator(%s).IsValid" % lg_name, lambda: AlgorandMnemonicValidator(lg), lambda o, p: o.IsValid(p))], script_of(valid, engw, foreign))
    v1w = _v1_words()
    valid = [ElectrumV1MnemonicEncoder().Encode(bytes(rng.randrange(256) for _ in range(16))).ToList() for _ in range(2)]
    n += history_independent(rep, "Electrum v1", [
        ("ElectrumV1MnemonicDecoder().Decode", lambda: ElectrumV1MnemonicDecoder(), lambda o, p: o.Decode(p)),
        ("ElectrumV1MnemonicDecoder(None).Decode", lambda: ElectrumV1MnemonicDecoder(None), lambda o, p: o.Decode(p)),
        ("ElectrumV1MnemonicValidator().IsValid", lambda: ElectrumV1MnemonicValidator(), lambda o, p: o.IsValid(p))], script_of(valid, v1w, [w for w in rng.sample(engw, 30) if w not in v1w][:8]))
    lists = v2_lists()
    from harness.props.c01 import words_of as _b39_words
    b39sets = {l.name: set(_b39_words(l.name)) for l in Bip39Languages}
    for lang in (V2_LANGS if tier == "thorough" else ["ENGLISH", rng.choice([l for l in V2_LANGS if l != "ENGLISH"])]):
        L, words = ElectrumV2Languages[lang], lists[lang]
        valid = [v2_phrase_with_word(rng, words, "01", nw, rng.randrange(nw), rng.randrange(2048), [words])[0] for nw in (12, 24, 12)]
        other = [l for l in V2_LANGS if l != lang]
        foreign = [w for l in other for w in rng.sample(lists[l], 6) if w not in words]
        sc = script_of([v_ for v_ in valid if v_], words, foreign)
        for lg_name, ty, lg in ((lang, ElectrumV2MnemonicTypes.STANDARD, L), ("auto-detected", None, None)):
            sc2 = [(k, p) for k, p in sc if lg is not None or not p.split() or sum(1 for l in b39sets if all(w in b39sets[l] for w in p.split())) <= 1]      # (the finder looks through all BIP-39 lists)
            n += history_independent(rep, "Electrum v2 %s" % lang, [
                ("ElectrumV2MnemonicDecoder(%s, %s).Decode" % (ty.name if ty else None, lg_name), lambda: ElectrumV2MnemonicDecoder(ty, lg), lambda o, p: o.Decode(p)),
                ("ElectrumV2MnemonicValidator(%s, %s).IsValid" % (ty.name if ty else None, lg_name), lambda: ElectrumV2MnemonicValidator(ty, lg), lambda o, p: o.IsValid(p))], sc2)
    return n


def _mnemonic_objects(rng, tier, rep):
    """the phrase handed over as a Mnemonic object (the scheme's class or the generic container, built from a list or a string): every
    observation point gives the verdict it gives for the str at EVERY attempt on the same object, and the object still spells the phrase —
    a wrong checksum word is refused each time, an accepted phrase stays the canonical encoding of its entropy."""
    from bip_utils import (MoneroMnemonic, MoneroMnemonicValidator, MoneroSeedGenerator, AlgorandMnemonic, AlgorandMnemonicValidator, AlgorandSeedGenerator,
                           AlgorandLanguages, ElectrumV1Mnemonic, ElectrumV1MnemonicValidator, ElectrumV1SeedGenerator, ElectrumV2Mnemonic,
                           ElectrumV2MnemonicValidator, ElectrumV2SeedGenerator)
    from bip_utils.utils.mnemonic import Mnemonic
    from harness.props.mnemonic_common import mnemonic_objects_stable
    n = 0

    def forms(cls):
        return [(cls.__name__ + ".FromList", lambda t: cls.FromList(t)), (cls.__name__ + "(list)", lambda t: cls(t)),
                ("Mnemonic.FromList", lambda t: Mnemonic.FromList(t)), (cls.__name__ + ".FromString", lambda t: cls.FromString(" ".join(t)))]

    def wrong_last(ws, words):
        return ws[:-1] + [rng.choice([w for w in (ws[:-1] if rng.random() < 0.5 else rng.sample(words, 4)) if w != ws[-1]])]

    for lang in (MONERO_LANGS if tier == "thorough" else ["ENGLISH", rng.choice([l for l in MONERO_LANGS if l != "ENGLISH"])]):
        L, words = MoneroLanguages[lang], mon_words(lang)
        enc = MoneroMnemonicEncoder(L)
        cases = []
        for sz in (16, 32):
            e = bytes(rng.randrange(256) for _ in range(sz))
            ck, nock = enc.EncodeWithChecksum(e).ToList(), enc.EncodeNoChecksum(e).ToList()
            cases += [("valid, with checksum word", ck), ("wrong checksum word", wrong_last(ck, words)), ("valid, no checksum word", nock), ("one word fewer", nock[:-1])]
        points = [("MoneroMnemonicDecoder(%s).Decode" % lang, lambda a: MoneroMnemonicDecoder(L).Decode(a)),
                  ("MoneroMnemonicDecoder().Decode", lambda a: MoneroMnemonicDecoder().Decode(a)),
                  ("MoneroMnemonicValidator(%s).IsValid" % lang, lambda a: MoneroMnemonicValidator(L).IsValid(a)),
                  ("MoneroMnemonicValidator().Validate", lambda a: MoneroMnemonicValidator().Validate(a)),
                  ("MoneroSeedGenerator(phrase, %s).Generate" % lang, lambda a: MoneroSeedGenerator(a, L).Generate())]
        n += mnemonic_objects_stable(rep, "Monero %s" % lang, cases, forms(MoneroMnemonic), points)
    eng = Bip39WordsListGetter().GetByLanguage(Bip39Languages.ENGLISH)
    engw = [eng.GetWordAtIdx(i) for i in range(2048)]
    a = AlgorandMnemonicEncoder().Encode(bytes(rng.randrange(256) for _ in range(32))).ToList()
    n += mnemonic_objects_stable(rep, "Algorand", [("valid", a), ("wrong checksum word", wrong_last(a, engw)), ("one word fewer", a[:-1])], forms(AlgorandMnemonic), [
        ("AlgorandMnemonicDecoder().Decode", lambda x: AlgorandMnemonicDecoder().Decode(x)), ("AlgorandMnemonicDecoder(None).Decode", lambda x: AlgorandMnemonicDecoder(None).Decode(x)),
        ("AlgorandMnemonicValidator().IsValid", lambda x: AlgorandMnemonicValidator().IsValid(x)), ("AlgorandSeedGenerator(phrase).Generate", lambda x: AlgorandSeedGenerator(x).Generate())])
    v = ElectrumV1MnemonicEncoder().Encode(bytes(rng.randrange(256) for _ in range(16))).ToList()
    n += mnemonic_objects_stable(rep, "Electrum v1", [("valid", v), ("one word fewer", v[:-1]), ("a token in no list", v[:5] + ["qqqqzzzz"] + v[6:])], forms(ElectrumV1Mnemonic), [
        ("ElectrumV1MnemonicDecoder().Decode", lambda x: ElectrumV1MnemonicDecoder().Decode(x)), ("ElectrumV1MnemonicValidator().IsValid", lambda x: ElectrumV1MnemonicValidator().IsValid(x))
    ] + ([("ElectrumV1SeedGenerator(phrase) constructed", lambda x: bool(ElectrumV1SeedGenerator(x)))] if tier == "thorough" else []))      # (100000 hashes per construction)
    lists = v2_lists()
    for lang in (V2_LANGS if tier == "thorough" else [rng.choice(V2_LANGS)]):
        L, words = ElectrumV2Languages[lang], lists[lang]
        cases = []
        for nw in (12, 24):
            ws = v2_phrase_with_word(rng, words, "01", nw, rng.randrange(nw), rng.randrange(2048), [words])[0]
            if ws:
                cases += [("valid", ws), ("first two words exchanged", [ws[1], ws[0]] + ws[2:]), ("one word fewer", ws[:-1])]
        n += mnemonic_objects_stable(rep, "Electrum v2 %s" % lang, cases, forms(ElectrumV2Mnemonic), [
            ("ElectrumV2MnemonicDecoder(STANDARD, %s).Decode" % lang, lambda x: ElectrumV2MnemonicDecoder(ElectrumV2MnemonicTypes.STANDARD, L).Decode(x)),
            ("ElectrumV2MnemonicDecoder().Decode", lambda x: ElectrumV2MnemonicDecoder().Decode(x)),
            ("ElectrumV2MnemonicValidator().IsValid", lambda x: ElectrumV2MnemonicValidator().IsValid(x)),
            ("ElectrumV2SeedGenerator(phrase, %s) constructed" % lang, lambda x: bool(ElectrumV2SeedGenerator(x, L)))])
    return n


def _configurations(rng, tier, rep, rpt):
    """the codecs are functions of (language, entropy / phrase) however the interpreter was started: asked again in fresh interpreters whose
    locale encoding is not UTF-8 / that run with -OO from another directory, the encoders give the phrases this process gets (the
    no-checksum ones are also computed from the definition) and the decoders the entropies the phrases were encoded from."""
    from harness.props.mnemonic_common import configurations, in_configuration, task
    from bip_utils import AlgorandLanguages
    n = 0
    facts = {}
    mlists = {l: set(mon_words(l)) for l in MONERO_LANGS}
    for config in configurations(rng)[: 1 if tier == "quick" else None]:      # (quick: the locale; C01's check runs the other configuration on the shared file reader too)
        first = config[0].startswith("the locale")
        tasks, wants = [], []
        for lang in (MONERO_LANGS if first or tier == "thorough" else rng.sample(MONERO_LANGS, 2)):
            L, words = MoneroLanguages[lang], mon_words(lang)
            e = bytes(rng.randrange(256) for _ in range(rng.choice([16, 32])))
            ck = MoneroMnemonicEncoder(L).EncodeWithChecksum(e).ToStr()
            single = sum(1 for l in MONERO_LANGS if all(w in mlists[l] for w in set(ck.split(" ")))) == 1
            tasks += [task("MoneroMnemonicEncoder", [L], "EncodeNoChecksum", e), task("MoneroMnemonicEncoder", [L], "EncodeWithChecksum", e),
                      task("MoneroMnemonicDecoder", [L], "Decode", ck), task("MoneroMnemonicValidator", [None if single else L], "IsValid", ck)]
            wants += [" ".join(mon_ref_words(words, e)), ck, e.hex(), "True"]
        for lang in (V2_LANGS if first else V2_LANGS[:1]):
            e, ph = v2_valid_entropy(rng, 132, "STANDARD", lang)
            if ph is not None:
                tasks += [task("ElectrumV2MnemonicEncoder", [ElectrumV2MnemonicTypes.STANDARD, ElectrumV2Languages[lang]], "Encode", e),
                          task("ElectrumV2MnemonicDecoder", [None, ElectrumV2Languages[lang]], "Decode", ph), task("ElectrumV2MnemonicDecoder", [None, None], "Decode", ph)]
                wants += [ph, e.hex(), e.hex()]
        e = bytes(rng.randrange(256) for _ in range(32))
        ph = AlgorandMnemonicEncoder().Encode(e).ToStr()
        tasks += [task("AlgorandMnemonicEncoder", [], "Encode", e), task("AlgorandMnemonicDecoder", [None], "Decode", ph)]
        wants += [ph, e.hex()]
        e = bytes(rng.randrange(256) for _ in range(16))
        ph = ElectrumV1MnemonicEncoder().Encode(e).ToStr()
        tasks += [task("ElectrumV1MnemonicEncoder", [], "Encode", e), task("ElectrumV1MnemonicDecoder", [], "Decode", ph)]
        wants += [ph, e.hex()]
        info, res = in_configuration(tasks, config)
        facts[config[0]] = info
        for t, w, (got, detail) in zip(tasks, wants, res):
            n += 1
            if got != w:
                rep("a mnemonic codec answers differently in another process configuration — %s (child: preferred encoding %s): %s(%s).%s" % (
                    config[0], info.get("encoding"), t["cls"], ", ".join(a[1][1] if a else "None" for a in t["ctor"]), t["meth"]),
                    t["arg"][1], (got + " " + detail).strip(), w)
    rpt.extra["process_configurations"] = facts
    return n


def relations(rng, tier, rpt):
    """decode(encode(e)) == e and canonicity (encode(decode(phrase)) == phrase for accepted phrases) on the implementation."""
    bad = []
    n = 0

    def rep(what, inp, got, want):
        bad.append({"property": "C17", "entry_point": what, "request_lines": [], "relation": what, "input": inp,
                    "impl_output": got, "model_output": want, "no_failing_input": False})

    from harness.props.accessors_common import generators_valid
    for what, inp, got, want in generators_valid():      # random-entropy generators: right length, accepted by their own validator
        if not what.startswith("Bip39"):
            rep(what, inp, got, want)
    words = mon_words("ENGLISH")
    dec = MoneroMnemonicDecoder(MoneroLanguages.ENGLISH)
    enc = MoneroMnemonicEncoder(MoneroLanguages.ENGLISH)
    for t in triple_cases(rng, "quick"):
        ws = [words[i] for i in t] * 4
        n += 1
        try:
            e = dec.Decode(" ".join(ws))
        except ValueError:
            continue
        if len(e) != 16:
            rep("Monero phrase decodes to an entropy length the scheme does not define", " ".join(ws), e.hex(), "16 bytes or rejection")
        elif enc.EncodeNoChecksum(e).ToList() != ws:
            rep("accepted Monero phrase is not canonical", " ".join(ws), enc.EncodeNoChecksum(e).ToStr(), " ".join(ws))
    for lang in MONERO_LANGS:
        enc_l, dec_l = MoneroMnemonicEncoder(MoneroLanguages[lang]), MoneroMnemonicDecoder(MoneroLanguages[lang])
        for sz in (16, 32):
            e = bytes(rng.randrange(256) for _ in range(sz))
            n += 1
            if dec_l.Decode(enc_l.EncodeWithChecksum(e).ToStr()) != e or dec_l.Decode(enc_l.EncodeNoChecksum(e).ToStr()) != e:
                rep("Monero decode(encode(e)) != e", lang + " " + e.hex(), "?", e.hex())
    for _ in range(10 if tier == "quick" else 300):
        e = bytes(rng.randrange(256) for _ in range(32))
        n += 1
        if AlgorandMnemonicDecoder().Decode(AlgorandMnemonicEncoder().Encode(e).ToStr()) != e:
            rep("Algorand decode(encode(e)) != e", e.hex(), "?", e.hex())
        e16 = e[:16]
        if ElectrumV1MnemonicDecoder().Decode(ElectrumV1MnemonicEncoder().Encode(e16).ToStr()) != e16:
            rep("Electrum v1 decode(encode(e)) != e", e16.hex(), "?", e16.hex())
    # Electrum v2: every encoder output is accepted by the decoder and has 12/24 words
    for b in (121, 122, 131, 132, 133, 253, 263, 264, 265):
        for d in range(0, 600 if tier == "quick" else 6000):
            v = (1 << (b - 1)) + d
            try:
                m = ElectrumV2MnemonicEncoder(ElectrumV2MnemonicTypes.STANDARD).Encode(v.to_bytes((v.bit_length() + 7) // 8, "big"))
            except ValueError:
                continue
            n += 1
            if m.WordsCount() not in (12, 24):
                rep("Electrum v2 encoder emits %d words" % m.WordsCount(), hex(v), m.ToStr(), "12 or 24 words or refusal")
                break
            try:
                back = ElectrumV2MnemonicDecoder().Decode(m)
                if int.from_bytes(back, "big") != v:
                    rep("Electrum v2 decode(encode(e)) != e", hex(v), back.hex(), hex(v))
            except ValueError as ex:
                rep("Electrum v2 decoder rejects an encoder output", hex(v), type(ex).__name__, "accepted")
            break
    # one decoder / validator object reused for phrases of different languages and kinds: same answers as fresh objects
    from bip_utils import MoneroMnemonicValidator, Bip39MnemonicDecoder as _B39D, Bip39MnemonicEncoder as _B39E
    shared_d, shared_v = MoneroMnemonicDecoder(), MoneroMnemonicValidator()
    order = list(MONERO_LANGS)
    rng.shuffle(order)
    for lang in order + order[:3]:
        e = bytes(rng.randrange(256) for _ in range(rng.choice([16, 32])))
        ph = MoneroMnemonicEncoder(MoneroLanguages[lang]).EncodeWithChecksum(e).ToStr()
        n += 1
        for what, f_shared, f_fresh in (("MoneroMnemonicDecoder().Decode", lambda: shared_d.Decode(ph).hex(), lambda: MoneroMnemonicDecoder().Decode(ph).hex()),
                                        ("MoneroMnemonicValidator().IsValid", lambda: str(shared_v.IsValid(ph)), lambda: str(MoneroMnemonicValidator().IsValid(ph)))):
            outs = []
            for f in (f_shared, f_fresh):
                try:
                    outs.append(f())
                except Exception as ex:  # noqa
                    outs.append(type(ex).__name__)
            if outs[0] != outs[1] or outs[1] not in (e.hex(), "True"):
                rep("%s on a reused auto-detecting object differs from a fresh object (valid %s phrase)" % (what, lang), ph, outs[0], outs[1])
    sh39 = _B39D()
    for lang in list(Bip39Languages)[::-1]:
        e = bytes(rng.randrange(256) for _ in range(16))
        ph = _B39E(lang).Encode(e).ToStr()
        try:
            got = sh39.Decode(ph).hex()
        except Exception as ex:  # noqa
            got = type(ex).__name__
        if got != _B39D().Decode(ph).hex():
            rep("Bip39MnemonicDecoder() reused across languages differs from a fresh object", ph, got, _B39D().Decode(ph).hex())
    # listed witness F-v2-noncanon: accepted phrase whose entropy cannot be re-encoded
    w = "polar soft laptop return bone issue network address goat coyote earn abandon"
    try:
        e = ElectrumV2MnemonicDecoder(ElectrumV2MnemonicTypes.STANDARD, ElectrumV2Languages.ENGLISH).Decode(w)
        try:
            ok = ElectrumV2MnemonicEncoder(ElectrumV2MnemonicTypes.STANDARD).Encode(e).ToStr() == w
        except ValueError:
            ok = False
        if not ok:
            rep("accepted Electrum v2 phrase is not canonical", w, e.hex(), "rejection or canonical entropy")
            bad[-1]["finding_id"] = "F-v2-noncanon"
    except ValueError:
        pass
    rpt.extra["v2_generator_boundary_checks"] = _v2_generator_boundaries(rng, tier, rep)
    rpt.extra["first_use_concurrent_observations"] = _first_use(rng, tier, rep)
    rpt.extra["v2_digit_observation_points"] = _v2_digit_points(rng, tier, rep)
    rpt.extra["history_checks"] = _history(rng, tier, rep)
    rpt.extra["mnemonic_object_checks"] = _mnemonic_objects(rng, tier, rep)
    rpt.extra["configuration_checks"] = _configurations(rng, tier, rep, rpt)
    rpt.extra["impl_relation_checks"] = n
    return bad[:12]


def search_broken(broken, rng):
    """a word-list table theorem failed (a Monero or Electrum-v1 list no longer equals the registered one, has a duplicate, or lost
    the unique-prefix property): exhibit an entropy whose phrase is not the registered one, or which no longer decodes to itself."""
    import os
    from harness.core import VERIF

    def ref_words(gold, ent):
        n = len(gold)
        out = []
        for i in range(0, len(ent), 4):
            x = int.from_bytes(ent[i:i + 4], "little")
            w1 = x % n
            w2 = (x // n + w1) % n
            w3 = (x // n // n + w2) % n
            out += [gold[w1], gold[w2], gold[w3]]
        return out
    for lang in MONERO_LANGS:
        gold = [w for w in open(os.path.join(VERIF, "golden", "monero", lang + ".txt"), encoding="utf-8").read().split("\n") if w]
        try:
            cur = mon_words(lang)
        except Exception as ex:  # noqa
            return {"relation": "Monero word list %s cannot be loaded: %s" % (lang, ex), "impl_output": type(ex).__name__, "model_output": "%d words" % len(gold)}
        suspects = [i for i, (a, b) in enumerate(zip(cur, gold)) if a != b]
        seen = {}
        for i, w in enumerate(cur):
            if w in seen:
                suspects += [seen[w], i]
            seen[w] = i
        for i in suspects:
            for k in range(3):
                chunk = ((i + (rng.randrange(len(gold)) if k else 0) * len(gold)) % 2**32).to_bytes(4, "little")      # first word of the chunk has index i
                ent = chunk * 4
                enc, dec = MoneroMnemonicEncoder(MoneroLanguages[lang]), MoneroMnemonicDecoder(MoneroLanguages[lang])
                try:
                    got = enc.EncodeNoChecksum(ent).ToList()
                    back = dec.Decode(" ".join(got)).hex()
                except Exception as ex:  # noqa
                    got, back = [type(ex).__name__], type(ex).__name__
                want = ref_words(gold, ent)
                if got != want:
                    return {"relation": "word %d of the Monero %s list differs from the registered list: the phrase of an entropy is not the registered one" % (i, lang),
                            "entry_point": "MoneroMnemonicEncoder(%s).EncodeNoChecksum" % lang, "input": ent.hex(), "impl_output": " ".join(got), "model_output": " ".join(want),
                            "request_lines": ["monenc %s %s 0" % (lang, hx(ent))]}
                if back != ent.hex():
                    return {"relation": "Monero %s list: decode(encode(entropy)) is not the entropy (word %d is ambiguous)" % (lang, i),
                            "entry_point": "MoneroMnemonicDecoder(%s).Decode" % lang, "input": ent.hex(), "impl_output": back, "model_output": ent.hex(),
                            "request_lines": ["mondec %s %s" % (lang, tx(" ".join(got)))]}
        if len(cur) != len(gold):
            return {"relation": "Monero word list %s has %d entries" % (lang, len(cur)), "impl_output": str(len(cur)), "model_output": str(len(gold))}
    return None
