"""Address formats: implementation classes, parameter spaces and protocol fields (C08/C09/C10/C14)."""
import bip_utils as B
from bip_utils.addr import *  # noqa
from harness.canon import hx, tx, unhx, untx
from harness.canon import conf_params
from bip_utils import (Secp256k1PrivateKey, Nist256p1PrivateKey, Ed25519PrivateKey, Ed25519Blake2bPrivateKey,
                       Ed25519MoneroPrivateKey, Secp256k1PublicKey, Nist256p1PublicKey, Ed25519PublicKey,
                       Ed25519Blake2bPublicKey, Ed25519MoneroPublicKey, Base58Alphabets, P2PKHPubKeyModes,
                       Ed25519KholawPrivateKey, Ed25519KholawPublicKey)

PRIV = {"secp256k1": Secp256k1PrivateKey, "nist256p1": Nist256p1PrivateKey, "ed25519": Ed25519PrivateKey,
        "ed25519blake2b": Ed25519Blake2bPrivateKey, "ed25519monero": Ed25519MoneroPrivateKey, "ed25519kholaw": Ed25519KholawPrivateKey}
PUB = {"secp256k1": Secp256k1PublicKey, "nist256p1": Nist256p1PublicKey, "ed25519": Ed25519PublicKey,
       "ed25519blake2b": Ed25519Blake2bPublicKey, "ed25519monero": Ed25519MoneroPublicKey, "ed25519kholaw": Ed25519KholawPublicKey}
ORDERS = {"secp256k1": 0xFFFFFFFFFFFFFFFFFFFFFFFFFFFFFFFEBAAEDCE6AF48A03BBFD25E8CD0364141,
          "nist256p1": 0xFFFFFFFF00000000FFFFFFFFFFFFFFFFBCE6FAADA7179E84F3B9CAC2FC632551,
          "ed25519monero": 2**252 + 27742317777372353535851937790883648493}


def conv_kw(fmt, kw):
    """protocol kw fields -> python kwargs of EncodeKey/DecodeAddr"""
    out = {}
    for k, v in kw.items():
        if k in ("net_ver", "ver", "prefix", "suffix", "payment_id", "pub_vkey"):
            out[k] = unhx(v)
        elif k == "hrp":
            out[k] = untx(v)
        elif k == "alph":
            out["base58_alph"] = Base58Alphabets.RIPPLE if v == "xrp" else Base58Alphabets.BITCOIN
        elif k == "compressed":
            out["pub_key_mode"] = P2PKHPubKeyModes.COMPRESSED if v == "1" else P2PKHPubKeyModes.UNCOMPRESSED
        elif k in ("skip_chksum_enc", "trim_zeroes"):
            out[k] = v == "1"
        elif k == "net_type":
            out[k] = ErgoNetworkTypes(int(v))
        elif k == "addr_type":
            out[k] = XlmAddrTypes(int(v))
        elif k == "ss58_format":
            out[k] = int(v)
        else:
            raise KeyError(k)
    if fmt == "xtz":
        out["prefix"] = XtzAddrPrefixes(out["prefix"])
    return out


# name -> (curve, encoder, decoder, [parameter sets as protocol fields])
def formats(coin_params):
    """coin_params: dict with lists gathered from the coin tables (net versions, hrps, ss58 formats...)."""
    P = coin_params
    return {
        "p2pkh": ("secp256k1", P2PKHAddrEncoder, P2PKHAddrDecoder,
                  [{"net_ver": hx(v), "compressed": c} for v in P["p2pkh_net_ver"] for c in ("1", "0")] + [{"net_ver": hx(b"\x00"), "alph": "xrp"}]),
        "p2sh": ("secp256k1", P2SHAddrEncoder, P2SHAddrDecoder, [{"net_ver": hx(v)} for v in P["p2sh_net_ver"]]),
        "bchp2pkh": ("secp256k1", BchP2PKHAddrEncoder, BchP2PKHAddrDecoder, [{"hrp": tx(h), "net_ver": hx(v)} for h, v in P["bch_p2pkh"]]),
        "bchp2sh": ("secp256k1", BchP2SHAddrEncoder, BchP2SHAddrDecoder, [{"hrp": tx(h), "net_ver": hx(v)} for h, v in P["bch_p2sh"]]),
        "p2wpkh": ("secp256k1", P2WPKHAddrEncoder, P2WPKHAddrDecoder, [{"hrp": tx(h)} for h in P["p2wpkh_hrp"]]),
        "p2tr": ("secp256k1", P2TRAddrEncoder, P2TRAddrDecoder, [{"hrp": tx(h)} for h in P["p2tr_hrp"]]),
        "atom": ("secp256k1", AtomAddrEncoder, AtomAddrDecoder, [{"hrp": tx(h)} for h in P["addr_hrp"]]),
        "avaxp": ("secp256k1", AvaxPChainAddrEncoder, AvaxPChainAddrDecoder, [{}]),
        "avaxx": ("secp256k1", AvaxXChainAddrEncoder, AvaxXChainAddrDecoder, [{}]),
        "eth": ("secp256k1", EthAddrEncoder, EthAddrDecoder, [{}, {"skip_chksum_enc": "1"}]),
        "inj": ("secp256k1", InjAddrEncoder, InjAddrDecoder, [{}]),
        "okex": ("secp256k1", OkexAddrEncoder, OkexAddrDecoder, [{}]),
        "one": ("secp256k1", OneAddrEncoder, OneAddrDecoder, [{}]),
        "trx": ("secp256k1", TrxAddrEncoder, TrxAddrDecoder, [{}]),
        "aptos": ("ed25519", AptosAddrEncoder, AptosAddrDecoder, [{}, {"trim_zeroes": "1"}]),
        "sui": ("ed25519", SuiAddrEncoder, SuiAddrDecoder, [{}]),
        "icx": ("secp256k1", IcxAddrEncoder, IcxAddrDecoder, [{}]),
        "near": ("ed25519", NearAddrEncoder, NearAddrDecoder, [{}]),
        "eos": ("secp256k1", EosAddrEncoder, EosAddrDecoder, [{}]),
        "ergo": ("secp256k1", ErgoP2PKHAddrEncoder, ErgoP2PKHAddrDecoder, [{"net_type": "0"}, {"net_type": "16"}]),
        "sol": ("ed25519", SolAddrEncoder, SolAddrDecoder, [{}]),
        "xtz": ("ed25519", XtzAddrEncoder, XtzAddrDecoder, [{"prefix": hx(p.value)} for p in XtzAddrPrefixes]),
        "neolegacy": ("nist256p1", NeoLegacyAddrEncoder, NeoLegacyAddrDecoder, [{"ver": hx(v)} for v in P["neo_ver"]]),
        "neon3": ("nist256p1", NeoN3AddrEncoder, NeoN3AddrDecoder, [{"ver": hx(v)} for v in P["neo_ver"]]),
        "algo": ("ed25519", AlgoAddrEncoder, AlgoAddrDecoder, [{}]),
        "xlm": ("ed25519", XlmAddrEncoder, XlmAddrDecoder, [{"addr_type": "48"}, {"addr_type": "144"}]),
        "fil": ("secp256k1", FilSecp256k1AddrEncoder, FilSecp256k1AddrDecoder, [{}]),
        "nano": ("ed25519blake2b", NanoAddrEncoder, NanoAddrDecoder, [{}]),
        "nim": ("ed25519", NimAddrEncoder, NimAddrDecoder, [{}]),
        "egld": ("ed25519", EgldAddrEncoder, EgldAddrDecoder, [{}]),
        "zil": ("secp256k1", ZilAddrEncoder, ZilAddrDecoder, [{}]),
        "xrp": ("secp256k1", XrpAddrEncoder, XrpAddrDecoder, [{}]),
        "substrateed": ("ed25519", SubstrateEd25519AddrEncoder, SubstrateEd25519AddrDecoder, [{"ss58_format": str(f)} for f in P["ss58_format"]]),
        "xmr": ("ed25519monero", XmrAddrEncoder, XmrAddrDecoder, [{"net_ver": hx(v)} for v in P["xmr_net_ver"]]),
        "xmrint": ("ed25519monero", XmrIntegratedAddrEncoder, XmrIntegratedAddrDecoder, [{"net_ver": hx(v)} for v in P["xmr_int_net_ver"]]),
    }


def coin_params():
    """parameter values occurring in the coin tables of the working tree (plus a few arbitrary ones)."""
    from bip_utils.coin_conf import CoinsConf
    from bip_utils.coin_conf.coin_conf import CoinConf
    P = {k: set() for k in ("p2pkh_net_ver", "p2sh_net_ver", "p2wpkh_hrp", "p2tr_hrp", "addr_hrp", "ss58_format", "neo_ver",
                            "xmr_net_ver", "xmr_int_net_ver")}
    bch_p2pkh, bch_p2sh = set(), set()
    for name in dir(CoinsConf):
        c = getattr(CoinsConf, name)
        if not isinstance(c, CoinConf):
            continue
        p = conf_params(c)
        for key, dst in (("p2pkh_net_ver", "p2pkh_net_ver"), ("p2sh_net_ver", "p2sh_net_ver"), ("p2wpkh_hrp", "p2wpkh_hrp"),
                         ("p2tr_hrp", "p2tr_hrp"), ("addr_hrp", "addr_hrp"), ("addr_ss58_format", "ss58_format"), ("addr_ver", "neo_ver"),
                         ("addr_net_ver", "xmr_net_ver"), ("subaddr_net_ver", "xmr_net_ver"), ("addr_int_net_ver", "xmr_int_net_ver")):
            if key in p:
                P[dst].add(p[key])
        if "p2pkh_std_hrp" in p:
            bch_p2pkh.add((p["p2pkh_std_hrp"], p["p2pkh_std_net_ver"]))
            bch_p2sh.add((p["p2sh_std_hrp"], p["p2sh_std_net_ver"]))
    P["p2pkh_net_ver"] |= {b"\x6f", b"\x1c\xb8"}
    P["ss58_format"] |= {1, 63, 64, 255, 16383}
    for k in ("p2wpkh_hrp", "p2tr_hrp", "addr_hrp"):
        P[k] |= {"a1b", "test1net"}          # the separator is the LAST '1': a human-readable part may contain the character
    out = {k: sorted(v) for k, v in P.items()}
    out["bch_p2pkh"], out["bch_p2sh"] = sorted(bch_p2pkh), sorted(bch_p2sh)
    return out


def kwfields(kw):
    return ["%s=%s" % (k, v) for k, v in sorted(kw.items())]


FMT_CACHE = {}


def fmt_table():
    if "t" not in FMT_CACHE:
        FMT_CACHE["t"] = formats(coin_params())
    return FMT_CACHE["t"]


def _addrenc(fmt, pub, *kws):
    _, enc, _, _ = fmt_table()[fmt]
    kw = dict(k.split("=") for k in kws)
    return tx(enc.EncodeKey(unhx(pub), **conv_kw(fmt, kw)))


def _addrdec(fmt, addr, *kws):
    _, _, dec, _ = fmt_table()[fmt]
    kw = dict(k.split("=") for k in kws)
    kw.pop("compressed", None)
    kw.pop("trim_zeroes", None)
    kw.pop("pub_vkey", None)
    return hx(dec.DecodeAddr(untx(addr), **conv_kw(fmt, kw)))


def _pubkey(c, b):
    k = PUB[c].FromBytes(unhx(b))
    return hx(k.RawCompressed().ToBytes()) + " " + hx(k.RawUncompressed().ToBytes())


def _privkey(c, b):
    k = PRIV[c].FromBytes(unhx(b))
    return hx(k.Raw().ToBytes()) + " " + hx(k.PublicKey().RawCompressed().ToBytes())


IMPL = {"addrenc": _addrenc, "addrdec": _addrdec, "pubkey": _pubkey, "privkey": _privkey}


def rand_priv(rng, curve):
    if curve in ("secp256k1", "nist256p1"):
        n = ORDERS[curve]
        r = rng.random()
        k = rng.randrange(1, n) if r < 0.7 else rng.choice([1, 2, n - 1, rng.randrange(1, 2**rng.choice([8, 64, 200]))])
        return k.to_bytes(32, "big")
    if curve == "ed25519monero":
        return rng.randrange(1, ORDERS[curve]).to_bytes(32, "little")
    return bytes(rng.randrange(256) for _ in range(64 if curve == "ed25519kholaw" else 32))


def pub_forms(curve, priv):
    k = PRIV[curve].FromBytes(priv).PublicKey()
    forms = [k.RawCompressed().ToBytes()]
    if curve in ("secp256k1", "nist256p1"):
        forms.append(k.RawUncompressed().ToBytes())
    elif curve != "ed25519monero":
        forms.append(k.RawCompressed().ToBytes()[1:])
    return forms
