"""C14 — malformed input is rejected only through the documented exception family.

Every public decoder / parser / deserialiser / validator / constructor taking one str or bytes argument is driven with
random input and structure-aware mutations of valid inputs; the call must return or raise ValueError (or a subclass) or one
of the library's own error classes, promptly. Where the entry point has a Lean model the same request also goes through the
model (whose no-escape theorems are in Props/C14.lean) and the two outcomes are diffed."""
import time
from harness.core import Case, HarnessError, Hang, time_limit
from harness.canon import hx, tx, unhx, untx, exc_kind, DOCUMENTED
import bip_utils as B
from bip_utils import *  # noqa
from harness.props.addr_common import fmt_table, kwfields, rand_priv, pub_forms, conv_kw, IMPL as ADDR_IMPL, PRIV, PUB
from harness.props.c11 import IMPL as CODEC_IMPL
from harness.props.c10 import IMPL as C10_IMPL
from harness.props.bip32_common import IMPL as B32_IMPL
from harness.props.mnemonic_common import IMPL as MN_IMPL, oracle_for
from harness.props.c09 import pre_build as _pre9
from harness.props.c01 import pre_build as _pre1

LEAN_MODULES = ["BipVerif.Props.C14", "BipVerif.Props.C14Addr", "BipVerif.Props.C14Wallets", "BipVerif.Props.C14More"]
IMPL = {}
from harness.props.c19 import IMPL as C19_IMPL, ORACLES  # noqa
for d in (ADDR_IMPL, CODEC_IMPL, C10_IMPL, B32_IMPL, MN_IMPL, C19_IMPL):
    IMPL.update(d)


PROMPT_LIMIT = 20


def pre_build():
    _pre9()
    _pre1()


SEED16 = bytes(range(16))
SEED32 = bytes(range(32))
SEED64 = bytes(range(64))


def _try_key(f):
    """soft derivation may be refused with the documented key error (SLIP-0010 ed25519): anything else propagates"""
    from bip_utils import Bip32KeyError
    try:
        return f()
    except Bip32KeyError:
        return None


def cbor_tag_seeds():
    """Byron-shaped Base58 texts whose CBOR carries semantic tags with ill-typed content: cbor2's tag handlers run on them"""
    import cbor2
    out = []
    for tag in list(range(0, 6)) + [21, 22, 23, 24, 28, 29, 30, 32, 33, 34, 35, 36, 37, 100, 258, 260, 261, 1004, 55799]:
        for inner in (1.5, "x", b"12", [1, 0], [1, "a"], {}, None, -1):
            try:
                raw = cbor2.dumps([cbor2.CBORTag(tag, inner), 0])
            except Exception:  # noqa
                continue
            out.append(Base58Encoder.Encode(raw))
    return out


def entry_points(rng):
    """list of (name, kind, callable, [valid seeds], model-case-builder or None)"""
    E = []
    T = fmt_table()
    for fmt, (curve, enc, dec, params) in T.items():
        kw = dict(params[0])
        pub = pub_forms(curve, rand_priv(rng, curve))[0]
        if fmt in ("xmr", "xmrint"):
            kw["pub_vkey"] = hx(pub_forms(curve, rand_priv(rng, curve))[0])
            if fmt == "xmrint":
                kw["payment_id"] = hx(bytes(8))
        addr = enc.EncodeKey(pub, **conv_kw(fmt, kw))
        dkw = {k: v for k, v in kw.items() if k not in ("compressed", "trim_zeroes", "pub_vkey")}
        pk = conv_kw(fmt, dkw)
        E.append((dec.__name__ + ".DecodeAddr[" + fmt + "]", "str", (lambda d, k: lambda s: d.DecodeAddr(s, **k))(dec, pk), [addr],
                  (lambda f, k: lambda s: Case("addrdec", [f, tx(s)] + kwfields(k), "model"))(fmt, dkw)))
        E.append((enc.__name__ + ".EncodeKey[" + fmt + "]", "bytes", (lambda e, k: lambda b: e.EncodeKey(b, **k))(enc, conv_kw(fmt, kw)), [pub],
                  (lambda f, k: lambda b: Case("addrenc", [f, hx(b)] + kwfields(k), "model"))(fmt, kw)))
    icarus = Bip44.FromSeed(SEED32, Bip44Coins.CARDANO_BYRON_ICARUS).DeriveDefaultPath().PublicKey().ToAddress()
    byl = CardanoByronLegacy.FromSeed(SEED32)
    bya = byl.GetAddress(0, 0)
    sh = CardanoShelley.FromCip1852Object(Cip1852.FromSeed(SEED32, Cip1852Coins.CARDANO_ICARUS).Purpose().Coin().Account(0)).Change(Bip44Changes.CHAIN_EXT).AddressIndex(0)
    E += [
        ("AdaByronAddrDecoder.DecodeAddr", "str", AdaByronAddrDecoder.DecodeAddr, [icarus, bya] + cbor_tag_seeds(), None),
        ("CardanoByronLegacy.HdPathFromAddress", "str", byl.HdPathFromAddress, [bya], None),
        ("AdaByronAddrDecoder.DecryptHdPath", "bytes", lambda b: AdaByronAddrDecoder.DecryptHdPath(b, byl.HdPathKey()), [AdaByronAddrDecoder.DecodeAddr(bya)[28:]], None),
        ("AdaShelleyAddrDecoder.DecodeAddr", "str", AdaShelleyAddrDecoder.DecodeAddr, [sh.PublicKeys().ToAddress()], None),
        ("AdaShelleyStakingAddrDecoder.DecodeAddr", "str", AdaShelleyStakingAddrDecoder.DecodeAddr, [sh.PublicKeys().ToStakingAddress()], None),
        ("SubstrateSr25519AddrDecoder.DecodeAddr", "str", lambda s: SubstrateSr25519AddrDecoder.DecodeAddr(s, ss58_format=0),
         [Substrate.FromSeed(SEED32, SubstrateCoins.POLKADOT).PublicKey().ToAddress()], None),
        ("BchAddrConverter.Convert", "str", lambda s: BchAddrConverter.Convert(s, "ergon"), ["bitcoincash:qpm2qsznhks23z7629mms6s4cwef74vcwvy22gdx6a"], None),
    ]
    # codecs
    b58 = Base58Encoder.CheckEncode(SEED16)
    E += [
        ("Base58Decoder.Decode", "str", Base58Decoder.Decode, [Base58Encoder.Encode(SEED16)], lambda s: Case("b58dec", ["btc", tx(s)], "model")),
        ("Base58Decoder.Decode[xrp]", "str", lambda s: Base58Decoder.Decode(s, Base58Alphabets.RIPPLE), [Base58Encoder.Encode(SEED16, Base58Alphabets.RIPPLE)],
         lambda s: Case("b58dec", ["xrp", tx(s)], "model")),
        ("Base58Decoder.CheckDecode", "str", Base58Decoder.CheckDecode, [b58], lambda s: Case("b58chkdec", ["btc", tx(s)], "model")),
        ("Base58XmrDecoder.Decode", "str", Base58XmrDecoder.Decode, [Base58XmrEncoder.Encode(SEED32 + SEED16[:5])], lambda s: Case("xmrdec", [tx(s)], "model")),
        ("Bech32Decoder.Decode", "str", lambda s: Bech32Decoder.Decode("cosmos", s), [Bech32Encoder.Encode("cosmos", SEED16)], lambda s: Case("bech32dec", [tx("cosmos"), tx(s)], "model")),
        ("SegwitBech32Decoder.Decode", "str", lambda s: SegwitBech32Decoder.Decode("bc", s), [SegwitBech32Encoder.Encode("bc", 0, SEED32[:20]), SegwitBech32Encoder.Encode("bc", 1, SEED32)],
         lambda s: Case("segwitdec", [tx("bc"), tx(s)], "model")),
        ("BchBech32Decoder.Decode", "str", lambda s: BchBech32Decoder.Decode("bitcoincash", s), [BchBech32Encoder.Encode("bitcoincash", b"\x00", SEED32[:20])],
         lambda s: Case("bchdec", [tx("bitcoincash"), tx(s)], "model")),
        ("SS58Decoder.Decode", "str", SS58Decoder.Decode, [SS58Encoder.Encode(SEED32, 0), SS58Encoder.Encode(SEED32, 5000)], lambda s: Case("ss58dec", [tx(s)], "model")),
        ("Base32Decoder.Decode", "str", B.utils.misc.Base32Decoder.Decode, [B.utils.misc.Base32Encoder.Encode(SEED16)], lambda s: Case("b32dec", [tx(s), "none"], "model")),
        ("Base32Decoder.Decode[custom]", "str", lambda s: B.utils.misc.Base32Decoder.Decode(s, "abcdefghijklmnopqrstuvwxyz234567"),
         [B.utils.misc.Base32Encoder.EncodeNoPadding(SEED16, "abcdefghijklmnopqrstuvwxyz234567")], lambda s: Case("b32dec", [tx(s), tx("abcdefghijklmnopqrstuvwxyz234567")], "model")),
        ("BytesUtils.FromHexString", "str", B.utils.misc.BytesUtils.FromHexString, ["00ff10"], None),
        ("CborIndefiniteLenArrayDecoder.Decode", "bytes", B.utils.misc.CborIndefiniteLenArrayDecoder.Decode, [bytes.fromhex("9f001a800000001901f4ff")],
         lambda b: Case("cbordec", [hx(b)], "model")),
        ("WifDecoder.Decode", "str", WifDecoder.Decode, [WifEncoder.Encode(SEED32), WifEncoder.Encode(SEED32, pub_key_mode=WifPubKeyModes.UNCOMPRESSED)],
         lambda s: Case("wifdec", [tx(s), hx(b"\x80")], "model")),
        ("WifEncoder.Encode", "bytes", WifEncoder.Encode, [SEED32], lambda b: Case("wifenc", [hx(b), hx(b"\x80"), 1], "model")),
        ("Bip38Decrypter.DecryptNoEc", "str", lambda s: Bip38Decrypter.DecryptNoEc(s, "x"), ["6PRVWUbkzzsbcVac2qwfssoUJAN1Xhrg6bNk8J7Nzm5H7kxEbn2Nh2ZoGg"], None),
        ("Bip38Decrypter.DecryptEc", "str", lambda s: Bip38Decrypter.DecryptEc(s, "x"), ["6PfQu77ygVyJLZjfvMLyhLMQbYnu5uguoJJ4kMCLqWwPEdfpwANVS76gTX"], None),
        ("Bip38EcKeysGenerator.GeneratePrivateKey", "str", lambda s: Bip38EcKeysGenerator.GeneratePrivateKey(s, Bip38PubKeyModes.COMPRESSED),
         ["passphrasepxFy57B9v8HtUsszJYKReoNDV6VHjUSGt8EVJmux9n1J3Ltf1gRxyDGXqnf9qm"], None),
        ("Bip38Encrypter.EncryptNoEc", "bytes", lambda b: Bip38Encrypter.EncryptNoEc(b, "x") if len(b) != 32 or b == bytes(32) or b >= b"\xff" * 16 else None, [SEED32], None),
    ]
    # BIP-32
    b32 = {"secp256k1": Bip32Slip10Secp256k1, "nist256p1": Bip32Slip10Nist256p1, "ed25519": Bip32Slip10Ed25519, "ed25519blake2b": Bip32Slip10Ed25519Blake2b,
           "kholaw": Bip32KholawEd25519, "icarus": CardanoIcarusBip32, "byronlegacy": CardanoByronLegacyBip32}
    for nm, cls in b32.items():
        m = cls.FromSeed(SEED32)
        c = m.ChildKey(Bip32KeyIndex.HardenIndex(0))
        model_x = (lambda n: lambda s: Case("fromxkey", [n, "0488b21e", "0488ade4", tx(s)], "model"))(nm) if nm in ("secp256k1", "nist256p1", "ed25519", "ed25519blake2b") else None
        E.append((cls.__name__ + ".FromExtendedKey", "str", cls.FromExtendedKey, [m.PrivateKey().ToExtended(), c.PublicKey().ToExtended()], model_x))
        E.append((cls.__name__ + ".FromSeed", "bytes", cls.FromSeed, [SEED32],
                  (lambda n: lambda b: Case("master", [n, hx(b)], "model"))(nm) if model_x else None))
        E.append((cls.__name__ + ".FromPrivateKey", "bytes", cls.FromPrivateKey, [m.PrivateKey().Raw().ToBytes()], None))
        # a key object built from raw bytes is then USED: whatever the constructor accepted must not make derivation escape
        kb_ = m.PrivateKey().Raw().ToBytes()
        raw_seeds = [kb_, b"\xff" * len(kb_), b"\xff" * 32 + b"\x01" * (len(kb_) - 32), b"\x00" * (len(kb_) - 1) + b"\x01", b"\x7f" + b"\xff" * (len(kb_) - 1), b"\xff" * 31 + b"\x7f" + bytes(len(kb_) - 32)]
        E.append((cls.__name__ + ".FromPrivateKey+ChildKey", "bytes",
                  (lambda c_: lambda b: [c_.FromPrivateKey(b).ChildKey(i).PublicKey().RawCompressed().ToBytes() for i in (2**31, 2**31 + 7)] and
                   [_try_key(lambda: c_.FromPrivateKey(b).ChildKey(i)) for i in (0, 5)])(cls), raw_seeds, None))
        E.append((cls.__name__ + ".FromPublicKey", "bytes", cls.FromPublicKey, [m.PublicKey().RawCompressed().ToBytes()], None))
        E.append((cls.__name__ + ".DerivePath", "str", m.DerivePath, ["m/0'/1'", "0'/2'"], None))
    E += [
        ("Bip32PathParser.Parse", "str", Bip32PathParser.Parse, ["m/44'/0'/0'/0/0", "0/1h/2p"], lambda s: Case("parsepath", [tx(s)], "model")),
        ("Bip32KeyDeserializer.DeserializeKey", "str", B.bip.bip32.Bip32KeyDeserializer.DeserializeKey, [Bip32Slip10Secp256k1.FromSeed(SEED16).PrivateKey().ToExtended()],
         lambda s: Case("deserkey", ["0488b21e", "0488ade4", tx(s)], "model")),
        ("Slip32KeyDeserializer.DeserializeKey", "str", Slip32KeyDeserializer.DeserializeKey,
         [Slip32PrivateKeySerializer.Serialize(Bip32Slip10Secp256k1.FromSeed(SEED16).PrivateKey().KeyObject(), "m/0'/1", bytes(32)),
          Slip32PublicKeySerializer.Serialize(Bip32Slip10Secp256k1.FromSeed(SEED16).PublicKey().KeyObject(), "m", bytes(32))], None),
    ]
    # BIP-44 family
    for cls, coin in ((Bip44, Bip44Coins.BITCOIN), (Bip49, Bip49Coins.LITECOIN), (Bip84, Bip84Coins.BITCOIN), (Bip86, Bip86Coins.BITCOIN), (Cip1852, Cip1852Coins.CARDANO_ICARUS),
                      (Bip44, Bip44Coins.SOLANA), (Bip44, Bip44Coins.NEO), (Bip44, Bip44Coins.CARDANO_BYRON_LEDGER), (Bip44, Bip44Coins.NANO)):
        m = cls.FromSeed(SEED32, coin)
        acc = m.Purpose().Coin().Account(0)
        tag = cls.__name__ + "[" + coin.name + "]"
        E.append((tag + ".FromExtendedKey", "str", (lambda c, k: lambda s: c.FromExtendedKey(s, k))(cls, coin), [m.PrivateKey().ToExtended(), acc.PublicKey().ToExtended()], None))
        E.append((tag + ".FromSeed", "bytes", (lambda c, k: lambda b: c.FromSeed(b, k))(cls, coin), [SEED32], None))
        E.append((tag + ".FromPrivateKey", "bytes", (lambda c, k: lambda b: c.FromPrivateKey(b, k))(cls, coin), [m.PrivateKey().Raw().ToBytes()], None))
        E.append((tag + ".FromPublicKey", "bytes", (lambda c, k: lambda b: c.FromPublicKey(b, k))(cls, coin), [acc.PublicKey().RawCompressed().ToBytes()], None))
    # mnemonics
    bip39 = Bip39MnemonicEncoder().Encode(SEED16).ToStr()
    bip39k = Bip39MnemonicEncoder(Bip39Languages.KOREAN).Encode(SEED32).ToStr()
    mon = MoneroMnemonicEncoder().EncodeWithChecksum(SEED32).ToStr()
    algo = AlgorandMnemonicEncoder().Encode(SEED32).ToStr()
    ev1 = ElectrumV1MnemonicEncoder().Encode(SEED16).ToStr()
    ev2 = ElectrumV2MnemonicGenerator(ElectrumV2MnemonicTypes.STANDARD).FromEntropy((1 << 131 | 12345).to_bytes(17, "big")).ToStr()
    E += [
        ("Bip39MnemonicDecoder.Decode", "str", Bip39MnemonicDecoder().Decode, [bip39, bip39k], lambda s: Case("bip39dec", ["auto", "plain", tx(s), oracle_for(s)], "model")),
        ("Bip39MnemonicDecoder.DecodeWithChecksum", "str", Bip39MnemonicDecoder(Bip39Languages.ENGLISH).DecodeWithChecksum, [bip39], lambda s: Case("bip39dec", ["ENGLISH", "ck", tx(s), oracle_for(s)], "model")),
        ("Bip39MnemonicValidator.IsValid", "str", Bip39MnemonicValidator().IsValid, [bip39], None),
        ("Bip39SeedGenerator", "str", lambda s: Bip39SeedGenerator(s).Generate("p"), [bip39], None),
        ("SubstrateBip39SeedGenerator", "str", lambda s: SubstrateBip39SeedGenerator(s).Generate(), [bip39], None),
        ("CardanoByronLegacySeedGenerator", "str", lambda s: CardanoByronLegacySeedGenerator(s).Generate(), [bip39], None),
        ("CardanoIcarusSeedGenerator", "str", lambda s: CardanoIcarusSeedGenerator(s).Generate(), [bip39], None),
        ("Bip39MnemonicEncoder.Encode", "bytes", Bip39MnemonicEncoder().Encode, [SEED16], lambda b: Case("bip39enc", ["ENGLISH", hx(b)], "model")),
        ("MoneroMnemonicDecoder.Decode", "str", MoneroMnemonicDecoder().Decode, [mon], lambda s: Case("mondec", ["auto", tx(s)], "model")),
        ("MoneroMnemonicValidator.IsValid", "str", MoneroMnemonicValidator().IsValid, [mon], None),
        ("MoneroSeedGenerator", "str", lambda s: MoneroSeedGenerator(s).Generate(), [mon], None),
        ("MoneroMnemonicEncoder.EncodeWithChecksum", "bytes", MoneroMnemonicEncoder().EncodeWithChecksum, [SEED32], lambda b: Case("monenc", ["ENGLISH", hx(b), 1], "model")),
        ("AlgorandMnemonicDecoder.Decode", "str", AlgorandMnemonicDecoder().Decode, [algo], lambda s: Case("algodec", ["ENGLISH", tx(s), oracle_for(s)], "model")),
        ("AlgorandSeedGenerator", "str", lambda s: AlgorandSeedGenerator(s).Generate(), [algo], None),
        ("AlgorandMnemonicEncoder.Encode", "bytes", AlgorandMnemonicEncoder().Encode, [SEED32], lambda b: Case("algoenc", [hx(b)], "model")),
        ("ElectrumV1MnemonicDecoder.Decode", "str", ElectrumV1MnemonicDecoder().Decode, [ev1], lambda s: Case("ev1dec", [tx(s), oracle_for(s)], "model")),
        ("ElectrumV1MnemonicEncoder.Encode", "bytes", ElectrumV1MnemonicEncoder().Encode, [SEED16], lambda b: Case("ev1enc", [hx(b)], "model")),
        ("ElectrumV2MnemonicDecoder.Decode", "str", ElectrumV2MnemonicDecoder().Decode, [ev2], lambda s: Case("ev2dec", ["auto", "any", tx(s), oracle_for(s)], "model")),
        ("ElectrumV2MnemonicValidator.IsValid", "str", ElectrumV2MnemonicValidator().IsValid, [ev2], None),
        ("ElectrumV2SeedGenerator", "str", lambda s: ElectrumV2SeedGenerator(s).Generate(), [ev2], None),
        ("ElectrumV2MnemonicEncoder.Encode", "bytes", ElectrumV2MnemonicEncoder(ElectrumV2MnemonicTypes.STANDARD).Encode, [(1 << 131 | 12345).to_bytes(17, "big")],
         lambda b: Case("ev2enc", ["ENGLISH", "STANDARD", hx(b)], "model")),
    ]
    # key layer
    curves = {"secp256k1": (Secp256k1PrivateKey, Secp256k1PublicKey, Secp256k1Point), "nist256p1": (Nist256p1PrivateKey, Nist256p1PublicKey, Nist256p1Point),
              "ed25519": (Ed25519PrivateKey, Ed25519PublicKey, Ed25519Point), "ed25519blake2b": (Ed25519Blake2bPrivateKey, Ed25519Blake2bPublicKey, Ed25519Blake2bPoint),
              "ed25519kholaw": (Ed25519KholawPrivateKey, Ed25519KholawPublicKey, Ed25519KholawPoint), "ed25519monero": (Ed25519MoneroPrivateKey, Ed25519MoneroPublicKey, Ed25519MoneroPoint),
              "sr25519": (Sr25519PrivateKey, Sr25519PublicKey, None)}
    for nm, (sk, pk, pt) in curves.items():
        kb = (1234567).to_bytes(32, "little") if nm == "ed25519monero" else (SEED64 if sk.Length() == 64 else SEED32)
        if nm == "sr25519":
            import sr25519 as _sr
            kb = bytes(_sr.pair_from_seed(SEED32)[1])
        k = sk.FromBytes(kb)
        pub = k.PublicKey().RawCompressed().ToBytes()
        mk = (lambda n: lambda b: Case("privkey", [n, hx(b)], "model"))(nm) if nm != "sr25519" else None
        mp = (lambda n: lambda b: Case("pubkey", [n, hx(b)], "model"))(nm) if nm != "sr25519" else None
        E.append((sk.__name__ + ".FromBytes+PublicKey", "bytes", (lambda s: lambda b: s.FromBytes(b).PublicKey())(sk), [kb], mk))
        E.append((sk.__name__ + ".IsValidBytes", "bytes", sk.IsValidBytes, [kb], None))
        forms = [pub]
        if pt is not None:
            P_ = k.PublicKey().Point()
            dec_ = P_.RawDecoded().ToBytes()
            forms += [P_.RawEncoded().ToBytes(), dec_, k.PublicKey().RawUncompressed().ToBytes(), b"\x04" + dec_, b"\x00" + dec_, dec_[::-1], dec_[32:] + dec_[:32],
                      P_.X().to_bytes(32, "big") + P_.Y().to_bytes(32, "big"), P_.X().to_bytes(32, "little") + P_.Y().to_bytes(32, "little")]
            forms = list(dict.fromkeys(forms))
        E.append((pk.__name__ + ".FromBytes", "bytes", pk.FromBytes, forms, mp))
        E.append((pk.__name__ + ".IsValidBytes", "bytes", pk.IsValidBytes, forms, None))
        if pt is not None:
            E.append((pt.__name__ + ".FromBytes", "bytes", pt.FromBytes, forms, None))
    # wallets
    mw = Monero.FromSeed(SEED32)
    sub = Substrate.FromSeed(SEED32, SubstrateCoins.KUSAMA)
    E += [
        ("Monero.FromSeed", "bytes", lambda b: Monero.FromSeed(b).PrimaryAddress(), [SEED32], None),
        ("Monero.FromPrivateSpendKey", "bytes", lambda b: Monero.FromPrivateSpendKey(b).PrimaryAddress(), [mw.PrivateSpendKey().Raw().ToBytes()], None),
        ("Monero.FromBip44PrivateKey", "bytes", lambda b: Monero.FromBip44PrivateKey(b).PrimaryAddress(), [SEED32], None),
        ("Monero.FromWatchOnly[view]", "bytes", lambda b: Monero.FromWatchOnly(b, mw.PublicSpendKey().RawCompressed().ToBytes()).Subaddress(1, 1), [mw.PrivateViewKey().Raw().ToBytes()], None),
        ("Monero.FromWatchOnly[spend]", "bytes", lambda b: Monero.FromWatchOnly(mw.PrivateViewKey().Raw().ToBytes(), b).Subaddress(1, 1), [mw.PublicSpendKey().RawCompressed().ToBytes()], None),
        ("Monero.IntegratedAddress", "bytes", mw.IntegratedAddress, [bytes(8)], None),
        ("Substrate.FromSeed", "bytes", lambda b: Substrate.FromSeed(b, SubstrateCoins.POLKADOT), [SEED32], None),
        ("Substrate.FromPrivateKey", "bytes", lambda b: Substrate.FromPrivateKey(b, SubstrateCoins.POLKADOT), [sub.PrivateKey().Raw().ToBytes()], None),
        ("Substrate.FromPublicKey", "bytes", lambda b: Substrate.FromPublicKey(b, SubstrateCoins.POLKADOT).PublicKey().ToAddress(), [sub.PublicKey().RawCompressed().ToBytes()], None),
        ("SubstratePathParser.Parse", "str", SubstratePathParser.Parse, ["//hard/soft//0", "/1/2"], lambda s: Case("subpath", [tx(s)], "model")),
        ("SubstratePathElem+ChainCode", "str", lambda s: SubstratePathElem(s).ChainCode(), ["//hard", "/123"], lambda s: Case("subcc", [tx(s)], "model")),
        ("Substrate.DerivePath", "str", sub.DerivePath, ["//a/b"], None),
        ("ElectrumV1.FromSeed", "bytes", lambda b: ElectrumV1.FromSeed(b).GetAddress(0, 0), [SEED32], None),
        ("ElectrumV1.FromPublicKey", "bytes", lambda b: ElectrumV1.FromPublicKey(b).GetAddress(0, 1), [Secp256k1PrivateKey.FromBytes(SEED32).PublicKey().RawCompressed().ToBytes()], None),
        ("ElectrumV2Standard.FromSeed", "bytes", lambda b: ElectrumV2Standard.FromSeed(b).GetAddress(0, 0), [SEED32], None),
        ("ElectrumV2Segwit.FromSeed", "bytes", lambda b: ElectrumV2Segwit.FromSeed(b).GetAddress(0, 0), [SEED32], None),
        ("CardanoByronLegacy.FromSeed", "bytes", lambda b: CardanoByronLegacy.FromSeed(b).GetAddress(0, 0), [SEED32], None),
        ("SplToken.GetAssociatedTokenAddress", "str", lambda s: SplToken.GetAssociatedTokenAddress(s, "EPjFWdd5AufqSSqeM2qN1xzybapC8G4wEGGkZwyTDt1v"), ["5ZbDpcBHLbRS5LHUbCwbNGbNeAQ5tWxZ9kLQ5AcYmLTj"], None),
        ("SplToken.FindPda", "bytes", lambda b: SplToken.FindPda([b], "ATokenGPvbdGVxr1b2hvZbsiqW5xWH25efTNsLJA8knL"), [SEED32], None),
        ("SubstrateScaleU32Encoder.Encode[str]", "str", B.substrate.scale.SubstrateScaleU32Encoder.Encode, ["123"], None),
        ("Brainwallet.Generate[SHA256]", "str", lambda s: Brainwallet.Generate(s, BrainwalletCoins.BITCOIN, BrainwalletAlgos.SHA256), ["hello"], None),
    ]
    return E


ALNUM = "123456789ABCDEFGHJKLMNPQRSTUVWXYZabcdefghijkmnopqrstuvwxyz0OIl"
WEIRD = ["", " ", "\x00", "\n", "é", "😀", "ǅ", "ß", "K", "İ", "²", "１", "퟿", "a" * 300, "1" * 500, "/", "//", "'", ":", "=", "-1", "0x", "m/", " "]


def leading_byte_surgery(s):
    """structure-aware: if the text is plain Base58 (SS58 addresses, Solana keys, Monero-free formats …), the decoded bytes with the first
    one or two bytes replaced by every value class of a length/format prefix (each nibble boundary of the first byte, the second byte in
    steps of 0x10 and at 0x3f/0x40/0xc0/0xff), re-encoded; for SS58-shaped payloads (35/36 bytes) the blake2b checksum is recomputed too, so
    the input reaches the code behind the checksum check as well as the code in front of it"""
    import hashlib
    out = []
    try:
        raw = Base58Decoder.Decode(s)
    except Exception:  # noqa
        return out
    if not 20 <= len(raw) <= 80:
        return out
    firsts = [0x00, 0x2a, 0x3f, 0x40, 0x41, 0x4f, 0x50, 0x7f, 0x80, 0xc0, 0xff]
    seconds = list(range(0, 256, 16)) + [0x3f, 0x41, 0x7f, 0xc1, 0xff]
    for b0 in firsts:
        out.append(Base58Encoder.Encode(bytes([b0]) + raw[1:]))
        for b1 in (seconds if 0x40 <= b0 < 0x80 else seconds[:3]):
            body = bytes([b0, b1]) + raw[2:]
            out.append(Base58Encoder.Encode(body))
            if len(raw) in (35, 36):
                for data in (bytes([b0, b1]) + raw[-34:-2], bytes([b0, b1]) + raw[-34:-2] + b"\x00"):
                    out.append(Base58Encoder.Encode(data + hashlib.blake2b(b"SS58PRE" + data, digest_size=64).digest()[:2]))
    return out


def reencoded_truncations(s):
    """structure-aware: if the text is a Base58Check or Bech32 string, its payload cut at EVERY length (and extended), re-encoded
    with a valid checksum — damage that survives the text layer and reaches the field-splitting code"""
    out = []
    try:
        p = Base58Decoder.CheckDecode(s)
        out += [Base58Encoder.CheckEncode(p[:i]) for i in range(len(p) + 1)] + [Base58Encoder.CheckEncode(p + b"\x00"), Base58Encoder.CheckEncode(p + p)]
    except Exception:  # noqa
        pass
    if "1" in s and s.rfind("1") > 0:
        hrp = s[:s.rfind("1")]
        try:
            p = Bech32Decoder.Decode(hrp, s)
            out += [Bech32Encoder.Encode(hrp, p[:i]) for i in range(1, len(p) + 1)] + [Bech32Encoder.Encode(hrp, p + b"\x00")]
        except Exception:  # noqa
            pass
    return out


_B32CH = "qpzry9x8gf2tvdw0s3jn54khce6mua7l"


def _polymod30(values):
    """BIP-173 checksum polynomial (stdlib only)"""
    gen, chk = (0x3b6a57b2, 0x26508e6d, 0x1ea119fa, 0x3d4233dd, 0x2a1462b3), 1
    for v in values:
        top = chk >> 25
        chk = ((chk & 0x1ffffff) << 5) ^ v
        for i in range(5):
            if (top >> i) & 1:
                chk ^= gen[i]
    return chk


def _polymod40(values):
    """CashAddr checksum polynomial (stdlib only)"""
    gen, chk = (0x98f2bc8e61, 0x79b76d99e2, 0xf33e5fb3c4, 0xae2eabe2a8, 0x1e4f43e470), 1
    for v in values:
        top = chk >> 35
        chk = ((chk & 0x07ffffffff) << 5) ^ v
        for i in range(5):
            if (top >> i) & 1:
                chk ^= gen[i]
    return chk ^ 1


# kind -> (separator, number of checksum symbols, prefix expansion, value the polynomial of (prefix ++ data ++ checksum) must take)
_B32KINDS = {
    "bech32": ("1", 6, lambda h: [ord(c) >> 5 for c in h] + [0] + [ord(c) & 31 for c in h], _polymod30, 1),
    "bech32m": ("1", 6, lambda h: [ord(c) >> 5 for c in h] + [0] + [ord(c) & 31 for c in h], _polymod30, 0x2bc830a3),
    "cashaddr": (":", 8, lambda h: [ord(c) & 31 for c in h] + [0], _polymod40, 0),
}


def _b32_spell(kind, hrp, payload):
    """the text for these 5-bit payload symbols under a VALID checksum of the given kind"""
    sep, nck, expand, poly, const = _B32KINDS[kind]
    mod = poly(expand(hrp) + list(payload) + [0] * nck) ^ const
    return hrp + sep + "".join(_B32CH[d] for d in list(payload) + [(mod >> 5 * (nck - 1 - i)) & 31 for i in range(nck)])


def _b32_parse(s):
    """(kind, hrp, payload symbols) when `s` is a Bech32 / Bech32m / CashAddr text whose checksum verifies, else None"""
    t = s.lower()
    if t != s and s.upper() != s:
        return None
    for kind, (sep, nck, expand, poly, const) in _B32KINDS.items():
        i = t.rfind(sep)
        if i < 1 or len(t) - i - 1 < nck or any(c not in _B32CH for c in t[i + 1:]) or any(not 33 <= ord(c) <= 126 for c in t[:i]):
            continue
        data = [_B32CH.index(c) for c in t[i + 1:]]
        if poly(expand(t[:i]) + data) == const:
            return kind, t[:i], data[:-nck]
    return None


def symbol_level_respellings(s):
    """structure-aware, one layer below `reencoded_truncations`: if the text is a Bech32, Bech32m or CashAddr string, its payload is edited as
    a list of 5-bit SYMBOLS and spelled again under a valid checksum (computed here from the published polynomials), so the damage passes the
    checksum and reaches the 5-to-8-bit regrouping and the field splitting behind it: the payload cut at every symbol count (whole-byte and
    ragged, down to one symbol and none), symbols appended (1 … 8 zeros, all-ones), non-zero padding bits, every value of the leading
    version symbol, tiny hand-made payloads, the sibling checksum constant (Bech32 <-> Bech32m), and the upper-case spelling"""
    got = _b32_parse(s)
    if got is None:
        return []
    kind, hrp, pay = got
    pays = [pay[:i] for i in range(len(pay) + 1)]
    pays += [pay + [0] * k for k in range(1, 9)] + [pay + [31], pay + [31] * 2, pay + [0, 1], pay + pay]
    if pay:
        pays += [pay[:-1] + [pay[-1] ^ m] for m in (1, 2, 3, 4, 8, 16, 31)]
        pays += [pay[:-2] + [31] for _ in (0,)] + [pay[:-1] + [pay[-1] | 1, 0], pay[:1], pay[:1] + [0], pay[:1] + [3], pay[:1] + [31, 31]]
        pays += [[v] + pay[1:] for v in range(32) if v != pay[0]]
        pays += [pay[:1] + pay[2:], pay[:1] + [0] + pay[1:], pay[1:], [0] + pay]
    pays += [[0], [31], [0, 3], [0, 0], [1, 1, 1], [0] * 8, [31] * 13]
    out = [_b32_spell(kind, hrp, q) for q in pays]
    sibling = {"bech32": "bech32m", "bech32m": "bech32"}.get(kind)
    if sibling:
        out += [_b32_spell(sibling, hrp, q) for q in (pay, pay[:-1], pay + [0], pay[:1])]
    out += [_b32_spell(kind, hrp, pay).upper(), _b32_spell(kind, hrp, pay[:-1]).upper()]
    if _b32_spell(kind, hrp, pay) != s.lower():
        raise HarnessError("independent %s checksum does not reproduce the text it was parsed from: %r" % (kind, s))
    return list(dict.fromkeys(out))


# characters whose lower() / upper() / casefold() changes the LENGTH of a string, or that are digits/spaces only in Unicode's eyes
EXPANDERS = ["\u0130", "\u00df", "\u0149", "\u01f0", "\u0390", "\ufb01", "\u1e9e", "\u212a", "\u2163", "\u0661", "\uff11", "\u00b2", "\u3000", "\U0001d7d8"]


def case_expanding_variants(s):
    """the seed with its tail (after a short kept prefix such as '0x', 'bc1', 'nano_') replaced, at the same length, by one such character"""
    out = []
    L = len(s)
    if L == 0 or L > 120:
        return out
    for keep in sorted({0, 2, 4, 5, min(L, 11)}):
        if keep >= L:
            continue
        for ch in EXPANDERS:
            out.append(s[:keep] + ch * (L - keep))
        out.append(s[:keep] + "\u0130" * ((L - keep) // 2) + s[keep + (L - keep) // 2:])
    return out


PUMP_TAILS = ["/", " ", "'", "=", "1", "\u00e9"]


def pumped_variants(s):
    """promptness: a valid fragment repeated many times followed by a character that makes the whole string malformed (the shape on which
    an ambiguous regular expression or a quadratic re-scan blows up), plus long single-character and two-character runs"""
    if not 0 < len(s) <= 120:
        return []
    k = max(2, 400 // len(s))
    return [s * k] + [s * k + t for t in PUMP_TAILS] + [s + s[-1] * 60 + t for t in PUMP_TAILS[:2]]


PUMPED_FIXED = ["/" + "a" * 60 + "/", "//" + "ab//" * 16 + "/", "//0123456789abcdefghijklmnopqrstuvwxyz/", "m/" + "0'/" * 40, "m" + "/0" * 60 + "/", "0" * 200 + "x",
                " " * 200, ("abandon " * 40).strip() + "  x", "a1" * 45 + "!", "1" * 90 + "0"]


def boundary_triple_phrases():
    """Monero / Electrum v1 sentences of valid list words in which one word triple packs to a boundary value of the 32-bit chunk (2^32 − 1,
    exactly 2^32, 2^32 + 1, the largest packable value n^3 − 1), at the first and at the last triple position; the other triples pack to 0.
    Word lists are the pinned copies under /verif/golden (proved equal to /repo's by the C17 table theorems)"""
    import os
    from harness.core import VERIF
    out = []
    for rel in ("monero/ENGLISH.txt", "monero/FRENCH.txt", "electrum_v1/ENGLISH.txt"):
        try:
            words = open(os.path.join(VERIF, "golden", rel), encoding="utf-8").read().split()
        except OSError:
            continue
        nw = len(words)
        for v in (2**32 - 1, 2**32, 2**32 + 1, nw**3 - 1, 2**31):
            w1 = v % nw
            w2 = ((v // nw) % nw + w1) % nw
            w3 = ((v // (nw * nw)) + w2) % nw
            tri = [words[w1], words[w2], words[w3]]
            zero = [words[0]] * 3
            out.append(" ".join(tri + zero * 3))
            out.append(" ".join(zero * 3 + tri))
    return out


BOUNDARY_PHRASES = boundary_triple_phrases()


def str_inputs(rng, seeds, n):
    """(must-run inputs, sampled inputs)"""
    must = list(WEIRD) + list(seeds) + list(PUMPED_FIXED) + list(BOUNDARY_PHRASES)
    for s in seeds:
        must += reencoded_truncations(s)
        must += leading_byte_surgery(s)
        must += symbol_level_respellings(s)
        must += case_expanding_variants(s)
        must += pumped_variants(s)
    out = []
    for s in seeds:
        out.append(s)
        L = len(s)
        for i in range(min(L, 60)):
            out.append(s[:i])
        step = max(1, L // 40)
        for i in range(0, L, step):
            out.append(s[:i] + rng.choice(ALNUM + "é😀 =\x00") + s[i + 1:])
            out.append(s[:i] + s[i + 1:])
            out.append(s[:i] + rng.choice(ALNUM) + s[i:])
        out += [s + s, s.upper(), s.lower(), s.swapcase(), s[::-1], " " + s + " ", s + "\n", s.replace(" ", "  "), s + "=", s + "1"]
        if len(seeds) > 1:
            o = rng.choice(seeds)
            out.append(s[:L // 2] + o[len(o) // 2:])
    for _ in range(n):
        k = rng.choice([1, 2, 3, 8, 20, 34, 52, 90, 111])
        out.append("".join(rng.choice(ALNUM + " /'hp:=.-") for _ in range(k)))
    return must, out


def bytes_inputs(rng, seeds, n):
    """(must-run inputs, sampled inputs)"""
    must = [b"", b"\x00", b"\xff", bytes(31), bytes(32), bytes(33), bytes(64), bytes(65), b"\xff" * 32, b"\xff" * 33, b"\xff" * 64, bytes(300)] + list(seeds)
    out = []
    for s in seeds:
        out.append(s)
        L = len(s)
        for i in range(0, L + 1, max(1, L // 32)):
            out.append(s[:i])
        for i in range(0, L, max(1, L // 32)):
            out.append(s[:i] + bytes([s[i] ^ (1 << rng.randrange(8))]) + s[i + 1:])
        out += [s + b"\x00", b"\x00" + s, s + s, s[::-1]]
    for _ in range(n):
        out.append(bytes(rng.randrange(256) for _ in range(rng.choice([1, 2, 16, 20, 31, 32, 33, 37, 64, 65, 96]))))
    return must, out


def gen(rng, tier):
    # model diffs for the entry points that have a Lean model
    eps = entry_points(rng)
    n = 20 if tier == "quick" else 1500
    for name, kind, fn, seeds, model in eps:
        if model is None:
            continue
        must, ins = str_inputs(rng, seeds, n) if kind == "str" else bytes_inputs(rng, seeds, n)
        if tier == "quick":
            ins = rng.sample(ins, min(len(ins), 50))
        ins = must + ins
        for x in ins:
            try:
                if kind == "str":
                    x.encode("utf-8")
                c = model(x)
            except UnicodeEncodeError:
                continue
            c.cls = "model:" + name.split("[")[0]
            yield c


def relations(rng, tier, rpt):
    """the clause itself, on the implementation, for every entry point."""
    bad = []
    eps = entry_points(rng)
    n = 40 if tier == "quick" else 3000
    total = 0
    kinds = {}
    slow = []
    scrypt_budget = {"Bip38Decrypter.DecryptNoEc": 6, "Bip38Decrypter.DecryptEc": 6, "Bip38EcKeysGenerator.GeneratePrivateKey": 6}
    for name, kind, fn, seeds, model in eps:
        must, ins = str_inputs(rng, seeds, n) if kind == "str" else bytes_inputs(rng, seeds, n)
        if tier == "quick":
            ins = rng.sample(ins, min(len(ins), 120))
        ins = must + ins
        hung = 0
        for x in ins:
            if hung >= 2:        # two witnesses per entry point are enough; do not wait out every pumped input
                break
            if name in scrypt_budget and x in seeds:
                if scrypt_budget[name] <= 0:
                    continue
                scrypt_budget[name] -= 1
            t0 = time.time()
            try:
                with time_limit(PROMPT_LIMIT):
                    fn(x)
                k = "ok"
            except Hang:
                k = "Hang"
            except Exception as ex:  # noqa
                k = exc_kind(ex)
            dt = time.time() - t0
            total += 1
            kinds[k] = kinds.get(k, 0) + 1
            if k == "Hang":
                hung += 1
                bad.append({"property": "C14", "entry_point": name, "request_lines": [], "relation": "call does not terminate promptly (interrupted after %d s)" % PROMPT_LIMIT,
                            "input": (x if kind == "str" else x.hex()), "impl_output": "no answer within %d s" % PROMPT_LIMIT, "model_output": "result or ValueError/library error class, promptly",
                            "no_failing_input": False})
            elif k != "ok" and k not in DOCUMENTED:
                bad.append({"property": "C14", "entry_point": name, "request_lines": [], "relation": "exception outside the documented family",
                            "input": (x if kind == "str" else x.hex()), "impl_output": k, "model_output": "result or ValueError/library error class",
                            "no_failing_input": False})
            if dt > 5.0:
                slow.append((name, dt))
    rpt.extra["entry_points"] = len(eps)
    rpt.extra["entry_points_with_model"] = sum(1 for e in eps if e[4] is not None)
    rpt.extra["impl_calls"] = total
    rpt.extra["impl_outcomes"] = kinds
    for name, dt in slow[:3]:
        bad.append({"property": "C14", "entry_point": name, "request_lines": [], "relation": "call did not terminate promptly (%.1fs)" % dt,
                    "input": "", "impl_output": "%.1fs" % dt, "model_output": "< 5 s", "no_failing_input": False})
    # one report per (entry point, kind)
    seen, out = set(), []
    for b in bad:
        key = (b["entry_point"], b["impl_output"])
        if key not in seen:
            seen.add(key)
            out.append(b)
    return out[:40]
