"""C03 — key derivation conforms to BIP-32 / SLIP-0010 for every seed, curve and path."""
from harness.core import Case
from harness.canon import hx, nats
from harness.props.bip32_common import IMPL, CLS, ORDER, rand_index, rand_seed, IDX_EDGE
from bip_utils import Bip32KeyData

LEAN_MODULES = ["BipVerif.Props.C03", "BipVerif.Props.C03Group"]
CURVES = list(CLS)
TWO_ZERO_PATHS = []     # (curve, seed, hardened index) found by `gen`: m/i' has a private key below 2^240; `relations` walks every route to it

# published vectors (BIP-32 TV1/TV3 seeds, SLIP-0010 retry vectors)
DIRECTED = [
    ("secp256k1", "000102030405060708090a0b0c0d0e0f", [2**31, 1, 2**31 + 2, 2, 1000000000]),
    ("secp256k1", "4b381541583be4423346c643850da4b320e46a87ae3d2a4e6da11eba819cd4acba45d239319ac14f863b8d5ab5a0d0c64d2e8a1e7d1457df2e5a3c51c73235be", [2**31]),
    ("nist256p1", "000102030405060708090a0b0c0d0e0f", [2**31 + 28578, 33941]),          # child retry (IL >= n)
    ("nist256p1", "a7305bc8df8d0951f0cb224c0e95d7707cbdf2c6ce7e8d481fec69c7ff5e9446", []),  # master retry
    ("ed25519", "000102030405060708090a0b0c0d0e0f", [2**31, 2**31 + 1, 2**31 + 2]),
    ("ed25519blake2b", "000102030405060708090a0b0c0d0e0f", [2**31, 2**31 + 1]),
]


def gen(rng, tier):
    del TWO_ZERO_PATHS[:]
    for c, seed, path in DIRECTED:
        for k in range(len(path) + 1):
            yield Case("derive", [c, seed, nats(path[:k]), k], "directed")
            if k < len(path):     # the same vector with the object converted to public-only after k steps (public derivation, or its refusal)
                yield Case("derive", [c, seed, nats(path), k], "directed-public")
    # seed length refusal
    for c in CURVES:
        for ln in (0, 1, 15):
            yield Case("master", [c, hx(bytes(ln))], "neg-seedlen")
    n = 40 if tier == "quick" else 1500
    for i in range(n):
        c = CURVES[i % 4]
        seed = rand_seed(rng)
        depth = rng.choice([0, 1, 1, 2, 3, 5, 8]) if tier == "quick" else rng.choice([0, 1, 2, 3, 5, 8, 12, 20])
        ecdsa = c in ORDER
        path = [rand_index(rng, None if ecdsa else (True if rng.random() < 0.9 else None)) for _ in range(depth)]
        yield Case("derive", [c, hx(seed), nats(path), len(path)], "path-" + c)
    # single child steps from arbitrary parents: leading-zero keys, keys near n, wrapping sums
    m = 120 if tier == "quick" else 6000
    for i in range(m):
        c = ("secp256k1", "nist256p1")[i % 2]
        nn = ORDER[c]
        cls = rng.randrange(5)
        if cls == 0:
            k = rng.randrange(1, nn)
        elif cls == 1:
            k = rng.randrange(1, 2**rng.choice([8, 64, 200, 247]))     # leading zero bytes
        elif cls == 2:
            k = nn - rng.randrange(1, 2**rng.choice([1, 16, 128]))     # near the order: sums wrap
        elif cls == 3:
            k = rng.choice([1, 2, nn - 1, nn - 2])
        else:
            k = rng.choice([0, nn, nn + 1, 2**256 - 1])                # invalid parents
        cc = bytes(rng.randrange(256) for _ in range(32))
        dp = rng.choice([0, 1, 5, 253, 254, 255, rng.randrange(0, 256)])   # child depth 255 is legal, 256 is not
        yield Case("childpriv", [c, hx(k.to_bytes(32, "big")), hx(cc), dp, rand_index(rng)],
                   ("child" if dp < 255 else "neg-depth256") if cls < 4 else "neg-parent")
    # directed: seeds whose master key (HMAC left half under the curve's own key string) starts with one or two zero bytes
    import hmac as _hmac, hashlib as _hl
    keys = {"secp256k1": b"Bitcoin seed", "nist256p1": b"Nist256p1 seed", "ed25519": b"ed25519 seed", "ed25519blake2b": b"ed25519 seed"}
    for c in CURVES:
        found = 0
        for j in range(3000):
            seed = rng.getrandbits(256).to_bytes(32, "big")
            il = _hmac.new(keys[c], seed, _hl.sha512).digest()[:32]
            if il[0] == 0:
                yield Case("master", [c, hx(seed)], "master-leading-zero")
                yield Case("derive", [c, hx(seed), nats([2**31 + 1]), 1], "master-leading-zero")
                found += 1
                if found == (2 if tier == "quick" else 10):
                    break
    # directed: ed25519 nodes whose PUBLIC key starts with a zero byte (the 33-byte form 00 || A then has two leading zeros): master and a
    # hardened child of it, so that the key, its fingerprint and the child's parent fingerprint are all observed.  Found by computing the
    # SLIP-0010 master with hmac and the public key with the signature libraries directly
    import nacl.signing as _ns
    import ed25519_blake2b as _eb
    for c in ("ed25519", "ed25519blake2b"):
        found = 0
        for j in range(6000):
            seed = rng.getrandbits(256).to_bytes(32, "big")
            il = _hmac.new(b"ed25519 seed", seed, _hl.sha512).digest()[:32]
            a = bytes(_ns.SigningKey(il).verify_key) if c == "ed25519" else _eb.SigningKey(il).get_verifying_key().to_bytes()
            if a[0] == 0:
                yield Case("master", [c, hx(seed)], "pubkey-leading-zero")
                yield Case("derive", [c, hx(seed), nats([2**31 + 7, 2**31]), 2], "pubkey-leading-zero")
                found += 1
                if found == (2 if tier == "quick" else 8):
                    break
    # directed: children whose HMAC left half IL, or whose child private key, starts with a zero byte (fixed-width conversions)
    import hmac, hashlib
    for i in range(8 if tier == "quick" else 200):
        c = ("secp256k1", "nist256p1")[i % 2]
        kb = rng.randrange(1, ORDER[c]).to_bytes(32, "big")
        cc = bytes(rng.randrange(256) for _ in range(32))
        par = CLS[c].FromPrivateKey(kb, Bip32KeyData(chain_code=cc))
        pub = par.PublicKey().RawCompressed().ToBytes()
        start = rng.getrandbits(31) | (2**31 if i % 4 >= 2 else 0)
        found = 0
        for idx in range(start, start + 4000):
            data = (b"\x00" + kb if idx >= 2**31 else pub) + idx.to_bytes(4, "big")
            il = hmac.new(cc, data, hashlib.sha512).digest()[:32]
            child0 = (int.from_bytes(il, "big") + int.from_bytes(kb, "big")) % ORDER[c] < 2**248
            if il[0] == 0 or child0:
                yield Case("childpriv", [c, hx(kb), hx(cc), rng.choice([0, 3]), idx], "child-leading-zero")
                found += 1
                if found == 3:
                    break
    # directed: the same with TWO (thorough: also three) leading zero bytes — a fixed-width re-encoding that restores one dropped byte, or
    # pads "by one", is right on every 31-byte value and wrong from 30 bytes down (2^-16 of the children).  For each ECDSA curve: a hardened
    # and a non-hardened child whose private key (IL + k_par) mod n is below 2^240, a child whose IL is below 2^240, and a master key below
    # 2^240 on all four curves; all found with hashlib from the BIP-32/SLIP-0010 formulas.  Each hit is derived by the model and by the
    # implementation alone (childpriv) and as the last and as an inner step of a path (derive), so the refusal or a short key shows wherever
    # the child is used
    from harness.props.bip32_common import find_child_zero_bytes, hmac512_stream
    budget = 600000            # 2^-16 per try: the chance of coming back empty is e^-9
    reps = 1 if tier == "quick" else 12
    for r in range(reps):
        for c in ("secp256k1", "nist256p1"):
            for what, hardened in (("child", True), ("child", False), ("il", r % 2 == 0)):
                kb = rng.randrange(1, ORDER[c]).to_bytes(32, "big")
                cc = bytes(rng.randrange(256) for _ in range(32))
                pub = None if hardened else CLS[c].FromPrivateKey(kb).PublicKey().RawCompressed().ToBytes()
                idx = find_child_zero_bytes(rng, c, kb, cc, pub, hardened, 2, what, budget)
                if idx is None:
                    continue
                yield Case("childpriv", [c, hx(kb), hx(cc), rng.choice([0, 1, 7, 254]), idx], "child-two-leading-zeros" if what == "child" else "il-two-leading-zeros")
    if tier == "thorough":     # three zero bytes: 2^-24 per try, one hit (about a minute)
        c = rng.choice(["secp256k1", "nist256p1"])
        kb, cc = rng.randrange(1, ORDER[c]).to_bytes(32, "big"), bytes(rng.randrange(256) for _ in range(32))
        idx = find_child_zero_bytes(rng, c, kb, cc, None, True, 3, "child", 2**26)
        if idx is not None:
            yield Case("childpriv", [c, hx(kb), hx(cc), 0, idx], "child-three-leading-zeros")
    for c in CURVES:
        for r in range(reps):
            head = bytes(rng.randrange(256) for _ in range(rng.choice([12, 28, 60])))
            f = hmac512_stream(keys[c], head)
            nn = ORDER.get(c)
            for j in range(budget):
                il = f(j.to_bytes(4, "big"))[:32]
                if il[0] == 0 and il[1] == 0 and (nn is None or 0 < int.from_bytes(il, "big") < nn):
                    seed = head + j.to_bytes(4, "big")
                    if _hmac.new(keys[c], seed, _hl.sha512).digest()[:32] == il:
                        yield Case("master", [c, hx(seed)], "master-two-leading-zeros")
                        yield Case("derive", [c, hx(seed), nats([2**31 + 44, rand_index(rng, None if nn else True)]), 2], "master-two-leading-zeros")
                    break
    # path level: a seed whose hardened child m/i' (found with hashlib from the reference master) has a private key below 2^240, derived as
    # the last element and as an inner element of a path — every route (ChildKey chain here; FromSeedAndPath/DerivePath in `relations`)
    for c in ("secp256k1", "nist256p1"):
        seed = rand_seed(rng)
        i64 = _hmac.new(keys[c], seed, _hl.sha512).digest()
        if not 0 < int.from_bytes(i64[:32], "big") < ORDER[c]:
            continue
        idx = find_child_zero_bytes(rng, c, i64[:32], i64[32:], None, True, 2, "child", budget)
        if idx is not None:
            yield Case("derive", [c, hx(seed), nats([idx]), 1], "path-two-leading-zeros")
            yield Case("derive", [c, hx(seed), nats([idx, rand_index(rng), rand_index(rng, False)]), 3], "path-two-leading-zeros")
            yield Case("derive", [c, hx(seed), nats([idx, rand_index(rng, False)]), 1], "path-two-leading-zeros-public")
            TWO_ZERO_PATHS.append((c, seed, idx))
    for i in range(30 if tier == "quick" else 600):
        c = ("ed25519", "ed25519blake2b")[i % 2]
        k = bytes(rng.randrange(256) for _ in range(32))
        cc = bytes(rng.randrange(256) for _ in range(32))
        idx = rand_index(rng)
        dp = rng.choice([0, 2, 254, 255, rng.randrange(0, 256)])
        yield Case("childpriv", [c, hx(k), hx(cc), dp, idx], ("child-ed" if dp < 255 else "neg-depth256") if idx >= 2**31 else "neg-ed-soft")
    if tier == "thorough":
        # a 255-deep chain
        seed = rand_seed(rng)
        path = [rand_index(rng) for _ in range(255)]
        yield Case("derive", ["secp256k1", hx(seed), nats(path), 255], "deep")
        yield Case("derive", ["secp256k1", hx(seed), nats(path + [0]), 256], "deep")


def relations(rng, tier, rpt):
    """entry-point equivalence and history: FromSeedAndPath == FromSeed + DerivePath == ChildKey chain for every curve class, whatever
    class was used before with the same seed; objects handed out are independent of each other."""
    from harness.props.bip32_common import node_out
    from bip_utils import Bip32KeyError
    bad = []
    n = 0

    def rep(what, inp, got, want):
        bad.append({"property": "C03", "entry_point": what, "request_lines": [], "relation": what, "input": inp,
                    "impl_output": got, "model_output": want, "no_failing_input": False})
    for i in range(6 if tier == "quick" else 150):
        seed = rand_seed(rng)
        order = list(CURVES)
        rng.shuffle(order)
        path = [rand_index(rng, True) for _ in range(rng.randrange(0, 3))]
        ptxt = "m" + "".join("/%d'" % (e - 2**31) for e in path)
        want = {}
        for c in CURVES:
            o = CLS[c].FromSeed(seed)
            for e in path:
                o = o.ChildKey(e)
            want[c] = (node_out(o), type(o).__name__)
        for rnd in range(2):
            for c in order:
                n += 1
                got_o = CLS[c].FromSeedAndPath(seed, ptxt)
                got = (node_out(got_o), type(got_o).__name__)
                if got != want[c]:
                    rep("FromSeedAndPath differs from FromSeed + ChildKey chain (after the same seed was used with another curve class)",
                        "%s seed=%s path=%s order=%s" % (c, seed.hex(), ptxt, order), str(got), str(want[c]))
                if rnd == 0:
                    got_o.ConvertToPublic()         # what the caller does with ITS object must not reach later calls
    # the child's key is a function of (parent key, index) only: deriving the same child again from the same parent OBJECT gives an equal
    # and independent object, whatever the caller did to the first one (conversion to public-only), with int and index-object spellings
    from bip_utils import Bip32KeyIndex
    for i in range(8 if tier == "quick" else 200):
        c = CURVES[i % len(CURVES)]
        par = CLS[c].FromSeed(rand_seed(rng))
        idx = rand_index(rng, True if c.startswith("ed25519") else None)
        first = par.ChildKey(idx)
        want = node_out(first)
        first.ConvertToPublic()
        n += 1
        for what, f in (("ChildKey(int)", lambda: par.ChildKey(idx)), ("ChildKey(Bip32KeyIndex)", lambda: par.ChildKey(Bip32KeyIndex(idx))),
                        ("DerivePath", lambda: par.DerivePath("%d%s" % (idx & 0x7fffffff, "'" if idx >= 2**31 else "")))):
            again = f()
            if node_out(again) != want:
                rep("%s: the same child derived again from the same parent object differs after the caller converted the first one to public-only" % what,
                    "%s index=%d" % (c, idx), node_out(again), want)
                break
    # every route to a prescribed child hands out the prescribed key: for the hardened children with a private key below 2^240 that `gen`
    # found, the reference key and chain code (hashlib: k = (IL + k_par) mod n as 32 bytes, c = IR) are demanded from ChildKey, DerivePath
    # (text and path object) and FromSeedAndPath; a refusal is reported as what it is
    import hmac as _hmac, hashlib as _hl
    from bip_utils import Bip32PathParser
    mkeys = {"secp256k1": b"Bitcoin seed", "nist256p1": b"Nist256p1 seed"}
    for c, seed, idx in TWO_ZERO_PATHS:
        i64 = _hmac.new(mkeys[c], seed, _hl.sha512).digest()
        d = _hmac.new(i64[32:], b"\x00" + i64[:32] + idx.to_bytes(4, "big"), _hl.sha512).digest()
        want = (((int.from_bytes(d[:32], "big") + int.from_bytes(i64[:32], "big")) % ORDER[c]).to_bytes(32, "big").hex(), d[32:].hex(), 1, idx)
        ptxt = "m/%d'" % (idx - 2**31)
        for what, f in (("FromSeed + ChildKey", lambda: CLS[c].FromSeed(seed).ChildKey(idx)),
                        ("FromSeed + DerivePath(str)", lambda: CLS[c].FromSeed(seed).DerivePath(ptxt)),
                        ("FromSeed + DerivePath(Bip32Path)", lambda: CLS[c].FromSeed(seed).DerivePath(Bip32PathParser.Parse(ptxt[2:]))),
                        ("FromSeedAndPath", lambda: CLS[c].FromSeedAndPath(seed, ptxt))):
            n += 1
            try:
                o = f()
                got = (o.PrivateKey().Raw().ToBytes().hex(), o.ChainCode().ToBytes().hex(), int(o.Depth()), int(o.Index()))
            except Bip32KeyError as ex:
                got = "refused: Bip32KeyError"
            if got != want:
                rep("%s: the child %s (private key with two leading zero bytes) is not the one BIP-32 prescribes" % (what, ptxt),
                    "%s seed=%s path=%s" % (c, seed.hex(), ptxt), str(got), str(want))
    rpt.extra["entry_point_equivalence_checks"] = n
    return bad[:5]
