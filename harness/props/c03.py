"""C03 — key derivation conforms to BIP-32 / SLIP-0010 for every seed, curve and path."""
from harness.core import Case
from harness.canon import hx, nats
from harness.props.bip32_common import IMPL, CLS, ORDER, rand_index, rand_seed, IDX_EDGE
from bip_utils import Bip32KeyData

LEAN_MODULES = ["BipVerif.Props.C03", "BipVerif.Props.C03Group"]
CURVES = list(CLS)
TWO_ZERO_PATHS = []     # (curve, seed, hardened index) found by `gen`: m/i' has a private key below 2^240; `relations` walks every route to it

# published vectors (BIP-32 TV1/TV3 seeds, SLIP-0010 retry vectors)
DIRECTED = [
    ("secp256k1", "000102030405060708090a0b0c0d0e0f", [2**31, 1, 2**31 + 2, 2, 1000000000]),
    ("secp256k1", "4b381541583be4423346c643850da4b320e46a87ae3d2a4e6da11eba819cd4acba45d239319ac14f863b8d5ab5a0d0c64d2e8a1e7d1457df2e5a3c51c73235be", [2**31]),
    ("nist256p1", "000102030405060708090a0b0c0d0e0f", [2**31 + 28578, 33941]),          # child retry (IL >= n)
    ("nist256p1", "a7305bc8df8d0951f0cb224c0e95d7707cbdf2c6ce7e8d481fec69c7ff5e9446", []),  # master retry
    ("ed25519", "000102030405060708090a0b0c0d0e0f", [2**31, 2**31 + 1, 2**31 + 2]),
    ("ed25519blake2b", "000102030405060708090a0b0c0d0e0f", [2**31, 2**31 + 1]),
]


def gen(rng, tier):
    del TWO_ZERO_PATHS[:]
    for c, seed, path in DIRECTED:
        for k in range(len(path) + 1):
            yield Case("derive", [c, seed, nats(path[:k]), k], "directed")
            if k < len(path):     # the same vector with the object converted to public-only after k steps (public derivation, or its refusal)
                yield Case("derive", [c, seed, nats(path), k], "directed-public")
    # seed length refusal
    for c in CURVES:
        for ln in (0, 1, 15):
            yield Case("master", [c, hx(bytes(ln))], "neg-seedlen")
    n = 40 if tier == "quick" else 1500
    for i in range(n):
        c = CURVES[i % 4]
        seed = rand_seed(rng)
        depth = rng.choice([0, 1, 1, 2, 3, 5, 8]) if tier == "quick" else rng.choice([0, 1, 2, 3, 5, 8, 12, 20])
        ecdsa = c in ORDER
        path = [rand_index(rng, None if ecdsa else (True if rng.random() < 0.9 else None)) for _ in range(depth)]
        yield Case("derive", [c, hx(seed), nats(path), len(path)], "path-" + c)
    # single child steps from arbitrary parents: leading-zero keys, keys near n, wrapping sums
    m = 120 if tier == "quick" else 6000
    for i in range(m):
        c = ("secp256k1", "nist256p1")[i % 2]
        nn = ORDER[c]
        cls = rng.randrange(5)
        if cls == 0:
            k = rng.randrange(1, nn)
        elif cls == 1:
            k = rng.randrange(1, 2**rng.choice([8, 64, 200, 247]))     # leading zero bytes
        elif cls == 2:
            k = nn - rng.randrange(1, 2**rng.choice([1, 16, 128]))     # near the order: sums wrap
        elif cls == 3:
            k = rng.choice([1, 2, nn - 1, nn - 2])
        else:
            k = rng.choice([0, nn, nn + 1, 2**256 - 1])                # invalid parents
        cc = bytes(rng.randrange(256) for _ in range(32))
        dp = rng.choice([0, 1, 5, 253, 254, 255, rng.randrange(0, 256)])   # child depth 255 is legal, 256 is not
        yield Case("childpriv", [c, hx(k.to_bytes(32, "big")), hx(cc), dp, rand_index(rng)],
                   ("child" if dp < 255 else "neg-depth256") if cls < 4 else "neg-parent")
    # directed: seeds whose master key (HMAC left half under the curve's own key string) starts with one or two zero bytes
    import hmac as _hmac, hashlib as _hl
    keys = {"secp256k1": b"Bitcoin seed", "nist256p1": b"Nist256p1 seed", "ed25519": b"ed25519 seed", "ed25519blake2b": b"ed25519 seed"}
    for c in CURVES:
        found = 0
        for j in range(3000):
            seed = rng.getrandbits(256).to_bytes(32, "big")
            il = _hmac.new(keys[c], seed, _hl.sha512).digest()[:32]
            if il[0] == 0:
                yield Case("master", [c, hx(seed)], "master-leading-zero")
                yield Case("derive", [c, hx(seed), nats([2**31 + 1]), 1], "master-leading-zero")
                found += 1
                if found == (2 if tier == "quick" else 10):
                    break
    # directed: ed25519 nodes whose PUBLIC key starts with a zero byte (the 33-byte form 00 || A then has two leading zeros): master and a
    # hardened child of it, so that the key, its fingerprint and the child's parent fingerprint are all observed.  Found by computing the
    # SLIP-0010 master with hmac and the public key with the signature libraries directly
    import nacl.signing as _ns
    import ed25519_blake2b as _eb
    for c in ("ed25519", "ed25519blake2b"):
        found = 0
        for j in range(6000):
            seed = rng.getrandbits(256).to_bytes(32, "big")
            il = _hmac.new(b"ed25519 seed", seed, _hl.sha512).digest()[:32]
            a = bytes(_ns.SigningKey(il).verify_key) if c == "ed25519" else _eb.SigningKey(il).get_verifying_key().to_bytes()
            if a[0] == 0:
                yield Case("master", [c, hx(seed)], "pubkey-leading-zero")
                yield Case("derive", [c, hx(seed), nats([2**31 + 7, 2**31]), 2], "pubkey-leading-zero")
                found += 1
                if found == (2 if tier == "quick" else 8):
                    break
    # directed: children whose HMAC left half IL, or whose child private key, starts with a zero byte (fixed-width conversions)
    import hmac, hashlib
    for i in range(8 if tier == "quick" else 200):
        c = ("secp256k1", "nist256p1")[i % 2]
        kb = rng.randrange(1, ORDER[c]).to_bytes(32, "big")
        cc = bytes(rng.randrange(256) for _ in range(32))
        par = CLS[c].FromPrivateKey(kb, Bip32KeyData(chain_code=cc))
        pub = par.PublicKey().RawCompressed().ToBytes()
        start = rng.getrandbits(31) | (2**31 if i % 4 >= 2 else 0)
        found = 0
        for idx in range(start, start + 4000):
            data = (b"\x00" + kb if idx >= 2**31 else pub) + idx.to_bytes(4, "big")
            il = hmac.new(cc, data, hashlib.sha512).digest()[:32]
            child0 = (int.from_bytes(il, "big") + int.from_bytes(kb, "big")) % ORDER[c] < 2**248
            if il[0] == 0 or child0:
                yield Case("childpriv", [c, hx(kb), hx(cc), rng.choice([0, 3]), idx], "child-leading-zero")
                found += 1
                if found == 3:
                    break
    # directed: the same with TWO (thorough: also three) leading zero bytes — a fixed-width re-encoding that restores one dropped byte, or
    # pads "by one", is right on every 31-byte value and wrong from 30 bytes down (2^-16 of the children).  For each ECDSA curve: a hardened
    # and a non-hardened child whose private key (IL + k_par) mod n is below 2^240, a child whose IL is below 2^240, and a master key below
    # 2^240 on all four curves; all found with hashlib from the BIP-32/SLIP-0010 formulas.  Each hit is derived by the model and by the
    # implementation alone (childpriv) and as the last and as an inner step of a path (derive), so the refusal or a short key shows wherever
    # the child is used
    from harness.props.bip32_common import find_child_zero_bytes, hmac512_stream
    budget = 600000            # 2^-16 per try: the chance of coming back empty is e^-9
    reps = 1 if tier == "quick" else 12
    for r in range(reps):
        for c in ("secp256k1", "nist256p1"):
            for what, hardened in (("child", True), ("child", False), ("il", r % 2 == 0)):
                kb = rng.randrange(1, ORDER[c]).to_bytes(32, "big")
                cc = bytes(rng.randrange(256) for _ in range(32))
                pub = None if hardened else CLS[c].FromPrivateKey(kb).PublicKey().RawCompressed().ToBytes()
                idx = find_child_zero_bytes(rng, c, kb, cc, pub, hardened, 2, what, budget)
                if idx is None:
                    continue
                yield Case("childpriv", [c, hx(kb), hx(cc), rng.choice([0, 1, 7, 254]), idx], "child-two-leading-zeros" if what == "child" else "il-two-leading-zeros")
    if tier == "thorough":     # three zero bytes: 2^-24 per try, one hit (about a minute)
        c = rng.choice(["secp256k1", "nist256p1"])
        kb, cc = rng.randrange(1, ORDER[c]).to_bytes(32, "big"), bytes(rng.randrange(256) for _ in range(32))
        idx = find_child_zero_bytes(rng, c, kb, cc, None, True, 3, "child", 2**26)
        if idx is not None:
            yield Case("childpriv", [c, hx(kb), hx(cc), 0, idx], "child-three-leading-zeros")
    for c in CURVES:
        for r in range(reps):
            head = bytes(rng.randrange(256) for _ in range(rng.choice([12, 28, 60])))
            f = hmac512_stream(keys[c], head)
            nn = ORDER.get(c)
            for j in range(budget):
                il = f(j.to_bytes(4, "big"))[:32]
                if il[0] == 0 and il[1] == 0 and (nn is None or 0 < int.from_bytes(il, "big") < nn):
                    seed = head + j.to_bytes(4, "big")
                    if _hmac.new(keys[c], seed, _hl.sha512).digest()[:32] == il:
                        yield Case("master", [c, hx(seed)], "master-two-leading-zeros")
                        yield Case("derive", [c, hx(seed), nats([2**31 + 44, rand_index(rng, None if nn else True)]), 2], "master-two-leading-zeros")
                    break
    # path level: a seed whose hardened child m/i' (found with hashlib from the reference master) has a private key below 2^240, derived as
    # the last element and as an inner element of a path — every route (ChildKey chain here; FromSeedAndPath/DerivePath in `relations`)
    for c in ("secp256k1", "nist256p1"):
        seed = rand_seed(rng)
        i64 = _hmac.new(keys[c], seed, _hl.sha512).digest()
        if not 0 < int.from_bytes(i64[:32], "big") < ORDER[c]:
            continue
        idx = find_child_zero_bytes(rng, c, i64[:32], i64[32:], None, True, 2, "child", budget)
        if idx is not None:
            yield Case("derive", [c, hx(seed), nats([idx]), 1], "path-two-leading-zeros")
            yield Case("derive", [c, hx(seed), nats([idx, rand_index(rng), rand_index(rng, False)]), 3], "path-two-leading-zeros")
            yield Case("derive", [c, hx(seed), nats([idx, rand_index(rng, False)]), 1], "path-two-leading-zeros-public")
            TWO_ZERO_PATHS.append((c, seed, idx))
    for i in range(30 if tier == "quick" else 600):
        c = ("ed25519", "ed25519blake2b")[i % 2]
        k = bytes(rng.randrange(256) for _ in range(32))
        cc = bytes(rng.randrange(256) for _ in range(32))
        idx = rand_index(rng)
        dp = rng.choice([0, 2, 254, 255, rng.randrange(0, 256)])
        yield Case("childpriv", [c, hx(k), hx(cc), dp, idx], ("child-ed" if dp < 255 else "neg-depth256") if idx >= 2**31 else "neg-ed-soft")
    if tier == "thorough":
        # a 255-deep chain
        seed = rand_seed(rng)
        path = [rand_index(rng) for _ in range(255)]
        yield Case("derive", ["secp256k1", hx(seed), nats(path), 255], "deep")
        yield Case("derive", ["secp256k1", hx(seed), nats(path + [0]), 256], "deep")


def relations(rng, tier, rpt):
    """entry-point equivalence and history: FromSeedAndPath == FromSeed + DerivePath == ChildKey chain for every curve class, whatever
    class was used before with the same seed; objects handed out are independent of each other."""
    from harness.props.bip32_common import node_out
    from bip_utils import Bip32KeyError
    bad = []
    n = 0

    def rep(what, inp, got, want):
        bad.append({"property": "C03", "entry_point": what, "request_lines": [], "relation": what, "input": inp,
                    "impl_output": got, "model_output": want, "no_failing_input": False})
    for i in range(6 if tier == "quick" else 150):
        seed = rand_seed(rng)
        order = list(CURVES)
        rng.shuffle(order)
        path = [rand_index(rng, True) for _ in range(rng.randrange(0, 3))]
        ptxt = "m" + "".join("/%d'" % (e - 2**31) for e in path)
        want = {}
        for c in CURVES:
            o = CLS[c].FromSeed(seed)
            for e in path:
                o = o.ChildKey(e)
            want[c] = (node_out(o), type(o).__name__)
        for rnd in range(2):
            for c in order:
                n += 1
                got_o = CLS[c].FromSeedAndPath(seed, ptxt)
                got = (node_out(got_o), type(got_o).__name__)
                if got != want[c]:
                    rep("FromSeedAndPath differs from FromSeed + ChildKey chain (after the same seed was used with another curve class)",
                        "%s seed=%s path=%s order=%s" % (c, seed.hex(), ptxt, order), str(got), str(want[c]))
                if rnd == 0:
                    got_o.ConvertToPublic()         # what the caller does with ITS object must not reach later calls
    # the child's key is a function of (parent key, index) only: deriving the same child again from the same parent OBJECT gives an equal
    # and independent object, whatever the caller did to the first one (conversion to public-only), with int and index-object spellings
    from bip_utils import Bip32KeyIndex
    for i in range(8 if tier == "quick" else 200):
        c = CURVES[i % len(CURVES)]
        par = CLS[c].FromSeed(rand_seed(rng))
        idx = rand_index(rng, True if c.startswith("ed25519") else None)
        first = par.ChildKey(idx)
        want = node_out(first)
        first.ConvertToPublic()
        n += 1
        for what, f in (("ChildKey(int)", lambda: par.ChildKey(idx)), ("ChildKey(Bip32KeyIndex)", lambda: par.ChildKey(Bip32KeyIndex(idx))),
                        ("DerivePath", lambda: par.DerivePath("%d%s" % (idx & 0x7fffffff, "'" if idx >= 2**31 else "")))):
            again = f()
            if node_out(again) != want:
                rep("%s: the same child derived again from the same parent object differs after the caller converted the first one to public-only" % what,
                    "%s index=%d" % (c, idx), node_out(again), want)
                break
    # every route to a prescribed child hands out the prescribed key: for the hardened children with a private key below 2^240 that `gen`
    # found, the reference key and chain code (hashlib: k = (IL + k_par) mod n as 32 bytes, c = IR) are demanded from ChildKey, DerivePath
    # (text and path object) and FromSeedAndPath; a refusal is reported as what it is
    import hmac as _hmac, hashlib as _hl
    from bip_utils import Bip32PathParser
    mkeys = {"secp256k1": b"Bitcoin seed", "nist256p1": b"Nist256p1 seed"}
    for c, seed, idx in TWO_ZERO_PATHS:
        i64 = _hmac.new(mkeys[c], seed, _hl.sha512).digest()
        d = _hmac.new(i64[32:], b"\x00" + i64[:32] + idx.to_bytes(4, "big"), _hl.sha512).digest()
        want = (((int.from_bytes(d[:32], "big") + int.from_bytes(i64[:32], "big")) % ORDER[c]).to_bytes(32, "big").hex(), d[32:].hex(), 1, idx)
        ptxt = "m/%d'" % (idx - 2**31)
        for what, f in (("FromSeed + ChildKey", lambda: CLS[c].FromSeed(seed).ChildKey(idx)),
                        ("FromSeed + DerivePath(str)", lambda: CLS[c].FromSeed(seed).DerivePath(ptxt)),
                        ("FromSeed + DerivePath(Bip32Path)", lambda: CLS[c].FromSeed(seed).DerivePath(Bip32PathParser.Parse(ptxt[2:]))),
                        ("FromSeedAndPath", lambda: CLS[c].FromSeedAndPath(seed, ptxt))):
            n += 1
            try:
                o = f()
                got = (o.PrivateKey().Raw().ToBytes().hex(), o.ChainCode().ToBytes().hex(), int(o.Depth()), int(o.Index()))
            except Bip32KeyError as ex:
                got = "refused: Bip32KeyError"
            if got != want:
                rep("%s: the child %s (private key with two leading zero bytes) is not the one BIP-32 prescribes" % (what, ptxt),
                    "%s seed=%s path=%s" % (c, seed.hex(), ptxt), str(got), str(want))
    rpt.extra["entry_point_equivalence_checks"] = n
    more = []
    for f in (_path_object_history, _concurrent_derivations):
        sub = []
        f(rng, tier, rpt, lambda what, inp, got, want, _s=sub: _s.append(
            {"property": "C03", "entry_point": what, "request_lines": [], "relation": what, "input": inp, "impl_output": str(got), "model_output": str(want),
             "no_failing_input": False}))
        more += sub[:3]
    return bad[:5] + more


MASTER_KEYS = {"secp256k1": b"Bitcoin seed", "nist256p1": b"Nist256p1 seed", "ed25519": b"ed25519 seed", "ed25519blake2b": b"ed25519 seed"}


def ref_priv_path(c, seed, elems):
    """(private key, chain code) of the node seed -> elems from the BIP-32 / SLIP-0010 text with hmac only; `elems` all hardened (no curve
    arithmetic is needed then).  None when an HMAC left half is out of range on the way (2^-128 / 2^-32: the retry rules are the matter of
    the directed vectors, not of this reference)"""
    import hmac, hashlib
    d = hmac.new(MASTER_KEYS[c], seed, hashlib.sha512).digest()
    n = ORDER.get(c)
    if n is not None and not 0 < int.from_bytes(d[:32], "big") < n:
        return None
    k, cc = d[:32], d[32:]
    for e in elems:
        assert e >= 2**31
        d = hmac.new(cc, b"\x00" + k + e.to_bytes(4, "big"), hashlib.sha512).digest()
        if n is None:
            k = d[:32]
        else:
            il = int.from_bytes(d[:32], "big")
            v = (il + int.from_bytes(k, "big")) % n
            if il >= n or v == 0:
                return None
            k = v.to_bytes(32, "big")
        cc = d[32:]
    return k, cc


def _path_object_history(rng, tier, rpt, rep):
    """"for every seed and every derivation path": a Bip32Path OBJECT is a value — the node derived for it does not depend on what was done
    with the same object before.  The object (parsed from text, built from ints, built from index objects) is put through a random history:
    a derivation that is refused part-way (hardened element on a public-only node; non-hardened element on an ed25519 scheme; an absolute
    path on a child), an iteration the caller abandons after some elements, complete derivations on other curve classes, reads of its
    accessors; after every step DerivePath(path) and FromSeedAndPath(seed, path) must hand out the node of the WHOLE path — key, chain code,
    depth, index, parent fingerprint — which is the ChildKey chain over plain ints (and, for all-hardened paths, the hmac reference).
    A path that must be refused (non-hardened element on ed25519 / ed25519-blake2b; hardened element from a public-only node) is refused
    with the key error EVERY time it is presented, not only the first."""
    from harness.props.bip32_common import node_out
    from bip_utils import Bip32KeyError, Bip32Path, Bip32PathParser, Bip32KeyIndex
    n = 0

    def outcome(f):
        try:
            return node_out(f())
        except Bip32KeyError:
            return "refused: Bip32KeyError"
        except ValueError as ex:
            return "refused: " + type(ex).__name__

    def make(elems, kind, absolute=True):
        txt = ("m/" if absolute else "") + "/".join("%d%s" % (e & 0x7fffffff, "'" if e >> 31 else "") for e in elems)
        if kind == 0:
            return Bip32PathParser.Parse(txt), "Bip32PathParser.Parse(%r)" % txt
        if kind == 1:
            return Bip32Path(list(elems), absolute), "Bip32Path(%s)" % list(elems)
        return Bip32Path([Bip32KeyIndex(e) for e in elems], absolute), "Bip32Path([Bip32KeyIndex …] %s)" % list(elems)

    for i in range(16 if tier == "quick" else 400):
        c = CURVES[i % 4]
        ed = c not in ORDER
        seed = rand_seed(rng)
        ln = rng.randrange(2, 6)
        all_hard = ed or i % 3 == 0
        elems = [rand_index(rng, True if all_hard else None) for _ in range(ln)]
        if not ed and not any(e >> 31 for e in elems):
            elems[rng.randrange(ln)] |= 2**31            # at least one element a public-only node must refuse
        path, how = make(elems, (i // 4) % 3)
        x = CLS[c].FromSeed(seed)
        for e in elems:
            x = x.ChildKey(e)
        want = node_out(x)
        if all_hard:
            r = ref_priv_path(c, seed, elems)
            if r is not None and (x.PrivateKey().Raw().ToBytes(), x.ChainCode().ToBytes()) != r:
                rep("ChildKey chain: the node of an all-hardened path is not the one SLIP-0010 prescribes (hmac reference)", "%s seed=%s path=%s" % (c, seed.hex(), elems),
                    (x.PrivateKey().Raw().ToBytes().hex(), x.ChainCode().ToBytes().hex()), (r[0].hex(), r[1].hex()))
        # an ed25519 path that must be refused shares nothing with `path`; its own repeated presentation is checked below
        bad_elems = list(elems)
        bad_elems[rng.randrange(ln)] &= 2**31 - 1
        bad_path, bad_how = make(bad_elems, rng.randrange(3))
        watch = CLS[c].FromSeed(seed)
        watch.ConvertToPublic()
        other = CLS[CURVES[(i + 1 + rng.randrange(3)) % 4]]
        hist = []
        ops = ["refused", "partial", "partial-next", "elsewhere", "read", "absolute-on-child"]
        for step in range(5 if tier == "quick" else 8):
            op = "refused" if step == 0 else rng.choice(ops)
            hist.append(op)
            if op == "refused" and not ed:           # hardened element on a public-only node: refused at that element
                r = outcome(lambda: watch.DerivePath(path))
                n += 1
                if r != "refused: Bip32KeyError":
                    rep("a path with a hardened element is not refused with the key error by a public-only node (attempt %d with the same path object)" % hist.count("refused"),
                        "%s seed=%s %s" % (c, seed.hex(), how), r, "refused: Bip32KeyError")
                    break
            elif op == "refused":                      # ed25519: the path with one element not hardened, the same object again and again
                for what, f in (("FromSeedAndPath", lambda: CLS[c].FromSeedAndPath(seed, bad_path)), ("FromSeed + DerivePath", lambda: CLS[c].FromSeed(seed).DerivePath(bad_path))):
                    r = outcome(f)
                    n += 1
                    if r != "refused: Bip32KeyError":
                        rep("%s: a path with a non-hardened element is not refused with the key error on %s (attempt %d with the same path object)" % (what, c, hist.count("refused")),
                            "seed=%s %s" % (seed.hex(), bad_how), r, "refused: Bip32KeyError")
                        break
            elif op == "partial":
                for k, _e in enumerate(path):
                    if k == rng.randrange(ln):
                        break
            elif op == "partial-next":
                it = iter(path)
                for _ in range(rng.randrange(1, ln)):
                    next(it)
            elif op == "elsewhere":
                outcome(lambda: other.FromSeed(seed).DerivePath(path))
            elif op == "read":
                path.ToList(), path.ToStr(), path.Length(), path.IsAbsolute(), path[rng.randrange(ln)].ToInt(), str(path)
            elif op == "absolute-on-child":
                outcome(lambda: CLS[c].FromSeed(seed).ChildKey(2**31).DerivePath(path))
            stop = False
            for what, f in (("FromSeed + DerivePath(path object)", lambda: CLS[c].FromSeed(seed).DerivePath(path)), ("FromSeedAndPath(seed, path object)", lambda: CLS[c].FromSeedAndPath(seed, path))):
                n += 1
                got = outcome(f)
                if got != want:
                    rep("%s: the node derived for a path object is not the node of that path once the same object has been used before (history: %s)" % (what, " / ".join(hist)),
                        "%s seed=%s %s" % (c, seed.hex(), how), got, want)
                    stop = True
                    break
            if stop:
                break
    rpt.extra["path_object_history_checks"] = n


def _concurrent_derivations(rng, tier, rpt, rep):
    """the prescribed keys are handed out also when several wallets are derived at the same time: one thread per curve class (plus a second
    secp256k1 and ed25519 wallet), each with its OWN seed, keeps building the master key from the seed and deriving hardened children and a
    two-level path from it, so that HMAC-SHA512 runs under different keys (curve strings, chain codes) in every thread.  Every node is
    compared with the one the same call gave single-threaded beforehand, whose private key and chain code were checked against the hmac
    reference.  Threads are released together by a barrier under a minimal switch interval; fresh objects every round."""
    import sys, threading, time
    from harness.props.bip32_common import node_out
    wallets = []
    for t, c in enumerate(CURVES + ["secp256k1", "ed25519"]):
        for _ in range(20):
            seed = rand_seed(rng)
            idxs = [rand_index(rng, True) for _ in range(6)]
            if ref_priv_path(c, seed, []) is not None and all(ref_priv_path(c, seed, [e, e ^ 1]) is not None for e in idxs):
                break
        else:
            continue
        single = {}
        m = CLS[c].FromSeed(seed)
        single["master"] = node_out(m)
        ok = (m.PrivateKey().Raw().ToBytes(), m.ChainCode().ToBytes()) == ref_priv_path(c, seed, [])
        for e in idxs:
            ch = m.ChildKey(e)
            g = ch.ChildKey(e ^ 1)
            single[e] = (node_out(ch), node_out(g))
            ok = ok and (ch.PrivateKey().Raw().ToBytes(), ch.ChainCode().ToBytes()) == ref_priv_path(c, seed, [e]) \
                and (g.PrivateKey().Raw().ToBytes(), g.ChainCode().ToBytes()) == ref_priv_path(c, seed, [e, e ^ 1])
        if not ok:
            rep("single-threaded: master key / hardened children are not those SLIP-0010 prescribes (hmac reference)", "%s seed=%s indexes=%s" % (c, seed.hex(), idxs), "differs", "hmac reference")
            return
        wallets.append((c, seed, idxs, single))
    nt = len(wallets)
    bar = threading.Barrier(nt)
    stop = threading.Event()
    errors, calls = [], [0] * nt
    budget = 1.2 if tier == "quick" else 12.0

    def worker(t):
        c, seed, idxs, single = wallets[t]
        cls = CLS[c]
        bar.wait()
        end = time.monotonic() + budget
        r = 0
        try:
            while not stop.is_set() and time.monotonic() < end:
                e = idxs[r % len(idxs)]
                r += 1
                m = cls.FromSeed(seed)
                got = node_out(m)
                if got != single["master"]:
                    errors.append((c, seed, "FromSeed", got, single["master"], r))
                    break
                got = (node_out(m.ChildKey(e)), node_out(m.DerivePath("%d'/%d'" % (e - 2**31, (e ^ 1) - 2**31))))
                if got != single[e]:
                    errors.append((c, seed, "ChildKey(%d) / DerivePath(%d'/%d')" % (e, e - 2**31, (e ^ 1) - 2**31), got, single[e], r))
                    break
                calls[t] += 3
        except Exception as ex:  # noqa  a wrong HMAC output may also surface as a refused key
            errors.append((c, seed, "derivation", "raised %s: %s" % (type(ex).__name__, str(ex)[:80]), "the prescribed node", r))
        finally:
            stop.set() if errors else None

    old = sys.getswitchinterval()
    sys.setswitchinterval(1e-6)
    try:
        ths = [threading.Thread(target=worker, args=(t,)) for t in range(nt)]
        for th in ths:
            th.start()
        for th in ths:
            th.join()
    finally:
        sys.setswitchinterval(old)
    for c, seed, what, got, want, r in errors[:2]:
        rep("%s in one of %d threads deriving different wallets at the same time: the node is not the prescribed one (it is when derived alone)" % (what, nt),
            "%s seed=%s round=%d" % (c, seed.hex(), r), got, want)
    rpt.extra["concurrent_derivation_calls"] = sum(calls)
