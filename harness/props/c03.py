"""C03 — key derivation conforms to BIP-32 / SLIP-0010 for every seed, curve and path."""
from harness.core import Case
from harness.canon import hx, nats
from harness.props.bip32_common import IMPL, CLS, ORDER, rand_index, rand_seed, IDX_EDGE
from bip_utils import Bip32KeyData

LEAN_MODULES = ["BipVerif.Props.C03"]
CURVES = list(CLS)

# published vectors (BIP-32 TV1/TV3 seeds, SLIP-0010 retry vectors)
DIRECTED = [
    ("secp256k1", "000102030405060708090a0b0c0d0e0f", [2**31, 1, 2**31 + 2, 2, 1000000000]),
    ("secp256k1", "4b381541583be4423346c643850da4b320e46a87ae3d2a4e6da11eba819cd4acba45d239319ac14f863b8d5ab5a0d0c64d2e8a1e7d1457df2e5a3c51c73235be", [2**31]),
    ("nist256p1", "000102030405060708090a0b0c0d0e0f", [2**31 + 28578, 33941]),          # child retry (IL >= n)
    ("nist256p1", "a7305bc8df8d0951f0cb224c0e95d7707cbdf2c6ce7e8d481fec69c7ff5e9446", []),  # master retry
    ("ed25519", "000102030405060708090a0b0c0d0e0f", [2**31, 2**31 + 1, 2**31 + 2]),
    ("ed25519blake2b", "000102030405060708090a0b0c0d0e0f", [2**31, 2**31 + 1]),
]


def gen(rng, tier):
    for c, seed, path in DIRECTED:
        for k in range(len(path) + 1):
            yield Case("derive", [c, seed, nats(path[:k]), k], "directed")
            if k < len(path):     # the same vector with the object converted to public-only after k steps (public derivation, or its refusal)
                yield Case("derive", [c, seed, nats(path), k], "directed-public")
    # seed length refusal
    for c in CURVES:
        for ln in (0, 1, 15):
            yield Case("master", [c, hx(bytes(ln))], "neg-seedlen")
    n = 40 if tier == "quick" else 1500
    for i in range(n):
        c = CURVES[i % 4]
        seed = rand_seed(rng)
        depth = rng.choice([0, 1, 1, 2, 3, 5, 8]) if tier == "quick" else rng.choice([0, 1, 2, 3, 5, 8, 12, 20])
        ecdsa = c in ORDER
        path = [rand_index(rng, None if ecdsa else (True if rng.random() < 0.9 else None)) for _ in range(depth)]
        yield Case("derive", [c, hx(seed), nats(path), len(path)], "path-" + c)
    # single child steps from arbitrary parents: leading-zero keys, keys near n, wrapping sums
    m = 120 if tier == "quick" else 6000
    for i in range(m):
        c = ("secp256k1", "nist256p1")[i % 2]
        nn = ORDER[c]
        cls = rng.randrange(5)
        if cls == 0:
            k = rng.randrange(1, nn)
        elif cls == 1:
            k = rng.randrange(1, 2**rng.choice([8, 64, 200, 247]))     # leading zero bytes
        elif cls == 2:
            k = nn - rng.randrange(1, 2**rng.choice([1, 16, 128]))     # near the order: sums wrap
        elif cls == 3:
            k = rng.choice([1, 2, nn - 1, nn - 2])
        else:
            k = rng.choice([0, nn, nn + 1, 2**256 - 1])                # invalid parents
        cc = bytes(rng.randrange(256) for _ in range(32))
        dp = rng.choice([0, 1, 5, 253, 254, 255, rng.randrange(0, 256)])   # child depth 255 is legal, 256 is not
        yield Case("childpriv", [c, hx(k.to_bytes(32, "big")), hx(cc), dp, rand_index(rng)],
                   ("child" if dp < 255 else "neg-depth256") if cls < 4 else "neg-parent")
    # directed: seeds whose master key (HMAC left half under the curve's own key string) starts with one or two zero bytes
    import hmac as _hmac, hashlib as _hl
    keys = {"secp256k1": b"Bitcoin seed", "nist256p1": b"Nist256p1 seed", "ed25519": b"ed25519 seed", "ed25519blake2b": b"ed25519 seed"}
    for c in CURVES:
        found = 0
        for j in range(3000):
            seed = rng.getrandbits(256).to_bytes(32, "big")
            il = _hmac.new(keys[c], seed, _hl.sha512).digest()[:32]
            if il[0] == 0:
                yield Case("master", [c, hx(seed)], "master-leading-zero")
                yield Case("derive", [c, hx(seed), nats([2**31 + 1]), 1], "master-leading-zero")
                found += 1
                if found == (2 if tier == "quick" else 10):
                    break
    # directed: ed25519 nodes whose PUBLIC key starts with a zero byte (the 33-byte form 00 || A then has two leading zeros): master and a
    # hardened child of it, so that the key, its fingerprint and the child's parent fingerprint are all observed.  Found by computing the
    # SLIP-0010 master with hmac and the public key with the signature libraries directly
    import nacl.signing as _ns
    import ed25519_blake2b as _eb
    for c in ("ed25519", "ed25519blake2b"):
        found = 0
        for j in range(6000):
            seed = rng.getrandbits(256).to_bytes(32, "big")
            il = _hmac.new(b"ed25519 seed", seed, _hl.sha512).digest()[:32]
            a = bytes(_ns.SigningKey(il).verify_key) if c == "ed25519" else _eb.SigningKey(il).get_verifying_key().to_bytes()
            if a[0] == 0:
                yield Case("master", [c, hx(seed)], "pubkey-leading-zero")
                yield Case("derive", [c, hx(seed), nats([2**31 + 7, 2**31]), 2], "pubkey-leading-zero")
                found += 1
                if found == (2 if tier == "quick" else 8):
                    break
    # directed: children whose HMAC left half IL, or whose child private key, starts with a zero byte (fixed-width conversions)
    import hmac, hashlib
    for i in range(8 if tier == "quick" else 200):
        c = ("secp256k1", "nist256p1")[i % 2]
        kb = rng.randrange(1, ORDER[c]).to_bytes(32, "big")
        cc = bytes(rng.randrange(256) for _ in range(32))
        par = CLS[c].FromPrivateKey(kb, Bip32KeyData(chain_code=cc))
        pub = par.PublicKey().RawCompressed().ToBytes()
        start = rng.getrandbits(31) | (2**31 if i % 4 >= 2 else 0)
        found = 0
        for idx in range(start, start + 4000):
            data = (b"\x00" + kb if idx >= 2**31 else pub) + idx.to_bytes(4, "big")
            il = hmac.new(cc, data, hashlib.sha512).digest()[:32]
            child0 = (int.from_bytes(il, "big") + int.from_bytes(kb, "big")) % ORDER[c] < 2**248
            if il[0] == 0 or child0:
                yield Case("childpriv", [c, hx(kb), hx(cc), rng.choice([0, 3]), idx], "child-leading-zero")
                found += 1
                if found == 3:
                    break
    for i in range(30 if tier == "quick" else 600):
        c = ("ed25519", "ed25519blake2b")[i % 2]
        k = bytes(rng.randrange(256) for _ in range(32))
        cc = bytes(rng.randrange(256) for _ in range(32))
        idx = rand_index(rng)
        dp = rng.choice([0, 2, 254, 255, rng.randrange(0, 256)])
        yield Case("childpriv", [c, hx(k), hx(cc), dp, idx], ("child-ed" if dp < 255 else "neg-depth256") if idx >= 2**31 else "neg-ed-soft")
    if tier == "thorough":
        # a 255-deep chain
        seed = rand_seed(rng)
        path = [rand_index(rng) for _ in range(255)]
        yield Case("derive", ["secp256k1", hx(seed), nats(path), 255], "deep")
        yield Case("derive", ["secp256k1", hx(seed), nats(path + [0]), 256], "deep")


def relations(rng, tier, rpt):
    """entry-point equivalence and history: FromSeedAndPath == FromSeed + DerivePath == ChildKey chain for every curve class, whatever
    class was used before with the same seed; objects handed out are independent of each other."""
    from harness.props.bip32_common import node_out
    from bip_utils import Bip32KeyError
    bad = []
    n = 0

    def rep(what, inp, got, want):
        bad.append({"property": "C03", "entry_point": what, "request_lines": [], "relation": what, "input": inp,
                    "impl_output": got, "model_output": want, "no_failing_input": False})
    for i in range(6 if tier == "quick" else 150):
        seed = rand_seed(rng)
        order = list(CURVES)
        rng.shuffle(order)
        path = [rand_index(rng, True) for _ in range(rng.randrange(0, 3))]
        ptxt = "m" + "".join("/%d'" % (e - 2**31) for e in path)
        want = {}
        for c in CURVES:
            o = CLS[c].FromSeed(seed)
            for e in path:
                o = o.ChildKey(e)
            want[c] = (node_out(o), type(o).__name__)
        for rnd in range(2):
            for c in order:
                n += 1
                got_o = CLS[c].FromSeedAndPath(seed, ptxt)
                got = (node_out(got_o), type(got_o).__name__)
                if got != want[c]:
                    rep("FromSeedAndPath differs from FromSeed + ChildKey chain (after the same seed was used with another curve class)",
                        "%s seed=%s path=%s order=%s" % (c, seed.hex(), ptxt, order), str(got), str(want[c]))
                if rnd == 0:
                    got_o.ConvertToPublic()         # what the caller does with ITS object must not reach later calls
    # the child's key is a function of (parent key, index) only: deriving the same child again from the same parent OBJECT gives an equal
    # and independent object, whatever the caller did to the first one (conversion to public-only), with int and index-object spellings
    from bip_utils import Bip32KeyIndex
    for i in range(8 if tier == "quick" else 200):
        c = CURVES[i % len(CURVES)]
        par = CLS[c].FromSeed(rand_seed(rng))
        idx = rand_index(rng, True if c.startswith("ed25519") else None)
        first = par.ChildKey(idx)
        want = node_out(first)
        first.ConvertToPublic()
        n += 1
        for what, f in (("ChildKey(int)", lambda: par.ChildKey(idx)), ("ChildKey(Bip32KeyIndex)", lambda: par.ChildKey(Bip32KeyIndex(idx))),
                        ("DerivePath", lambda: par.DerivePath("%d%s" % (idx & 0x7fffffff, "'" if idx >= 2**31 else "")))):
            again = f()
            if node_out(again) != want:
                rep("%s: the same child derived again from the same parent object differs after the caller converted the first one to public-only" % what,
                    "%s index=%d" % (c, idx), node_out(again), want)
                break
    rpt.extra["entry_point_equivalence_checks"] = n
    return bad[:5]
