"""Adapters for the BIP-44 family (C07/C08/C15)."""
from harness.canon import hx, tx, unhx, untx
from harness.props.bip32_common import node_out
from bip_utils import (Bip44, Bip49, Bip84, Bip86, Cip1852, Bip44Coins, Bip49Coins, Bip84Coins, Bip86Coins, Cip1852Coins,
                       Bip44Changes, Bip32KeyData, Bip44ConfGetter, Bip49ConfGetter, Bip84ConfGetter, Bip86ConfGetter, Cip1852ConfGetter)

FAM = {"Bip44": (Bip44, Bip44Coins, Bip44ConfGetter), "Bip49": (Bip49, Bip49Coins, Bip49ConfGetter), "Bip84": (Bip84, Bip84Coins, Bip84ConfGetter),
       "Bip86": (Bip86, Bip86Coins, Bip86ConfGetter), "Cip1852": (Cip1852, Cip1852Coins, Cip1852ConfGetter)}


class Toggle:
    def __init__(self, conf, variant):
        self.conf, self.variant = conf, variant

    def __enter__(self):
        self._set(True)

    def __exit__(self, *a):
        self._set(False)

    def supported(self):
        name = {"legacy": "UseLegacyAddress", "altkeynet": "UseAlternateKeyNetVersions", "depraddr": "UseDeprecatedAddress"}.get(self.variant)
        return name is None or hasattr(self.conf, name)

    def _set(self, v):
        if not self.supported():
            return
        if self.variant == "legacy":
            self.conf.UseLegacyAddress(v)
        elif self.variant == "altkeynet":
            self.conf.UseAlternateKeyNetVersions(v)
        elif self.variant == "depraddr":
            self.conf.UseDeprecatedAddress(v)


def opt(f):
    try:
        r = f()
        return r if r else "-"
    except Exception as ex:  # noqa
        from harness.canon import exc_kind
        return "!" + exc_kind(ex)


def apply_op(cls, coin, b, op):
    if op == "P":
        return b.Purpose()
    if op == "C":
        return b.Coin()
    if op == "D":
        return b.DeriveDefaultPath()
    if op == "N":
        b.Bip32Object().ConvertToPublic()
        return b
    if op == "RX":
        s = b.PrivateKey().ToExtended() if not b.IsPublicOnly() else b.PublicKey().ToExtended()
        return cls.FromExtendedKey(s, coin)
    if op.startswith("RR"):
        kd = Bip32KeyData(depth=int(op[2:]), chain_code=b.Bip32Object().ChainCode())
        if b.IsPublicOnly():
            return cls.FromPublicKey(b.Bip32Object().PublicKey().KeyObject(), coin, kd)
        return cls.FromPrivateKey(b.Bip32Object().PrivateKey().KeyObject(), coin, kd)
    if op[0] == "A":
        return b.Account(int(op[1:]))
    if op[0] == "X":
        return b.Change(Bip44Changes(int(op[1:])) if int(op[1:]) in (0, 1) else int(op[1:]))
    if op[0] == "I":
        return b.AddressIndex(int(op[1:]))
    raise KeyError(op)


def b44_out(b):
    o = b.Bip32Object()
    return " ".join([node_out(o), opt(lambda: tx(b.PublicKey().ToAddress())), opt(lambda: tx(b.PublicKey().ToExtended())),
                     opt(lambda: tx(b.PrivateKey().ToExtended())), opt(lambda: tx(b.PrivateKey().ToWif()))])


def level_view(b):
    """what the object says about its own level, next to the depth of the BIP-32 node it wraps (public accessors only):
    (Level() as int, the set of levels for which IsLevel() holds, Bip32Object().Depth())"""
    from bip_utils import Bip44Levels
    return int(b.Level()), sorted(int(l) for l in Bip44Levels if b.IsLevel(l)), int(b.Bip32Object().Depth())


def level_defect(b):
    """None when Level() / IsLevel() agree with the depth (C07: 'after any successful sequence the object's level equals its depth'),
    otherwise a short description"""
    try:
        lv, isl, d = level_view(b)
    except Exception as ex:  # noqa   Level() of an object the constructor admitted must not raise
        return "Level()/IsLevel() raised %s on an object at depth %s" % (type(ex).__name__, opt(lambda: str(int(b.Bip32Object().Depth()))))
    if lv != d or isl != [d]:
        return "Level()=%d IsLevel-true-for=%s depth=%d" % (lv, isl, d)
    return None


def _bip44(fam, mem, var, seed, ops):
    cls, en, getter = FAM[fam]
    coin = en[mem]
    conf = getter.GetConfig(coin)
    with Toggle(conf, "" if var == "-" else var):
        b = cls.FromSeed(unhx(seed), coin)
        trail = [(b, "FromSeed", hx(b.PublicKey().RawCompressed().ToBytes()))]
        ops = [] if ops == "-" else ops.split(",")
        for k, op in enumerate(ops):
            bad = level_defect(b)
            if bad:       # the level the object reports is not its depth: every later guard acts on the wrong level
                return "\x00err LevelIsNotDepth after %s: %s" % (",".join(ops[:k]) or "FromSeed", bad)
            b = apply_op(cls, coin, b, op)
            if all(b is not t[0] for t in trail):
                trail.append((b, ",".join(ops[:k + 1]), hx(b.PublicKey().RawCompressed().ToBytes())))
        # every object met on the way (each is the result of a successful sequence) still reports level = depth and still holds its key:
        # deriving from an object, or the default path, does not move the object it was called on
        for o, how, pub in trail:
            bad = level_defect(o)
            if bad is None and hx(o.PublicKey().RawCompressed().ToBytes()) != pub:
                bad = "public key of the object changed from %s to %s" % (pub, hx(o.PublicKey().RawCompressed().ToBytes()))
            if bad:
                return "\x00err LevelIsNotDepth object reached by %s, observed after %s: %s" % (how, ",".join(ops) or "FromSeed", bad)
        return b44_out(b)


IMPL = {"bip44": _bip44}
