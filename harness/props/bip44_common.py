"""Adapters for the BIP-44 family (C07/C08/C15)."""
from harness.canon import hx, tx, unhx, untx
from harness.props.bip32_common import node_out
from bip_utils import (Bip44, Bip49, Bip84, Bip86, Cip1852, Bip44Coins, Bip49Coins, Bip84Coins, Bip86Coins, Cip1852Coins,
                       Bip44Changes, Bip32KeyData, Bip44ConfGetter, Bip49ConfGetter, Bip84ConfGetter, Bip86ConfGetter, Cip1852ConfGetter)

FAM = {"Bip44": (Bip44, Bip44Coins, Bip44ConfGetter), "Bip49": (Bip49, Bip49Coins, Bip49ConfGetter), "Bip84": (Bip84, Bip84Coins, Bip84ConfGetter),
       "Bip86": (Bip86, Bip86Coins, Bip86ConfGetter), "Cip1852": (Cip1852, Cip1852Coins, Cip1852ConfGetter)}


class Toggle:
    def __init__(self, conf, variant):
        self.conf, self.variant = conf, variant

    def __enter__(self):
        self._set(True)

    def __exit__(self, *a):
        self._set(False)

    def supported(self):
        name = {"legacy": "UseLegacyAddress", "altkeynet": "UseAlternateKeyNetVersions", "depraddr": "UseDeprecatedAddress"}.get(self.variant)
        return name is None or hasattr(self.conf, name)

    def _set(self, v):
        if not self.supported():
            return
        if self.variant == "legacy":
            self.conf.UseLegacyAddress(v)
        elif self.variant == "altkeynet":
            self.conf.UseAlternateKeyNetVersions(v)
        elif self.variant == "depraddr":
            self.conf.UseDeprecatedAddress(v)


def opt(f):
    try:
        r = f()
        return r if r else "-"
    except Exception as ex:  # noqa
        from harness.canon import exc_kind
        return "!" + exc_kind(ex)


def apply_op(cls, coin, b, op):
    if op == "P":
        return b.Purpose()
    if op == "C":
        return b.Coin()
    if op == "D":
        return b.DeriveDefaultPath()
    if op == "N":
        b.Bip32Object().ConvertToPublic()
        return b
    if op == "RX":
        s = b.PrivateKey().ToExtended() if not b.IsPublicOnly() else b.PublicKey().ToExtended()
        return cls.FromExtendedKey(s, coin)
    if op.startswith("RR"):
        kd = Bip32KeyData(depth=int(op[2:]), chain_code=b.Bip32Object().ChainCode())
        if b.IsPublicOnly():
            return cls.FromPublicKey(b.Bip32Object().PublicKey().KeyObject(), coin, kd)
        return cls.FromPrivateKey(b.Bip32Object().PrivateKey().KeyObject(), coin, kd)
    if op[0] == "A":
        return b.Account(int(op[1:]))
    if op[0] == "X":
        return b.Change(Bip44Changes(int(op[1:])) if int(op[1:]) in (0, 1) else int(op[1:]))
    if op[0] == "I":
        return b.AddressIndex(int(op[1:]))
    raise KeyError(op)


def b44_out(b):
    o = b.Bip32Object()
    return " ".join([node_out(o), opt(lambda: tx(b.PublicKey().ToAddress())), opt(lambda: tx(b.PublicKey().ToExtended())),
                     opt(lambda: tx(b.PrivateKey().ToExtended())), opt(lambda: tx(b.PrivateKey().ToWif()))])


def _bip44(fam, mem, var, seed, ops):
    cls, en, getter = FAM[fam]
    coin = en[mem]
    conf = getter.GetConfig(coin)
    with Toggle(conf, "" if var == "-" else var):
        b = cls.FromSeed(unhx(seed), coin)
        for op in ([] if ops == "-" else ops.split(",")):
            b = apply_op(cls, coin, b, op)
        return b44_out(b)


IMPL = {"bip44": _bip44}
