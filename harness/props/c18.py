"""C18 — Cardano keys, derivation and addresses follow Byron / Icarus / Shelley rules."""
from harness.core import Case
from harness.canon import hx, tx, unhx, untx, nats, unnats, exc_kind
from harness.props.bip32_common import node_out, rand_index, rand_seed
from harness.props.c07 import pre_build
from bip_utils import (Bip32KholawEd25519, CardanoIcarusBip32, CardanoByronLegacyBip32, CardanoByronLegacy, CardanoShelley, Cip1852, Cip1852Coins,
                       Bip44Changes, CardanoByronLegacySeedGenerator, CardanoIcarusSeedGenerator, Bip39MnemonicEncoder, AdaShelleyAddrDecoder,
                       AdaShelleyStakingAddrDecoder, AdaShelleyAddrNetworkTags)

LEAN_MODULES = ["BipVerif.Props.C18", "BipVerif.Props.C04Group"]
KH = {"kholaw": Bip32KholawEd25519, "icarus": CardanoIcarusBip32, "byronlegacy": CardanoByronLegacyBip32}


def _kholawderive(kind, seed, elems, k):
    b = KH[kind].FromSeed(unhx(seed))
    elems, k = unnats(elems), int(k)
    for e in elems[:k]:
        b = b.ChildKey(e)
    if k < len(elems):
        b.ConvertToPublic()
        for e in elems[k:]:
            b = b.ChildKey(e)
    return node_out(b)


def _kholawraw(priv, cc, elems, k):
    from bip_utils import Bip32KeyData
    b = Bip32KholawEd25519.FromPrivateKey(unhx(priv), Bip32KeyData(chain_code=unhx(cc)))
    elems, k = unnats(elems), int(k)
    for e in elems[:k]:
        b = b.ChildKey(e)
    if k < len(elems):
        b.ConvertToPublic()
        for e in elems[k:]:
            b = b.ChildKey(e)
    return node_out(b)


def _byronaddr(seed, f, s):
    w = CardanoByronLegacy.FromSeed(unhx(seed))
    a = w.GetAddress(int(f), int(s))
    return tx(a) + " " + nats(w.HdPathFromAddress(a).ToList()) + " " + hx(w.HdPathKey())


def _shelley(mem, seed, acc, ch, ix):
    coin = Cip1852Coins[mem]
    b = Cip1852.FromSeed(unhx(seed), coin).Purpose().Coin().Account(int(acc))
    sh = CardanoShelley.FromCip1852Object(b).Change(Bip44Changes(int(ch)) if int(ch) in (0, 1) else int(ch)).AddressIndex(int(ix))
    pk = sh.PublicKeys()
    a, s = pk.ToAddress(), pk.ToStakingAddress()
    tag = AdaShelleyAddrNetworkTags.MAINNET if "TESTNET" not in mem else AdaShelleyAddrNetworkTags.TESTNET
    return " ".join([hx(pk.AddressKey().RawCompressed().ToBytes()), hx(pk.StakingKey().RawCompressed().ToBytes()), tx(a), tx(s),
                     hx(AdaShelleyAddrDecoder.DecodeAddr(a, net_tag=tag)), hx(AdaShelleyStakingAddrDecoder.DecodeAddr(s, net_tag=tag))])


def _adaseed(kind, ent):
    m = Bip39MnemonicEncoder().Encode(unhx(ent))
    return hx((CardanoByronLegacySeedGenerator if kind == "legacy" else CardanoIcarusSeedGenerator)(m).Generate())


IMPL = {"kholawraw": _kholawraw, "byrondec": lambda a: hx(__import__("bip_utils").AdaByronAddrDecoder.DecodeAddr(untx(a))), "kholawderive": _kholawderive, "byronaddr": _byronaddr, "shelley": _shelley, "adaseed": _adaseed,
        "byronrecover": lambda seed, addr: nats(CardanoByronLegacy.FromSeed(unhx(seed)).HdPathFromAddress(untx(addr)).ToList())}
ORACLE_MISS_OK = False


ORACLE_MISS_OPS = ("byrondec",)     # the Byron model covers the canonical CBOR shapes; outside them only the error family is checked


def equiv(case, impl_reply, model_reply):
    return case.op == "byrondec" and model_reply.startswith("err OracleMiss") and (impl_reply.startswith("ok") or impl_reply == "err Value")


# ---- independent references (zlib / hashlib / pycryptodome only) for the Byron envelope and the Shelley address ----
_B58 = "123456789ABCDEFGHJKLMNPQRSTUVWXYZabcdefghijkmnopqrstuvwxyz"


def _b58(data):
    num, out = int.from_bytes(data, "big"), ""
    while num:
        num, r = divmod(num, 58)
        out = _B58[r] + out
    return "1" * (len(data) - len(data.lstrip(b"\x00"))) + out


def _cbor_head(major, n):
    """RFC 8949 head of the shortest form"""
    if n < 24:
        return bytes([major << 5 | n])
    for info, ln in ((24, 1), (25, 2), (26, 4), (27, 8)):
        if n < 1 << (8 * ln):
            return bytes([major << 5 | info]) + n.to_bytes(ln, "big")
    raise ValueError(n)


def _cbor_bytes(b):
    return _cbor_head(2, len(b)) + b


def _force_crc(pre, suf, target):
    """the 4 bytes x with CRC-32(pre ++ x ++ suf) = target (CRC-32 is affine over GF(2) and a bijection of any 32 consecutive message bits:
    Gaussian elimination over the 32 single-bit differences), computed with zlib"""
    import zlib
    c0 = zlib.crc32(pre + bytes(4) + suf)
    basis = {}                       # leading bit -> (vector, combination of message bits)
    for i in range(32):
        v, comb = zlib.crc32(pre + (1 << i).to_bytes(4, "big") + suf) ^ c0, 1 << i
        while v:
            hb = v.bit_length() - 1
            if hb not in basis:
                basis[hb] = (v, comb)
                break
            v, comb = v ^ basis[hb][0], comb ^ basis[hb][1]
    want, x = target ^ c0, 0
    while want:
        hb = want.bit_length() - 1
        want, x = want ^ basis[hb][0], x ^ basis[hb][1]
    xb = x.to_bytes(4, "big")
    assert zlib.crc32(pre + xb + suf) == target
    return xb


def byron_address_with_crc(rng, crc, hd_enc=None):
    """a well-formed Byron address [#6.24(bytes payload), crc] with payload = [28-byte root, {} or {1: bytes(bytes(encrypted path))}, 0],
    built by hand, whose CRC-32 (zlib) is the GIVEN value: the last 4 bytes of the (otherwise random) root are solved for.
    -> (address, root, payload)"""
    import zlib
    attrs = b"\xa0" if hd_enc is None else b"\xa1\x01" + _cbor_bytes(_cbor_bytes(hd_enc))
    pre = b"\x83" + _cbor_head(2, 28) + bytes(rng.randrange(256) for _ in range(24))
    suf = attrs + b"\x00"
    x = _force_crc(pre, suf, crc)
    payload = pre + x + suf
    assert zlib.crc32(payload) == crc
    raw = b"\x82\xd8\x18" + _cbor_bytes(payload) + _cbor_head(0, crc)
    return _b58(raw), payload[3:31], payload


def byron_encrypt_path(hd_key, path):
    """the path attribute from its definition: ChaCha20-Poly1305 (nonce "serokellfore", no associated data) of the indefinite-length CBOR
    array of the indexes, ciphertext ++ tag — with pycryptodome, not through bip_utils"""
    from Crypto.Cipher import ChaCha20_Poly1305
    plain = b"\x9f" + b"".join(_cbor_head(0, e) for e in path) + b"\xff"
    ct, tag = ChaCha20_Poly1305.new(key=hd_key, nonce=b"serokellfore").encrypt_and_digest(plain)
    return ct + tag


# CRC values in every width class of the CBOR unsigned integer that carries them (and of a fixed-width 4-byte rendering): direct (< 24),
# one byte, two bytes, four bytes with zero leading bytes, the top bit
def crc_classes(rng):
    fixed = [0, 1, 23, 24, 255, 256, 65535, 65536, 2**24 - 1, 2**24, 2**31 - 1, 2**31, 2**32 - 1]
    rnd = [rng.randrange(24), rng.randrange(24, 256), rng.randrange(256, 65536), rng.randrange(65536, 2**24), rng.randrange(2**24, 2**32),
           rng.randrange(256) << 24, rng.randrange(1, 256) << 16, rng.randrange(1, 256) << 8]
    return fixed + rnd


def byron_payload_crc(addr):
    """CRC-32 (zlib) of the payload of a Byron address, located by hand: 82 d8 18 <bytes head> payload <crc item>"""
    import zlib
    from bip_utils import Base58Decoder
    raw = Base58Decoder.Decode(addr)
    if raw[:3] != b"\x82\xd8\x18":
        return None
    if raw[3] == 0x58:
        ln, at = raw[4], 5
    elif raw[3] == 0x59:
        ln, at = int.from_bytes(raw[4:6], "big"), 6
    elif 0x40 <= raw[3] < 0x58:
        ln, at = raw[3] - 0x40, 4
    else:
        return None
    return zlib.crc32(raw[at:at + ln])


def byron_crc_cases(rng, tier):
    """the CRC clause on the output-dependent classes: (a) hand-built addresses whose CRC is forced into every width class, plain and with a path
    encrypted under a real wallet's key (decoded, and the path recovered by that wallet); (b) addresses the library's own encoders produce
    whose CRC (recomputed with zlib) has a zero top byte — 1 in 256 — found by search: wallet index pairs, and Icarus / legacy encoder inputs"""
    from bip_utils import AdaByronIcarusAddrEncoder, AdaByronLegacyAddrEncoder
    quick = tier == "quick"
    H = 2**31
    for rnd in range(1 if quick else 8):
        seed = bytes(rng.randrange(256) for _ in range(32))
        w = CardanoByronLegacy.FromSeed(seed)
        key = w.HdPathKey()
        for crc in crc_classes(rng):
            path = [H + rng.choice([0, 1, 23, 24, 255, 256, 65535, 65536, H - 1, rng.getrandbits(31)]) for _ in range(2)]
            addr, _, _ = byron_address_with_crc(rng, crc, byron_encrypt_path(key, path))
            yield Case("byrondec", [tx(addr)], "byron-crc-width-%d" % ((crc.bit_length() + 7) // 8))
            yield Case("byronrecover", [hx(seed), tx(addr)], "byron-crc-width-%d-recover" % ((crc.bit_length() + 7) // 8))
            addr, _, _ = byron_address_with_crc(rng, crc, None)
            yield Case("byrondec", [tx(addr)], "byron-crc-width-%d" % ((crc.bit_length() + 7) // 8))
    # (b) the library's own output
    for rnd in range(1 if quick else 10):
        seed = bytes(rng.randrange(256) for _ in range(32))
        w = CardanoByronLegacy.FromSeed(seed)
        f = rng.choice([0, 1, rng.getrandbits(31)])
        s0, found = rng.getrandbits(30), 0
        for s_ in range(s0, s0 + (1500 if quick else 6000)):
            c = byron_payload_crc(w.GetAddress(f, s_))
            if c is not None and c < 2**24:
                yield Case("byronaddr", [hx(seed), f, s_], "byron-legacy-small-crc")
                found += 1
                if found == (2 if quick else 4):
                    break
        pub = w.GetPublicKey(f, s0)
        found = 0
        need = 4 if quick or rnd else 5          # thorough, first wallet: one more whose CRC has TWO zero top bytes (1 in 65536)
        for _ in range(3000 if quick or rnd else 200000):
            cc = rng.getrandbits(256).to_bytes(32, "big")
            for shape, a in (("icarus", AdaByronIcarusAddrEncoder.EncodeKey(pub.KeyObject(), chain_code=cc)),
                             ("legacy", AdaByronLegacyAddrEncoder.EncodeKey(pub.KeyObject(), chain_code=cc, hd_path="m/%d'/%d'" % (f, s0 % H), hd_path_key=w.HdPathKey()))):
                c = byron_payload_crc(a)
                if c is not None and (c < 2**24 if found < 4 else c < 2**16):
                    yield Case("byrondec", [tx(a)], "byron-encoder-small-crc-%d" % ((c.bit_length() + 7) // 8))
                    if shape == "legacy":
                        yield Case("byronrecover", [hx(seed), tx(a)], "byron-encoder-small-crc-recover")
                    found += 1
            if found >= need:
                break


_B32 = "qpzry9x8gf2tvdw0s3jn54khce6mua7l"


def _bech32(hrp, data):
    """BIP-173 Bech32 of a byte string, from the published algorithm"""
    acc, bits, d5 = 0, 0, []
    for b in data:
        acc, bits = (acc << 8) | b, bits + 8
        while bits >= 5:
            bits -= 5
            d5.append((acc >> bits) & 31)
    if bits:
        d5.append((acc << (5 - bits)) & 31)
    chk = 1
    for v in [ord(c) >> 5 for c in hrp] + [0] + [ord(c) & 31 for c in hrp] + d5 + [0] * 6:
        top = chk >> 25
        chk = (chk & 0x1ffffff) << 5 ^ v
        for i, g in enumerate((0x3b6a57b2, 0x26508e6d, 0x1ea119fa, 0x3d4233dd, 0x2a1462b3)):
            if (top >> i) & 1:
                chk ^= g
    chk ^= 1
    return hrp + "1" + "".join(_B32[x] for x in d5 + [(chk >> 5 * (5 - i)) & 31 for i in range(6)])


def ref_shelley(testnet, pay_pub, stake_pub):
    """(payment address, staking address) from the statement with hashlib only: header || Blake2b-224(payment key) || Blake2b-224(stake key)
    under the network's prefix (CIP-19: type 0 / type 14 in the high nibble, network tag 1 = mainnet, 0 = testnet)"""
    import hashlib
    h = lambda b: hashlib.blake2b(b, digest_size=28).digest()   # noqa
    tag = 0 if testnet else 1
    return (_bech32("addr_test" if testnet else "addr", bytes([tag]) + h(pay_pub) + h(stake_pub)),
            _bech32("stake_test" if testnet else "stake", bytes([0xE0 | tag]) + h(stake_pub)))


def shelley_thread_relation(rng, tier, rep, rpt):
    """A Shelley address is a function of the wallet's own two keys whatever else the process is doing: several wallets of the SAME coin
    (different seeds, hence different stake keys), one per thread, keep computing their payment and staking addresses at the same time
    (threads released together by a barrier, minimal switch interval, a fresh keys object per computation so that no memo answers), through
    the wrapper built from the wallet's own objects and through the account -> change -> index route; every answer is compared with the
    hashlib reference of that wallet's own keys (read before the threads start), and decoded back."""
    import sys, threading, time
    quick = tier == "quick"
    n_threads, n_idx = 4, 3
    slice_s = 0.45 if quick else 3.0
    members = [c for c in Cip1852Coins]
    n_calls = 0
    for coin in members:
        testnet = "TESTNET" in coin.name
        tag = AdaShelleyAddrNetworkTags.TESTNET if testnet else AdaShelleyAddrNetworkTags.MAINNET
        wallets = []
        for t in range(n_threads):
            seed = bytes(rng.randrange(256) for _ in range(32))
            acc = Cip1852.FromSeed(seed, coin).Purpose().Coin().Account(rng.choice([0, 1, 5]))
            sh_acc = CardanoShelley.FromCip1852Object(acc)
            sk_obj = sh_acc.StakingObject()
            stake_pub = acc.Bip32Object().ChildKey(2).ChildKey(0).PublicKey().RawCompressed().ToBytes()[1:]
            chg = acc.Change(Bip44Changes.CHAIN_EXT)
            items = []
            for i in range(n_idx):
                ao = chg.AddressIndex(i)
                items.append((i, ao, ref_shelley(testnet, ao.PublicKey().RawCompressed().ToBytes()[1:], stake_pub)))
            wallets.append({"seed": seed, "acc": acc, "sh_chg": sh_acc.Change(Bip44Changes.CHAIN_EXT), "sk": sk_obj, "items": items, "stake_pub": stake_pub})
        # single-threaded first: the reference itself must be what the library answers when nothing else runs
        for t, w in enumerate(wallets):
            for i, ao, (want_a, want_s) in w["items"]:
                pk = CardanoShelley(ao, w["sk"]).PublicKeys()
                got = (pk.ToAddress(), pk.ToStakingAddress())
                if got != (want_a, want_s):
                    rep("Cip1852[%s]: the Shelley payment / staking address is not header || Blake2b-224(payment key) || Blake2b-224(stake key at account/2/0) "
                        "under the network's prefix" % coin.name, "seed=%s address index %d" % (w["seed"].hex(), i), " ".join(got), want_a + " " + want_s)
                    return
        bar = threading.Barrier(n_threads)
        stop = threading.Event()
        found = []
        calls = [0] * n_threads

        def worker(t):
            w = wallets[t]
            try:
                bar.wait(60)
                end = time.monotonic() + slice_s
                r = 0
                while time.monotonic() < end and not stop.is_set():
                    r += 1
                    for i, ao, (want_a, want_s) in w["items"]:
                        if r % 24 == 0:
                            route, pk = "CardanoShelley.FromCip1852Object(account).Change(EXT).AddressIndex(%d).PublicKeys()" % i, \
                                CardanoShelley.FromCip1852Object(w["acc"]).Change(Bip44Changes.CHAIN_EXT).AddressIndex(i).PublicKeys()
                        elif r % 6 == 0:
                            route, pk = "shared CardanoShelley change object .AddressIndex(%d).PublicKeys()" % i, w["sh_chg"].AddressIndex(i).PublicKeys()
                        else:
                            route, pk = "CardanoShelley(address object %d, staking object).PublicKeys()" % i, CardanoShelley(ao, w["sk"]).PublicKeys()
                        got_a, got_s = pk.ToAddress(), pk.ToStakingAddress()
                        calls[t] += 2
                        if got_a != want_a or got_s != want_s:
                            found.append((t, i, route, got_a, got_s, want_a, want_s))
                            stop.set()
                            return
            except BaseException:  # noqa
                bar.abort()
                stop.set()
                raise
        old = sys.getswitchinterval()
        sys.setswitchinterval(1e-6)
        try:
            ths = [threading.Thread(target=worker, args=(t,)) for t in range(n_threads)]
            for th in ths:
                th.start()
            for th in ths:
                th.join()
        finally:
            sys.setswitchinterval(old)
        n_calls += sum(calls)
        if bar.broken and not found:
            raise RuntimeError("Shelley thread relation: a worker thread died")
        if found:
            t, i, route, got_a, got_s, want_a, want_s = found[0]
            w = wallets[t]
            detail = ""
            try:
                dec = AdaShelleyAddrDecoder.DecodeAddr(got_a, net_tag=tag)
                import hashlib
                for u, o in enumerate(wallets):
                    if u != t and dec[28:] == hashlib.blake2b(o["stake_pub"], digest_size=28).digest():
                        detail = " (the address decodes, and embeds the stake key hash of the wallet of thread %d, seed %s)" % (u, o["seed"].hex())
            except Exception as ex:  # noqa
                detail = " (the address does not decode: %s)" % type(ex).__name__
            again = CardanoShelley(w["items"][i][1], w["sk"]).PublicKeys()
            single = "; asked again single-threaded the same wallet answers %s" % ("the expected addresses" if (again.ToAddress(), again.ToStakingAddress()) == (want_a, want_s) else "wrongly too")
            rep("Cip1852[%s]: a Shelley address computed while %d threads compute the addresses of their own wallets of the same coin is not "
                "header || Blake2b-224(payment key) || Blake2b-224(stake key) of the wallet's own keys%s%s" % (coin.name, n_threads, detail, single),
                "thread %d of %d, wallet seed=%s, %s; other wallets' seeds %s; switch interval 1e-6" % (
                    t, n_threads, w["seed"].hex(), route, [o["seed"].hex() for u, o in enumerate(wallets) if u != t]),
                got_a + " " + got_s, want_a + " " + want_s)
            break
    rpt.extra["shelley_threaded_address_computations"] = n_calls


def gen(rng, tier):
    n = 30 if tier == "quick" else 1500
    for i in range(n):
        kind = list(KH)[i % 3]
        seed = bytes(rng.randrange(256) for _ in range(32)) if kind == "byronlegacy" or i % 5 else rand_seed(rng)
        depth = rng.choice([0, 1, 2, 3, 5])
        path = [rand_index(rng) for _ in range(depth)]
        yield Case("kholawderive", [kind, hx(seed), nats(path), len(path)], "derive-" + kind)
        # watch-only: the same path with the object converted to public-only after a prefix (soft children with non-zero, multi-byte indices)
        if i % 2 == 0:
            pre = [rand_index(rng) for _ in range(rng.randrange(0, 2))]
            post = [rng.choice([1, 2, 255, 256, 65536, 2**31 - 1, rng.getrandbits(31)]) for _ in range(rng.randrange(1, 3))]
            yield Case("kholawderive", [kind, hx(seed), nats(pre + post), len(pre)], "watch-only-" + kind)
    for kind in KH:
        for ln in (0, 15, 31, 33):
            yield Case("kholawderive", [kind, hx(bytes(ln)), "-", 0], "neg-seedlen")
    for i in range(12 if tier == "quick" else 600):
        seed = bytes(rng.randrange(256) for _ in range(32))
        f, s = rng.choice([0, 1, 2**31 - 1, 2**31, rng.getrandbits(31)]), rng.choice([0, 1, 2**31 - 1, rng.getrandbits(31), 2**32 - 1])
        yield Case("byronaddr", [hx(seed), f, s], "byron-legacy")
    for i in range(12 if tier == "quick" else 600):
        mem = [c.name for c in Cip1852Coins][i % len(Cip1852Coins)]
        seed = rand_seed(rng)
        yield Case("shelley", [mem, hx(seed), rng.choice([0, 1, rng.getrandbits(31)]), rng.randrange(2), rng.choice([0, 1, rng.getrandbits(31)])], "shelley")
    # every member at the edges of the index ranges: the largest account and address indexes, and the first values past them (refused)
    for mem in [c.name for c in Cip1852Coins]:
        seed = rand_seed(rng)
        for acc, ch, ix, cls_ in ((2**31 - 1, 1, 2**31 - 1, "shelley-index-edge"), (0, 0, 2**31 - 1, "shelley-index-edge"), (2**31 - 1, 0, 0, "shelley-index-edge"),
                                  (0, 0, 2**31 - 2, "shelley-index-edge"), (0, 0, 2**31, "neg-shelley-index"), (0, 0, 2**32 - 1, "neg-shelley-index"),
                                  (2**31, 0, 0, "shelley-index-edge"), (0, 2, 0, "neg-shelley-index")):
            yield Case("shelley", [mem, hx(seed), acc, ch, ix], cls_)
    # directed, output-dependent: hardened children whose new right half kR' = kR + ZR mod 2^256, or whose chain code, has a zero
    # top byte (fixed-width serialisation), found with an independent HMAC computation from the master key
    import hmac, hashlib
    for i in range(6 if tier == "quick" else 120):
        kind = ("kholaw", "icarus")[i % 2]
        seed = bytes(rng.randrange(256) for _ in range(32))
        m = KH[kind].FromSeed(seed)
        kb, cc = m.PrivateKey().Raw().ToBytes(), m.ChainCode().ToBytes()
        kr = int.from_bytes(kb[32:], "little")
        start = 2**31 + rng.getrandbits(30)
        found = 0
        for idx in range(start, start + 3000):
            ib = idx.to_bytes(4, "little")
            z = hmac.new(cc, b"\x00" + kb + ib, hashlib.sha512).digest()
            c2 = hmac.new(cc, b"\x01" + kb + ib, hashlib.sha512).digest()[32:]
            kr2 = (kr + int.from_bytes(z[32:], "little")) % 2**256
            if kr2 < 2**248 or c2[0] == 0 or c2[-1] == 0:
                yield Case("kholawderive", [kind, hx(seed), nats([idx]), 1], "child-leading-zero")
                found += 1
                if found == 2:
                    break
    # directed: Byron-legacy seeds whose master key needs many rounds of the "Root Seed Chain %d" search (round count computed with
    # hmac/hashlib from the scheme's definition: a candidate is rejected when bit 5 of the last byte of SHA-512(IL)[:32] is set)
    want_rounds = [7, 11] if tier == "quick" else [7, 11, 12, 13, 14]
    got_rounds = set()
    for j in range(6000 if tier == "quick" else 60000):
        seed = rng.getrandbits(256).to_bytes(32, "big")
        data = b"\x58\x20" + seed
        r = 1
        while hashlib.sha512(hmac.new(data, b"Root Seed Chain %d" % r, hashlib.sha512).digest()[:32]).digest()[31] & 0x20:
            r += 1
        for w in want_rounds:
            if r >= w and w not in got_rounds:
                got_rounds.add(w)
                yield Case("kholawderive", ["byronlegacy", hx(seed), "-", 0], "byron-master-rounds-%d" % w)
                yield Case("byronaddr", [hx(seed), 0, 1], "byron-master-rounds-%d" % w)
        if len(got_rounds) == len(want_rounds):
            break
    # hand-supplied parents whose left half sits at the edges of the range (2^255 is where libsodium's scalar range ends): the child is
    # refused or is the one the public-only parent derives, on both sides
    for kl in (2**255 - 8, 2**255 - 2**200, 2**255 - 2**227 - 8, 2**255 - 2**227 + 8, 2**254, 2**254 + 2**253, 2**255, 2**255 + 8, 2**256 - 8, 8, 0, rng.getrandbits(255) & ~7):
        kr, cc = bytes(rng.randrange(256) for _ in range(32)), bytes(rng.randrange(256) for _ in range(32))
        for idx in (0, 1, 2**31 - 1, 2**31):
            yield Case("kholawraw", [hx(kl.to_bytes(32, "little") + kr), hx(cc), nats([idx]), 1], "raw-parent-edge")
            if idx < 2**31:
                yield Case("kholawraw", [hx(kl.to_bytes(32, "little") + kr), hx(cc), nats([idx]), 0], "raw-parent-edge-public")
    from harness.props.c10 import byron_cases       # valid Byron addresses, their mutation stream, re-spelled checksum fields
    yield from byron_cases(rng, tier)
    yield from byron_crc_cases(rng, tier)
    from harness.canon import kholaw_long_round_seeds
    for t, s in kholaw_long_round_seeds(rng, (6, 9, 11) if tier == "quick" else (6, 9, 10, 11, 12, 13, 14), 12000 if tier == "quick" else 120000):
        yield Case("kholawderive", ["kholaw", hx(s), nats([0x80000000, 1]), 2], "ledger-master-links-%d" % t)
    # directed: Shelley payment keys whose 32-byte encoding starts (or ends) with a zero byte
    for i in range(3 if tier == "quick" else 40):
        mem = [c.name for c in Cip1852Coins][i % len(Cip1852Coins)]
        seed = rand_seed(rng)
        acc = Cip1852.FromSeed(seed, Cip1852Coins[mem]).Purpose().Coin().Account(0)
        ch = acc.Change(Bip44Changes.CHAIN_EXT)
        found = 0
        for ix in range(0, 2500):
            pub = ch.AddressIndex(ix).PublicKey().RawCompressed().ToBytes()[1:]
            if pub[0] == 0 or pub[-1] == 0:
                yield Case("shelley", [mem, hx(seed), 0, 0, ix], "shelley-leading-zero")
                found += 1
                if found == 2:
                    break
    # directed: staking keys (account/2/0) starting with a zero byte — vary the account
    for i in range(1 if tier == "quick" else 12):
        mem = [c.name for c in Cip1852Coins][i % len(Cip1852Coins)]
        seed = rand_seed(rng)
        coin = Cip1852.FromSeed(seed, Cip1852Coins[mem]).Purpose().Coin()
        for a in range(0, 1500):
            pub = coin.Account(a).Bip32Object().ChildKey(2).ChildKey(0).PublicKey().RawCompressed().ToBytes()[1:]
            if pub[0] == 0:
                yield Case("shelley", [mem, hx(seed), a, 0, 0], "shelley-stake-leading-zero")
                break
    for i in range(6 if tier == "quick" else 100):
        e = bytes(rng.randrange(256) for _ in range(rng.choice([16, 20, 24, 28, 32])))
        yield Case("adaseed", ["legacy", hx(e)], "seed")
        yield Case("adaseed", ["icarus", hx(e)], "seed")


def _chain(m, elems):
    for e in elems:
        m = m.ChildKey(e)
    return m


def relations(rng, tier, rpt):
    """master keys carry the mandated clamped bits; children keep the extended-key invariants — implementation only."""
    bad = []
    n = 0

    def rep(what, inp, got, want):
        bad.append({"property": "C18", "entry_point": what, "request_lines": [], "relation": what, "input": inp,
                    "impl_output": got, "model_output": want, "no_failing_input": False})

    for i in range(20 if tier == "quick" else 600):
        for kind, cls in KH.items():
            seed = bytes(rng.randrange(256) for _ in range(32))
            m = cls.FromSeed(seed)
            k = m.PrivateKey().Raw().ToBytes()
            n += 1
            ok = (k[0] & 7) == 0 and (k[31] & 0x80) == 0 and (k[31] & 0x40) != 0 and (k[31] & 0x20) == 0
            if not ok:
                rep("master key does not carry the clamped bits (low 3 clear, bit 255 clear, bit 254 set, bit 253 clear)", "%s %s" % (kind, seed.hex()), k[:32].hex(), "clamped")
            if kind != "byronlegacy":
                c = m
                for _ in range(3):
                    c = c.ChildKey(rand_index(rng))
                    kl = int.from_bytes(c.PrivateKey().Raw().ToBytes()[:32], "little")
                    if kl % 8 != 0:
                        rep("child kL is not a multiple of 8", "%s %s" % (kind, seed.hex()), hex(kl), "multiple of 8")
    # one CardanoByronLegacy wallet asked for a sequence of (first, second) index pairs: every answer equals a fresh wallet's
    from bip_utils import CardanoByronLegacy, Bip44, Bip44Coins, Bip32KeyData, Bip32ChainCode, AdaByronIcarusAddrEncoder

    def obs(w, a, b):
        return "%s %s %s" % (w.GetPrivateKey(a, b).Raw().ToHex(), w.GetPublicKey(a, b).RawCompressed().ToHex(), w.GetAddress(a, b))
    for i in range(2 if tier == "quick" else 25):
        seed = bytes(rng.randrange(256) for _ in range(32))
        shared = CardanoByronLegacy.FromSeed(seed)
        seq = [(0, 0), (5, 0), (0, 2), (5, 1), (2**31 - 1, 3), (0, 0), (1, 2**31 - 1), (0, 1), (5, 0)]
        if i:
            seq = [(rng.choice([0, 1, 5, 2**31 - 1]), rng.choice([0, 1, 2, 7])) for _ in range(9)]
        for j, (a, b) in enumerate(seq):
            n += 1
            got, want = obs(shared, a, b), obs(CardanoByronLegacy.FromSeed(seed), a, b)
            if got != want:
                rep("CardanoByronLegacy: keys/address for (%d, %d) depend on the index pairs the same wallet object was asked before" % (a, b),
                    "%s after %s" % (seed.hex(), seq[:j]), got, want)
                break
    # Byron (Icarus / Ledger) addresses embed a function of the chain code: hierarchy objects holding the SAME public key with different chain
    # codes (a watch-only import with the default chain code, then the real one) each give the address of their own chain code
    for i, coin in enumerate((Bip44Coins.CARDANO_BYRON_ICARUS, Bip44Coins.CARDANO_BYRON_LEDGER) * (1 if tier == "quick" else 6)):
        seed = bytes(rng.randrange(256) for _ in range(32))
        full = Bip44.FromSeed(seed, coin).DeriveDefaultPath()
        pub = full.PublicKey().RawCompressed().ToBytes()
        ccs = [bytes(32), full.PublicKey().ChainCode().ToBytes(), bytes(rng.randrange(256) for _ in range(32))]
        if i % 2:
            ccs.reverse()
        for cc in ccs:
            n += 1
            o = Bip44.FromPublicKey(pub, coin, Bip32KeyData(chain_code=Bip32ChainCode(cc), depth=5))
            got = o.PublicKey().ToAddress()
            want = AdaByronIcarusAddrEncoder.EncodeKey(pub, chain_code=cc)
            if got != want:
                rep("Bip44[%s].FromPublicKey(key, chain code).PublicKey().ToAddress() differs from the Byron encoder on (key, that chain code)" % coin.name,
                    "pub=%s chain codes in order %s, failing at %s" % (pub.hex(), [c.hex()[:8] for c in ccs], cc.hex()), got, want)
                break
        if full.PublicKey().ToAddress() != AdaByronIcarusAddrEncoder.EncodeKey(pub, chain_code=full.PublicKey().ChainCode().ToBytes()):
            rep("Bip44[%s] from-seed address changes after other objects with the same public key were used" % coin.name, seed.hex(), full.PublicKey().ToAddress(), "encoder on (key, own chain code)")
    # argument forms. The two Byron-legacy indexes are documented as `int or Bip32KeyIndex`, "automatically hardened if not": a plain integer,
    # an already hardened integer, a Bip32KeyIndex object and a hardened Bip32KeyIndex object (in every mix of the two positions) all name the
    # same child m/first'/second'. Each form is asked on a fresh wallet; the keys are the hardened children of the master key taken one step
    # at a time (the route the model is diffed on), the address is the one of the integer form (diffed against the model by `byronaddr`), and
    # the path recovered from the address is made of the hardened indexes; the address decodes (its CRC verifies)
    from bip_utils import Bip32KeyIndex, Bip32Path, AdaByronAddrDecoder
    H = Bip32KeyIndex.HardenIndex

    def index_forms(v):
        return [("int", v), ("hardened int", H(v)), ("Bip32KeyIndex", Bip32KeyIndex(v)), ("hardened Bip32KeyIndex", Bip32KeyIndex(H(v)))]
    for i in range(3 if tier == "quick" else 60):
        seed = bytes(rng.randrange(256) for _ in range(32))
        f, s_ = ((0, 1), (2**31 - 1, 0))[i] if i < 2 else (rng.choice([0, 1, 5, rng.getrandbits(31)]), rng.choice([0, 1, 2**31 - 1, rng.getrandbits(31)]))
        ref = CardanoByronLegacyBip32.FromSeed(seed).ChildKey(H(f)).ChildKey(H(s_))
        base = CardanoByronLegacy.FromSeed(seed)
        want_addr = base.GetAddress(f, s_)
        want = "%s %s %s" % (ref.PrivateKey().Raw().ToHex(), ref.PublicKey().RawCompressed().ToHex(), want_addr)
        combos = [(a, b) for a in index_forms(f) for b in index_forms(s_)]
        if tier == "quick" and i >= 2:
            combos = rng.sample(combos, 6)
        for (na, a), (nb, b) in combos:
            n += 1
            w = CardanoByronLegacy.FromSeed(seed)
            where = "%s first=%d given as %s, second=%d given as %s" % (seed.hex(), f, na, s_, nb)
            try:
                got = obs(w, a, b)
                addr = w.GetAddress(a, b)
                rec = w.HdPathFromAddress(addr).ToList()
                AdaByronAddrDecoder.DecodeAddr(addr)
            except Exception as ex:  # noqa
                rep("CardanoByronLegacy: an index given in a documented form (int / hardened int / Bip32KeyIndex object) is refused", where, type(ex).__name__, want)
                continue
            if got != want:
                rep("CardanoByronLegacy: keys/address are not those of m/first'/second' when an index is given as an object or already hardened "
                    "(every documented form of an index is hardened)", where, got, want)
            elif rec != [H(f), H(s_)]:
                rep("CardanoByronLegacy: the path recovered from the address is not [first', second'] for this form of the indexes", where, str(rec), str([H(f), H(s_)]))
    # the same for the three BIP32-Ed25519 classes: a child asked by integer, by index object, through DerivePath(text) and through
    # DerivePath(path object) is one and the same node
    for i in range(6 if tier == "quick" else 150):
        kind = list(KH)[i % 3]
        seed = bytes(rng.randrange(256) for _ in range(32))
        elems = [rand_index(rng) for _ in range(rng.randrange(1, 4))]
        text = "m/" + "/".join("%d'" % (e - 2**31) if e >= 2**31 else "%d" % e for e in elems)
        routes = {"ChildKey(int) chain": lambda m: _chain(m, elems), "ChildKey(Bip32KeyIndex) chain": lambda m: _chain(m, [Bip32KeyIndex(e) for e in elems]),
                  "DerivePath(str)": lambda m: m.DerivePath(text), "DerivePath(Bip32Path of ints)": lambda m: m.DerivePath(Bip32Path(list(elems), True)),
                  "DerivePath(Bip32Path of index objects)": lambda m: m.DerivePath(Bip32Path([Bip32KeyIndex(e) for e in elems], True))}
        outs = {}
        for name, route in routes.items():
            n += 1
            try:
                outs[name] = node_out(route(KH[kind].FromSeed(seed)))
            except Exception as ex:  # noqa
                outs[name] = "!" + exc_kind(ex)
        if len(set(outs.values())) != 1:
            rep("%s: the same path gives different nodes depending on the form it is given in" % KH[kind].__name__, "%s %s" % (seed.hex(), text),
                "; ".join("%s -> %s" % (k, v[:48]) for k, v in outs.items()), "one node")
    rpt.extra["impl_relation_checks"] = n
    shelley_thread_relation(rng, tier, rep, rpt)
    from harness.props.accessors_common import cardano_wrappers
    for what, inp, got, want in cardano_wrappers(rng):
        rep(what, inp, got, want)
    return bad[:6]
