"""C18 — Cardano keys, derivation and addresses follow Byron / Icarus / Shelley rules."""
from harness.core import Case
from harness.canon import hx, tx, unhx, untx, nats, unnats, exc_kind
from harness.props.bip32_common import node_out, rand_index, rand_seed
from harness.props.c07 import pre_build
from bip_utils import (Bip32KholawEd25519, CardanoIcarusBip32, CardanoByronLegacyBip32, CardanoByronLegacy, CardanoShelley, Cip1852, Cip1852Coins,
                       Bip44Changes, CardanoByronLegacySeedGenerator, CardanoIcarusSeedGenerator, Bip39MnemonicEncoder, AdaShelleyAddrDecoder,
                       AdaShelleyStakingAddrDecoder, AdaShelleyAddrNetworkTags)

LEAN_MODULES = ["BipVerif.Props.C18", "BipVerif.Props.C04Group"]
KH = {"kholaw": Bip32KholawEd25519, "icarus": CardanoIcarusBip32, "byronlegacy": CardanoByronLegacyBip32}


def _kholawderive(kind, seed, elems, k):
    b = KH[kind].FromSeed(unhx(seed))
    elems, k = unnats(elems), int(k)
    for e in elems[:k]:
        b = b.ChildKey(e)
    if k < len(elems):
        b.ConvertToPublic()
        for e in elems[k:]:
            b = b.ChildKey(e)
    return node_out(b)


def _kholawraw(priv, cc, elems, k):
    from bip_utils import Bip32KeyData
    b = Bip32KholawEd25519.FromPrivateKey(unhx(priv), Bip32KeyData(chain_code=unhx(cc)))
    elems, k = unnats(elems), int(k)
    for e in elems[:k]:
        b = b.ChildKey(e)
    if k < len(elems):
        b.ConvertToPublic()
        for e in elems[k:]:
            b = b.ChildKey(e)
    return node_out(b)


def _byronaddr(seed, f, s):
    w = CardanoByronLegacy.FromSeed(unhx(seed))
    a = w.GetAddress(int(f), int(s))
    return tx(a) + " " + nats(w.HdPathFromAddress(a).ToList()) + " " + hx(w.HdPathKey())


def _shelley(mem, seed, acc, ch, ix):
    coin = Cip1852Coins[mem]
    b = Cip1852.FromSeed(unhx(seed), coin).Purpose().Coin().Account(int(acc))
    sh = CardanoShelley.FromCip1852Object(b).Change(Bip44Changes(int(ch)) if int(ch) in (0, 1) else int(ch)).AddressIndex(int(ix))
    pk = sh.PublicKeys()
    a, s = pk.ToAddress(), pk.ToStakingAddress()
    tag = AdaShelleyAddrNetworkTags.MAINNET if "TESTNET" not in mem else AdaShelleyAddrNetworkTags.TESTNET
    return " ".join([hx(pk.AddressKey().RawCompressed().ToBytes()), hx(pk.StakingKey().RawCompressed().ToBytes()), tx(a), tx(s),
                     hx(AdaShelleyAddrDecoder.DecodeAddr(a, net_tag=tag)), hx(AdaShelleyStakingAddrDecoder.DecodeAddr(s, net_tag=tag))])


def _adaseed(kind, ent):
    m = Bip39MnemonicEncoder().Encode(unhx(ent))
    return hx((CardanoByronLegacySeedGenerator if kind == "legacy" else CardanoIcarusSeedGenerator)(m).Generate())


IMPL = {"kholawraw": _kholawraw, "byrondec": lambda a: hx(__import__("bip_utils").AdaByronAddrDecoder.DecodeAddr(untx(a))), "kholawderive": _kholawderive, "byronaddr": _byronaddr, "shelley": _shelley, "adaseed": _adaseed,
        "byronrecover": lambda seed, addr: nats(CardanoByronLegacy.FromSeed(unhx(seed)).HdPathFromAddress(untx(addr)).ToList())}
ORACLE_MISS_OK = False


ORACLE_MISS_OPS = ("byrondec",)     # the Byron model covers the canonical CBOR shapes; outside them only the error family is checked


def equiv(case, impl_reply, model_reply):
    return case.op == "byrondec" and model_reply.startswith("err OracleMiss") and (impl_reply.startswith("ok") or impl_reply == "err Value")


def gen(rng, tier):
    n = 30 if tier == "quick" else 1500
    for i in range(n):
        kind = list(KH)[i % 3]
        seed = bytes(rng.randrange(256) for _ in range(32)) if kind == "byronlegacy" or i % 5 else rand_seed(rng)
        depth = rng.choice([0, 1, 2, 3, 5])
        path = [rand_index(rng) for _ in range(depth)]
        yield Case("kholawderive", [kind, hx(seed), nats(path), len(path)], "derive-" + kind)
        # watch-only: the same path with the object converted to public-only after a prefix (soft children with non-zero, multi-byte indices)
        if i % 2 == 0:
            pre = [rand_index(rng) for _ in range(rng.randrange(0, 2))]
            post = [rng.choice([1, 2, 255, 256, 65536, 2**31 - 1, rng.getrandbits(31)]) for _ in range(rng.randrange(1, 3))]
            yield Case("kholawderive", [kind, hx(seed), nats(pre + post), len(pre)], "watch-only-" + kind)
    for kind in KH:
        for ln in (0, 15, 31, 33):
            yield Case("kholawderive", [kind, hx(bytes(ln)), "-", 0], "neg-seedlen")
    for i in range(12 if tier == "quick" else 600):
        seed = bytes(rng.randrange(256) for _ in range(32))
        f, s = rng.choice([0, 1, 2**31 - 1, 2**31, rng.getrandbits(31)]), rng.choice([0, 1, 2**31 - 1, rng.getrandbits(31), 2**32 - 1])
        yield Case("byronaddr", [hx(seed), f, s], "byron-legacy")
    for i in range(12 if tier == "quick" else 600):
        mem = [c.name for c in Cip1852Coins][i % len(Cip1852Coins)]
        seed = rand_seed(rng)
        yield Case("shelley", [mem, hx(seed), rng.choice([0, 1, rng.getrandbits(31)]), rng.randrange(2), rng.choice([0, 1, rng.getrandbits(31)])], "shelley")
    # every member at the edges of the index ranges: the largest account and address indexes, and the first values past them (refused)
    for mem in [c.name for c in Cip1852Coins]:
        seed = rand_seed(rng)
        for acc, ch, ix, cls_ in ((2**31 - 1, 1, 2**31 - 1, "shelley-index-edge"), (0, 0, 2**31 - 1, "shelley-index-edge"), (2**31 - 1, 0, 0, "shelley-index-edge"),
                                  (0, 0, 2**31 - 2, "shelley-index-edge"), (0, 0, 2**31, "neg-shelley-index"), (0, 0, 2**32 - 1, "neg-shelley-index"),
                                  (2**31, 0, 0, "shelley-index-edge"), (0, 2, 0, "neg-shelley-index")):
            yield Case("shelley", [mem, hx(seed), acc, ch, ix], cls_)
    # directed, output-dependent: hardened children whose new right half kR' = kR + ZR mod 2^256, or whose chain code, has a zero
    # top byte (fixed-width serialisation), found with an independent HMAC computation from the master key
    import hmac, hashlib
    for i in range(6 if tier == "quick" else 120):
        kind = ("kholaw", "icarus")[i % 2]
        seed = bytes(rng.randrange(256) for _ in range(32))
        m = KH[kind].FromSeed(seed)
        kb, cc = m.PrivateKey().Raw().ToBytes(), m.ChainCode().ToBytes()
        kr = int.from_bytes(kb[32:], "little")
        start = 2**31 + rng.getrandbits(30)
        found = 0
        for idx in range(start, start + 3000):
            ib = idx.to_bytes(4, "little")
            z = hmac.new(cc, b"\x00" + kb + ib, hashlib.sha512).digest()
            c2 = hmac.new(cc, b"\x01" + kb + ib, hashlib.sha512).digest()[32:]
            kr2 = (kr + int.from_bytes(z[32:], "little")) % 2**256
            if kr2 < 2**248 or c2[0] == 0 or c2[-1] == 0:
                yield Case("kholawderive", [kind, hx(seed), nats([idx]), 1], "child-leading-zero")
                found += 1
                if found == 2:
                    break
    # directed: Byron-legacy seeds whose master key needs many rounds of the "Root Seed Chain %d" search (round count computed with
    # hmac/hashlib from the scheme's definition: a candidate is rejected when bit 5 of the last byte of SHA-512(IL)[:32] is set)
    want_rounds = [7, 11] if tier == "quick" else [7, 11, 12, 13, 14]
    got_rounds = set()
    for j in range(6000 if tier == "quick" else 60000):
        seed = rng.getrandbits(256).to_bytes(32, "big")
        data = b"\x58\x20" + seed
        r = 1
        while hashlib.sha512(hmac.new(data, b"Root Seed Chain %d" % r, hashlib.sha512).digest()[:32]).digest()[31] & 0x20:
            r += 1
        for w in want_rounds:
            if r >= w and w not in got_rounds:
                got_rounds.add(w)
                yield Case("kholawderive", ["byronlegacy", hx(seed), "-", 0], "byron-master-rounds-%d" % w)
                yield Case("byronaddr", [hx(seed), 0, 1], "byron-master-rounds-%d" % w)
        if len(got_rounds) == len(want_rounds):
            break
    # hand-supplied parents whose left half sits at the edges of the range (2^255 is where libsodium's scalar range ends): the child is
    # refused or is the one the public-only parent derives, on both sides
    for kl in (2**255 - 8, 2**255 - 2**200, 2**255 - 2**227 - 8, 2**255 - 2**227 + 8, 2**254, 2**254 + 2**253, 2**255, 2**255 + 8, 2**256 - 8, 8, 0, rng.getrandbits(255) & ~7):
        kr, cc = bytes(rng.randrange(256) for _ in range(32)), bytes(rng.randrange(256) for _ in range(32))
        for idx in (0, 1, 2**31 - 1, 2**31):
            yield Case("kholawraw", [hx(kl.to_bytes(32, "little") + kr), hx(cc), nats([idx]), 1], "raw-parent-edge")
            if idx < 2**31:
                yield Case("kholawraw", [hx(kl.to_bytes(32, "little") + kr), hx(cc), nats([idx]), 0], "raw-parent-edge-public")
    from harness.props.c10 import byron_cases       # valid Byron addresses, their mutation stream, re-spelled checksum fields
    yield from byron_cases(rng, tier)
    from harness.canon import kholaw_long_round_seeds
    for t, s in kholaw_long_round_seeds(rng, (6, 9, 11) if tier == "quick" else (6, 9, 10, 11, 12, 13, 14), 12000 if tier == "quick" else 120000):
        yield Case("kholawderive", ["kholaw", hx(s), nats([0x80000000, 1]), 2], "ledger-master-links-%d" % t)
    # directed: Shelley payment keys whose 32-byte encoding starts (or ends) with a zero byte
    for i in range(3 if tier == "quick" else 40):
        mem = [c.name for c in Cip1852Coins][i % len(Cip1852Coins)]
        seed = rand_seed(rng)
        acc = Cip1852.FromSeed(seed, Cip1852Coins[mem]).Purpose().Coin().Account(0)
        ch = acc.Change(Bip44Changes.CHAIN_EXT)
        found = 0
        for ix in range(0, 2500):
            pub = ch.AddressIndex(ix).PublicKey().RawCompressed().ToBytes()[1:]
            if pub[0] == 0 or pub[-1] == 0:
                yield Case("shelley", [mem, hx(seed), 0, 0, ix], "shelley-leading-zero")
                found += 1
                if found == 2:
                    break
    # directed: staking keys (account/2/0) starting with a zero byte — vary the account
    for i in range(1 if tier == "quick" else 12):
        mem = [c.name for c in Cip1852Coins][i % len(Cip1852Coins)]
        seed = rand_seed(rng)
        coin = Cip1852.FromSeed(seed, Cip1852Coins[mem]).Purpose().Coin()
        for a in range(0, 1500):
            pub = coin.Account(a).Bip32Object().ChildKey(2).ChildKey(0).PublicKey().RawCompressed().ToBytes()[1:]
            if pub[0] == 0:
                yield Case("shelley", [mem, hx(seed), a, 0, 0], "shelley-stake-leading-zero")
                break
    for i in range(6 if tier == "quick" else 100):
        e = bytes(rng.randrange(256) for _ in range(rng.choice([16, 20, 24, 28, 32])))
        yield Case("adaseed", ["legacy", hx(e)], "seed")
        yield Case("adaseed", ["icarus", hx(e)], "seed")


def _chain(m, elems):
    for e in elems:
        m = m.ChildKey(e)
    return m


def relations(rng, tier, rpt):
    """master keys carry the mandated clamped bits; children keep the extended-key invariants — implementation only."""
    bad = []
    n = 0

    def rep(what, inp, got, want):
        bad.append({"property": "C18", "entry_point": what, "request_lines": [], "relation": what, "input": inp,
                    "impl_output": got, "model_output": want, "no_failing_input": False})

    for i in range(20 if tier == "quick" else 600):
        for kind, cls in KH.items():
            seed = bytes(rng.randrange(256) for _ in range(32))
            m = cls.FromSeed(seed)
            k = m.PrivateKey().Raw().ToBytes()
            n += 1
            ok = (k[0] & 7) == 0 and (k[31] & 0x80) == 0 and (k[31] & 0x40) != 0 and (k[31] & 0x20) == 0
            if not ok:
                rep("master key does not carry the clamped bits (low 3 clear, bit 255 clear, bit 254 set, bit 253 clear)", "%s %s" % (kind, seed.hex()), k[:32].hex(), "clamped")
            if kind != "byronlegacy":
                c = m
                for _ in range(3):
                    c = c.ChildKey(rand_index(rng))
                    kl = int.from_bytes(c.PrivateKey().Raw().ToBytes()[:32], "little")
                    if kl % 8 != 0:
                        rep("child kL is not a multiple of 8", "%s %s" % (kind, seed.hex()), hex(kl), "multiple of 8")
    # one CardanoByronLegacy wallet asked for a sequence of (first, second) index pairs: every answer equals a fresh wallet's
    from bip_utils import CardanoByronLegacy, Bip44, Bip44Coins, Bip32KeyData, Bip32ChainCode, AdaByronIcarusAddrEncoder

    def obs(w, a, b):
        return "%s %s %s" % (w.GetPrivateKey(a, b).Raw().ToHex(), w.GetPublicKey(a, b).RawCompressed().ToHex(), w.GetAddress(a, b))
    for i in range(2 if tier == "quick" else 25):
        seed = bytes(rng.randrange(256) for _ in range(32))
        shared = CardanoByronLegacy.FromSeed(seed)
        seq = [(0, 0), (5, 0), (0, 2), (5, 1), (2**31 - 1, 3), (0, 0), (1, 2**31 - 1), (0, 1), (5, 0)]
        if i:
            seq = [(rng.choice([0, 1, 5, 2**31 - 1]), rng.choice([0, 1, 2, 7])) for _ in range(9)]
        for j, (a, b) in enumerate(seq):
            n += 1
            got, want = obs(shared, a, b), obs(CardanoByronLegacy.FromSeed(seed), a, b)
            if got != want:
                rep("CardanoByronLegacy: keys/address for (%d, %d) depend on the index pairs the same wallet object was asked before" % (a, b),
                    "%s after %s" % (seed.hex(), seq[:j]), got, want)
                break
    # Byron (Icarus / Ledger) addresses embed a function of the chain code: hierarchy objects holding the SAME public key with different chain
    # codes (a watch-only import with the default chain code, then the real one) each give the address of their own chain code
    for i, coin in enumerate((Bip44Coins.CARDANO_BYRON_ICARUS, Bip44Coins.CARDANO_BYRON_LEDGER) * (1 if tier == "quick" else 6)):
        seed = bytes(rng.randrange(256) for _ in range(32))
        full = Bip44.FromSeed(seed, coin).DeriveDefaultPath()
        pub = full.PublicKey().RawCompressed().ToBytes()
        ccs = [bytes(32), full.PublicKey().ChainCode().ToBytes(), bytes(rng.randrange(256) for _ in range(32))]
        if i % 2:
            ccs.reverse()
        for cc in ccs:
            n += 1
            o = Bip44.FromPublicKey(pub, coin, Bip32KeyData(chain_code=Bip32ChainCode(cc), depth=5))
            got = o.PublicKey().ToAddress()
            want = AdaByronIcarusAddrEncoder.EncodeKey(pub, chain_code=cc)
            if got != want:
                rep("Bip44[%s].FromPublicKey(key, chain code).PublicKey().ToAddress() differs from the Byron encoder on (key, that chain code)" % coin.name,
                    "pub=%s chain codes in order %s, failing at %s" % (pub.hex(), [c.hex()[:8] for c in ccs], cc.hex()), got, want)
                break
        if full.PublicKey().ToAddress() != AdaByronIcarusAddrEncoder.EncodeKey(pub, chain_code=full.PublicKey().ChainCode().ToBytes()):
            rep("Bip44[%s] from-seed address changes after other objects with the same public key were used" % coin.name, seed.hex(), full.PublicKey().ToAddress(), "encoder on (key, own chain code)")
    # argument forms. The two Byron-legacy indexes are documented as `int or Bip32KeyIndex`, "automatically hardened if not": a plain integer,
    # an already hardened integer, a Bip32KeyIndex object and a hardened Bip32KeyIndex object (in every mix of the two positions) all name the
    # same child m/first'/second'. Each form is asked on a fresh wallet; the keys are the hardened children of the master key taken one step
    # at a time (the route the model is diffed on), the address is the one of the integer form (diffed against the model by `byronaddr`), and
    # the path recovered from the address is made of the hardened indexes; the address decodes (its CRC verifies)
    from bip_utils import Bip32KeyIndex, Bip32Path, AdaByronAddrDecoder
    H = Bip32KeyIndex.HardenIndex

    def index_forms(v):
        return [("int", v), ("hardened int", H(v)), ("Bip32KeyIndex", Bip32KeyIndex(v)), ("hardened Bip32KeyIndex", Bip32KeyIndex(H(v)))]
    for i in range(3 if tier == "quick" else 60):
        seed = bytes(rng.randrange(256) for _ in range(32))
        f, s_ = ((0, 1), (2**31 - 1, 0))[i] if i < 2 else (rng.choice([0, 1, 5, rng.getrandbits(31)]), rng.choice([0, 1, 2**31 - 1, rng.getrandbits(31)]))
        ref = CardanoByronLegacyBip32.FromSeed(seed).ChildKey(H(f)).ChildKey(H(s_))
        base = CardanoByronLegacy.FromSeed(seed)
        want_addr = base.GetAddress(f, s_)
        want = "%s %s %s" % (ref.PrivateKey().Raw().ToHex(), ref.PublicKey().RawCompressed().ToHex(), want_addr)
        combos = [(a, b) for a in index_forms(f) for b in index_forms(s_)]
        if tier == "quick" and i >= 2:
            combos = rng.sample(combos, 6)
        for (na, a), (nb, b) in combos:
            n += 1
            w = CardanoByronLegacy.FromSeed(seed)
            where = "%s first=%d given as %s, second=%d given as %s" % (seed.hex(), f, na, s_, nb)
            try:
                got = obs(w, a, b)
                addr = w.GetAddress(a, b)
                rec = w.HdPathFromAddress(addr).ToList()
                AdaByronAddrDecoder.DecodeAddr(addr)
            except Exception as ex:  # noqa
                rep("CardanoByronLegacy: an index given in a documented form (int / hardened int / Bip32KeyIndex object) is refused", where, type(ex).__name__, want)
                continue
            if got != want:
                rep("CardanoByronLegacy: keys/address are not those of m/first'/second' when an index is given as an object or already hardened "
                    "(every documented form of an index is hardened)", where, got, want)
            elif rec != [H(f), H(s_)]:
                rep("CardanoByronLegacy: the path recovered from the address is not [first', second'] for this form of the indexes", where, str(rec), str([H(f), H(s_)]))
    # the same for the three BIP32-Ed25519 classes: a child asked by integer, by index object, through DerivePath(text) and through
    # DerivePath(path object) is one and the same node
    for i in range(6 if tier == "quick" else 150):
        kind = list(KH)[i % 3]
        seed = bytes(rng.randrange(256) for _ in range(32))
        elems = [rand_index(rng) for _ in range(rng.randrange(1, 4))]
        text = "m/" + "/".join("%d'" % (e - 2**31) if e >= 2**31 else "%d" % e for e in elems)
        routes = {"ChildKey(int) chain": lambda m: _chain(m, elems), "ChildKey(Bip32KeyIndex) chain": lambda m: _chain(m, [Bip32KeyIndex(e) for e in elems]),
                  "DerivePath(str)": lambda m: m.DerivePath(text), "DerivePath(Bip32Path of ints)": lambda m: m.DerivePath(Bip32Path(list(elems), True)),
                  "DerivePath(Bip32Path of index objects)": lambda m: m.DerivePath(Bip32Path([Bip32KeyIndex(e) for e in elems], True))}
        outs = {}
        for name, route in routes.items():
            n += 1
            try:
                outs[name] = node_out(route(KH[kind].FromSeed(seed)))
            except Exception as ex:  # noqa
                outs[name] = "!" + exc_kind(ex)
        if len(set(outs.values())) != 1:
            rep("%s: the same path gives different nodes depending on the form it is given in" % KH[kind].__name__, "%s %s" % (seed.hex(), text),
                "; ".join("%s -> %s" % (k, v[:48]) for k, v in outs.items()), "one node")
    rpt.extra["impl_relation_checks"] = n
    from harness.props.accessors_common import cardano_wrappers
    for what, inp, got, want in cardano_wrappers(rng):
        rep(what, inp, got, want)
    return bad[:6]
