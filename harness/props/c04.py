"""C04 — watch-only derivation sees exactly the public side of private derivation."""
from harness.core import Case, load_findings
from harness.canon import hx, tx, unhx, nats, exc_kind
from harness.props.bip32_common import IMPL as B32, CLS, rand_index, rand_seed, node_out
from harness.props.c18 import IMPL as C18, KH
from harness.props.c07 import pre_build
from bip_utils import (Bip44, Bip44Coins, Bip44Changes, Bip32KeyData, Bip32KeyNetVersions, ElectrumV1, ElectrumV2Standard, Secp256k1PrivateKey,
                       Bip32KeyError)

LEAN_MODULES = ["BipVerif.Props.C04", "BipVerif.Props.C04Group"]
from harness.props import c19 as _c19
IMPL = {"derive": B32["derive"], "childpub": B32["childpub"], "kholawderive": C18["kholawderive"], "kholawraw": C18["kholawraw"],
        "fromxkey": B32["fromxkey"], "substrate": _c19.IMPL["substrate"]}
ORACLES = _c19.ORACLES


def _extra_cases(rng, tier):
    """parents loaded from extended keys whose metadata the library itself writes for keys built from raw bytes (depth > 0 with an all-zero
    parent fingerprint); Substrate soft junctions from public-only objects, with the refusal of hard ones anywhere in the path; BIP32-Ed25519
    parents given as raw keys at the edges of the scalar range"""
    from harness.props.c05 import key_net_versions, ser
    import sr25519
    kvs = key_net_versions()
    for i in range(6 if tier == "quick" else 150):
        c = ("secp256k1", "nist256p1")[i % 2]
        pv, sv = kvs[i % len(kvs)]
        kb = rng.randrange(1, 2**255).to_bytes(32, "big")
        pub = CLS[c].FromPrivateKey(kb).PublicKey().RawCompressed().ToBytes()
        depth, idx, cc = rng.choice([1, 3, 5, 255]), rand_index(rng), bytes(rng.randrange(256) for _ in range(32))
        yield Case("fromxkey", [c, hx(pv), hx(sv), tx(ser(pv, depth, bytes(4), idx, cc, pub))], "xpub-zero-fingerprint")
        yield Case("fromxkey", [c, hx(pv), hx(sv), tx(ser(sv, depth, bytes(4), idx, cc, b"\x00" + kb))], "xprv-zero-fingerprint")
    for i in range(10 if tier == "quick" else 300):
        seed = bytes(rng.randrange(256) for _ in range(32))
        key = bytes(sr25519.pair_from_seed(seed)[0])
        js = [rng.choice(["/", "/", "//"]) + rng.choice(["0", "1", "alice", "stash", "4294967296", "a b"]) for _ in range(rng.randrange(1, 4))]
        yield Case("substrate", ["pub", hx(key), _c19.COINS[i % len(_c19.COINS)], tx("".join(js)), 99], "substrate-public-only" if all(not j.startswith("//") for j in js) else "neg-substrate-hard-on-public")
        yield Case("substrate", ["seed", hx(seed), _c19.COINS[i % len(_c19.COINS)], tx("".join(js)), rng.randrange(0, len(js))], "substrate-converted")
    for kl in (2**255 - 8, 2**255 - 2**227 + 8, 2**254 + 2**253, 2**255 + 8, 8):
        kr, cc = bytes(rng.randrange(256) for _ in range(32)), bytes(rng.randrange(256) for _ in range(32))
        for idx in (0, 2**31 - 1):
            yield Case("kholawraw", [hx(kl.to_bytes(32, "little") + kr), hx(cc), nats([idx]), 1], "raw-parent-edge")
            yield Case("kholawraw", [hx(kl.to_bytes(32, "little") + kr), hx(cc), nats([idx]), 0], "raw-parent-edge-public")


def gen(rng, tier):
    yield from _extra_cases(rng, tier)
    n = 60 if tier == "quick" else 3000
    for i in range(n):
        c = ("secp256k1", "nist256p1")[i % 2]
        seed = rand_seed(rng)
        pre = [rand_index(rng) for _ in range(rng.randrange(0, 3))]
        post = [rand_index(rng, False) for _ in range(rng.randrange(1, 4))]
        # the same path derived privately and with the object converted to public-only after the prefix
        yield Case("derive", [c, hx(seed), nats(pre + post), len(pre + post)], "priv-path")
        yield Case("derive", [c, hx(seed), nats(pre + post), len(pre)], "pub-path")
        if i % 4 == 0:    # hardened child from a public-only object: refused
            yield Case("derive", [c, hx(seed), nats(pre + [rand_index(rng, True)]), len(pre)], "neg-hardened")
    # the published SLIP-0010 vectors (incl. the P-256 child whose IL >= n: re-hash) derived publicly after every prefix
    from harness.props.c03 import DIRECTED
    for c, seed, path in DIRECTED:
        if c in ("secp256k1", "nist256p1"):
            for k in range(len(path) + 1):
                yield Case("derive", [c, seed, nats(path), k], "vector-public" if k < len(path) else "vector-private")
    # directed: children whose HMAC left half IL, or whose child public key x, starts with zero bytes (fixed-width conversions)
    import hmac, hashlib
    for i in range(8 if tier == "quick" else 200):
        c = ("secp256k1", "nist256p1")[i % 2]
        seed = rand_seed(rng)
        m = CLS[c].FromSeed(seed)
        pub, cc = m.PublicKey().RawCompressed().ToBytes(), m.ChainCode().ToBytes()
        start = rng.getrandbits(30)
        found = 0
        for idx in range(start, start + 4000):
            il = hmac.new(cc, pub + idx.to_bytes(4, "big"), hashlib.sha512).digest()[:32]
            zero_il = il[0] == 0
            zero_x = (not zero_il) and i % 4 >= 2 and m.ChildKey(idx).PublicKey().RawCompressed().ToBytes()[1] == 0
            if zero_il or zero_x:
                yield Case("childpub", [c, hx(pub), hx(cc), 0, idx], "pub-leading-zero")
                yield Case("derive", [c, hx(seed), nats([idx]), 0], "pub-leading-zero")
                yield Case("derive", [c, hx(seed), nats([idx]), 1], "priv-leading-zero")
                found += 1
                if found == 2:
                    break
    # directed history: the SAME 33 key bytes, chain code and index loaded as a public-only parent by one ECDSA curve class and then by the
    # other (bytes that are a valid key on both curves: about every second key), and by the first one again.  Each class must give ITS curve's
    # child (the model computes each one separately); anything remembered per (key bytes, chain code, index) across classes shows here
    from harness.props.bip32_common import both_curves_parent
    for i in range(4 if tier == "quick" else 100):
        first = ("secp256k1", "nist256p1")[i % 2]
        second = ("secp256k1", "nist256p1")[1 - i % 2]
        r = both_curves_parent(rng, (first, second)[(i // 2) % 2])
        if r is None:
            continue
        cc = bytes(rng.randrange(256) for _ in range(32))
        dp = rng.choice([0, 1, 3])
        for idx in (rand_index(rng, False), rng.randrange(0, 20)):
            for c in (first, second, first):
                yield Case("childpub", [c, hx(r[1]), hx(cc), dp, idx], "pub-same-bytes-both-curves")
    for i in range(12 if tier == "quick" else 300):
        c = ("ed25519", "ed25519blake2b")[i % 2]
        yield Case("derive", [c, hx(rand_seed(rng)), nats([rand_index(rng, True), rand_index(rng)]), 1], "neg-ed25519-public")
    for i in range(45 if tier == "quick" else 2500):
        kind = list(KH)[i % 3]
        seed = bytes(rng.randrange(256) for _ in range(32))
        pre = [rand_index(rng) for _ in range(rng.randrange(0, 2))]
        post = [rand_index(rng, False) for _ in range(rng.randrange(1, 3))]
        yield Case("kholawderive", [kind, hx(seed), nats(pre + post), len(pre + post)], "priv-" + kind)
        yield Case("kholawderive", [kind, hx(seed), nats(pre + post), len(pre)], "pub-" + kind)
        if i % 5 == 0:
            yield Case("kholawderive", [kind, hx(seed), nats(pre + [rand_index(rng, True)]), len(pre)], "neg-hardened")


def Bip32Slip10Secp256k1_():
    from bip_utils import Bip32Slip10Secp256k1
    return Bip32Slip10Secp256k1


def _kvs():
    from harness.props.c05 import key_net_versions
    return [Bip32KeyNetVersions(a, b) for a, b in key_net_versions()]


def byron_bit255(parent, idx):
    """predicate of known finding F-byron-pubder: bit 255 of the byte-wise 8*ZL scalar is set"""
    from bip_utils.utils.crypto import HmacSha512
    z = HmacSha512.QuickDigest(parent.ChainCode().ToBytes(), b"\x02" + parent.PublicKey().RawCompressed().ToBytes()[1:] + idx.to_bytes(4, "big"))
    return bool(((z[31] * 8) & 0xff) & 0x80)


def relations(rng, tier, rpt):
    """the literal clause on the implementation: for every scheme, public-only derivation == public half of private derivation
    (key, chain code, metadata, extended public key, address); a public-only object never yields a private key."""
    bad = []
    n = 0
    known = 0

    def rep(what, inp, got, want, fid=None):
        d = {"property": "C04", "entry_point": what, "request_lines": [], "relation": what, "input": inp,
             "impl_output": got, "model_output": want, "no_failing_input": False}
        if fid:
            d["finding_id"] = fid
        bad.append(d)

    def pub_view(b):
        return (b.PublicKey().RawCompressed().ToBytes(), b.ChainCode().ToBytes(), int(b.Depth()), int(b.Index()), b.ParentFingerPrint().ToBytes(),
                b.PublicKey().ToExtended())

    schemes = dict(CLS)
    schemes.pop("ed25519"), schemes.pop("ed25519blake2b")
    schemes.update(KH)
    for i in range(40 if tier == "quick" else 1500):
        name = list(schemes)[i % len(schemes)]
        cls = schemes[name]
        seed = bytes(rng.randrange(256) for _ in range(32))
        how = i % 3
        kvs = _kvs()
        kv = kvs[rng.randrange(len(kvs))] if name in CLS and i % 3 else None     # non-default extended-key version bytes (ypub/zpub/tpub/…)
        m = cls.FromSeed(seed, kv) if kv is not None else cls.FromSeed(seed)
        parent = m.ChildKey(rand_index(rng)) if i % 2 else m
        if kv is not None:
            how = 0
            # public-only twins of the parent must hand the parent's version bytes down to their children
            for w in (cls.FromExtendedKey(parent.PublicKey().ToExtended(), kv),
                      cls.FromPublicKey(parent.PublicKey().RawCompressed().ToBytes(), Bip32KeyData(depth=int(parent.Depth()), index=int(parent.Index()),
                                        chain_code=parent.ChainCode(), parent_fprint=parent.ParentFingerPrint()), kv)):
                ix = rand_index(rng, False)
                a, b = pub_view(parent.ChildKey(ix)), pub_view(w.ChildKey(ix))
                n += 1
                if a != b:
                    rep("public derivation under non-default key net versions differs from the public half of private derivation (extended public key / metadata)",
                        "%s seed=%s idx=%d versions=%s" % (name, seed.hex(), ix, kv.Public().hex()), b[-1], a[-1])
            continue
        if how == 1:      # from raw key + chain code
            parent = cls.FromPrivateKey(parent.PrivateKey().Raw().ToBytes(), Bip32KeyData(depth=int(parent.Depth()), chain_code=parent.ChainCode()))
        elif how == 2:    # from the extended key
            parent = cls.FromExtendedKey(parent.PrivateKey().ToExtended())
        idx = rand_index(rng, False)
        priv_child = parent.ChildKey(idx)
        watch = cls.FromExtendedKey(parent.PublicKey().ToExtended()) if how == 2 else \
            cls.FromPublicKey(parent.PublicKey().RawCompressed().ToBytes(), Bip32KeyData(depth=int(parent.Depth()), index=int(parent.Index()),
                                                                                          chain_code=parent.ChainCode(), parent_fprint=parent.ParentFingerPrint()))
        n += 1
        try:
            pub_child = watch.ChildKey(idx)
            got = pub_view(pub_child)
        except Exception as ex:  # noqa
            got = ("raised " + type(ex).__name__,)
        if got != pub_view(priv_child):
            if name == "byronlegacy" and byron_bit255(parent, idx):
                known += 1
                rep("public derivation differs from the public half of private derivation", "%s seed=%s idx=%d" % (name, seed.hex(), idx),
                    got[0].hex() if isinstance(got[0], bytes) else got[0], pub_view(priv_child)[0].hex(), fid="F-byron-pubder")
            else:
                rep("public derivation differs from the public half of private derivation", "%s seed=%s idx=%d how=%d" % (name, seed.hex(), idx, how),
                    got[0].hex() if isinstance(got[0], bytes) else got[0], pub_view(priv_child)[0].hex())
        try:
            watch.PrivateKey()
            rep("public-only object yields a private key", name, "ok", "Bip32KeyError")
        except Bip32KeyError:
            pass
        try:
            watch.ChildKey(rand_index(rng, True))
            rep("hardened derivation accepted from a public-only object", name, "ok", "Bip32KeyError")
        except Bip32KeyError:
            pass
        except Exception as ex:  # noqa
            rep("hardened derivation from public-only raises the wrong error", name, type(ex).__name__, "Bip32KeyError")
    # BIP-44 account-level watch-only object: change / address index commute
    for i in range(6 if tier == "quick" else 150):
        seed = rand_seed(rng)
        acc = Bip44.FromSeed(seed, Bip44Coins.BITCOIN).Purpose().Coin().Account(rng.randrange(5))
        w = Bip44.FromExtendedKey(acc.PublicKey().ToExtended(), Bip44Coins.BITCOIN)
        ix = rng.getrandbits(31)
        a = acc.Change(Bip44Changes.CHAIN_EXT).AddressIndex(ix)
        b = w.Change(Bip44Changes.CHAIN_EXT).AddressIndex(ix)
        n += 1
        if a.PublicKey().ToAddress() != b.PublicKey().ToAddress() or a.PublicKey().ToExtended() != b.PublicKey().ToExtended():
            rep("BIP-44 watch-only account derives a different address", seed.hex(), b.PublicKey().ToAddress(), a.PublicKey().ToAddress())
    # wrapper level: a public-only account object (every BIP-44 family) refuses a hardened address index with the key error, derives
    # non-hardened ones like the private side, and never yields a private key
    from bip_utils import Bip49, Bip84, Bip86, Cip1852, Bip49Coins, Bip84Coins, Bip86Coins, Cip1852Coins, Bip32KeyIndex
    for cls_, coin_ in ((Bip44, Bip44Coins.BITCOIN), (Bip44, Bip44Coins.NEO), (Bip49, Bip49Coins.LITECOIN), (Bip84, Bip84Coins.BITCOIN), (Bip86, Bip86Coins.BITCOIN),
                        (Cip1852, Cip1852Coins.CARDANO_ICARUS), (Bip44, Bip44Coins.CARDANO_BYRON_ICARUS)):
        seed = rand_seed(rng)
        acc = cls_.FromSeed(seed, coin_).Purpose().Coin().Account(rng.randrange(3))
        w = cls_.FromExtendedKey(acc.PublicKey().ToExtended(), coin_)
        wch = w.Change(Bip44Changes.CHAIN_EXT)
        n += 1
        for hidx in (Bip32KeyIndex.HardenIndex(0), Bip32KeyIndex.HardenIndex(rng.getrandbits(20)), 2**31 + 5, 2**32 - 1):
            try:
                got = wch.AddressIndex(hidx)
                rep("%s[%s]: a hardened address index is derived from a public-only object instead of being refused" % (cls_.__name__, coin_.name),
                    "%s idx=%s" % (seed.hex(), int(hidx)), got.PublicKey().RawCompressed().ToHex(), "Bip32KeyError")
            except Bip32KeyError:
                pass
            except Exception as ex:  # noqa
                rep("%s[%s]: hardened address index on a public-only object raises the wrong error" % (cls_.__name__, coin_.name), "%s idx=%s" % (seed.hex(), int(hidx)), type(ex).__name__, "Bip32KeyError")
        ix = rng.getrandbits(20)
        a = acc.Change(Bip44Changes.CHAIN_EXT).AddressIndex(ix)
        b = wch.AddressIndex(ix)
        if a.PublicKey().RawCompressed().ToBytes() != b.PublicKey().RawCompressed().ToBytes() or int(b.Bip32Object().Index()) != ix:
            rep("%s[%s]: watch-only account derives a different address-level key" % (cls_.__name__, coin_.name), "%s idx=%d" % (seed.hex(), ix), b.PublicKey().RawCompressed().ToHex(), a.PublicKey().RawCompressed().ToHex())
        try:
            b.PrivateKey()
            rep("%s[%s]: public-only object yields a private key" % (cls_.__name__, coin_.name), seed.hex(), "ok", "Bip32KeyError")
        except Bip32KeyError:
            pass
    # Electrum v2 wallets on a public-only master: the standard wallet is watch-only (same keys and addresses, no private keys); the
    # segwit wallet needs the hardened account m/0' and must refuse a public-only master with the key error
    from bip_utils import ElectrumV2Segwit
    for i in range(4 if tier == "quick" else 60):
        seed = rand_seed(rng)
        full = Bip32Slip10Secp256k1_().FromSeed(seed)
        pubm = Bip32Slip10Secp256k1_().FromExtendedKey(full.PublicKey().ToExtended())
        n += 1
        fs, ws = ElectrumV2Standard(full), ElectrumV2Standard(pubm)
        for ch, ad in ((0, 0), (1, 7), (0, rng.getrandbits(31))):
            if fs.GetAddress(ch, ad) != ws.GetAddress(ch, ad) or fs.GetPublicKey(ch, ad).RawCompressed().ToBytes() != ws.GetPublicKey(ch, ad).RawCompressed().ToBytes():
                rep("Electrum v2 standard watch-only wallet differs from the full wallet", "%s (%d,%d)" % (seed.hex(), ch, ad), ws.GetAddress(ch, ad), fs.GetAddress(ch, ad))
        try:
            ws.GetPrivateKey(0, 0)
            rep("Electrum v2 watch-only wallet yields a private key", seed.hex(), "ok", "Bip32KeyError")
        except Bip32KeyError:
            pass
        try:
            wseg = ElectrumV2Segwit(pubm)
            got = wseg.GetAddress(0, 0)
            want = ElectrumV2Segwit(full).GetAddress(0, 0)
            rep("Electrum v2 segwit wallet built on a public-only master (its account m/0' is hardened)" + ("" if got == want else " and derives different addresses"),
                seed.hex(), got, "Bip32KeyError (or the full wallet's %s)" % want)
        except Bip32KeyError:
            pass
    # history across classes, objects and wrappers: what a public-only parent derives depends on ITS curve, key, chain code, metadata and
    # version bytes only — not on which other object was asked for the same index before.  A parent key whose compressed bytes are valid on
    # both ECDSA curves is loaded (from raw key + key data, and from the extended public key string) by the other curve class, and by the
    # right class with one component changed at a time (chain code, depth/index/fingerprint, version bytes); the objects are asked in a
    # random order, twice.  Right-class objects are compared with the public half of the private child of the same key data (the clause
    # itself); the other-curve object, which has no private side, with the reference child computed from the BIP-32 formula by the curve
    # library called directly
    from harness.props.bip32_common import both_curves_parent, ckd_pub_ref
    from bip_utils import Bip32Depth, Bip32KeyIndex, Bip32ChainCode, Bip32FingerPrint
    ecd = ("secp256k1", "nist256p1")
    nh = 0
    for i in range(4 if tier == "quick" else 120):
        right, other = ecd[i % 2], ecd[1 - i % 2]
        r = both_curves_parent(rng, right)
        if r is None:
            continue
        kb, pubb = r
        rb = lambda k: bytes(rng.randrange(256) for _ in range(k))     # noqa: E731
        cc, fp, dep, pix = rb(32), rb(4), rng.choice([1, 2, 3]), rand_index(rng)
        kvs = _kvs()
        kv0, kv1 = Bip32KeyNetVersions(bytes.fromhex("0488b21e"), bytes.fromhex("0488ade4")), kvs[rng.randrange(len(kvs))]
        mk = lambda d, ix, c_, f_: Bip32KeyData(Bip32Depth(d), Bip32KeyIndex(ix), Bip32ChainCode(c_), Bip32FingerPrint(f_))    # noqa: E731
        variants = [("the parent", right, (dep, pix, cc, fp), kv0),
                    ("the same key bytes and key data on the other curve class", other, (dep, pix, cc, fp), kv0),
                    ("the same key with another chain code", right, (dep, pix, rb(32), fp), kv0),
                    ("the same key and chain code with other depth/index/fingerprint", right, (dep + 1, pix ^ 1, cc, rb(4)), kv0),
                    ("the same key and key data under other version bytes", right, (dep, pix, cc, fp), kv1)]
        idxs = [rand_index(rng, False), rng.randrange(0, 4)]
        order = list(range(len(variants))) * 2
        rng.shuffle(order)
        for step, j in enumerate(order):
            label, c, meta, kv = variants[j]
            w = CLS[c].FromPublicKey(pubb, mk(*meta), kv)
            if step % 2:
                w = CLS[c].FromExtendedKey(w.PublicKey().ToExtended(), kv)
            for idx in idxs:
                nh += 1
                if c == right:      # key, chain code, depth, index, parent fingerprint, extended public key
                    want = pub_view(CLS[c].FromPrivateKey(kb, mk(*meta), kv).ChildKey(idx))
                else:               # key, chain code, depth, index
                    ref = ckd_pub_ref(c, pubb, meta[2], idx)
                    if ref is None:
                        continue
                    want = (ref[0], ref[1], meta[0] + 1, idx)
                try:
                    got = pub_view(w.ChildKey(idx))[:len(want)]
                except Bip32KeyError:
                    got = ("refused: Bip32KeyError",)
                if got != want:
                    rep("public derivation from %s (%s, loaded from %s) is not %s once the same key bytes have been used by other public-only objects"
                        % (label, c, "its extended public key" if step % 2 else "raw key + key data",
                           "the public side of the private child" if c == right else "the child K_par + IL*G of that curve (reference: hmac + the curve library)"),
                        "key=%s pub=%s cc=%s depth=%d index=%d step=%d of order %s" % (kb.hex(), pubb.hex(), meta[2].hex(), meta[0], idx, step, order),
                        str([x.hex() if isinstance(x, bytes) else x for x in got]), str([x.hex() if isinstance(x, bytes) else x for x in want]))
                    break
    # the same at wrapper level: an account xpub of a P-256 coin (NEO) tried as an account of a secp256k1 coin with the same version bytes
    # (Bitcoin) and then used for the coin it belongs to, and the other way round: addresses and extended keys of the watch-only account
    # are those of the private account
    pairs = [(Bip44Coins.NEO, Bip44Coins.BITCOIN), (Bip44Coins.BITCOIN, Bip44Coins.NEO)]
    for i in range(2 if tier == "quick" else 30):
        coin_r, coin_o = pairs[i % 2]
        for _ in range(64):
            seed = rand_seed(rng)
            acc = Bip44.FromSeed(seed, coin_r).Purpose().Coin().Account(rng.randrange(3))
            xpub = acc.PublicKey().ToExtended()
            try:
                probe = Bip44.FromExtendedKey(xpub, coin_o)
                break
            except Bip32KeyError:          # the key bytes are not a point of the other coin's curve: next seed
                continue
        else:
            continue
        ch = rng.choice([Bip44Changes.CHAIN_EXT, Bip44Changes.CHAIN_INT])
        ixs = [0, rng.getrandbits(31)]
        for ix in ixs:
            probe.Change(ch).AddressIndex(ix)
        w = Bip44.FromExtendedKey(xpub, coin_r)
        for ix in ixs:
            nh += 1
            a = acc.Change(ch).AddressIndex(ix).PublicKey()
            try:
                b = w.Change(ch).AddressIndex(ix).PublicKey()
                got = (b.ToAddress(), b.ToExtended())
            except Bip32KeyError:
                got = ("refused: Bip32KeyError",)
            if got != (a.ToAddress(), a.ToExtended()):
                rep("Bip44[%s] watch-only account differs from the private account after the same extended public key was tried as a %s account" % (coin_r.name, coin_o.name),
                    "seed=%s xpub=%s change=%d index=%d" % (seed.hex(), xpub, int(ch), ix), str(got), str((a.ToAddress(), a.ToExtended())))
                break
    rpt.extra["cross_object_history_checks"] = nh
    # conversion after use: an object converted to public-only behaves as public-only whatever was derived from it before
    for i in range(20 if tier == "quick" else 600):
        name = list(schemes)[i % len(schemes)]
        cls = schemes[name]
        b = cls.FromSeed(bytes(rng.randrange(256) for _ in range(32)))
        if i % 2:
            b = b.ChildKey(rand_index(rng))
        soft, hard = rand_index(rng, False), rand_index(rng, True)
        want = pub_view(b.ChildKey(soft))
        try:
            b.ChildKey(hard)
            b.DerivePath([soft])
        except Exception:  # noqa
            pass
        b.ConvertToPublic()
        n += 1
        for what, f in (("ChildKey(soft)", lambda: b.ChildKey(soft)), ("DerivePath([soft])", lambda: b.DerivePath(str(soft)))):
            try:
                c2 = f()
                if not c2.IsPublicOnly():
                    rep("after ConvertToPublic, %s returns an object holding a private key (it had been derived before the conversion)" % what, name, "private", "public-only")
                elif pub_view(c2) != want and not (name == "byronlegacy"):
                    rep("after ConvertToPublic, %s differs from the public half of the private child" % what, name, pub_view(c2)[0].hex(), want[0].hex())
            except Exception as ex:  # noqa
                rep("after ConvertToPublic, %s raises" % what, name, type(ex).__name__, "the public child")
        try:
            b.ChildKey(hard)
            rep("after ConvertToPublic, a hardened child derived before the conversion is still handed out", name, "ok", "Bip32KeyError")
        except Bip32KeyError:
            pass
        except Exception as ex:  # noqa
            rep("hardened derivation from a converted object raises the wrong error", name, type(ex).__name__, "Bip32KeyError")
    # hand-supplied BIP32-Ed25519 parents (raw key + chain code) whose left half sits at the top of the range: a private child either is
    # refused with the key error or has the public key the public-only parent derives (bit 255 is not a place where the two may part)
    import bip_utils as _B
    nk = 0
    for cls in (_B.Bip32KholawEd25519, _B.CardanoIcarusBip32):
        for kl in (2**255 - 8, 2**255 - 2**200, 2**255 - 2**227 - 8, 2**254, 2**254 + 2**253, 2**255, 2**255 + 8, 2**256 - 8, 8, rng.getrandbits(255) & ~7):
            kr, cc = bytes(rng.randrange(256) for _ in range(32)), bytes(rng.randrange(256) for _ in range(32))
            kd = _B.Bip32KeyData(chain_code=cc)
            try:
                par = cls.FromPrivateKey(kl.to_bytes(32, "little") + kr, kd)
                pub = cls.FromPublicKey(par.PublicKey().RawCompressed().ToBytes(), kd)
            except Exception:  # noqa
                continue
            for idx in (0, 1, 7, 2**31 - 1):
                nk += 1
                try:
                    want = par.ChildKey(idx)
                except _B.Bip32KeyError:
                    continue
                got = pub.ChildKey(idx)
                if pub_view(got)[:2] != pub_view(want)[:2]:
                    rep("%s: the public key of a private child differs from the child of the public-only parent (raw parent key, left half %s)" % (cls.__name__, hex(kl)),
                        "kL=%s kR=%s cc=%s index=%d" % (hex(kl), kr.hex(), cc.hex(), idx), pub_view(got)[0].hex(), pub_view(want)[0].hex())
                    break
    rpt.extra["raw_kholaw_parent_checks"] = nk
    rpt.extra["impl_relation_checks"] = n
    rpt.extra["known_finding_instances"] = known
    more = []
    for f in (_electrum_index_space, _argument_forms):
        sub = []
        f(rng, tier, rpt, lambda what, inp, got, want, _s=sub: _s.append(
            {"property": "C04", "entry_point": what, "request_lines": [], "relation": what, "input": inp, "impl_output": str(got), "model_output": str(want),
             "no_failing_input": False}), byron_bit255)
        more += sub[:4]
    # instances of the open finding are reported once and never crowd out other violations
    return [b for b in bad if not b.get("finding_id")][:8] + more + [b for b in bad if b.get("finding_id")][:1]


def _electrum_index_space(rng, tier, rpt, rep, _byron):
    """Electrum wallets, "all indices accepted by the wrapper": the watch-only wallet (built from the master public key in every documented
    form) returns, for every (change, address) pair the private wallet derives, the same public key and address — over the WHOLE index range
    of the wallet: Electrum v1 indexes are plain integers 0..2^32-1 hashed into the sequence string (no hardened/non-hardened distinction),
    so both sides are compared on the edges of that range, around bit 31 and at random, against an independent derivation (hashlib +
    coincurve: k_i = k + dSHA256("addr:change:" || mpk) mod n).  The pairs the private wallet refuses (outside 0..2^32-1) are refused by
    the watch-only one too, with the same documented ValueError; the watch-only wallet never yields a private key.  Electrum v2 (BIP-32
    underneath): non-hardened pairs over all 31 bits commute, pairs with a hardened index are refused by the watch-only wallet with the key
    error while the full wallet derives them."""
    import hashlib
    import coincurve
    from harness.props.bip32_common import N_SECP, IDX_EDGE
    from bip_utils import Secp256k1PublicKey, ElectrumV2Segwit, Bip32Slip10Secp256k1
    n = 0

    def b58c(b):
        from harness.props.c05 import B58
        b += hashlib.sha256(hashlib.sha256(b).digest()).digest()[:4]
        v, s = int.from_bytes(b, "big"), ""
        while v:
            v, r = divmod(v, 58)
            s = B58[r] + s
        return "1" * (len(b) - len(b.lstrip(b"\x00"))) + s

    def ref(k, ch, ad):
        mpk = coincurve.PrivateKey(k).public_key.format(False)[1:]
        seq = hashlib.sha256(hashlib.sha256(b"%d:%d:" % (ad, ch) + mpk).digest()).digest()
        child = (int.from_bytes(k, "big") + int.from_bytes(seq, "big")) % N_SECP
        if child == 0:
            return None
        pub = coincurve.PrivateKey(child.to_bytes(32, "big")).public_key.format(False)
        try:
            addr = b58c(b"\x00" + hashlib.new("ripemd160", hashlib.sha256(pub).digest()).digest())
        except ValueError:      # OpenSSL without RIPEMD-160: the address is then compared between the two wallets only
            addr = None
        return pub, addr

    def outcome(f):
        try:
            return f()
        except Exception as ex:  # noqa
            return "raised " + exc_kind(ex)
    for i in range(6 if tier == "quick" else 150):
        k = rng.randrange(1, N_SECP).to_bytes(32, "big") if i % 3 else rng.randrange(1, 2**rng.choice([8, 128, 248])).to_bytes(32, "big")
        full = [ElectrumV1.FromSeed(k), ElectrumV1.FromPrivateKey(k), ElectrumV1.FromPrivateKey(Secp256k1PrivateKey.FromBytes(k))][i % 3]
        mpk = full.MasterPublicKey()
        form = ("uncompressed bytes", "compressed bytes", "Secp256k1PublicKey object", "uncompressed bytes")[i % 4]
        arg = {"uncompressed bytes": mpk.RawUncompressed().ToBytes(), "compressed bytes": mpk.RawCompressed().ToBytes(),
               "Secp256k1PublicKey object": Secp256k1PublicKey.FromBytes(mpk.RawCompressed().ToBytes())}[form]
        edge = [0, 1, 2**31 - 1, 2**31, 2**31 + 1, 2**32 - 1]
        pairs = [(0, 0), (rng.choice(edge), rng.choice(edge)), (0, rng.choice(edge[2:])), (rng.choice(edge[2:]), rng.randrange(5)),
                 (rng.getrandbits(32), rng.getrandbits(32)), (rng.getrandbits(31) | 2**31, 0), (1, rng.getrandbits(31) | 2**31), (2**32 - 1, 2**32 - 1)]
        if tier == "thorough":
            pairs += [(a, b) for a in edge for b in edge]
        for ch, ad in pairs:
            n += 1
            watch = ElectrumV1.FromPublicKey(arg)          # a fresh object: nothing is served from a per-object memo
            if not watch.IsPublicOnly():
                rep("ElectrumV1.FromPublicKey(%s) is not public-only" % form, k.hex(), "private", "public-only")
            r = ref(k, ch, ad)
            want = (r[0].hex(), r[1] or full.GetAddress(ch, ad)) if r else None
            first = rng.random() < 0.5
            calls = [("GetPublicKey", lambda w: w.GetPublicKey(ch, ad).RawUncompressed().ToBytes().hex()), ("GetAddress", lambda w: w.GetAddress(ch, ad))]
            if first:
                calls.reverse()
            got_w = dict((nm, outcome(lambda: f(watch))) for nm, f in calls)
            got_f = dict((nm, outcome(lambda: f(full))) for nm, f in calls)
            gw, gf = (got_w["GetPublicKey"], got_w["GetAddress"]), (got_f["GetPublicKey"], got_f["GetAddress"])
            if want is not None and gf != want:
                rep("Electrum v1 private wallet: key/address of (change, address) differs from the independent derivation", "key=%s change=%d address=%d" % (k.hex(), ch, ad), gf, want)
            elif gw != gf:
                rep("Electrum v1 watch-only wallet (from %s) does not give the public key and address the private wallet gives for the same (change, address) pair" % form,
                    "master private key=%s change=%d address=%d" % (k.hex(), ch, ad), gw, gf)
            pk = outcome(lambda: watch.GetPrivateKey(ch, ad).Raw().ToBytes().hex())
            if pk != "raised Value":
                rep("Electrum v1 watch-only wallet: GetPrivateKey does not refuse with the documented ValueError", "change=%d address=%d" % (ch, ad), pk, "raised Value")
        for ch, ad in ((0, 2**32), (2**32, 0), (-1, 0), (0, -1), (2**32 + rng.getrandbits(8), 1), (3, 2**40)):
            n += 1
            watch = ElectrumV1.FromPublicKey(arg)
            gw = (outcome(lambda: watch.GetPublicKey(ch, ad).RawUncompressed().ToBytes().hex()), outcome(lambda: watch.GetAddress(ch, ad)))
            gf = (outcome(lambda: full.GetPublicKey(ch, ad).RawUncompressed().ToBytes().hex()), outcome(lambda: full.GetAddress(ch, ad)))
            if gw != gf:
                rep("Electrum v1: an index pair outside 0..2^32-1 is not treated alike by the watch-only and the private wallet", "change=%d address=%d" % (ch, ad), gw, gf)
    # Electrum v2 standard wallet: m/change/address by BIP-32
    for i in range(3 if tier == "quick" else 60):
        seed = rand_seed(rng)
        fullm = Bip32Slip10Secp256k1.FromSeed(seed)
        fs = ElectrumV2Standard(fullm)
        ws = ElectrumV2Standard(Bip32Slip10Secp256k1.FromPublicKey(fullm.PublicKey().KeyObject(), Bip32KeyData(chain_code=fullm.ChainCode())) if i % 2
                                else Bip32Slip10Secp256k1.FromExtendedKey(fullm.PublicKey().ToExtended()))
        for ch, ad in ((2**31 - 1, 2**31 - 1), (rng.getrandbits(31), rng.getrandbits(31)), (0, 2**31 - 1)):
            n += 1
            a = (fs.GetPublicKey(ch, ad).RawCompressed().ToBytes().hex(), fs.GetAddress(ch, ad))
            b = (outcome(lambda: ws.GetPublicKey(ch, ad).RawCompressed().ToBytes().hex()), outcome(lambda: ws.GetAddress(ch, ad)))
            if a != b:
                rep("Electrum v2 standard watch-only wallet differs from the full wallet", "seed=%s change=%d address=%d" % (seed.hex(), ch, ad), b, a)
        for ch, ad in ((0, 2**31), (2**31 + rng.getrandbits(20), 0), (2**32 - 1, 2**32 - 1)):
            n += 1
            fs.GetPublicKey(ch, ad)          # the full wallet derives it
            b = (outcome(lambda: ws.GetPublicKey(ch, ad).RawCompressed().ToBytes().hex()), outcome(lambda: ws.GetAddress(ch, ad)))
            if b != ("raised Key", "raised Key"):
                rep("Electrum v2 standard watch-only wallet: a pair with a hardened index is not refused with the key error", "seed=%s change=%d address=%d" % (seed.hex(), ch, ad), b, ("raised Key",) * 2)
    rpt.extra["electrum_index_space_checks"] = n


def _argument_forms(rng, tier, rpt, rep, byron_known):
    """"parents from raw key + chain code": every documented FORM of the key argument of the constructors that build a public-only object —
    bytes, a public key object, a point object (Bip32Base.FromPublicKey: bytes | IPoint | IPublicKey; the BIP-44 family, Electrum v1,
    Substrate: bytes | IPublicKey; Monero.FromWatchOnly: bytes | key objects) — gives the same watch-only object: public-only, the parent's
    public key, chain code, metadata and extended public key, never a private key, hardened children refused with the key error, and its
    children and grand-children are the public halves of the privately derived ones.  All BIP-32 style classes, under default and
    non-default version bytes; the private-key forms (bytes | IPrivateKey) of FromPrivateKey are compared the same way."""
    import bip_utils as B
    n = 0

    def view(b):
        return (b.IsPublicOnly(), b.PublicKey().RawCompressed().ToBytes().hex(), b.ChainCode().ToBytes().hex(), int(b.Depth()), int(b.Index()),
                b.ParentFingerPrint().ToBytes().hex(), b.FingerPrint().ToBytes().hex(), b.PublicKey().ToExtended(), b.KeyNetVersions().Public().hex())

    def outcome(f):
        try:
            return f()
        except Exception as ex:  # noqa
            return "raised " + exc_kind(ex)
    classes = [B.Bip32Slip10Secp256k1, B.Bip32Slip10Nist256p1, B.Bip32KholawEd25519, B.CardanoIcarusBip32, B.CardanoByronLegacyBip32,
               B.Bip32Slip10Ed25519, B.Bip32Slip10Ed25519Blake2b]
    kvs = _kvs()
    for i in range(len(classes) * (1 if tier == "quick" else 20)):
        cls = classes[i % len(classes)]
        pubder = cls not in (B.Bip32Slip10Ed25519, B.Bip32Slip10Ed25519Blake2b)
        seed = bytes(rng.randrange(256) for _ in range(32))
        kv = kvs[rng.randrange(len(kvs))] if i % 2 else None
        m = cls.FromSeed(seed, kv) if kv is not None else cls.FromSeed(seed)
        par = m.ChildKey(rand_index(rng, True))
        if pubder and rng.random() < 0.5:
            par = par.ChildKey(rand_index(rng, False))
        kd = lambda: Bip32KeyData(depth=int(par.Depth()), index=int(par.Index()), chain_code=par.ChainCode().ToBytes(), parent_fprint=par.ParentFingerPrint().ToBytes())  # noqa: E731
        kobj = par.PublicKey().KeyObject()
        forms = [("bytes", lambda: kobj.RawCompressed().ToBytes()), ("IPublicKey object", lambda: type(kobj).FromBytes(kobj.RawCompressed().ToBytes())),
                 ("the parent's own key object", lambda: kobj), ("IPoint object", lambda: kobj.Point()),
                 ("IPoint object rebuilt from coordinates", lambda: type(kobj.Point()).FromCoordinates(kobj.Point().X(), kobj.Point().Y()))]
        want = (True,) + view(par)[1:]
        idxs = [rand_index(rng, False), rng.choice([0, 1, 2**31 - 1])]
        hard = rand_index(rng, True)
        for fname, mk in forms:
            n += 1
            tag = "%s.FromPublicKey(%s, key data%s)" % (cls.__name__, fname, ", key net versions" if kv is not None else "")
            try:
                w = cls.FromPublicKey(mk(), kd(), kv) if kv is not None else cls.FromPublicKey(mk(), kd())
            except Exception as ex:  # noqa
                rep("%s: the watch-only parent cannot be built from this documented form of the public key" % tag,
                    "seed=%s parent depth=%d index=%d" % (seed.hex(), int(par.Depth()), int(par.Index())), "raised %s: %s" % (type(ex).__name__, str(ex)[:80]), str(want))
                continue
            if view(w) != want:
                rep("%s: the watch-only parent is not the public side of the private parent" % tag, "seed=%s" % seed.hex(), view(w), want)
                continue
            if outcome(lambda: w.PrivateKey().Raw().ToBytes().hex()) != "raised Key":
                rep("%s: the public-only object yields a private key (or the wrong error)" % tag, seed.hex(), outcome(lambda: w.PrivateKey().Raw().ToBytes().hex()), "raised Key")
            r = outcome(lambda: view(w.ChildKey(hard)))
            if r != "raised Key":
                rep("%s: hardened derivation from the public-only object is not refused with the key error" % tag, "%s index=%d" % (seed.hex(), hard), r, "raised Key")
            for idx in idxs:
                if not pubder:
                    r = outcome(lambda: view(w.ChildKey(idx)))
                    if r != "raised Key":
                        rep("%s: public derivation on SLIP-0010 ed25519 is not refused with the key error" % tag, "%s index=%d" % (seed.hex(), idx), r, "raised Key")
                    continue
                if cls is B.CardanoByronLegacyBip32 and (byron_known(par, idx) or byron_known(par.ChildKey(idx), idx)):
                    continue        # open finding F-byron-pubder (reported by the main relation)
                pc = par.ChildKey(idx)
                a = ((True,) + view(pc)[1:], (True,) + view(pc.ChildKey(idx))[1:])
                b = outcome(lambda: (view(w.ChildKey(idx)), view(w.ChildKey(idx).ChildKey(idx))))
                if a != b:
                    rep("%s: children / grand-children of the watch-only parent are not the public halves of the privately derived ones" % tag,
                        "seed=%s index=%d" % (seed.hex(), idx), b, a)
                    break
        # private forms
        pko = par.PrivateKey().KeyObject()
        for fname, mk in (("bytes", lambda: pko.Raw().ToBytes()), ("IPrivateKey object", lambda: type(pko).FromBytes(pko.Raw().ToBytes())), ("the parent's own key object", lambda: pko)):
            n += 1
            r = outcome(lambda: view(cls.FromPrivateKey(mk(), kd(), kv) if kv is not None else cls.FromPrivateKey(mk(), kd())))
            if r != view(par):
                rep("%s.FromPrivateKey(%s, key data): not the parent it was taken from" % (cls.__name__, fname), seed.hex(), r, view(par))
    # wrappers
    fam = [(B.Bip44, B.Bip44Coins.BITCOIN), (B.Bip44, B.Bip44Coins.NEO), (B.Bip44, B.Bip44Coins.CARDANO_BYRON_LEDGER), (B.Bip49, B.Bip49Coins.LITECOIN), (B.Bip84, B.Bip84Coins.BITCOIN),
           (B.Bip86, B.Bip86Coins.BITCOIN), (B.Cip1852, B.Cip1852Coins.CARDANO_ICARUS)]
    for cls_, coin in fam:
        seed = bytes(rng.randrange(256) for _ in range(32))
        acc = cls_.FromSeed(seed, coin).Purpose().Coin().Account(rng.randrange(3))
        bo = acc.Bip32Object()
        ix = rng.getrandbits(31)
        a = acc.Change(Bip44Changes.CHAIN_EXT).AddressIndex(ix).PublicKey()
        addr = (lambda p: p.RawCompressed().ToHex()) if cls_ is B.Cip1852 else (lambda p: p.ToAddress())   # Shelley addresses need the staking key: the key itself is compared
        want = (addr(a), a.ToExtended())
        kobj = bo.PublicKey().KeyObject()
        for fname, arg in (("bytes", kobj.RawCompressed().ToBytes()), ("IPublicKey object", type(kobj).FromBytes(kobj.RawCompressed().ToBytes()))):
            n += 1
            kd = Bip32KeyData(depth=int(bo.Depth()), index=int(bo.Index()), chain_code=bo.ChainCode().ToBytes(), parent_fprint=bo.ParentFingerPrint().ToBytes())

            def go():
                w = cls_.FromPublicKey(arg, coin, kd)
                p = w.Change(Bip44Changes.CHAIN_EXT).AddressIndex(ix).PublicKey()
                return (addr(p), p.ToExtended()) if w.IsPublicOnly() and w.PublicKey().ToExtended() == acc.PublicKey().ToExtended() else "not the public-only account"
            r = outcome(go)
            if r != want:
                rep("%s[%s].FromPublicKey(%s, key data): the watch-only account does not derive the address-level key of the private account" % (cls_.__name__, coin.name, fname),
                    "seed=%s address index=%d" % (seed.hex(), ix), r, want)
    # Substrate (soft junctions) and Monero (view-only wallet): key objects vs bytes
    for i in range(3 if tier == "quick" else 40):
        seed = bytes(rng.randrange(256) for _ in range(32))
        coin = list(B.SubstrateCoins)[rng.randrange(len(B.SubstrateCoins))]
        s = B.Substrate.FromSeed(seed, coin)
        path = "".join("/" + rng.choice(["0", "a", "stash", str(rng.getrandbits(40))]) for _ in range(rng.randrange(1, 3)))
        want = (s.DerivePath(path).PublicKey().RawCompressed().ToBytes().hex(), s.DerivePath(path).PublicKey().ToAddress())
        ko = s.PublicKey().KeyObject()
        for fname, arg in (("bytes", ko.RawCompressed().ToBytes()), ("IPublicKey object", type(ko).FromBytes(ko.RawCompressed().ToBytes()))):
            n += 1

            def go():
                w = B.Substrate.FromPublicKey(arg, coin)
                c = w.DerivePath(path)
                return (c.PublicKey().RawCompressed().ToBytes().hex(), c.PublicKey().ToAddress()) if w.IsPublicOnly() and c.IsPublicOnly() else "not public-only"
            r = outcome(go)
            if r != want:
                rep("Substrate[%s].FromPublicKey(%s): soft derivation from the public-only object differs from the public side of the private one" % (coin.name, fname),
                    "seed=%s path=%s" % (seed.hex(), path), r, want)
        mo = B.Monero.FromSeed(seed)
        major, minor = rng.choice([0, 1, rng.getrandbits(16), 2**32 - 1]), rng.choice([0, 1, rng.getrandbits(16), 2**32 - 1])
        want = (mo.PrimaryAddress(), mo.Subaddress(minor, major), mo.PublicViewKey().RawCompressed().ToBytes().hex())
        vk, sk = mo.PrivateViewKey().KeyObject(), mo.PublicSpendKey().KeyObject()
        for fname, a1, a2 in (("bytes, bytes", vk.Raw().ToBytes(), sk.RawCompressed().ToBytes()), ("key objects", type(vk).FromBytes(vk.Raw().ToBytes()), type(sk).FromBytes(sk.RawCompressed().ToBytes())),
                              ("key object, bytes", vk, sk.RawCompressed().ToBytes())):
            n += 1

            def go():
                w = B.Monero.FromWatchOnly(a1, a2)
                return (w.PrimaryAddress(), w.Subaddress(minor, major), w.PublicViewKey().RawCompressed().ToBytes().hex()) if w.IsWatchOnly() else "not watch-only"
            r = outcome(go)
            if r != want:
                rep("Monero.FromWatchOnly(%s): the view-only wallet does not see the addresses of the full wallet" % fname, "seed=%s subaddress minor=%d major=%d" % (seed.hex(), minor, major), r, want)
            r = outcome(lambda: B.Monero.FromWatchOnly(a1, a2).PrivateSpendKey().Raw().ToBytes().hex())
            if r != "raised Key":
                rep("Monero.FromWatchOnly(%s): the view-only wallet yields a private spend key (or the wrong error)" % fname, seed.hex(), r, "raised Key")
    rpt.extra["argument_form_checks"] = n
