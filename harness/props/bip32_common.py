"""Implementation adapters shared by C03-C06/C13: BIP-32 objects, extended keys, paths, WIF."""
from harness.canon import hx, tx, unhx, untx, nats, unnats
from bip_utils import (Bip32KeyData, Bip32KeyNetVersions, Bip32PathParser, Bip32Path, Bip32Slip10Ed25519,
                       Bip32Slip10Ed25519Blake2b, Bip32Slip10Nist256p1, Bip32Slip10Secp256k1, WifDecoder, WifEncoder,
                       WifPubKeyModes, Bip32KeyIndex, Bip32ChainCode, Bip32FingerPrint, Bip32Depth)
from bip_utils.bip.bip32.bip32_key_ser import Bip32KeyDeserializer, Bip32PrivateKeySerializer, Bip32PublicKeySerializer

CLS = {"secp256k1": Bip32Slip10Secp256k1, "nist256p1": Bip32Slip10Nist256p1, "ed25519": Bip32Slip10Ed25519,
       "ed25519blake2b": Bip32Slip10Ed25519Blake2b}


def node_out(b):
    priv = hx(b.PrivateKey().Raw().ToBytes()) if not b.IsPublicOnly() else "-"
    return " ".join([priv, hx(b.PublicKey().RawCompressed().ToBytes()), hx(b.ChainCode().ToBytes()), str(int(b.Depth())),
                     str(int(b.Index())), hx(b.ParentFingerPrint().ToBytes()), hx(b.FingerPrint().ToBytes())])


def _derive(c, seed, elems, k):
    b = CLS[c].FromSeed(unhx(seed))
    elems, k = unnats(elems), int(k)
    for e in elems[:k]:
        b = b.ChildKey(e)
    if k < len(elems):
        b.ConvertToPublic()
        for e in elems[k:]:
            b = b.ChildKey(e)
    return node_out(b)


def _childpriv(c, priv, cc, depth, idx):
    b = CLS[c].FromPrivateKey(unhx(priv), Bip32KeyData(depth=int(depth), chain_code=unhx(cc)))
    return node_out(b.ChildKey(int(idx)))


def _nodepath(c, priv, cc, depth, idx, fp, path):
    kd = Bip32KeyData(Bip32Depth(int(depth)), Bip32KeyIndex(int(idx)), Bip32ChainCode(unhx(cc)), Bip32FingerPrint(unhx(fp)))
    from harness.canon import routes
    from bip_utils import Bip32PathParser
    mk = lambda: CLS[c].FromPrivateKey(unhx(priv), kd)    # noqa: E731
    # the path as text and as a parsed path object (both documented argument types) must be treated alike, absolute-path refusal included
    return routes("DerivePath", [("str", lambda: node_out(mk().DerivePath(untx(path)))),
                                 ("Bip32Path object", lambda: node_out(mk().DerivePath(Bip32PathParser.Parse(untx(path)))))])


def _childpub(c, pub, cc, depth, idx):
    b = CLS[c].FromPublicKey(unhx(pub), Bip32KeyData(depth=int(depth), chain_code=unhx(cc)))
    return node_out(b.ChildKey(int(idx)))


def _serkey(ver, depth, fp, idx, cc, key):
    kd = Bip32KeyData(Bip32Depth(int(depth)), Bip32KeyIndex(int(idx)), Bip32ChainCode(unhx(cc)), Bip32FingerPrint(unhx(fp)))
    # public serialisers only (they take key objects): the key bytes of the request are turned into a key object of a curve that accepts them
    from bip_utils import Secp256k1PrivateKey, Secp256k1PublicKey, Nist256p1PrivateKey, Nist256p1PublicKey
    kb = unhx(key)
    kv = Bip32KeyNetVersions(unhx(ver), unhx(ver))
    if len(kb) == 33 and kb[0] == 0:
        for cls in (Secp256k1PrivateKey, Nist256p1PrivateKey):
            if cls.IsValidBytes(kb[1:]):
                return tx(Bip32PrivateKeySerializer.Serialize(cls.FromBytes(kb[1:]), kd, kv))
    for cls in (Secp256k1PublicKey, Nist256p1PublicKey):
        if cls.IsValidBytes(kb):
            return tx(Bip32PublicKeySerializer.Serialize(cls.FromBytes(kb), kd, kv))
    raise ValueError("request key bytes are not a key of a supported curve")


def _deserkey(pv, sv, s):
    d = Bip32KeyDeserializer.DeserializeKey(untx(s), Bip32KeyNetVersions(unhx(pv), unhx(sv)))
    kd = d.KeyData()
    return " ".join([hx(d.KeyBytes()), str(int(kd.Depth())), str(int(kd.Index())), hx(kd.ChainCode().ToBytes()),
                     hx(kd.ParentFingerPrint().ToBytes()), "1" if d.IsPublic() else "0"])


def _fromxkey(c, pv, sv, s):
    b = CLS[c].FromExtendedKey(untx(s), Bip32KeyNetVersions(unhx(pv), unhx(sv)))
    xpub = tx(b.PublicKey().ToExtended())
    xprv = tx(b.PrivateKey().ToExtended()) if not b.IsPublicOnly() else "-"
    return node_out(b) + " " + xpub + " " + xprv


def _xkeys(c, seed, elems, pv, sv):
    b = CLS[c].FromSeed(unhx(seed), Bip32KeyNetVersions(unhx(pv), unhx(sv)))
    for e in unnats(elems):
        b = b.ChildKey(e)
    return tx(b.PublicKey().ToExtended()) + " " + tx(b.PrivateKey().ToExtended())


def _parsepath(s):
    p = Bip32PathParser.Parse(untx(s))
    return ("1" if p.IsAbsolute() else "0") + " " + nats(p.ToList())


def _printpath(ab, elems):
    return tx(Bip32Path(unnats(elems), ab == "1").ToStr())


def _wifdec(s, v):
    k, m = WifDecoder.Decode(untx(s), unhx(v))
    return hx(k) + " " + ("1" if m == WifPubKeyModes.COMPRESSED else "0")


IMPL = {
    "master": lambda c, seed: node_out(CLS[c].FromSeed(unhx(seed))),
    "derive": _derive,
    "childpriv": _childpriv,
    "childpub": _childpub,
    "nodepath": _nodepath,
    "serkey": _serkey,
    "deserkey": _deserkey,
    "fromxkey": _fromxkey,
    "xkeys": _xkeys,
    "parsepath": _parsepath,
    "printpath": _printpath,
    "derivepathstr": lambda c, seed, s: node_out(CLS[c].FromSeed(unhx(seed)).DerivePath(untx(s))),
    "wifenc": lambda k, v, comp: tx(WifEncoder.Encode(unhx(k), unhx(v), WifPubKeyModes.COMPRESSED if comp == "1" else WifPubKeyModes.UNCOMPRESSED)),
    "wifdec": _wifdec,
}

N_SECP = 0xFFFFFFFFFFFFFFFFFFFFFFFFFFFFFFFEBAAEDCE6AF48A03BBFD25E8CD0364141
N_P256 = 0xFFFFFFFF00000000FFFFFFFFFFFFFFFFBCE6FAADA7179E84F3B9CAC2FC632551
ORDER = {"secp256k1": N_SECP, "nist256p1": N_P256}
IDX_EDGE = [0, 1, 2, 2**31 - 1, 2**31, 2**31 + 1, 2**32 - 1]


def rand_index(rng, hardened=None):
    r = rng.random()
    if r < 0.4:
        v = rng.choice(IDX_EDGE)
    else:
        v = rng.getrandbits(32)
    if hardened is True:
        v |= 2**31
    elif hardened is False:
        v &= 2**31 - 1
    return v


def hmac512_stream(key, prefix=b""):
    """HMAC-SHA512 under a fixed key of messages `prefix || suffix`, with the two pad blocks and the prefix hashed once (hashlib only): the
    directed searches below try 10^5 suffixes per hit, which the one-shot hmac call makes three times slower.  Returns suffix -> 64 bytes."""
    import hashlib
    if len(key) > 128:
        key = hashlib.sha512(key).digest()
    blk = key.ljust(128, b"\x00")
    inner = hashlib.sha512(bytes(b ^ 0x36 for b in blk) + prefix)
    outer = hashlib.sha512(bytes(b ^ 0x5c for b in blk))

    def f(suffix):
        i = inner.copy()
        i.update(suffix)
        o = outer.copy()
        o.update(i.digest())
        return o.digest()
    return f


def find_child_zero_bytes(rng, c, kb, cc, pub, hardened, zero_bytes, what, budget):
    """first index (from a random start, hardened or not) at which the CHILD PRIVATE KEY (what="child") or the HMAC left half IL (what="il")
    of the parent (kb, cc) has at least `zero_bytes` leading zero bytes, computed with hashlib only from the BIP-32 formula
    child = (IL + k_par) mod n, IL = HMAC-SHA512(cc, (00 || k_par | compressed pub) || ser32(i))[:32].  None when the budget runs out or the
    index space ends.  (IL >= n, probability 2^-32 / 2^-128, makes the child the next one in the retry chain on P-256 and invalid on secp256k1;
    such an index is simply not a hit.)"""
    import hmac, hashlib
    n, k = ORDER[c], int.from_bytes(kb, "big")
    lim = 1 << (8 * (32 - zero_bytes))
    f = hmac512_stream(cc, (b"\x00" + kb) if hardened else pub)
    base = 2**31 if hardened else 0
    start = rng.randrange(0, 2**31 - budget)
    fb = int.from_bytes
    for j in range(start, start + budget):
        il = fb(f((base + j).to_bytes(4, "big"))[:32], "big")
        if il >= n or il == 0:
            continue
        v = il if what == "il" else (il + k) % n
        if v < lim and v != 0:
            idx = base + j
            # the hit is confirmed with the one-shot library-independent HMAC before it is used
            d = hmac.new(cc, ((b"\x00" + kb) if hardened else pub) + idx.to_bytes(4, "big"), hashlib.sha512).digest()
            if fb(d[:32], "big") == il:
                return idx
    return None


def ckd_pub_ref(c, pub, cc, idx):
    """reference non-hardened public child (compressed key, chain code) of an ECDSA parent, from the BIP-32 / SLIP-0010 text with hmac and
    the curve libraries called directly (coincurve for secp256k1, python-ecdsa for P-256), never through bip_utils:
    I = HMAC-SHA512(cc, pub || ser32(i)); K_child = K_par + IL*G; c_child = IR; IL >= n or the point at infinity: secp256k1 -> None (the child
    is invalid), P-256 -> I = HMAC-SHA512(cc, 01 || IR || ser32(i)) and again (SLIP-0010)."""
    import hmac, hashlib
    assert idx < 2**31 and c in ORDER
    n = ORDER[c]
    d = hmac.new(cc, pub + idx.to_bytes(4, "big"), hashlib.sha512).digest()
    for _ in range(64):
        il = int.from_bytes(d[:32], "big")
        child = None
        if 0 < il < n:
            if c == "secp256k1":
                import coincurve
                try:
                    child = coincurve.PublicKey(pub).add(d[:32]).format(compressed=True)
                except ValueError:
                    child = None
            else:
                from ecdsa import NIST256p, VerifyingKey
                from ecdsa.ellipticcurve import INFINITY
                pt = VerifyingKey.from_string(pub, curve=NIST256p).pubkey.point + NIST256p.generator * il
                if pt != INFINITY:
                    child = bytes([2 + (int(pt.y()) & 1)]) + int(pt.x()).to_bytes(32, "big")
        if child is not None:
            return child, d[32:]
        if c == "secp256k1":
            return None
        d = hmac.new(cc, b"\x01" + d[32:] + idx.to_bytes(4, "big"), hashlib.sha512).digest()
    return None


def both_curves_parent(rng, right, tries=64):
    """a private key of curve `right` (secp256k1 / nist256p1) whose 33 compressed public-key bytes are ALSO a valid key of the other ECDSA
    curve (about every second key): the same bytes, e.g. the same xpub string — both classes print the same default version bytes — can
    then be loaded as a watch-only parent by either class.  Validity is asked from the public key classes.  -> (private key bytes, pub bytes)"""
    from bip_utils import Secp256k1PublicKey, Nist256p1PublicKey
    other_cls = Nist256p1PublicKey if right == "secp256k1" else Secp256k1PublicKey
    for _ in range(tries):
        kb = rng.randrange(1, ORDER[right]).to_bytes(32, "big")
        pub = CLS[right].FromPrivateKey(kb).PublicKey().RawCompressed().ToBytes()
        if other_cls.IsValidBytes(pub):
            return kb, pub
    return None


def rand_seed(rng):
    ln = rng.choice([16, 16, 32, 32, 64, 64, 17, 33, 80, rng.randrange(16, 81)])
    return bytes(rng.randrange(256) for _ in range(ln))
