"""C12 — elliptic-curve key layer agrees with curve arithmetic on every back-end (partial: the group arithmetic of the C
libraries is differentially tested against the Lean reference arithmetic, never proved)."""
from harness.core import Case
from harness.canon import hx, tx, unhx, exc_kind
from harness.props.addr_common import IMPL as ADDR_IMPL, PRIV, PUB, ORDERS, rand_priv, pub_forms
from bip_utils import (Secp256k1, Nist256p1, Ed25519, Ed25519Blake2b, Ed25519Kholaw, Ed25519Monero, Secp256k1Point, Nist256p1Point, Ed25519Point,
                       Ed25519Blake2bPoint, Ed25519KholawPoint, Ed25519MoneroPoint)
from bip_utils.ecc.secp256k1.secp256k1_point_coincurve import Secp256k1PointCoincurve
from bip_utils.ecc.secp256k1.secp256k1_point_ecdsa import Secp256k1PointEcdsa
from bip_utils.ecc.secp256k1.secp256k1_keys_coincurve import Secp256k1PublicKeyCoincurve, Secp256k1PrivateKeyCoincurve
from bip_utils.ecc.secp256k1.secp256k1_keys_ecdsa import Secp256k1PublicKeyEcdsa, Secp256k1PrivateKeyEcdsa

LEAN_MODULES = ["BipVerif.Props.C12", "BipVerif.Props.C12Group", "BipVerif.Props.C12Ed", "BipVerif.Props.C12Tables"]
POINT = {"secp256k1": Secp256k1PointCoincurve, "nist256p1": Nist256p1Point, "ed25519": Ed25519Point, "ed25519blake2b": Ed25519Blake2bPoint,
         "ed25519kholaw": Ed25519KholawPoint, "ed25519monero": Ed25519MoneroPoint}
GEN = {"secp256k1": Secp256k1, "nist256p1": Nist256p1, "ed25519": Ed25519, "ed25519blake2b": Ed25519Blake2b, "ed25519kholaw": Ed25519Kholaw,
       "ed25519monero": Ed25519Monero}
P = {"secp256k1": 2**256 - 2**32 - 977, "nist256p1": 0xFFFFFFFF00000001000000000000000000000000FFFFFFFFFFFFFFFFFFFFFFFF, "ed": 2**255 - 19}
L = 2**252 + 27742317777372353535851937790883648493
ORD = {"secp256k1": ORDERS["secp256k1"], "nist256p1": ORDERS["nist256p1"]}


def pt_out(p):
    return "%d %d %s" % (p.X(), p.Y(), hx(p.RawEncoded().ToBytes()))


IMPL = dict(ADDR_IMPL)
IMPL.update({
    "ptfrombytes": lambda c, b: pt_out(POINT[c].FromBytes(unhx(b))),
    "ptadd": lambda c, p, q: pt_out(POINT[c].FromBytes(unhx(p)) + POINT[c].FromBytes(unhx(q))),
    "ptmul": lambda c, p, k: pt_out(POINT[c].FromBytes(unhx(p)) * int(k)),
    "ptmulg": lambda c, k: pt_out(GEN[c].Generator() * int(k)),
})


def gmul(c, k):
    return (GEN[c].Generator() * k).RawEncoded().ToBytes()


def order(c):
    return ORD.get(c, L)


def gen(rng, tier):
    n = 25 if tier == "quick" else 1500
    for c in POINT:
        o = order(c)
        for i in range(n):
            k = rng.choice([1, 2, 3, o - 1, o - 2, rng.randrange(1, o), rng.randrange(1, 2**rng.choice([8, 64, 128]))])
            yield Case("ptmulg", [c, k], "mulG")
            enc = gmul(c, k)
            yield Case("ptfrombytes", [c, hx(enc)], "decode")
            p = POINT[c].FromBytes(enc)
            yield Case("ptfrombytes", [c, hx(p.RawDecoded().ToBytes())], "decode-raw")
            k2 = rng.randrange(1, o)
            if (k + k2) % o != 0:
                yield Case("ptadd", [c, hx(enc), hx(gmul(c, k2))], "add")
            if (k * k2) % o != 0:
                yield Case("ptmul", [c, hx(enc), k2], "mul")
        # every encoding family of a valid point, for the point class and the public key class: raw, uncompressed, both hybrids, both compressed prefixes
        if c in ORD:
            for _ in range(3 if tier == "quick" else 60):
                k = rng.randrange(1, o)
                raw = POINT[c].FromBytes(gmul(c, k)).RawDecoded().ToBytes()
                x = raw[:32]
                for form in (raw, b"\x04" + raw, b"\x06" + raw, b"\x07" + raw, b"\x02" + x, b"\x03" + x, b"\x05" + raw, b"\x04" + raw[:-1], raw + b"\x00"):
                    yield Case("ptfrombytes", [c, hx(form)], "decode-forms")
                    yield Case("pubkey", [c, hx(form)], "pubkey-forms")
        # output-dependent: ed25519-family public keys whose raw 32-byte encoding starts (or ends) with a zero byte, in raw and prefixed form
        if c not in ORD:
            from harness.props.addr_common import PRIV
            found = 0
            for j in range(3000):
                sk = bytes(rng.randrange(256) for _ in range(64 if c == "ed25519kholaw" else 32))
                if c == "ed25519monero":
                    sk = (int.from_bytes(sk, "little") % L or 1).to_bytes(32, "little")
                comp = PRIV[c].FromBytes(sk).PublicKey().RawCompressed().ToBytes()
                raw = comp[-32:]
                if raw[0] == 0 or raw[-1] == 0:
                    for form in (raw, b"\x00" + raw):
                        yield Case("pubkey", [c, hx(form)], "pubkey-zero-byte")
                        yield Case("ptfrombytes", [c, hx(form[-32:])], "decode-zero-byte")
                    found += 1
                    if found == (2 if tier == "quick" else 12):
                        break
        # scalars / keys: validity boundaries
        for v in (0, 1, 2, o - 1, o, o + 1, 2**256 - 1, 2**255, 2**255 + 1, 2**255 + o - 1, 2**255 + o, 8 * o, 2 * o - 1, 2**252, 2**252 - 1, 2**252 + 1, 2**248, 2**253):
            if v >= 2**256:
                continue
            kb = v.to_bytes(32, "big") if c in ORD else v.to_bytes(32, "little")
            yield Case("privkey", [c, hx(kb)], "privkey-edge" if 0 < v < o else "neg-privkey")
        for ln in (0, 31, 33, 64):
            yield Case("privkey", [c, hx(bytes([1]) * ln)], "neg-privkey-len")
        for i in range(10 if tier == "quick" else 400):
            yield Case("privkey", [c, hx(rand_priv(rng, c) if c != "ed25519kholaw" else bytes(rng.randrange(256) for _ in range(64)))], "privkey")
        # byte strings that are not points
        for i in range(25 if tier == "quick" else 1500):
            ln = rng.choice([33, 64, 32, 65, 0, 1, 31, 34])
            b = bytes(rng.randrange(256) for _ in range(ln))
            if c in ORD and ln == 33:
                b = bytes([rng.choice([2, 3, 2, 3, 0, 4, 5])]) + b[1:]
            yield Case("ptfrombytes", [c, hx(b)], "neg-random")
            yield Case("pubkey", [c, hx(b)], "neg-random-key")
            if c not in ORD and ln == 32:
                # the library's own 33-byte spelling (0x00 prefix) of the same 32 bytes: about half of random strings are not curve points,
                # and the prefix must not let them through; other prefix values are never a key
                yield Case("pubkey", [c, hx(b"\x00" + b)], "prefixed-random-key")
                yield Case("pubkey", [c, hx(bytes([rng.choice([1, 2, 0xed, 0xff])]) + b)], "neg-bad-prefix-key")
    for c in ORD:
        p = P[c]
        enc = gmul(c, 5)
        x = int.from_bytes(enc[1:], "big")
        for b in (b"\x02" + p.to_bytes(32, "big"), b"\x02" + (p + 1).to_bytes(32, "big"), b"\x03" + b"\xff" * 32, b"\x02" + bytes(32),
                  bytes(32) + bytes(32), enc[1:] + (1).to_bytes(32, "big"), b"\x04" + enc[1:] + (1).to_bytes(32, "big")):
            yield Case("ptfrombytes", [c, hx(b)], "neg-offcurve")
            yield Case("pubkey", [c, hx(b)], "neg-offcurve")
    # ed25519 family: the 64-byte coordinate form x || y (little-endian) with a coordinate that is not reduced modulo p: the point of
    # (x + p, y) would carry the wrong sign bit, (x, y + p) spills into bit 255 — both are refused (F-ed-unreduced); reduced coordinates of
    # the same points are accepted
    q = P["ed"]
    for c in ("ed25519", "ed25519blake2b", "ed25519kholaw", "ed25519monero"):
        for k in (1, 2, rng.randrange(3, 2**200)):
            g = GEN[c].Generator() * k
            x, y = g.X(), g.Y()
            yield Case("ptfrombytes", [c, hx(x.to_bytes(32, "little") + y.to_bytes(32, "little"))], "valid-decoded-form")
            for xx, yy in ((x + q, y), (x, y + q), (x + q, y + q), (2 * q - x, y)):
                if xx < 2**256 and yy < 2**256:
                    yield Case("ptfrombytes", [c, hx(xx.to_bytes(32, "little") + yy.to_bytes(32, "little"))], "neg-unreduced-coordinate")


# inputs on which the two secp256k1 back-ends are known to differ (F-backend-diff): keyed by class
def pre_build():
    from gen import gen_curves
    gen_curves.main()


# the reference rows of Props/C12Tables.lean, as integers (standard curve parameters; only used to LOCALISE a broken table theorem)
_REF = {
    "SECP256K1": (0xFFFFFFFFFFFFFFFFFFFFFFFFFFFFFFFEBAAEDCE6AF48A03BBFD25E8CD0364141,
                  (0x79BE667EF9DCBBAC55A06295CE870B07029BFCDB2DCE28D959F2815B16F81798, 0x483ADA7726A3C4655DA4FBFC0E1108A8FD17B448A68554199C47D08FFB10D4B8)),
    "NIST256P1": (0xFFFFFFFF00000000FFFFFFFFFFFFFFFFBCE6FAADA7179E84F3B9CAC2FC632551,
                  (0x6B17D1F2E12C4247F8BCE6E563A440F277037D812DEB33A0F4A13945D898C296, 0x4FE342E2FE1A7F9B8EE7EB4A7C0F9E162BCE33576B315ECECBB6406837BF51F5)),
}
_ED = (2**252 + 27742317777372353535851937790883648493,
       (15112221349535400772501151409588531511454012693041857206046113283949847762202, 46316835694926478169428394003475163141307993866256225615783033603165251855960))


def search_broken(broken, rng):
    """`curves_eq_model` (Props/C12Tables) failed: name the curve row and the field the library now reports differently, with the call
    that shows it (order, generator, a small multiple of the generator computed by the library's own point arithmetic, a key length)."""
    from gen.gen_curves import rows
    for name, order_, pts, plen, clen, ulen in rows():
        want_order, g = _REF.get(name, _ED)
        if order_ != want_order:
            return {"relation": "curve order of %s differs from the standard group order" % name, "entry_point": "EllipticCurveGetter.FromType(EllipticCurveTypes.%s).Order()" % name,
                    "input": name, "impl_output": hex(order_), "model_output": hex(want_order)}
        if pts[0] != g:
            return {"relation": "generator of %s differs from the standard base point" % name, "entry_point": "EllipticCurveGetter.FromType(EllipticCurveTypes.%s).Generator()" % name,
                    "input": name, "impl_output": str(pts[0]), "model_output": str(g)}
        want_len = (64 if name == "ED25519_KHOLAW" else 32, 33 if name != "ED25519_MONERO" else 32, 65 if name in _REF else (33 if name != "ED25519_MONERO" else 32))
        if (plen, clen, ulen) != want_len:
            return {"relation": "key lengths of %s differ from (private, compressed, uncompressed) = %s" % (name, want_len), "entry_point": "PrivateKeyClass().Length() / PublicKeyClass().CompressedLength() / UncompressedLength()",
                    "input": name, "impl_output": str((plen, clen, ulen)), "model_output": str(want_len)}
    # orders, generators and lengths are right: the library's own arithmetic on G gives a wrong 2G / 3G / (n-1)G
    return {"relation": "the library's point arithmetic on the generator (2G, 3G or (n-1)G of some curve) differs from the group law the model is proved to compute",
            "entry_point": "Generator() + Generator(), ... * (Order() - 1)", "input": "see Gen/Curves.lean vs Props/C12Tables.lean",
            "impl_output": str([(n, p[1:]) for n, _, p, _, _, _ in rows()])[:600], "model_output": "rows of Props/C12Tables.curves_eq_model"}


def relations(rng, tier, rpt):
    """the coincurve and ecdsa secp256k1 back-ends are observationally identical on the valid domain (same keys, points,
    encodings, sums, products) and both refuse invalid input with ValueError."""
    bad = []
    n = 0

    def rep(what, inp, got, want, fid=None):
        d = {"property": "C12", "entry_point": what, "request_lines": [], "relation": what, "input": inp,
             "impl_output": got, "model_output": want, "no_failing_input": False}
        if fid:
            d["finding_id"] = fid
        bad.append(d)

    def run(f):
        try:
            return f()
        except Exception as ex:  # noqa
            return "!" + exc_kind(ex)

    o = ORD["secp256k1"]
    for i in range(60 if tier == "quick" else 3000):
        k = rng.randrange(1, o)
        kb = k.to_bytes(32, "big")
        a = run(lambda: Secp256k1PrivateKeyCoincurve.FromBytes(kb).PublicKey().RawUncompressed().ToBytes())
        b = run(lambda: Secp256k1PrivateKeyEcdsa.FromBytes(kb).PublicKey().RawUncompressed().ToBytes())
        n += 1
        if a != b:
            rep("secp256k1 back-ends derive different public keys", kb.hex(), str(b), str(a))
            continue
        comp = Secp256k1PrivateKeyCoincurve.FromBytes(kb).PublicKey().RawCompressed().ToBytes()
        for form in (comp, a):
            x = run(lambda: pt_out(Secp256k1PublicKeyCoincurve.FromBytes(form).Point()))
            y = run(lambda: pt_out(Secp256k1PublicKeyEcdsa.FromBytes(form).Point()))
            if x != y:
                rep("secp256k1 back-ends parse a public key differently", form.hex(), y, x)
        k2 = rng.randrange(1, o)
        pc, pe = Secp256k1PointCoincurve.FromBytes(comp), Secp256k1PointEcdsa.FromBytes(comp)
        qc, qe = Secp256k1PointCoincurve.FromBytes(gmul("secp256k1", k2)), Secp256k1PointEcdsa.FromBytes(gmul("secp256k1", k2))
        if (k + k2) % o and run(lambda: pt_out(pc + qc)) != run(lambda: pt_out(pe + qe)):
            rep("secp256k1 back-ends add points differently", "%d %d" % (k, k2), run(lambda: pt_out(pe + qe)), run(lambda: pt_out(pc + qc)))
        if (k * k2) % o and run(lambda: pt_out(pc * k2)) != run(lambda: pt_out(pe * k2)):
            rep("secp256k1 back-ends multiply points differently", "%d %d" % (k, k2), run(lambda: pt_out(pe * k2)), run(lambda: pt_out(pc * k2)))
        bad_bytes = bytes(rng.randrange(256) for _ in range(33))
        bad_bytes = bytes([rng.choice([2, 3])]) + bad_bytes[1:]
        x = run(lambda: pt_out(Secp256k1PublicKeyCoincurve.FromBytes(bad_bytes).Point()))
        y = run(lambda: pt_out(Secp256k1PublicKeyEcdsa.FromBytes(bad_bytes).Point()))
        if x != y:
            rep("secp256k1 back-ends disagree on a random compressed encoding", bad_bytes.hex(), y, x)
    # edge inputs on which the back-ends used to differ (F-backend-diff, repaired): keep them identical
    nn = ORD["secp256k1"]
    kk = Secp256k1PrivateKeyCoincurve.FromBytes((5).to_bytes(32, "big")).PublicKey()
    comp, unc = kk.RawCompressed().ToBytes(), kk.RawUncompressed().ToBytes()
    edge = {
        "PublicKey.FromBytes(raw 64)": lambda C, K: pt_out(K.FromBytes(unc[1:]).Point()),
        "PublicKey.FromBytes(hybrid)": lambda C, K: pt_out(K.FromBytes(bytes([6 + (unc[-1] & 1)]) + unc[1:]).Point()),
        "Point.FromBytes(uncompressed 65)": lambda C, K: pt_out(C.FromBytes(unc)),
        "Point.FromBytes(raw 64)": lambda C, K: pt_out(C.FromBytes(unc[1:])),
        "Point.FromBytes(zero)": lambda C, K: pt_out(C.FromBytes(bytes(64))),
        "Point.FromBytes(x>=p)": lambda C, K: pt_out(C.FromBytes(b"\x02" + b"\xff" * 32)),
        "Point.FromBytes(empty)": lambda C, K: pt_out(C.FromBytes(b"")),
        "P*0": lambda C, K: pt_out(C.FromBytes(comp) * 0), "P*n": lambda C, K: pt_out(C.FromBytes(comp) * nn),
        "P*(n+1)": lambda C, K: pt_out(C.FromBytes(comp) * (nn + 1)), "P*2^256": lambda C, K: pt_out(C.FromBytes(comp) * 2**256),
        "P*(-1)": lambda C, K: pt_out(C.FromBytes(comp) * (-1)),
        "P+(-P)": lambda C, K: pt_out(C.FromBytes(comp) + C.FromBytes(bytes([comp[0] ^ 1]) + comp[1:])),
        "FromCoordinates(1,1)": lambda C, K: pt_out(C.FromCoordinates(1, 1)), "FromCoordinates(2^256,1)": lambda C, K: pt_out(C.FromCoordinates(2**256, 1)),
    }
    for name, f in edge.items():
        a = run(lambda: f(Secp256k1PointCoincurve, Secp256k1PublicKeyCoincurve))
        b = run(lambda: f(Secp256k1PointEcdsa, Secp256k1PublicKeyEcdsa))
        n += 1
        if a != b:
            rep("secp256k1 back-ends differ on " + name, name, b, a)
        elif a.startswith("!") and a != "!Value":
            rep("secp256k1 back-ends escape with an undocumented error on " + name, name, a, "!Value")
    # accessor order: a point's coordinates and encodings do not depend on which accessor is called first, and
    # FromCoordinates(X, Y) rebuilds the same point (every curve, both parities)
    na = 0
    orders = [("X", "Y", "Raw", "RawEncoded"), ("Y", "X", "RawEncoded", "Raw"), ("Raw", "Y", "X", "RawEncoded"), ("RawEncoded", "Y", "Raw", "X"), ("Y", "Raw", "X", "RawEncoded")]

    def read(p, a):
        v = getattr(p, a)()
        return v if isinstance(v, int) else v.ToBytes().hex()
    for c, cls in POINT.items():
        for i in range(12 if tier == "quick" else 300):
            enc = gmul(c, rng.randrange(1, order(c)))
            views = []
            for od in orders:
                p = cls.FromBytes(enc)
                got = {a: run(lambda: read(p, a)) for a in od}
                got2 = {a: run(lambda: read(p, a)) for a in od}
                views.append(tuple(got[a] for a in ("X", "Y", "Raw", "RawEncoded")))
                na += 1
                if got != got2:
                    rep("%s: an accessor returns different values on repeated calls" % cls.__name__, enc.hex() + " order " + "/".join(od), str(got2), str(got))
            if len(set(views)) != 1:
                rep("%s: coordinates/encodings depend on the order in which the accessors are first called" % cls.__name__, enc.hex(),
                    str(views[1]), str(views[0]))
                continue
            x, y = views[0][0], views[0][1]
            back = run(lambda: cls.FromCoordinates(x, y).RawEncoded().ToBytes().hex())
            if back != views[0][3]:
                rep("%s.FromCoordinates(X(), Y()) does not rebuild the point" % cls.__name__, enc.hex(), str(back), views[0][3])
    # key from point: PublicKey.FromPoint(P) is the key FromBytes(encoding of P) gives, and IsValidPoint(P) holds, for every curve;
    # directed at points with a coordinate that starts with a zero byte (fixed-width slips), found by scanning generator multiples
    nfp = 0
    for c, cls in POINT.items():
        pts, zero = [], 0
        for j in range(1, 400 if tier == "quick" else 4000):
            k = j if j < 60 else rng.randrange(1, order(c))
            pt = GEN[c].Generator() * k
            z = (pt.X() >> 248) == 0 or (pt.Y() >> 248) == 0
            if z and zero < (3 if tier == "quick" else 30):
                zero += 1
                pts.append(pt)
            elif j % 40 == 1:
                pts.append(pt)
            if zero >= (3 if tier == "quick" else 30) and len(pts) > 12:
                break
        for pt in pts:
            nfp += 1
            want = run(lambda: PUB[c].FromBytes(pt.RawEncoded().ToBytes()).RawCompressed().ToHex())
            got = run(lambda: PUB[c].FromPoint(pt).RawCompressed().ToHex())
            ok = run(lambda: PUB[c].IsValidPoint(pt))
            if got != want or ok is not True:
                rep("%s public key from a point differs from the key from the point's encoding" % c, "X=%d Y=%d" % (pt.X(), pt.Y()),
                    "%s valid=%s" % (got, ok), "%s valid=True" % want)
                break
            rebuilt = run(lambda: pt_out(PUB[c].FromPoint(pt).Point()))
            if rebuilt != pt_out(pt):
                rep("%s key built from a point returns a different point" % c, "X=%d Y=%d" % (pt.X(), pt.Y()), rebuilt, pt_out(pt))
                break
    rpt.extra["validity_per_class_checks"] = _validity_per_class(rng, tier, rep, run)
    from harness.props.accessors_common import key_class_accessors
    na2 = 0
    try:
        for what, inp, got, want in key_class_accessors(rng, 3 if tier == "quick" else 60):
            rep(what, inp, got, want)
            na2 += 1
    except Exception as ex:  # noqa  - an accessor of a valid key raised
        import traceback
        rep("an accessor of a valid key / point / curve object raised", traceback.format_exc()[-600:], type(ex).__name__, "a value")
    rpt.extra["key_class_accessor_findings"] = na2
    rpt.extra["from_point_checks"] = nfp
    rpt.extra["accessor_order_checks"] = na
    rpt.extra["backend_comparisons"] = n
    return bad[:8]


def _on_weier(c, x):
    """is x the abscissa of a point of the curve?  (Euler's criterion on x^3 + a x + b; plain integers, independent of every back-end)"""
    p = P[c]
    if x >= p:
        return False
    rhs = (x * x * x + 7) % p if c == "secp256k1" else (x * x * x - 3 * x + 0x5AC635D8AA3A93E7B3EBBD55769886BC651D06B0CC53B0F63BCE3C3E27D2604B) % p
    return rhs != 0 and pow(rhs, (p - 1) // 2, p) == 1


def _validity_per_class(rng, tier, rep, run):
    """'byte strings that are not curve points are rejected', observed at IsValidBytes of every key class: XxxKey.IsValidBytes(b) tells
    whether b is a key OF THAT CURVE — it holds exactly when XxxKey.FromBytes(b) does not raise ValueError (and, for compressed SEC1
    strings, exactly when x is on the curve by Euler's criterion) — whichever classes were asked about the same bytes before, in whichever
    order, and however often. The strings are chosen so that their validity DIFFERS between the classes (x on one Weierstrass curve
    only, ed25519 encodings with and without the 00 prefix, 32 bytes that are no ed25519 point but a fine sr25519 key, scalars between the
    two group orders, ...); each string is fresh, and is put first to a class that accepts it (even strings) or refuses it (odd strings)."""
    import bip_utils as B
    pubs = {"secp256k1": B.Secp256k1PublicKey, "secp256k1/coincurve": Secp256k1PublicKeyCoincurve, "secp256k1/ecdsa": Secp256k1PublicKeyEcdsa,
            "nist256p1": B.Nist256p1PublicKey, "ed25519": B.Ed25519PublicKey, "ed25519blake2b": B.Ed25519Blake2bPublicKey,
            "ed25519kholaw": B.Ed25519KholawPublicKey, "ed25519monero": B.Ed25519MoneroPublicKey, "sr25519": B.Sr25519PublicKey}
    privs = {"secp256k1": B.Secp256k1PrivateKey, "secp256k1/coincurve": Secp256k1PrivateKeyCoincurve, "secp256k1/ecdsa": Secp256k1PrivateKeyEcdsa,
             "nist256p1": B.Nist256p1PrivateKey, "ed25519": B.Ed25519PrivateKey, "ed25519blake2b": B.Ed25519Blake2bPrivateKey,
             "ed25519kholaw": B.Ed25519KholawPrivateKey, "ed25519monero": B.Ed25519MoneroPrivateKey, "sr25519": B.Sr25519PrivateKey}
    reps = 2 if tier == "quick" else 24

    def rb(n):
        return bytes(rng.randrange(256) for _ in range(n))

    def find_x(k1, r1):
        while True:
            x = rng.getrandbits(256)
            if _on_weier("secp256k1", x) == k1 and _on_weier("nist256p1", x) == r1:
                return x.to_bytes(32, "big")

    pub_strings = []       # (what, bytes, {class: validity known independently})
    for _ in range(reps):
        for k1, r1 in ((True, False), (False, True), (True, True), (False, False)):
            pre = bytes([rng.choice([2, 3])])
            pub_strings.append(("compressed SEC1 string, x on secp256k1: %s, on P-256: %s" % (k1, r1), pre + find_x(k1, r1),
                                {"secp256k1": k1, "secp256k1/coincurve": k1, "secp256k1/ecdsa": k1, "nist256p1": r1}))
        for c in ("secp256k1", "nist256p1"):
            unc = POINT[c].FromBytes(gmul(c, rng.randrange(1, order(c)))).RawDecoded().ToBytes()
            pub_strings.append(("uncompressed %s point" % c, b"\x04" + unc, {}))
            pub_strings.append(("raw x||y of a %s point" % c, unc, {}))
        for c in ("ed25519", "ed25519blake2b", "ed25519monero"):
            enc = gmul(c, rng.randrange(1, L))
            pub_strings.append(("encoding of a %s point" % c, enc, {"sr25519": True}))
            pub_strings.append(("00-prefixed encoding of a %s point" % c, b"\x00" + enc, {"sr25519": False}))
        r32 = rb(32)
        pub_strings.append(("32 random bytes", r32, {"sr25519": True}))
        pub_strings.append(("00-prefixed 32 random bytes", b"\x00" + rb(32), {"sr25519": False}))
        pub_strings.append(("33 random bytes", rb(33), {"sr25519": False}))
    nk1, nr1 = ORD["secp256k1"], ORD["nist256p1"]
    priv_strings = []
    for _ in range(reps):
        for what, v in (("scalar between the P-256 and secp256k1 group orders", rng.randrange(nr1, nk1)), ("scalar below the ed25519 group order", rng.randrange(1, L)),
                        ("scalar between the ed25519 order and the P-256 order", rng.randrange(L, nr1)), ("scalar above both Weierstrass orders", rng.randrange(nk1, 2**256))):
            for order_name, bo in (("big-endian", "big"), ("little-endian", "little")):
                known = {}
                if bo == "big":
                    known = {"secp256k1": 0 < v < nk1, "secp256k1/coincurve": 0 < v < nk1, "secp256k1/ecdsa": 0 < v < nk1, "nist256p1": 0 < v < nr1}
                else:
                    known = {"ed25519monero": 0 < v < L}
                priv_strings.append(("%s, %s" % (what, order_name), v.to_bytes(32, bo), known))
        priv_strings.append(("64 random bytes", rb(64), {}))
        priv_strings.append(("31 random bytes", rb(31), {}))
    n = 0
    for kind, classes, strings in (("public", pubs, pub_strings), ("private", privs, priv_strings)):
        for si, (what, bs, known) in enumerate(strings):
            def from_bytes(c):
                try:
                    k = classes[c].FromBytes(bs)
                    return True, (k.RawCompressed().ToHex() if kind == "public" else k.Raw().ToHex())
                except ValueError:
                    return False, None
                except Exception as ex:  # noqa  (which exceptions may escape is C14's business)
                    return None, exc_kind(ex)
            names = list(classes)
            # the string goes to IsValidBytes of every class BEFORE any FromBytes; the reference is computed afterwards
            ref0 = {c: known[c] for c in known}
            rng.shuffle(names)
            want_first = si % 2 == 0
            lead = [c for c in names if c in ref0 and ref0[c] == want_first]
            if lead:
                names.remove(lead[0])
                names.insert(0, lead[0])
            said = [(c, run(lambda: classes[c].IsValidBytes(bs))) for c in names]
            ref = {c: from_bytes(c) for c in names}
            again = [(c, run(lambda: classes[c].IsValidBytes(bs))) for c in reversed(names)]
            ref2 = {c: from_bytes(c) for c in reversed(names)}
            n += 1
            hist = " -> ".join("%s:%s" % (c, v) for c, v in said)
            for c in names:
                ok, val = ref[c]
                if c in known and ok is not None and ok != known[c]:
                    rep("%s key FromBytes disagrees with the curve about a byte string (%s)" % (kind, what), "%s %s" % (c, bs.hex()), str(ok), str(known[c]))
                    break
                if ref2[c] != ref[c]:
                    rep("%s key FromBytes gives different answers for the same bytes at different times" % kind, "%s %s" % (c, bs.hex()), str(ref2[c]), str(ref[c]))
                    break
                if ok is None:
                    continue
                for when, obs in (("first round", dict(said)[c]), ("second round, reverse order", dict(again)[c])):
                    if obs is not ok:
                        rep("%s.IsValidBytes disagrees with %s.FromBytes on the same bytes (%s) after the same bytes were put to the other key classes"
                            % (classes[c].__name__, classes[c].__name__, what),
                            "%s key bytes %s; IsValidBytes asked in the order %s (%s)" % (kind, bs.hex(), hist, when), str(obs), str(ok))
                        break
                else:
                    continue
                break
    return n
