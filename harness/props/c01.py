"""C01 — BIP-39 mnemonic/entropy codec is a checksum-verified bijection in all languages."""
import hashlib, os, unicodedata
from harness.core import Case, VERIF
from harness.canon import hx, tx
from harness.props.mnemonic_common import IMPL, BIP39_LANGS, oracle_for
from bip_utils import Bip39Languages, Bip39MnemonicDecoder, Bip39MnemonicEncoder, Bip39MnemonicValidator
from bip_utils.bip.bip39.bip39_mnemonic_utils import Bip39WordsListGetter

LEAN_MODULES = ["BipVerif.Props.C01", "BipVerif.Props.C01Tables"]
SIZES = [16, 20, 24, 28, 32]
WS = [" ", "  ", "\t", "\n", " ", "　", " ", " \t "]
F_AUTODETECT = "3bd96bf911566870ec47f2a555af889d"


def pre_build():
    from gen import gen_wordlists, gen_unicode
    gen_unicode.main()
    gen_wordlists.main()


def words_of(lang):
    wl = Bip39WordsListGetter().GetByLanguage(Bip39Languages[lang])
    return [wl.GetWordAtIdx(i) for i in range(wl.Length())]


def spec_encode(words, ent):
    """independent reference: BIP-39 from the standard, with hashlib."""
    cs = len(ent) // 4
    v = (int.from_bytes(ent, "big") << cs) | (hashlib.sha256(ent).digest()[0] >> (8 - cs))
    n = (len(ent) * 8 + cs) // 11
    return [words[(v >> (11 * (n - 1 - i))) & 2047] for i in range(n)]


def gen_encode(words, ent):
    """the BIP-39 construction applied to an entropy of ANY multiple of 4 bytes (ENT/32 checksum bits): for lengths outside
    16..32 bytes the result has an illegal word count (3, 6, 9, 27, 30, …) although its bits are self-consistent."""
    cs = len(ent) // 4
    h = int.from_bytes(hashlib.sha256(ent).digest(), "big") >> (256 - cs) if cs else 0
    v = (int.from_bytes(ent, "big") << cs) | h
    n = (len(ent) * 8 + cs) // 11
    return [words[(v >> (11 * (n - 1 - i))) & 2047] for i in range(n)]


def sentence_with_word(rng, words, wi, sz=None, pos=None):
    """(entropy, BIP-39 sentence, position): a valid sentence over `words` (hashlib checksum) whose word at `pos` (never the last one, which
    carries the checksum bits) is the word of index `wi`; the other bits are random"""
    sz = sz or rng.choice(SIZES)
    total = sz * 8 + sz // 4
    n = total // 11
    pos = rng.randrange(n - 1) if pos is None else pos
    shift = 11 * (n - 1 - pos)
    v = (rng.getrandbits(total) & ~(2047 << shift)) | (wi << shift)
    ent = (v >> (sz // 4)).to_bytes(sz, "big")
    return ent, spec_encode(words, ent), pos


def dec_case(lang, sentence, cls, mode="plain"):
    return Case("bip39dec", [lang, mode, tx(sentence), oracle_for(sentence)], cls)


def respell(rng, words):
    out = []
    for w in words:
        r = rng.random()
        if r < 0.15:
            w = w.upper()
        elif r < 0.3:
            w = unicodedata.normalize("NFC", w)
        elif r < 0.4:
            w = w.capitalize()
        out.append(w)
    s = ""
    for i, w in enumerate(out):
        s += (rng.choice(WS) if i or rng.random() < 0.2 else "") + w
    if rng.random() < 0.3:
        s += rng.choice(WS)
    return s


def ref_read(index, ws):
    """independent reference (hashlib) of the converse clause for a token list `ws` read in ONE list (`index`: word -> position):
    ("value", None, None) when the word count is illegal or a token is not in the list, ("checksum", None, None) when the trailing
    bits are not the SHA-256 prefix of the leading bits, else ("ok", entropy bytes, integer value of entropy||checksum)."""
    if len(ws) not in (12, 15, 18, 21, 24) or any(w not in index for w in ws):
        return "value", None, None
    v = 0
    for w in ws:
        v = (v << 11) | index[w]
    cs = len(ws) * 11 // 33
    ent = (v >> cs).to_bytes((len(ws) * 11 - cs) // 8, "big")
    if hashlib.sha256(ent).digest()[0] >> (8 - cs) != v & ((1 << cs) - 1):
        return "checksum", None, None
    return "ok", ent, v


def checksum_damage(rng, words, index, ent):
    """sentences of a legal word count over one list that differ from the BIP-39 sentence of `ent` only in what the checksum is
    there to catch: one checksum bit flipped, another checksum value, one entropy bit flipped, two words exchanged, the sentence
    rotated.  [(kind, [words])]; whether each is acceptable is decided by the reference / the model, never assumed."""
    ws = spec_encode(words, ent)
    idx = [index[w] for w in ws]
    cs = len(ent) // 4
    n = len(ws)
    out = []
    i1 = list(idx); i1[-1] ^= 1 << rng.randrange(cs)
    out.append(("checksum-bit", i1))
    i2 = list(idx); i2[-1] = (i2[-1] & ~((1 << cs) - 1)) | ((i2[-1] + 1 + rng.randrange((1 << cs) - 1)) & ((1 << cs) - 1))
    out.append(("checksum-value", i2))
    b = cs + rng.randrange(len(ent) * 8)           # bit position counted from the end of entropy||checksum: an entropy bit
    i3 = list(idx); i3[n - 1 - b // 11] ^= 1 << (b % 11)
    out.append(("entropy-bit", i3))
    a, c = rng.sample(range(n), 2)
    i4 = list(idx); i4[a], i4[c] = i4[c], i4[a]
    out.append(("swap", i4))
    out.append(("rotate", idx[1:] + idx[:1]))
    return [(k, [words[i] for i in ii]) for k, ii in out]


def shared_sentences(rng, lists, n_words=12, both=True, budget=40000):
    """for every ordered pair (A, B) of word lists that have words in common: a sentence that is valid in A (checksum computed with
    hashlib over A's positions) made only of words B contains too, whose reading in B is NOT checksum-valid, and (both=True) one whose
    reading in B is valid as well (another entropy: the positions differ).  The language argument alone decides what such a sentence
    means.  [(A, B, [words], entropy in A, entropy in B or None)]"""
    out = []
    names = list(lists)
    for A in names:
        ia = {w: i for i, w in enumerate(lists[A])}
        for B in names:
            if A == B:
                continue
            ib = {w: i for i, w in enumerate(lists[B])}
            common = [w for w in lists[A] if w in ib]
            if len(common) < 16 or all(ia[w] == ib[w] for w in common):      # same words at the same positions: the same reading
                continue
            need = {False: 1, True: 1 if both else 0}
            for _ in range(budget):
                if not any(need.values()):
                    break
                ws = [rng.choice(common) for _ in range(n_words)]
                ka, ea, _v = ref_read(ia, ws)
                if ka != "ok":
                    continue
                kb, eb, _v = ref_read(ib, ws)
                if need[kb == "ok"] and (kb != "ok" or eb != ea):
                    need[kb == "ok"] -= 1
                    out.append((A, B, ws, ea, eb))
    return out


def gen(rng, tier):
    lists = {l: words_of(l) for l in BIP39_LANGS}
    # boundary entropies
    for lang in BIP39_LANGS:
        for sz in SIZES:
            ents = [bytes(sz), b"\xff" * sz, b"\x7f" * sz, b"\x80" * sz, bytes(sz - 1) + b"\x01", b"\x00\x01" + bytes(sz - 2)]
            ents += [bytes(rng.randrange(256) for _ in range(sz)) for _ in range(2 if tier == "quick" else 40)]
            if lang == "ENGLISH" or tier == "thorough":
                ents += [(1 << b).to_bytes(sz, "big") for b in list(range(0, 12)) + list(range(sz * 8 - 12, sz * 8))]
            for e in ents:
                yield Case("bip39enc", [lang, hx(e)], "enc")
                s = " ".join(spec_encode(lists[lang], e))
                yield dec_case(lang, s, "dec-lang")
                yield dec_case("auto", s, "dec-auto")
                if rng.random() < 0.3:
                    yield dec_case(lang, s, "dec-ck", "ck")
                if rng.random() < 0.5:
                    yield dec_case(rng.choice([lang, "auto"]), respell(rng, s.split(" ")), "dec-respelled")
    for sz in (0, 1, 15, 17, 33, 64):
        yield Case("bip39enc", ["ENGLISH", hx(bytes(sz))], "neg-entlen")
    # sweep: every word of every list at a rotating position (quick: once; thorough: every position of 12 and 24 words)
    for lang in BIP39_LANGS:
        words = lists[lang]
        shapes = [(16, None)] if tier == "quick" else [(16, p) for p in range(12)] + [(32, p) for p in range(24)]
        for sz, fixed_pos in shapes:
            n = (sz * 8 + sz // 4) // 11
            step = 1 if (tier == "quick" or fixed_pos is None) else 7      # thorough: every 7th word at each position
            for wi in range(0, 2048, step):
                pos = fixed_pos if fixed_pos is not None else wi % n
                # build an entropy whose word at `pos` is wi: choose random bits and fix the 11-bit group
                total = sz * 8 + sz // 4
                v = rng.getrandbits(total)
                shift = 11 * (n - 1 - pos)
                v = (v & ~(2047 << shift)) | (wi << shift)
                ent = (v >> (sz // 4)).to_bytes(sz, "big")
                s = " ".join(spec_encode(words, ent))
                yield dec_case(lang if wi % 2 else "auto", s, "sweep")
    # invalid stream
    m = 250 if tier == "quick" else 8000
    for i in range(m):
        lang = BIP39_LANGS[i % 9]
        words = lists[lang]
        sz = rng.choice(SIZES)
        ws = spec_encode(words, bytes(rng.randrange(256) for _ in range(sz)))
        k = rng.randrange(8)
        if k == 0:
            ws[rng.randrange(len(ws))] = rng.choice(words)
        elif k == 1:
            a, b = rng.sample(range(len(ws)), 2)
            ws[a], ws[b] = ws[b], ws[a]
        elif k == 2:
            del ws[rng.randrange(len(ws))]
        elif k == 3:
            ws.insert(rng.randrange(len(ws)), rng.choice(words))
        elif k == 4:
            other = lists[rng.choice(BIP39_LANGS)]
            ws[rng.randrange(len(ws))] = rng.choice(other)
        elif k == 5:
            ws[rng.randrange(len(ws))] = rng.choice(["", "x", "abandonn", "zzz", "é", "😀", "1", "abandon,"])
            ws = [w for w in ws if w]
        elif k == 6:
            ws = ws[:rng.choice([0, 1, 11, 13, 23, 25])] if rng.random() < 0.5 else ws + ws
        else:
            ws = [rng.choice(words) for _ in range(rng.choice([12, 15, 18, 21, 24]))]
        l_ = rng.choice([lang, "auto", "ENGLISH"])
        yield dec_case(l_, " ".join(ws), "neg-invalid")
        yield dec_case(l_, " ".join(ws), "neg-invalid-ck", "ck")        # the second decoder entry point refuses the same sentences
    # word-count discipline at the bit level: a valid sentence with copies of the index-0 word (all-zero 11-bit groups) prepended or
    # appended, or with zero words inserted, has an illegal word count whatever its bits say
    for i in range(45 if tier == "quick" else 900):
        lang = BIP39_LANGS[i % 9]
        words = lists[lang]
        ws = spec_encode(words, bytes(rng.randrange(256) for _ in range(rng.choice(SIZES))))
        k = rng.choice([1, 2, 3])
        z = words[0] if rng.random() < 0.8 else words[2047]
        v = i % 4
        ws2 = [z] * k + ws if v == 0 else ws + [z] * k if v == 1 else ws[:1] + [z] * k + ws[1:] if v == 2 else [z] * k + ws[:-k]
        l_ = rng.choice([lang, "auto"])
        yield dec_case(l_, " ".join(ws2), "neg-zero-words" if v != 3 else "neg-invalid")
        yield dec_case(l_, " ".join(ws2), "neg-zero-words-ck" if v != 3 else "neg-invalid-ck", "ck")
    # self-consistent sentences of an illegal length: word counts that are multiples of 3 outside 12..24
    for i in range(27 if tier == "quick" else 300):
        lang = BIP39_LANGS[i % 9]
        nbytes = [4, 8, 12, 36, 40, 44, 48, 64][i % 8]
        ws = gen_encode(lists[lang], bytes(rng.randrange(256) for _ in range(nbytes)))
        l_ = rng.choice([lang, "auto"])
        yield dec_case(l_, " ".join(ws), "neg-count-mult3")
        yield dec_case(l_, " ".join(ws), "neg-count-mult3-ck", "ck")
    # known ambiguity witness (F-autodetect): French sentence made of words that are also English
    s = " ".join(spec_encode(lists["FRENCH"], bytes.fromhex(F_AUTODETECT)))
    yield dec_case("FRENCH", s, "dec-lang")
    yield dec_case("auto", s, "dec-auto")
    # the checksum clause at BOTH decoder entry points (Decode and DecodeWithChecksum), language given and auto-detected: sentences of a
    # legal word count over one list that differ from a valid sentence only in what the checksum is there to catch, every size and list
    index = {l: {w: i for i, w in enumerate(lists[l])} for l in BIP39_LANGS}
    for lang in BIP39_LANGS:
        for sz in SIZES:
            dmg = checksum_damage(rng, lists[lang], index[lang], bytes(rng.randrange(256) for _ in range(sz)))
            for kind, ws in (dmg if tier == "thorough" else [dmg[0]] + rng.sample(dmg[1:], 2)):
                s = " ".join(ws)
                for l_ in (lang, "auto"):
                    yield dec_case(l_, s, "neg-checksum-" + kind)
                    yield dec_case(l_, s, "neg-checksum-" + kind + "-ck", "ck")
    # the language argument decides the reading: sentences valid in one list made only of words another list contains too (at other
    # positions), read with each of the two languages given and auto-detected, at both entry points
    for n_words in ((12, 24) if tier == "quick" else (12, 15, 18, 21, 24)):
        for A, B, ws, _ea, _eb in shared_sentences(rng, lists, n_words, both=(n_words == 12 or tier == "thorough")):
            s = " ".join(ws)
            for l_ in (A, B, "auto"):
                yield dec_case(l_, s, "shared-words")
                yield dec_case(l_, s, "shared-words-ck", "ck")
    # "all from one supported list" is decided by ONE reading of a token — lower-cased, then NFKD: tokens that another folding (full case
    # folding, upper-then-lower, NFKC case folding, dropped combining marks or ignorable characters) would identify with a list word are
    # not that word; compatibility / case forms whose named reading IS the word are spellings of it
    from harness.props.mnemonic_common import fold_candidates
    for kind, lang, wi, tok, ok in fold_candidates(rng, lists, 6 if tier == "quick" else 80):
        _ent, ws, pos = sentence_with_word(rng, lists[lang], wi)
        ws[pos] = tok
        s = " ".join(ws)
        for l_ in (lang, "auto"):
            yield dec_case(l_, s, "fold-spelling" if ok else "neg-fold-" + kind.replace(" ", "-"), rng.choice(["plain", "ck"]))


def _observation_points(rng, tier, rep):
    """the converse clause names ONE accept set for 'the decoder/validator': every observation point (Decode, DecodeWithChecksum, IsValid,
    Validate; the sentence as str or as a Bip39Mnemonic object; language given or auto-detected) accepts a legal-count in-list sentence
    iff its checksum bits are the SHA-256 prefix of its entropy bits (hashlib reference), returns that entropy (entropy||checksum for
    DecodeWithChecksum) when it does, and refuses with the checksum error when it does not."""
    from bip_utils import Bip39Mnemonic, MnemonicChecksumError
    index = {l: {w: i for i, w in enumerate(words_of(l))} for l in BIP39_LANGS}
    n = 0

    def observe(f):
        try:
            return f()
        except MnemonicChecksumError:
            return "refused:checksum error"
        except ValueError:
            return "refused:value error"
        except Exception as ex:  # noqa
            return "refused:" + type(ex).__name__

    for lang in BIP39_LANGS:
        words = words_of(lang)
        for sz in (SIZES if tier == "thorough" else rng.sample(SIZES, 2)):
            ent = bytes(rng.randrange(256) for _ in range(sz))
            for kind, ws in [("valid", spec_encode(words, ent))] + checksum_damage(rng, words, index[lang], ent):
                kref, eref, vref = ref_read(index[lang], ws)
                s = " ".join(ws)
                cs = len(ws) * 11 // 33
                readings = [ref_read(index[l], ws) for l in BIP39_LANGS]          # every list that contains all the words (auto-detection)
                for form, arg in (("str", s), ("Bip39Mnemonic object", Bip39Mnemonic.FromString(s))):
                    for lg_name, lg in ((lang, Bip39Languages[lang]), ("auto-detected", None)):
                        d, v = Bip39MnemonicDecoder(lg), Bip39MnemonicValidator(lg)
                        obs = [("Decode", observe(lambda: "accepted:" + d.Decode(arg).hex())),
                               ("DecodeWithChecksum", observe(lambda: "accepted:%x" % int.from_bytes(d.DecodeWithChecksum(arg), "big"))),
                               ("IsValid", "accepted" if observe(lambda: v.IsValid(arg)) is True else "refused"),
                               ("Validate", observe(lambda: "accepted" if v.Validate(arg) is None else "accepted"))]
                        n += len(obs)
                        where = "%s sentence (%s, %d words), given as %s, language %s" % (lang, kind, len(ws), form, lg_name)
                        if lg is not None:
                            want = {"Decode": "accepted:" + eref.hex(), "DecodeWithChecksum": "accepted:%x" % vref, "IsValid": "accepted", "Validate": "accepted"} if kref == "ok" else \
                                   {"Decode": "refused:checksum error", "DecodeWithChecksum": "refused:checksum error", "IsValid": "refused", "Validate": "refused:checksum error"}
                            for pt, got in obs:
                                if got != want[pt]:
                                    rep("%s departs from the checksum clause (accepted iff the trailing bits are the SHA-256 prefix of the entropy bits; "
                                        "wrong checksum -> checksum error): %s" % (pt, where), s, got, want[pt])
                            continue
                        # auto-detection: the four points have one accept set, and what is accepted is a checksum-valid reading in some list
                        acc = [got.startswith("accepted") for _pt, got in obs]
                        if len(set(acc)) != 1:
                            rep("the decoder/validator observation points disagree on whether a sentence is accepted: " + where, s,
                                " | ".join("%s: %s" % o for o in obs), "one accept set")
                            continue
                        if acc[0]:
                            e_a, v_a = obs[0][1].split(":")[1], int(obs[1][1].split(":")[1], 16)
                            if not any(k == "ok" and e.hex() == e_a and vv == v_a for k, e, vv in readings):
                                rep("an auto-detecting decoder accepts a sentence with a result that is not a checksum-valid reading in any list: " + where, s,
                                    "Decode %s, DecodeWithChecksum %x" % (e_a, v_a), "a checksum-valid reading, or refusal")
                        elif kref == "ok" and sum(1 for k, _e, _v in readings if k != "value") == 1:
                            rep("a valid sentence whose words belong to one list only is refused with the language auto-detected: " + where, s, obs[0][1], "accepted:" + eref.hex())
    return n


def _first_use(rng, tier, rep):
    """decoding is a function of (language, sentence) also when it is the first thing several threads do with a word list at the same
    moment (fresh interpreter; lists never loaded, loaded by an encoder, or loaded by a decoder constructor, but never searched)."""
    from harness.props.mnemonic_common import first_use_concurrently, task
    n = 0
    lists = {l: words_of(l) for l in BIP39_LANGS}
    for run in range(1 if tier == "quick" else 8):
        order = list(BIP39_LANGS) if run % 2 == 0 else list(BIP39_LANGS)[::-1]
        rounds, wants = [], []
        for lang in order:
            L = Bip39Languages[lang]
            before = [[], [task("Bip39MnemonicEncoder", [L], "Encode", bytes(16))], [task("Bip39MnemonicDecoder", [L])],
                      [task("Bip39MnemonicGenerator", [L], "FromEntropy", bytes(range(16)))]][rng.randrange(4)]
            tasks, want = [], []
            for i in range(16):
                ent = b"\xff" * (16, 32)[i] if i < 2 else bytes(rng.randrange(256) for _ in range(rng.choice(SIZES)))
                ws = spec_encode(lists[lang], ent)
                s = " ".join(ws)
                cs = len(ws) * 11 // 33
                full = "%0*x" % ((len(ws) * 11 + 7) // 8 * 2, (int.from_bytes(ent, "big") << cs) | (hashlib.sha256(ent).digest()[0] >> (8 - cs)))
                # auto-detection only in the runs that take the lists in detection order (each round then meets exactly one new list), and
                # never where another list contains all the words (the answer is then the listed ambiguity, not this clause)
                auto = run % 2 == 0 and i % 3 == 2 and sum(1 for l in BIP39_LANGS if all(w in lists[l] for w in set(ws))) == 1
                lg = None if auto else L
                k = i % 4
                if k == 0 or i < 2:
                    tasks.append(task("Bip39MnemonicDecoder", [lg], "Decode", s)); want.append(ent.hex())
                elif k == 1:
                    tasks.append(task("Bip39MnemonicDecoder", [lg], "DecodeWithChecksum", s)); want.append(full)
                elif k == 2:
                    tasks.append(task("Bip39MnemonicValidator", [lg], "IsValid", s)); want.append("True")
                else:
                    tasks.append(task("Bip39MnemonicDecoder", [lg], "Decode", respell(rng, ws))); want.append(ent.hex())
            rounds.append({"before": before, "tasks": tasks, "stagger": rng.choice([0, 40, 150, 600])})
            wants.append(want)
        for lang, rnd, want, res in zip(order, rounds, wants, first_use_concurrently(rounds)):
            for t, w, (got, detail) in zip(rnd["tasks"] + rnd["before"], want + ["no exception"] * len(rnd["before"]), res):
                n += 1
                if t["meth"] == "DecodeWithChecksum":       # entropy||checksum as a big-endian number (leading zero bytes are not the point)
                    got, w = got.lstrip("0"), w.lstrip("0")
                if got != w:
                    rep("a valid %s sentence is not decoded to its entropy when %d threads use the word list for the first time at the same moment "
                        "(fresh interpreter; %s(%s).%s)" % (lang, len(rnd["tasks"]), t["cls"], "language given" if t["ctor"][0] else "auto-detected", t["meth"]),
                        t["arg"][1] if t["arg"] else "", (got + " " + detail).strip(), w)
    return n


def _rejected_variants(rng, words, ws, foreign):
    """[(kind, sentence)] that the converse clause refuses, derived from the valid sentence `ws`: a token that is in no list at word
    position 0 / 1 / 2 / 3 / any / last, a word of another list, one word more or fewer, a checksum-damaged sentence, a cut of the sentence
    (legal count, wrong checksum bits almost surely), nothing at all.  (Which of them IS refused is not assumed: the answers of a used
    object are compared with those of a fresh one.)"""
    n = len(ws)
    out = []
    for k in sorted({0, 1, 2, 3, rng.randrange(n), n - 1}):
        bad = list(ws); bad[k] = rng.choice(["qqqqzzzz", "x", "abandonn", "zoo1"])
        out.append(("token in no list at word %d of %d" % (k, n), " ".join(bad)))
    k = rng.randrange(1, n)
    bad = list(ws); bad[k] = rng.choice(foreign)
    out.append(("word of another list at word %d of %d" % (k, n), " ".join(bad)))
    out.append(("one word fewer", " ".join(ws[:-1])))
    out.append(("one word more", " ".join(ws + ws[:1])))
    bad = list(ws); bad[-1] = words[(words.index(bad[-1]) ^ 1)]
    out.append(("checksum bit flipped", " ".join(bad)))
    if n > 12:
        out.append(("last 12 words of a valid %d-word sentence" % n, " ".join(ws[n - 12:])))
        out.append(("first 12 words of a valid %d-word sentence" % n, " ".join(ws[:12])))
    out.append(("empty", ""))
    return out


def _history(rng, tier, rep):
    """'accepted if and only if' speaks about the word sequence: a decoder / validator object (language given or auto-detecting) that has
    been asked before — about valid sentences and about sentences it refused, at whatever word the refusal happened and for whatever reason —
    gives for the next sentence the answer a fresh object gives (each of the four observation points, str and object form)."""
    from bip_utils import Bip39Mnemonic
    from harness.props.mnemonic_common import history_independent
    lists = {l: words_of(l) for l in BIP39_LANGS}
    sets = {l: set(lists[l]) for l in BIP39_LANGS}
    n = 0
    for lang in (BIP39_LANGS if tier == "thorough" else ["ENGLISH"] + rng.sample([l for l in BIP39_LANGS if l != "ENGLISH"], 3)):
        words = lists[lang]
        foreign = [w for l in BIP39_LANGS if l != lang for w in rng.sample(lists[l], 8) if w not in words]
        script = []
        for sz in rng.sample(SIZES, len(SIZES)):
            ws = spec_encode(words, bytes(rng.randrange(256) for _ in range(sz)))
            good = ("valid %d-word sentence" % len(ws), " ".join(ws))
            for rej in _rejected_variants(rng, words, ws, foreign):
                script += [rej, good]
            script.append(good)
        if tier == "quick":          # every rejection kind stays in, each followed by a valid sentence
            pairs = [script[i:i + 2] for i in range(0, len(script) - 1, 2)]
            script = [x for pr in rng.sample(pairs, min(len(pairs), 28)) for x in pr]
        L = Bip39Languages[lang]
        for lg_name, lg in ((lang, L), ("auto-detected", None)):
            # auto-detecting objects are only asked about token sequences that at most one list can read (otherwise which list answers is the
            # listed ambiguity, not this clause)
            sc = [(k, p) for k, p in script if lg is not None or not p.split() or sum(1 for l in BIP39_LANGS if all(w in sets[l] for w in p.split())) <= 1]
            as_obj = lambda p: Bip39Mnemonic.FromString(p)      # noqa
            points = [("Bip39MnemonicDecoder(%s).Decode" % lg_name, lambda: Bip39MnemonicDecoder(lg), lambda o, p: o.Decode(p)),
                      ("Bip39MnemonicDecoder(%s).DecodeWithChecksum" % lg_name, lambda: Bip39MnemonicDecoder(lg), lambda o, p: o.DecodeWithChecksum(p)),
                      ("Bip39MnemonicValidator(%s).IsValid" % lg_name, lambda: Bip39MnemonicValidator(lg), lambda o, p: o.IsValid(p)),
                      ("Bip39MnemonicValidator(%s).Validate" % lg_name, lambda: Bip39MnemonicValidator(lg), lambda o, p: o.Validate(p)),
                      ("Bip39MnemonicDecoder(%s).Decode(Bip39Mnemonic object)" % lg_name, lambda: Bip39MnemonicDecoder(lg), lambda o, p: o.Decode(as_obj(p))),
                      ("Bip39MnemonicValidator(%s).IsValid, then Decode on a decoder, alternating" % lg_name,
                       lambda: (Bip39MnemonicValidator(lg), Bip39MnemonicDecoder(lg)), lambda o, p: (o[0].IsValid(p), o[1].Decode(p).hex() if o[0].IsValid(p) else None))]
            n += history_independent(rep, "BIP-39 %s" % lang, points, sc)
    return n


def _mnemonic_objects(rng, tier, rep):
    """the sentence handed over as a Bip39Mnemonic / Mnemonic object: same verdict at every attempt as for the str, object left as it was"""
    from bip_utils import Bip39Mnemonic
    from bip_utils.utils.mnemonic import Mnemonic
    from harness.props.mnemonic_common import mnemonic_objects_stable
    n = 0
    for lang in rng.sample(BIP39_LANGS, 2 if tier == "quick" else 9):
        words = words_of(lang)
        index = {w: i for i, w in enumerate(words)}
        L = Bip39Languages[lang]
        ent = bytes(rng.randrange(256) for _ in range(rng.choice(SIZES)))
        ws = spec_encode(words, ent)
        cases = [("valid", ws)] + [(k, w) for k, w in checksum_damage(rng, words, index, ent)[:2]] + [("one word fewer", ws[:-1])]
        forms = [("Bip39Mnemonic.FromList", lambda t: Bip39Mnemonic.FromList(t)), ("Bip39Mnemonic(list)", lambda t: Bip39Mnemonic(t)),
                 ("Mnemonic.FromList", lambda t: Mnemonic.FromList(t)), ("Bip39Mnemonic.FromString", lambda t: Bip39Mnemonic.FromString(" ".join(t)))]
        points = [("Bip39MnemonicDecoder(%s).Decode" % lang, lambda a: Bip39MnemonicDecoder(L).Decode(a)),
                  ("Bip39MnemonicDecoder().DecodeWithChecksum", lambda a: Bip39MnemonicDecoder().DecodeWithChecksum(a)),
                  ("Bip39MnemonicValidator(%s).IsValid" % lang, lambda a: Bip39MnemonicValidator(L).IsValid(a)),
                  ("Bip39MnemonicValidator().Validate", lambda a: Bip39MnemonicValidator().Validate(a))]
        n += mnemonic_objects_stable(rep, "BIP-39 %s" % lang, cases, forms, points)
    return n


def _configurations(rng, tier, rep, rpt):
    """'for every supported language …' holds however the interpreter was started: the encoder, the decoder (language given and
    auto-detected) and the validator are asked in fresh interpreters with another locale encoding / -OO / another working directory and
    hash seed; references are the hashlib construction over the lists as this process reads them (tied to the registry by C01Tables)."""
    from harness.props.mnemonic_common import configurations, in_configuration, task
    lists = {l: words_of(l) for l in BIP39_LANGS}
    n = 0
    facts = {}
    for config in configurations(rng):
        tasks, wants = [], []
        for lang in (BIP39_LANGS if config[0].startswith("the locale") or tier == "thorough" else rng.sample(BIP39_LANGS, 3)):
            L = Bip39Languages[lang]
            for _ in range(1 if tier == "quick" else 4):
                ent = bytes(rng.randrange(256) for _ in range(rng.choice(SIZES)))
                ws = spec_encode(lists[lang], ent)
                s = " ".join(ws)
                single = sum(1 for l in BIP39_LANGS if all(w in lists[l] for w in set(ws))) == 1
                wb = ws[:-1] + [lists[lang][lists[lang].index(ws[-1]) ^ 1]]             # lowest checksum bit flipped
                bad = " ".join(wb)
                single_bad = sum(1 for l in BIP39_LANGS if all(w in lists[l] for w in set(wb))) == 1
                tasks += [task("Bip39MnemonicGenerator", [L], "FromEntropy", ent), task("Bip39MnemonicDecoder", [L], "Decode", s),
                          task("Bip39MnemonicDecoder", [None if single else L], "Decode", respell(rng, ws)),
                          task("Bip39MnemonicValidator", [None if single else L], "IsValid", s), task("Bip39MnemonicValidator", [None if single_bad else L], "IsValid", bad)]
                wants += [s, ent.hex(), ent.hex(), "True", "False"]
        info, res = in_configuration(tasks, config)
        facts[config[0]] = info
        for t, w, (got, detail) in zip(tasks, wants, res):
            n += 1
            if got != w:
                rep("the BIP-39 codec answers differently in another process configuration — %s (child: preferred encoding %s): %s(%s).%s" % (
                    config[0], info.get("encoding"), t["cls"], t["ctor"][0][1][1] if t["ctor"][0] else "auto-detected", t["meth"]),
                    t["arg"][1], (got + " " + detail).strip(), w)
    rpt.extra["process_configurations"] = facts
    return n


def relations(rng, tier, rpt):
    """(i) encode == the BIP-39 definition computed independently; (ii) decode(lang | auto)(encode(e)) == e;
    (iii) IsValid agrees with Decode; (iv) the live lists are lower-case NFKD-normal without inner whitespace."""
    bad = []

    def rep(what, inp, got, want, fid=None):
        d = {"property": "C01", "entry_point": what, "request_lines": [], "relation": what, "input": inp,
             "impl_output": got, "model_output": want, "no_failing_input": False}
        if fid:
            d["finding_id"] = fid
        bad.append(d)

    from harness.props.accessors_common import generators_valid
    for what, inp, got, want in generators_valid():      # random-entropy generators: right length, accepted by their own validator
        if what.startswith("Bip39"):
            rep(what, inp, got, want)
    n = 0
    for lang in BIP39_LANGS:
        words = words_of(lang)
        for w in words:
            if unicodedata.normalize("NFKD", w.lower()) != w or len(w.split()) != 1:
                rep("word list entry is not lower-case NFKD-normal single token", "%s:%r" % (lang, w), w, unicodedata.normalize("NFKD", w.lower()))
        enc, dec, auto = Bip39MnemonicEncoder(Bip39Languages[lang]), Bip39MnemonicDecoder(Bip39Languages[lang]), Bip39MnemonicDecoder()
        for sz in SIZES:
            for _ in range(3 if tier == "quick" else 60):
                e = bytes(rng.randrange(256) for _ in range(sz))
                m = enc.Encode(e).ToStr()
                n += 1
                if m.split(" ") != spec_encode(words, e):
                    rep("Encode differs from the BIP-39 definition", "%s %s" % (lang, e.hex()), m, " ".join(spec_encode(words, e)))
                if dec.Decode(m) != e:
                    rep("Decode(lang)(Encode(e)) != e", "%s %s" % (lang, e.hex()), dec.Decode(m).hex(), e.hex())
                try:
                    a = auto.Decode(m).hex()
                except Exception as ex:  # noqa
                    a = type(ex).__name__
                if a != e.hex():
                    rep("Decode(auto)(Encode(e)) != e", "%s %s" % (lang, e.hex()), a, e.hex())
                if not Bip39MnemonicValidator().IsValid(m):
                    rep("IsValid false on an encoder output", "%s %s" % (lang, e.hex()), "False", "True")
    # one decoder / validator object in auto-detect mode reused for sentences of different languages: same answers as fresh objects
    from bip_utils import Bip39MnemonicValidator as _Val
    shared_d, shared_v = Bip39MnemonicDecoder(), _Val()
    order = list(Bip39Languages) + list(Bip39Languages)[::-1]
    for lang in order:
        e = bytes(rng.randrange(256) for _ in range(rng.choice(SIZES)))
        sent = " ".join(spec_encode(words_of(lang.name), e))
        n += 1
        for what, f in (("Bip39MnemonicDecoder().Decode", lambda: shared_d.Decode(sent).hex()), 
                        ("Bip39MnemonicValidator().IsValid", lambda: str(shared_v.IsValid(sent)))):
            try:
                got = f()
            except Exception as ex:  # noqa
                got = type(ex).__name__
            want = "True" if "IsValid" in what else e.hex()
            if "Decode" in what and got == want and shared_d.DecodeWithChecksum(sent) != Bip39MnemonicDecoder().DecodeWithChecksum(sent):
                got = "DecodeWithChecksum differs"
            if got != want:
                rep("%s on an object reused across languages departs from a fresh object (valid %s sentence)" % (what, lang.name), sent, got, want)
    n += _observation_points(rng, tier, rep)
    n += _first_use(rng, tier, rep)
    rpt.extra["history_checks"] = _history(rng, tier, rep)
    rpt.extra["mnemonic_object_checks"] = _mnemonic_objects(rng, tier, rep)
    rpt.extra["configuration_checks"] = _configurations(rng, tier, rep, rpt)
    # the listed ambiguity witness
    e = bytes.fromhex(F_AUTODETECT)
    m = Bip39MnemonicEncoder(Bip39Languages.FRENCH).Encode(e).ToStr()
    a = Bip39MnemonicDecoder().Decode(m).hex()
    if a != e.hex():
        rep("Decode(auto)(Encode(e)) != e", "FRENCH " + e.hex(), a, e.hex(), fid="F-autodetect")
    rpt.extra["impl_relation_checks"] = n
    return bad[:12]


def search_broken(broken, rng):
    """a table theorem failed: localise the word that differs from the pinned list and exhibit an entropy on which
    Encode now differs from the BIP-39 sentence of the registered list."""
    gdir = os.path.join(VERIF, "golden", "bip39")
    for lang in BIP39_LANGS:
        gold = [w for w in open(os.path.join(gdir, lang + ".txt"), encoding="utf-8").read().split("\n") if w]
        try:
            cur = words_of(lang)
        except Exception as ex:  # noqa
            return {"relation": "word list %s cannot be loaded: %s" % (lang, ex), "impl_output": type(ex).__name__, "model_output": "2048 words"}
        for i, (a, b) in enumerate(zip(cur, gold)):
            if a != b:
                v = (i << 121) | rng.getrandbits(121)
                ent = (v >> 4).to_bytes(16, "big")
                got = Bip39MnemonicEncoder(Bip39Languages[lang]).Encode(ent).ToStr()
                want = " ".join(spec_encode(gold, ent))
                if got != want:
                    return {"relation": "word %d of %s differs from the registered BIP-39 list: Encode(entropy) is not the BIP-39 sentence" % (i, lang),
                            "entry_point": "Bip39MnemonicEncoder.Encode", "input": ent.hex(), "impl_output": got, "model_output": want,
                            "request_lines": ["bip39enc %s %s" % (lang, hx(ent))]}
        if len(cur) != len(gold):
            return {"relation": "word list %s has %d entries" % (lang, len(cur)), "impl_output": str(len(cur)), "model_output": "2048"}
    return None
