"""C01 — BIP-39 mnemonic/entropy codec is a checksum-verified bijection in all languages."""
import hashlib, os, unicodedata
from harness.core import Case, VERIF
from harness.canon import hx, tx
from harness.props.mnemonic_common import IMPL, BIP39_LANGS, oracle_for
from bip_utils import Bip39Languages, Bip39MnemonicDecoder, Bip39MnemonicEncoder, Bip39MnemonicValidator
from bip_utils.bip.bip39.bip39_mnemonic_utils import Bip39WordsListGetter

LEAN_MODULES = ["BipVerif.Props.C01", "BipVerif.Props.C01Tables"]
SIZES = [16, 20, 24, 28, 32]
WS = [" ", "  ", "\t", "\n", " ", "　", " ", " \t "]
F_AUTODETECT = "3bd96bf911566870ec47f2a555af889d"


def pre_build():
    from gen import gen_wordlists, gen_unicode
    gen_unicode.main()
    gen_wordlists.main()


def words_of(lang):
    wl = Bip39WordsListGetter().GetByLanguage(Bip39Languages[lang])
    return [wl.GetWordAtIdx(i) for i in range(wl.Length())]


def spec_encode(words, ent):
    """independent reference: BIP-39 from the standard, with hashlib."""
    cs = len(ent) // 4
    v = (int.from_bytes(ent, "big") << cs) | (hashlib.sha256(ent).digest()[0] >> (8 - cs))
    n = (len(ent) * 8 + cs) // 11
    return [words[(v >> (11 * (n - 1 - i))) & 2047] for i in range(n)]


def gen_encode(words, ent):
    """the BIP-39 construction applied to an entropy of ANY multiple of 4 bytes (ENT/32 checksum bits): for lengths outside
    16..32 bytes the result has an illegal word count (3, 6, 9, 27, 30, …) although its bits are self-consistent."""
    cs = len(ent) // 4
    h = int.from_bytes(hashlib.sha256(ent).digest(), "big") >> (256 - cs) if cs else 0
    v = (int.from_bytes(ent, "big") << cs) | h
    n = (len(ent) * 8 + cs) // 11
    return [words[(v >> (11 * (n - 1 - i))) & 2047] for i in range(n)]


def dec_case(lang, sentence, cls, mode="plain"):
    return Case("bip39dec", [lang, mode, tx(sentence), oracle_for(sentence)], cls)


def respell(rng, words):
    out = []
    for w in words:
        r = rng.random()
        if r < 0.15:
            w = w.upper()
        elif r < 0.3:
            w = unicodedata.normalize("NFC", w)
        elif r < 0.4:
            w = w.capitalize()
        out.append(w)
    s = ""
    for i, w in enumerate(out):
        s += (rng.choice(WS) if i or rng.random() < 0.2 else "") + w
    if rng.random() < 0.3:
        s += rng.choice(WS)
    return s


def gen(rng, tier):
    lists = {l: words_of(l) for l in BIP39_LANGS}
    # boundary entropies
    for lang in BIP39_LANGS:
        for sz in SIZES:
            ents = [bytes(sz), b"\xff" * sz, b"\x7f" * sz, b"\x80" * sz, bytes(sz - 1) + b"\x01", b"\x00\x01" + bytes(sz - 2)]
            ents += [bytes(rng.randrange(256) for _ in range(sz)) for _ in range(2 if tier == "quick" else 40)]
            if lang == "ENGLISH" or tier == "thorough":
                ents += [(1 << b).to_bytes(sz, "big") for b in list(range(0, 12)) + list(range(sz * 8 - 12, sz * 8))]
            for e in ents:
                yield Case("bip39enc", [lang, hx(e)], "enc")
                s = " ".join(spec_encode(lists[lang], e))
                yield dec_case(lang, s, "dec-lang")
                yield dec_case("auto", s, "dec-auto")
                if rng.random() < 0.3:
                    yield dec_case(lang, s, "dec-ck", "ck")
                if rng.random() < 0.5:
                    yield dec_case(rng.choice([lang, "auto"]), respell(rng, s.split(" ")), "dec-respelled")
    for sz in (0, 1, 15, 17, 33, 64):
        yield Case("bip39enc", ["ENGLISH", hx(bytes(sz))], "neg-entlen")
    # sweep: every word of every list at a rotating position (quick: once; thorough: every position of 12 and 24 words)
    for lang in BIP39_LANGS:
        words = lists[lang]
        shapes = [(16, None)] if tier == "quick" else [(16, p) for p in range(12)] + [(32, p) for p in range(24)]
        for sz, fixed_pos in shapes:
            n = (sz * 8 + sz // 4) // 11
            step = 1 if (tier == "quick" or fixed_pos is None) else 7      # thorough: every 7th word at each position
            for wi in range(0, 2048, step):
                pos = fixed_pos if fixed_pos is not None else wi % n
                # build an entropy whose word at `pos` is wi: choose random bits and fix the 11-bit group
                total = sz * 8 + sz // 4
                v = rng.getrandbits(total)
                shift = 11 * (n - 1 - pos)
                v = (v & ~(2047 << shift)) | (wi << shift)
                ent = (v >> (sz // 4)).to_bytes(sz, "big")
                s = " ".join(spec_encode(words, ent))
                yield dec_case(lang if wi % 2 else "auto", s, "sweep")
    # invalid stream
    m = 250 if tier == "quick" else 8000
    for i in range(m):
        lang = BIP39_LANGS[i % 9]
        words = lists[lang]
        sz = rng.choice(SIZES)
        ws = spec_encode(words, bytes(rng.randrange(256) for _ in range(sz)))
        k = rng.randrange(8)
        if k == 0:
            ws[rng.randrange(len(ws))] = rng.choice(words)
        elif k == 1:
            a, b = rng.sample(range(len(ws)), 2)
            ws[a], ws[b] = ws[b], ws[a]
        elif k == 2:
            del ws[rng.randrange(len(ws))]
        elif k == 3:
            ws.insert(rng.randrange(len(ws)), rng.choice(words))
        elif k == 4:
            other = lists[rng.choice(BIP39_LANGS)]
            ws[rng.randrange(len(ws))] = rng.choice(other)
        elif k == 5:
            ws[rng.randrange(len(ws))] = rng.choice(["", "x", "abandonn", "zzz", "é", "😀", "1", "abandon,"])
            ws = [w for w in ws if w]
        elif k == 6:
            ws = ws[:rng.choice([0, 1, 11, 13, 23, 25])] if rng.random() < 0.5 else ws + ws
        else:
            ws = [rng.choice(words) for _ in range(rng.choice([12, 15, 18, 21, 24]))]
        yield dec_case(rng.choice([lang, "auto", "ENGLISH"]), " ".join(ws), "neg-invalid")
    # word-count discipline at the bit level: a valid sentence with copies of the index-0 word (all-zero 11-bit groups) prepended or
    # appended, or with zero words inserted, has an illegal word count whatever its bits say
    for i in range(45 if tier == "quick" else 900):
        lang = BIP39_LANGS[i % 9]
        words = lists[lang]
        ws = spec_encode(words, bytes(rng.randrange(256) for _ in range(rng.choice(SIZES))))
        k = rng.choice([1, 2, 3])
        z = words[0] if rng.random() < 0.8 else words[2047]
        v = i % 4
        ws2 = [z] * k + ws if v == 0 else ws + [z] * k if v == 1 else ws[:1] + [z] * k + ws[1:] if v == 2 else [z] * k + ws[:-k]
        yield dec_case(rng.choice([lang, "auto"]), " ".join(ws2), "neg-zero-words" if v != 3 else "neg-invalid")
    # self-consistent sentences of an illegal length: word counts that are multiples of 3 outside 12..24
    for i in range(27 if tier == "quick" else 300):
        lang = BIP39_LANGS[i % 9]
        nbytes = [4, 8, 12, 36, 40, 44, 48, 64][i % 8]
        ws = gen_encode(lists[lang], bytes(rng.randrange(256) for _ in range(nbytes)))
        yield dec_case(rng.choice([lang, "auto"]), " ".join(ws), "neg-count-mult3")
    # known ambiguity witness (F-autodetect): French sentence made of words that are also English
    s = " ".join(spec_encode(lists["FRENCH"], bytes.fromhex(F_AUTODETECT)))
    yield dec_case("FRENCH", s, "dec-lang")
    yield dec_case("auto", s, "dec-auto")


def relations(rng, tier, rpt):
    """(i) encode == the BIP-39 definition computed independently; (ii) decode(lang | auto)(encode(e)) == e;
    (iii) IsValid agrees with Decode; (iv) the live lists are lower-case NFKD-normal without inner whitespace."""
    bad = []

    def rep(what, inp, got, want, fid=None):
        d = {"property": "C01", "entry_point": what, "request_lines": [], "relation": what, "input": inp,
             "impl_output": got, "model_output": want, "no_failing_input": False}
        if fid:
            d["finding_id"] = fid
        bad.append(d)

    n = 0
    for lang in BIP39_LANGS:
        words = words_of(lang)
        for w in words:
            if unicodedata.normalize("NFKD", w.lower()) != w or len(w.split()) != 1:
                rep("word list entry is not lower-case NFKD-normal single token", "%s:%r" % (lang, w), w, unicodedata.normalize("NFKD", w.lower()))
        enc, dec, auto = Bip39MnemonicEncoder(Bip39Languages[lang]), Bip39MnemonicDecoder(Bip39Languages[lang]), Bip39MnemonicDecoder()
        for sz in SIZES:
            for _ in range(3 if tier == "quick" else 60):
                e = bytes(rng.randrange(256) for _ in range(sz))
                m = enc.Encode(e).ToStr()
                n += 1
                if m.split(" ") != spec_encode(words, e):
                    rep("Encode differs from the BIP-39 definition", "%s %s" % (lang, e.hex()), m, " ".join(spec_encode(words, e)))
                if dec.Decode(m) != e:
                    rep("Decode(lang)(Encode(e)) != e", "%s %s" % (lang, e.hex()), dec.Decode(m).hex(), e.hex())
                try:
                    a = auto.Decode(m).hex()
                except Exception as ex:  # noqa
                    a = type(ex).__name__
                if a != e.hex():
                    rep("Decode(auto)(Encode(e)) != e", "%s %s" % (lang, e.hex()), a, e.hex())
                if not Bip39MnemonicValidator().IsValid(m):
                    rep("IsValid false on an encoder output", "%s %s" % (lang, e.hex()), "False", "True")
    # one decoder / validator object in auto-detect mode reused for sentences of different languages: same answers as fresh objects
    from bip_utils import Bip39MnemonicValidator as _Val
    shared_d, shared_v = Bip39MnemonicDecoder(), _Val()
    order = list(Bip39Languages) + list(Bip39Languages)[::-1]
    for lang in order:
        e = bytes(rng.randrange(256) for _ in range(rng.choice(SIZES)))
        sent = " ".join(spec_encode(words_of(lang.name), e))
        n += 1
        for what, f in (("Bip39MnemonicDecoder().Decode", lambda: shared_d.Decode(sent).hex()), 
                        ("Bip39MnemonicValidator().IsValid", lambda: str(shared_v.IsValid(sent)))):
            try:
                got = f()
            except Exception as ex:  # noqa
                got = type(ex).__name__
            want = "True" if "IsValid" in what else e.hex()
            if "Decode" in what and got == want and shared_d.DecodeWithChecksum(sent) != Bip39MnemonicDecoder().DecodeWithChecksum(sent):
                got = "DecodeWithChecksum differs"
            if got != want:
                rep("%s on an object reused across languages departs from a fresh object (valid %s sentence)" % (what, lang.name), sent, got, want)
    # the listed ambiguity witness
    e = bytes.fromhex(F_AUTODETECT)
    m = Bip39MnemonicEncoder(Bip39Languages.FRENCH).Encode(e).ToStr()
    a = Bip39MnemonicDecoder().Decode(m).hex()
    if a != e.hex():
        rep("Decode(auto)(Encode(e)) != e", "FRENCH " + e.hex(), a, e.hex(), fid="F-autodetect")
    rpt.extra["impl_relation_checks"] = n
    return bad[:8]


def search_broken(broken, rng):
    """a table theorem failed: localise the word that differs from the pinned list and exhibit an entropy on which
    Encode now differs from the BIP-39 sentence of the registered list."""
    gdir = os.path.join(VERIF, "golden", "bip39")
    for lang in BIP39_LANGS:
        gold = [w for w in open(os.path.join(gdir, lang + ".txt"), encoding="utf-8").read().split("\n") if w]
        try:
            cur = words_of(lang)
        except Exception as ex:  # noqa
            return {"relation": "word list %s cannot be loaded: %s" % (lang, ex), "impl_output": type(ex).__name__, "model_output": "2048 words"}
        for i, (a, b) in enumerate(zip(cur, gold)):
            if a != b:
                v = (i << 121) | rng.getrandbits(121)
                ent = (v >> 4).to_bytes(16, "big")
                got = Bip39MnemonicEncoder(Bip39Languages[lang]).Encode(ent).ToStr()
                want = " ".join(spec_encode(gold, ent))
                if got != want:
                    return {"relation": "word %d of %s differs from the registered BIP-39 list: Encode(entropy) is not the BIP-39 sentence" % (i, lang),
                            "entry_point": "Bip39MnemonicEncoder.Encode", "input": ent.hex(), "impl_output": got, "model_output": want,
                            "request_lines": ["bip39enc %s %s" % (lang, hx(ent))]}
        if len(cur) != len(gold):
            return {"relation": "word list %s has %d entries" % (lang, len(cur)), "impl_output": str(len(cur)), "model_output": "2048"}
    return None
