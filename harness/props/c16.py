"""C16 — Monero keys, addresses and sub-addresses follow the Monero scheme."""
from harness.core import Case
from harness.canon import hx, tx, unhx, untx, exc_kind
from harness.props.c07 import pre_build
from bip_utils import Monero, MoneroCoins, XmrAddrDecoder, XmrIntegratedAddrDecoder

LEAN_MODULES = ["BipVerif.Props.C16", "BipVerif.Props.C04Group"]
L = 2**252 + 27742317777372353535851937790883648493
IDX = [0, 1, 2, 65536, 2**31, 2**32 - 1]


def opt(f):
    try:
        return f()
    except Exception as ex:  # noqa
        return "!" + exc_kind(ex)


def _wallet(kind, x, y, coin, minor, major, pid):
    out = _wallet_form(kind, x, y, coin, minor, major, pid, False)
    # the documented argument types are `bytes or key object`: the same keys given as objects must give the same wallet
    try:
        out_obj = _wallet_form(kind, x, y, coin, minor, major, pid, True)
    except _NoObjectForm:
        return out
    if out_obj != out:
        return "ARGUMENT-FORM-DEPENDENT bytes: %s | key objects: %s" % (out[:200], out_obj[:200])
    return out


class _NoObjectForm(Exception):
    pass


def _wallet_form(kind, x, y, coin, minor, major, pid, as_objects):
    from bip_utils import Ed25519PrivateKey, Ed25519MoneroPrivateKey, Ed25519MoneroPublicKey
    c = MoneroCoins[coin]

    def obj(cls, b):
        try:
            return cls.FromBytes(b)
        except Exception:  # noqa  (an invalid key has no object form; the bytes form reports the error)
            raise _NoObjectForm()
    if kind == "seed":
        if as_objects:
            raise _NoObjectForm()
        w = Monero.FromSeed(unhx(x), c)
    elif kind == "spend":
        w = Monero.FromPrivateSpendKey(obj(Ed25519MoneroPrivateKey, unhx(x)) if as_objects else unhx(x), c)
    elif kind == "bip44":
        w = Monero.FromBip44PrivateKey(obj(Ed25519PrivateKey, unhx(x)) if as_objects else unhx(x), c)
    else:
        w = Monero.FromWatchOnly(obj(Ed25519MoneroPrivateKey, unhx(x)), obj(Ed25519MoneroPublicKey, unhx(y)), c) if as_objects else Monero.FromWatchOnly(unhx(x), unhx(y), c)
    return " ".join([opt(lambda: hx(w.PrivateSpendKey().Raw().ToBytes())), hx(w.PrivateViewKey().Raw().ToBytes()),
                     hx(w.PublicSpendKey().RawCompressed().ToBytes()), hx(w.PublicViewKey().RawCompressed().ToBytes()),
                     opt(lambda: tx(w.PrimaryAddress())), opt(lambda: tx(w.Subaddress(int(minor), int(major)))),
                     opt(lambda: tx(w.IntegratedAddress(unhx(pid))))])


from harness.props.addr_common import IMPL as _ADDR_IMPL
IMPL = {"xmrwallet": _wallet, "addrdec": _ADDR_IMPL["addrdec"]}
COINS = [c.name for c in MoneroCoins]


def crafted_addresses(rng, tier):
    """addresses with correct length, network byte, payment id and Keccak checksum in which one of the two keys is not a curve point
    (built from the published layout with the library's hash and Monero Base58 codecs, not with the address classes)"""
    from bip_utils import Base58XmrEncoder, Ed25519MoneroPublicKey
    from bip_utils.utils.crypto import Kekkak256
    good, bad = [], []
    while len(good) < 2 or len(bad) < 2:
        b = bytes(rng.randrange(256) for _ in range(32))
        (good if Ed25519MoneroPublicKey.IsValidBytes(b) else bad).append(b)
    good = [Monero.FromSeed(bytes(rng.randrange(256) for _ in range(32))).PublicSpendKey().RawCompressed().ToBytes(), good[0]]
    for coin in MoneroCoins:
        conf = Monero.FromSeed(bytes(range(1, 33)), coin).CoinConf()
        for nv, pid in ((conf.AddrNetVersion(), None), (conf.SubaddrNetVersion(), None), (conf.IntegratedAddrNetVersion(), bytes(rng.randrange(256) for _ in range(8)))):
            for cls, sk, vk in (("crafted-valid", good[0], good[1]), ("neg-crafted-view-off-curve", good[0], bad[0]), ("neg-crafted-spend-off-curve", bad[1], good[1]),
                                ("neg-crafted-both-off-curve", bad[0], bad[1])):
                body = nv + sk + vk + (pid or b"")
                addr = Base58XmrEncoder.Encode(body + Kekkak256.QuickDigest(body)[:4])
                if pid is None:
                    yield Case("addrdec", ["xmr", tx(addr), "net_ver=" + hx(nv)], cls)
                else:
                    yield Case("addrdec", ["xmrint", tx(addr), "net_ver=" + hx(nv), "payment_id=" + hx(pid)], cls)


def gen(rng, tier):
    yield from crafted_addresses(rng, tier)
    # the same keys on every network, one after the other in one process: each wallet answers with its own network's version bytes
    for r in range(2 if tier == "quick" else 20):
        x = bytes(rng.randrange(256) for _ in range(32))
        pid = bytes(rng.randrange(256) for _ in range(8))
        order = list(COINS)
        rng.shuffle(order)
        for coin in order:
            yield Case("xmrwallet", [("seed", "bip44")[r % 2], hx(x), "-", coin, 1 + r, 2, hx(pid)], "same-keys-every-network")
    # private spend / view keys at every edge of the scalar range (little-endian; valid iff 0 < v < l), each network in turn
    for j, v in enumerate((1, 2, L - 2, L - 1, L, L + 1, L + 2, 2**252, 2**252 - 1, 2**253 - 1, 2**253, 2**255 - 19, 2**255, 2**256 - 1, 0, 8 * L, 2 * L - 1)):
        if v < 2**256:
            yield Case("xmrwallet", ["spend", hx(v.to_bytes(32, "little")), "-", COINS[j % len(COINS)], 1, 2, hx(bytes(8))], "spend-key-edge")
    n = 60 if tier == "quick" else 2500
    for i in range(n):
        coin = COINS[i % len(COINS)]
        minor = rng.choice(IDX + [rng.getrandbits(32)])
        major = rng.choice(IDX + [rng.getrandbits(32)])
        if i % 9 == 0:
            minor = rng.choice([2**32, 2**33])          # out of range
        pid = bytes(rng.randrange(256) for _ in range(8 if i % 13 else rng.choice([0, 7, 9])))
        kind = ["seed", "spend", "bip44", "watch"][i % 4]
        if kind == "seed":
            ln = rng.choice([32, 32, 16, 31, 33, 64, 0])
            x, y = bytes(rng.randrange(256) for _ in range(ln)), b""
        elif kind == "spend":
            v = rng.randrange(1, L) if i % 5 else rng.choice([L, L + 1, 2**256 - 1, L - 1, 1])
            x, y = v.to_bytes(32, "little"), b""
            if i % 17 == 0:
                x = x[:31]
        elif kind == "bip44":
            x, y = bytes(rng.randrange(256) for _ in range(32)), b""
        else:
            full = Monero.FromSeed(bytes(rng.randrange(256) for _ in range(32)))
            x = full.PrivateViewKey().Raw().ToBytes()
            y = full.PublicSpendKey().RawCompressed().ToBytes()
            if i % 11 == 0:
                y = bytes(rng.randrange(256) for _ in range(32))     # mostly not a point
        yield Case("xmrwallet", [kind, hx(x), hx(y), coin, minor, major, hx(pid)], "wallet-" + kind)


def relations(rng, tier, rpt):
    """watch-only == full wallet on every address; addresses decode back to the keys; view = H(spend) — implementation only."""
    bad = []
    n = 0

    def rep(what, inp, got, want):
        bad.append({"property": "C16", "entry_point": what, "request_lines": [], "relation": what, "input": inp,
                    "impl_output": got, "model_output": want, "no_failing_input": False})

    for i in range(12 if tier == "quick" else 300):
        coin = MoneroCoins[COINS[i % len(COINS)]]
        seed = bytes(rng.randrange(256) for _ in range(32))
        full = Monero.FromSeed(seed, coin)
        wo = Monero.FromWatchOnly(full.PrivateViewKey().Raw().ToBytes(), full.PublicSpendKey().RawCompressed().ToBytes(), coin)
        pid = bytes(rng.randrange(256) for _ in range(8))
        for mi, ma in ((0, 0), (1, 0), (0, 1), (rng.getrandbits(32), rng.getrandbits(32)), (2**32 - 1, 2**32 - 1)):
            n += 1
            a, b = full.Subaddress(mi, ma), wo.Subaddress(mi, ma)
            if a != b:
                rep("watch-only sub-address differs from the full wallet's", "%s (%d,%d)" % (seed.hex(), mi, ma), b, a)
            nv = coin and full.CoinConf().AddrNetVersion() if (mi, ma) == (0, 0) else full.CoinConf().SubaddrNetVersion()
            dec = XmrAddrDecoder.DecodeAddr(a, net_ver=nv)
            if (mi, ma) == (0, 0) and dec != full.PublicSpendKey().RawCompressed().ToBytes() + full.PublicViewKey().RawCompressed().ToBytes():
                rep("primary address does not decode back to the keys", seed.hex(), dec.hex(), "spend||view")
        if full.IntegratedAddress(pid) != wo.IntegratedAddress(pid):
            rep("watch-only integrated address differs", seed.hex(), wo.IntegratedAddress(pid), full.IntegratedAddress(pid))
        d = XmrIntegratedAddrDecoder.DecodeAddr(full.IntegratedAddress(pid), net_ver=full.CoinConf().IntegratedAddrNetVersion(), payment_id=pid)
        if d != full.PublicSpendKey().RawCompressed().ToBytes() + full.PublicViewKey().RawCompressed().ToBytes():
            rep("integrated address does not decode back to the keys", seed.hex(), d.hex(), "spend||view")
        try:
            wo.PrivateSpendKey()
            rep("watch-only wallet reveals a private spend key", seed.hex(), "ok", "MoneroKeyError")
        except Exception as ex:  # noqa
            if exc_kind(ex) != "Key":
                rep("watch-only PrivateSpendKey raises the wrong error", seed.hex(), exc_kind(ex), "Key")
    # one wallet object asked for several payment ids and (minor, major) pairs, repeated and interleaved: every answer equals a fresh wallet's
    for i in range(4 if tier == "quick" else 60):
        coin = MoneroCoins[COINS[i % len(COINS)]]
        seed = bytes(rng.randrange(256) for _ in range(32))
        mk = (lambda: Monero.FromSeed(seed, coin)) if i % 2 == 0 else \
            (lambda: (lambda f: Monero.FromWatchOnly(f.PrivateViewKey().Raw().ToBytes(), f.PublicSpendKey().RawCompressed().ToBytes(), coin))(Monero.FromSeed(seed, coin)))
        shared = mk()
        pids = [bytes(rng.randrange(256) for _ in range(8)) for _ in range(3)]
        calls = [("int", pids[0]), ("sub", (1, 2)), ("int", pids[1]), ("sub", (2, 1)), ("int", pids[0]), ("sub", (1, 2)), ("int", pids[2]), ("sub", (0, 0)), ("sub", (1, 1))]
        for kind, arg in calls:
            n += 1
            got = shared.IntegratedAddress(arg) if kind == "int" else shared.Subaddress(*arg)
            fresh = mk()
            want = fresh.IntegratedAddress(arg) if kind == "int" else fresh.Subaddress(*arg)
            if got != want:
                rep("Monero wallet: the answer for %s depends on what the same wallet object was asked before" % ("IntegratedAddress(payment id)" if kind == "int" else "Subaddress(minor, major)"),
                    "%s %s after %s" % (seed.hex(), arg.hex() if kind == "int" else arg, [c[0] for c in calls]), got, want)
                break
    # wallets with the same keys on different networks alive together: each one's addresses decode under its OWN version bytes
    for i in range(2 if tier == "quick" else 30):
        seed = bytes(rng.randrange(256) for _ in range(32))
        pid = bytes(rng.randrange(256) for _ in range(8))
        ws = [Monero.FromSeed(seed, MoneroCoins[c]) for c in COINS]
        ws += [Monero.FromWatchOnly(w.PrivateViewKey().Raw().ToBytes(), w.PublicSpendKey().RawCompressed().ToBytes(), w.CoinConf() and MoneroCoins[c]) for w, c in zip(ws[:3], COINS[1:] + COINS[:1])]
        for w in ws:
            n += 1
            conf = w.CoinConf()
            for what, addr, dec in (("PrimaryAddress()", opt(lambda: w.PrimaryAddress()), lambda a: XmrAddrDecoder.DecodeAddr(a, net_ver=conf.AddrNetVersion())),
                                    ("Subaddress(1, 2)", opt(lambda: w.Subaddress(1, 2)), lambda a: XmrAddrDecoder.DecodeAddr(a, net_ver=conf.SubaddrNetVersion())),
                                    ("IntegratedAddress(pid)", opt(lambda: w.IntegratedAddress(pid)),
                                     lambda a: XmrIntegratedAddrDecoder.DecodeAddr(a, net_ver=conf.IntegratedAddrNetVersion(), payment_id=pid))):
                r = opt(lambda: dec(addr).hex())
                if r.startswith("!"):
                    rep("with wallets of the same keys on several networks alive, %s of the %s wallet does not decode under its own network version" % (what, conf.CoinNames().Name()),
                        "%s pid=%s" % (seed.hex(), pid.hex()), "%s -> %s" % (addr, r), "decodes to the wallet's keys")
    # output-dependent: integrated addresses one of whose 8-byte Base58 blocks is all 0xff (public view key ending in 0xff and a
    # payment id starting with seven 0xff bytes share block 8); they must decode back like any other
    found = 0
    for j in range(4000):
        seed = rng.getrandbits(256).to_bytes(32, "big")
        w = Monero.FromSeed(seed)
        if w.PublicViewKey().RawCompressed().ToBytes()[-1] == 0xff:
            pid = b"\xff" * 7 + bytes([rng.randrange(256)])
            addr = w.IntegratedAddress(pid)
            n += 1
            try:
                d = XmrIntegratedAddrDecoder.DecodeAddr(addr, net_ver=w.CoinConf().IntegratedAddrNetVersion(), payment_id=pid)
                if d != w.PublicSpendKey().RawCompressed().ToBytes() + w.PublicViewKey().RawCompressed().ToBytes():
                    rep("integrated address with an all-0xff Base58 block decodes to different keys", seed.hex(), d.hex(), "spend||view")
            except Exception as ex:  # noqa
                rep("integrated address with an all-0xff Base58 block is refused by its own decoder", "%s pid=%s %s" % (seed.hex(), pid.hex(), addr), type(ex).__name__, "spend||view")
            found += 1
            if found == (1 if tier == "quick" else 5):
                break
    rpt.extra["impl_relation_checks"] = n
    bad = bad[:6]
    bad += _short_lived_wallets(rng, tier, rpt)
    bad = bad[:9]
    bad += _one_wallet_many_threads(rng, tier, rpt)
    return bad[:12]


# ---- the Monero scheme recomputed with libsodium (PyNaCl bindings) and pycryptodome's Keccak: no bip_utils code, no state
_XMR_B58 = "123456789ABCDEFGHJKLMNPQRSTUVWXYZabcdefghijkmnopqrstuvwxyz"
_XMR_BLOCK = [0, 2, 3, 5, 6, 7, 9, 10, 11]


def _keccak256(b):
    from Crypto.Hash import keccak
    return keccak.new(data=b, digest_bits=256).digest()


def _xmr_b58(data):
    out = ""
    for i in range(0, len(data), 8):
        blk = data[i:i + 8]
        v, s = int.from_bytes(blk, "big"), ""
        while v:
            v, r = divmod(v, 58)
            s = _XMR_B58[r] + s
        out += s.rjust(_XMR_BLOCK[len(blk)], "1")
    return out


def _sc_reduce(b32):
    from nacl import bindings
    return bindings.crypto_core_ed25519_scalar_reduce(b32 + bytes(32))


def _ref_address(net_ver, priv_vkey, pub_skey, minor, major, payment_id=None):
    """primary address (0, 0): net || B || a*G; sub-address: D = B + Hs("SubAddr\\0" || a || major || minor)*G, net || D || a*D;
    integrated: net || B || A || payment id; all followed by the first 4 bytes of Keccak-256 and Monero-Base58 encoded"""
    from nacl import bindings
    if (minor, major) == (0, 0):
        d, c = pub_skey, bindings.crypto_scalarmult_ed25519_base_noclamp(priv_vkey)
    else:
        m = _sc_reduce(_keccak256(b"SubAddr\x00" + priv_vkey + major.to_bytes(4, "little") + minor.to_bytes(4, "little")))
        d = bindings.crypto_core_ed25519_add(pub_skey, bindings.crypto_scalarmult_ed25519_base_noclamp(m))
        c = bindings.crypto_scalarmult_ed25519_noclamp(priv_vkey, d)
    body = net_ver + d + c + (payment_id or b"")
    return _xmr_b58(body + _keccak256(body)[:4])


def _short_lived_wallets(rng, tier, rpt):
    """An address depends on the wallet's keys, its network and the (account, index) pair / payment id — not on which wallets existed
    before in the process. Many wallets are created one after the other (every constructor, every network, fresh keys each), each is asked
    ONE kind of question with arguments that recur from wallet to wallet, and is dropped before the next one is made (a service deriving a
    deposit address per user). Every answer is compared with the scheme recomputed from the seed / keys outside the library."""
    import gc
    from nacl import bindings
    bad = []

    def rep(what, inp, got, want):
        bad.append({"property": "C16", "entry_point": what, "request_lines": [], "relation": what, "input": inp,
                    "impl_output": got, "model_output": want, "no_failing_input": False})

    nets = {}
    for c in MoneroCoins:
        conf = Monero.FromSeed(bytes(range(1, 33)), c).CoinConf()
        nets[c] = (conf.AddrNetVersion(), conf.SubaddrNetVersion(), conf.IntegratedAddrNetVersion())
    pairs = [(1, 0), (0, 1), (1, 2), (2**32 - 1, 2**31)]
    pids = [bytes(8), bytes(range(8))]
    coins = list(MoneroCoins)
    n_wallets = 240 if tier == "quick" else 6000
    n_obs = 0
    reported = set()
    for i in range(n_wallets):
        coin = coins[rng.randrange(len(coins))]
        seed = bytes(rng.randrange(256) for _ in range(32))
        spend = _sc_reduce(seed)
        view = _sc_reduce(_keccak256(spend))
        pub_s = bindings.crypto_scalarmult_ed25519_base_noclamp(spend)
        ctor = ("FromSeed", "FromPrivateSpendKey", "FromWatchOnly")[rng.randrange(3)]
        w = Monero.FromSeed(seed, coin) if ctor == "FromSeed" else Monero.FromPrivateSpendKey(spend, coin) if ctor == "FromPrivateSpendKey" else Monero.FromWatchOnly(view, pub_s, coin)
        # mostly sub-addresses only (the wallet is then held by nothing but this loop), some integrated-only and primary-only users
        service = ("sub", "sub", "sub", "sub", "int", "prim")[i % 6]
        asks = []
        if service == "sub":
            k = rng.randrange(len(pairs))
            asks = [("Subaddress%s" % (pairs[j],), lambda j=j: w.Subaddress(*pairs[j]), _ref_address(nets[coin][1], view, pub_s, *pairs[j])) for j in (k, (k + 1) % len(pairs))]
            if i % 12 == 1:      # the one-argument form: the account defaults to 0
                asks.append(("Subaddress(1)", lambda: w.Subaddress(1), _ref_address(nets[coin][1], view, pub_s, 1, 0)))
        elif service == "int":
            pid = pids[rng.randrange(len(pids))]
            asks = [("IntegratedAddress(%s)" % pid.hex(), lambda: w.IntegratedAddress(pid), _ref_address(nets[coin][2], view, pub_s, 0, 0, pid))]
        else:
            asks = [("PrimaryAddress()", lambda: w.PrimaryAddress(), _ref_address(nets[coin][0], view, pub_s, 0, 0)),
                    ("Subaddress(0, 0)", lambda: w.Subaddress(0, 0), _ref_address(nets[coin][0], view, pub_s, 0, 0))]
        for what, f, want in asks:
            n_obs += 1
            got = opt(f)
            if got != want and (service, what) not in reported:
                reported.add((service, what))
                rep("Monero.%s of a wallet created after other wallets were used and dropped is not the scheme's address for this wallet's keys and network" % what,
                    "wallet #%d of the loop: Monero.%s(%s, %s), asked only %s" % (i, ctor, seed.hex() if ctor != "FromWatchOnly" else "view=%s, spend_pub=%s" % (view.hex(), pub_s.hex()),
                                                                                   coin.name, [a[0] for a in asks]), got, want)
        w = asks = f = None          # the wallet is dropped here
        if i % 40 == 39:
            gc.collect()
    rpt.extra["short_lived_wallets"] = n_wallets
    rpt.extra["short_lived_wallet_observations"] = n_obs
    return bad[:3]


def _one_wallet_many_threads(rng, tier, rpt):
    """"For every (account, index) pair" holds for every CALL: an address depends on the wallet's keys, its network and the arguments of the
    call, not on what other threads ask the same object at the same moment. ONE wallet object (full wallet, watch-only wallet, and the public
    `MoneroSubaddress` helper on its own) is shared by several threads that are released together (barrier, minimal switch interval); each
    thread asks for its OWN, not yet answered (account, index) pairs — sharing accounts and indexes with the other threads' pairs, so that
    any mixture of two calls' arguments is itself a legitimate pair — interleaved with integrated and primary addresses. Every answer is
    compared with the scheme recomputed outside the library (libsodium + Keccak) before the threads start; a fresh object per round."""
    import sys, threading
    from nacl import bindings
    from bip_utils import MoneroSubaddress, MoneroPrivateKey, MoneroPublicKey
    bad = []

    def rep(what, inp, got, want):
        bad.append({"property": "C16", "entry_point": what, "request_lines": [], "relation": what, "input": inp,
                    "impl_output": got, "model_output": want, "no_failing_input": False})

    n_threads = 6
    per_thread = 60 if tier == "quick" else 400
    coins = list(MoneroCoins)
    kinds = ["Monero.FromSeed", "Monero.FromWatchOnly", "MoneroSubaddress"]
    if tier != "quick":
        kinds = kinds * 3 + ["Monero.FromPrivateSpendKey"]
    n_obs = 0
    old = sys.getswitchinterval()
    for rnd, kind in enumerate(kinds):
        coin = coins[rng.randrange(len(coins))]
        conf = Monero.FromSeed(bytes(range(1, 33)), coin).CoinConf()
        nv_prim, nv_sub, nv_int = conf.AddrNetVersion(), conf.SubaddrNetVersion(), conf.IntegratedAddrNetVersion()
        seed = bytes(rng.getrandbits(8) for _ in range(32))
        spend = _sc_reduce(seed)
        view = _sc_reduce(_keccak256(spend))
        pub_s = bindings.crypto_scalarmult_ed25519_base_noclamp(spend)
        if kind == "Monero.FromSeed":
            obj = Monero.FromSeed(seed, coin)
        elif kind == "Monero.FromPrivateSpendKey":
            obj = Monero.FromPrivateSpendKey(spend, coin)
        elif kind == "Monero.FromWatchOnly":
            obj = Monero.FromWatchOnly(view, pub_s, coin)
        else:
            obj = MoneroSubaddress(MoneroPrivateKey.FromBytes(view), MoneroPublicKey.FromBytes(pub_s))
        # accounts and indexes drawn from small shared pools (plus the range edges): thread t's pairs are distinct from every other thread's,
        # yet each of its accounts / indexes also occurs in other threads' pairs
        majors = [1, 2, 3, 2**16, 2**31, 2**32 - 1, 0] + [rng.getrandbits(32) for _ in range(3)]
        base = rng.randrange(1, 1000)
        jobs = []
        for t in range(n_threads):
            mine = []
            for i in range(per_thread):
                major = majors[(i + t) % len(majors)]
                minor = base + (i * n_threads + t if i % 5 else i)          # every fifth index is asked by all threads, under different accounts
                if kind == "MoneroSubaddress":
                    if i % 2:
                        mine.append(("ComputeAndEncodeKeys(minor=%d, major=%d, subaddress net version)" % (minor, major),
                                     lambda mi=minor, ma=major: obj.ComputeAndEncodeKeys(mi, ma, nv_sub), _ref_address(nv_sub, view, pub_s, minor, major)))
                    else:
                        def keys(mi=minor, ma=major):
                            d, c = obj.ComputeKeys(mi, ma)
                            body = nv_sub + d.RawCompressed().ToBytes() + c.RawCompressed().ToBytes()
                            return _xmr_b58(body + _keccak256(body)[:4])
                        mine.append(("ComputeKeys(minor=%d, major=%d) (the two keys, laid out as an address)" % (minor, major), keys, _ref_address(nv_sub, view, pub_s, minor, major)))
                elif i % 11 == 7:
                    pid = bytes([t]) + bytes(rng.getrandbits(8) for _ in range(7))
                    mine.append(("IntegratedAddress(%s)" % pid.hex(), lambda pid=pid: obj.IntegratedAddress(pid), _ref_address(nv_int, view, pub_s, 0, 0, pid)))
                elif i % 23 == 5:
                    mine.append(("PrimaryAddress()", lambda: obj.PrimaryAddress(), _ref_address(nv_prim, view, pub_s, 0, 0)))
                else:
                    mine.append(("Subaddress(minor=%d, major=%d)" % (minor, major), lambda mi=minor, ma=major: obj.Subaddress(mi, ma),
                                 _ref_address(nv_sub, view, pub_s, minor, major)))
            # a (major, minor) pair never occurs twice, in one thread or across threads (a repeated pair would be answered from the first answer)
            jobs.append(mine)
        seen_names = set()
        for t in range(n_threads):
            jobs[t] = [j for j in jobs[t] if j[0].startswith(("Primary", "Integrated")) or not (j[0] in seen_names or seen_names.add(j[0]))]
        results = [[None] * len(jobs[t]) for t in range(n_threads)]
        bar = threading.Barrier(n_threads)

        def worker(t):
            bar.wait()
            for i, (_what, f, _want) in enumerate(jobs[t]):
                try:
                    results[t][i] = f()
                except Exception as ex:  # noqa
                    results[t][i] = "raised %s: %s" % (type(ex).__name__, str(ex)[:80])
        sys.setswitchinterval(1e-6)
        try:
            ths = [threading.Thread(target=worker, args=(t,)) for t in range(n_threads)]
            for th in ths:
                th.start()
            for th in ths:
                th.join()
        finally:
            sys.setswitchinterval(old)
        wrong = [(t, i) for t in range(n_threads) for i in range(len(jobs[t])) if results[t][i] != jobs[t][i][2]]
        n_obs += sum(len(j) for j in jobs)
        if wrong:
            t, i = wrong[0]
            what, _f, want = jobs[t][i]
            other = [jj[0] for tt in range(n_threads) for jj in jobs[tt] if tt != t and jj[2] == results[t][i]]
            rep("%s shared by %d threads: %s answered to one thread is not the scheme's address for the wallet's keys and these arguments (%d of %d concurrent answers wrong%s)"
                % (kind, n_threads, what.split("(")[0], len(wrong), sum(len(j) for j in jobs), "; it is the answer to another thread's %s" % other[0] if other else ""),
                "%s %s, thread %d call #%d: %s" % (kind, ("seed=" + seed.hex()) if kind != "Monero.FromWatchOnly" and kind != "MoneroSubaddress" else "view=%s spend_pub=%s" % (view.hex(), pub_s.hex()),
                                                     t, i, what), str(results[t][i]), want)
    rpt.extra["shared_wallet_thread_observations"] = n_obs
    return bad[:3]
