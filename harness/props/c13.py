"""C13 — BIP-38 encryption and WIF round-trip and match the standard."""
import unicodedata
from harness.core import Case
from harness.canon import hx, tx, unhx, untx
from harness.props.bip32_common import IMPL as B32_IMPL
from harness.props.addr_common import rand_priv
from bip_utils import (Bip38Encrypter, Bip38Decrypter, Bip38PubKeyModes, Base58Encoder, Base58Decoder, WifEncoder, WifDecoder, WifPubKeyModes)
from bip_utils.bip.bip38 import bip38_ec
from bip_utils.bip.bip38.bip38_ec import Bip38EcKeysGenerator

LEAN_MODULES = ["BipVerif.Props.C13Wif", "BipVerif.Props.C13", "BipVerif.Props.C13Group"]
PASS = {}
PASSPHRASES = ["TestingOneTwoThree", "Satoshi", "", "MOLON LABE", "ΜΟΛΩΝ ΛΑΒΕ", "é", "é", "Å", "Å", "\u03d2\u0301\x00\U00010400\U0001f4a9", "a\x00b", "ﬁ", "pass phrase 🙂"]


def nfc_field(p):
    f = hx(unicodedata.normalize("NFC", p).encode("utf-8"))
    PASS.setdefault(f, [])
    if p not in PASS[f]:
        PASS[f].append(p)
    return f


class FakeOs:
    """deterministic stand-in for the `os` module object referenced by bip38_ec (only urandom is used)."""
    def __init__(self, chunks):
        self.chunks = list(chunks)

    def urandom(self, n):
        c = self.chunks.pop(0)
        assert len(c) == n, (len(c), n)
        return c


def with_urandom(chunks, f):
    real = bip38_ec.os
    bip38_ec.os = FakeOs(chunks)
    try:
        return f()
    finally:
        bip38_ec.os = real


def mode(c):
    return Bip38PubKeyModes.COMPRESSED if c == "1" else Bip38PubKeyModes.UNCOMPRESSED


def _pick(p):
    # any spelling of the passphrase with this NFC form (the last registered: exercises NFD inputs)
    return PASS[p][-1]


def _dec_out(r):
    return hx(r[0]) + " " + ("1" if r[1] == Bip38PubKeyModes.COMPRESSED else "0")


IMPL = {
    "b38noecenc": lambda k, p, c: tx(Bip38Encrypter.EncryptNoEc(unhx(k), _pick(p), mode(c))),
    "b38noecdec": lambda e, p: _dec_out(Bip38Decrypter.DecryptNoEc(untx(e), _pick(p))),
    "b38int": lambda p, s, lot, seq: tx(with_urandom([unhx(s)], lambda: Bip38EcKeysGenerator.GenerateIntermediatePassphrase(
        _pick(p), None if lot == "-" else int(lot), None if seq == "-" else int(seq)))),
    "b38ecgen": lambda i, s, c: tx(with_urandom([unhx(s)], lambda: Bip38EcKeysGenerator.GeneratePrivateKey(untx(i), mode(c)))),
    "b38ecdec": lambda e, p: _dec_out(Bip38Decrypter.DecryptEc(untx(e), _pick(p))),
    "wifenc": B32_IMPL["wifenc"], "wifdec": B32_IMPL["wifdec"],
}

VECTORS_NOEC = [("6PRVWUbkzzsbcVac2qwfssoUJAN1Xhrg6bNk8J7Nzm5H7kxEbn2Nh2ZoGg", "TestingOneTwoThree"), ("6PRNFFkZc2NZ6dJqFfhRoFNMR9Lnyj7dYGrzdgXXVMXcxoKTePPX1dWByq", "Satoshi"),
                ("6PYNKZ1EAgYgmQfmNVamxyXVWHzK5s6DGhwP4J5o44cvXdoY7sRzhtpUeo", "TestingOneTwoThree"), ("6PYLtMnXvfG3oJde97zRyLYFZCYizPU5T3LwgdYJz1fRhh16bU7u6PPmY7", "Satoshi"),
                ("6PRW5o9FLp4gJDDVqJQKJFTpMvdsSGJxMYHtHaQBF3ooa8mwD69bapcDQn", "\u03d2\u0301\x00\U00010400\U0001f4a9")]
VECTORS_EC = [("6PfQu77ygVyJLZjfvMLyhLMQbYnu5uguoJJ4kMCLqWwPEdfpwANVS76gTX", "TestingOneTwoThree"), ("6PfLGnQs6VZnrNpmVKfjotbnQuaJK4KZoPFrAjx1JMJUa1Ft8gnf5WxfKd", "Satoshi"),
              ("6PgNBNNzDkKdhkT6uJntUXwwzQV8Rr2tZcbkDcuC9DZRsS6AtHts4Ypo1j", "MOLON LABE"), ("6PgGWtx25kUg8QWvwuJAgorN6k9FbE25rv5dMRwu5SKMnfpfVe5mar2ngH", "ΜΟΛΩΝ ΛΑΒΕ")]


def gen(rng, tier):
    for e, p in VECTORS_NOEC:
        yield Case("b38noecdec", [tx(e), nfc_field(p)], "vector")
        yield Case("b38noecdec", [tx(e), nfc_field(unicodedata.normalize("NFD", p))], "vector-nfd")
    for e, p in VECTORS_EC:
        yield Case("b38ecdec", [tx(e), nfc_field(p)], "vector")
    n = 3 if tier == "quick" else 120
    for i in range(n):
        k = rand_priv(rng, "secp256k1")
        p = PASSPHRASES[(11, 9, 5, 0)[i] if i < 4 else i % len(PASSPHRASES)]   # compatibility ligature, the BIP-38 Unicode vector, an accent, ASCII first
        c = str(i % 2)
        pf = nfc_field(p if i % 3 else unicodedata.normalize("NFD", p))
        yield Case("b38noecenc", [hx(k), pf, c], "noec-enc")
        enc = Bip38Encrypter.EncryptNoEc(k, p, mode(c))
        yield Case("b38noecdec", [tx(enc), pf], "noec-dec")
        if i % 2 == 0:
            yield Case("b38noecdec", [tx(enc), nfc_field(p + "x")], "neg-wrongpass")
        # single-field corruptions with a recomputed Base58 checksum
        raw = bytearray(Base58Decoder.CheckDecode(enc))
        field = [0, 1, 2, rng.randrange(3, 7), rng.randrange(7, 23), rng.randrange(23, 39)][i % 6]
        raw[field] ^= 1 << rng.randrange(8)
        yield Case("b38noecdec", [tx(Base58Encoder.CheckEncode(bytes(raw))), pf], "neg-corrupt")
        yield Case("b38noecdec", [tx(Base58Encoder.CheckEncode(bytes(raw[:-1]))), pf], "neg-corrupt")
        # the compression flag flipped (0xC0 <-> 0xE0): the embedded address hash is the one of the other public key form
        raw2 = bytearray(Base58Decoder.CheckDecode(enc))
        raw2[2] ^= 0x20
        yield Case("b38noecdec", [tx(Base58Encoder.CheckEncode(bytes(raw2))), pf], "neg-flag-flip")
    yield Case("b38noecenc", [hx(bytes(32)), nfc_field("x"), "1"], "neg-key")
    yield Case("b38noecenc", [hx(b"\xff" * 32), nfc_field("x"), "0"], "neg-key")
    m = 2 if tier == "quick" else 80
    for i in range(m):
        p = PASSPHRASES[(i * 5) % len(PASSPHRASES)]
        pf = nfc_field(p)
        with_lot = i % 2 == 0
        lot, seq = (rng.choice([0, 1, 1048575, rng.randrange(1048576)]), rng.choice([0, 1, 4095, rng.randrange(4096)])) if with_lot else ("-", "-")
        salt = bytes(rng.randrange(256) for _ in range(4 if with_lot else 8))
        yield Case("b38int", [pf, hx(salt), lot, seq], "ec-int")
        ip = with_urandom([salt], lambda: Bip38EcKeysGenerator.GenerateIntermediatePassphrase(p, None if lot == "-" else lot, None if seq == "-" else seq))
        seedb = bytes(rng.randrange(256) for _ in range(24))
        c = str(i % 2)
        yield Case("b38ecgen", [tx(ip), hx(seedb), c], "ec-gen")
        enc = with_urandom([seedb], lambda: Bip38EcKeysGenerator.GeneratePrivateKey(ip, mode(c)))
        yield Case("b38ecdec", [tx(enc), pf], "ec-dec")
        raw = bytearray(Base58Decoder.CheckDecode(enc))
        raw[[2, 2, 5, 9, 17, 30][i % 6]] ^= [0x08, 0x40, 1, 1, 1, 1][i % 6]
        yield Case("b38ecdec", [tx(Base58Encoder.CheckEncode(bytes(raw))), pf], "neg-corrupt")
    # directed, output-dependent: seedb chosen (with an independent scrypt/SHA-256 computation) so that the generated private key
    # passfactor * factorb mod n has leading zero bytes
    import hashlib
    N_SECP = 0xFFFFFFFFFFFFFFFFFFFFFFFFFFFFFFFEBAAEDCE6AF48A03BBFD25E8CD0364141
    for i in range(1 if tier == "quick" else 12):
        p = PASSPHRASES[(i * 3) % 3]
        pf = nfc_field(p)
        with_lot = i % 2 == 1
        lot, seq = (rng.randrange(1048576), rng.randrange(4096)) if with_lot else ("-", "-")
        salt = bytes(rng.randrange(256) for _ in range(4 if with_lot else 8))
        ip = with_urandom([salt], lambda: Bip38EcKeysGenerator.GenerateIntermediatePassphrase(p, None if lot == "-" else lot, None if seq == "-" else seq))
        pw = unicodedata.normalize("NFC", p).encode("utf-8")
        pre = hashlib.scrypt(pw, salt=salt, n=16384, r=8, p=8, dklen=32, maxmem=64 * 1024 * 1024)
        if with_lot:
            ent = salt + (lot * 4096 + seq).to_bytes(4, "big")
            pre = hashlib.sha256(hashlib.sha256(pre + ent).digest()).digest()
        pfac = int.from_bytes(pre, "big")
        for ctr in range(100000):
            seedb = ctr.to_bytes(4, "big") + bytes(20)
            fb = int.from_bytes(hashlib.sha256(hashlib.sha256(seedb).digest()).digest(), "big")
            if (pfac * fb) % N_SECP < 2**248:
                break
        c = str(i % 2)
        yield Case("b38ecgen", [tx(ip), hx(seedb), c], "ec-gen-leading-zero")
        enc = with_urandom([seedb], lambda: Bip38EcKeysGenerator.GeneratePrivateKey(ip, mode(c)))
        yield Case("b38ecdec", [tx(enc), pf], "ec-dec-leading-zero")
    # inputs on which a 16-byte block handled by AES has a padding-like tail (pinned no-EC inputs, searched seedb values)
    yield from padlike_cases(rng, tier)
    # crafted ciphertexts (scrypt + AES by hand): a well-formed, correctly checksummed no-EC string whose decrypted payload is not a
    # private key (0, n, n + k, 2^256 - 1) with the address hash of payload mod n: only ValueError is an acceptable answer
    from Crypto.Cipher import AES
    from bip_utils import P2PKHAddrEncoder, P2PKHPubKeyModes, Secp256k1PrivateKey
    for i, v in enumerate((N_SECP + 1, 2**256 - 1, N_SECP, 0, N_SECP + rng.randrange(2, 2**128))[:3 if tier == "quick" else 5]):
        p = PASSPHRASES[i % 3]
        compressed = i % 2 == 0
        red = v % N_SECP or 1
        pub = Secp256k1PrivateKey.FromBytes(red.to_bytes(32, "big")).PublicKey()
        addr = P2PKHAddrEncoder.EncodeKey(pub, net_ver=b"\x00", pub_key_mode=P2PKHPubKeyModes.COMPRESSED if compressed else P2PKHPubKeyModes.UNCOMPRESSED)
        ah = hashlib.sha256(hashlib.sha256(addr.encode()).digest()).digest()[:4]
        dk = hashlib.scrypt(unicodedata.normalize("NFC", p).encode("utf-8"), salt=ah, n=16384, r=8, p=8, dklen=64, maxmem=64 * 1024 * 1024)
        x = bytes(a ^ b for a, b in zip(v.to_bytes(32, "big"), dk[:32]))
        aes = AES.new(dk[32:], AES.MODE_ECB)
        raw = b"\x01\x42" + bytes([0xe0 if compressed else 0xc0]) + ah + aes.encrypt(x[:16]) + aes.encrypt(x[16:])
        yield Case("b38noecdec", [tx(Base58Encoder.CheckEncode(raw)), nfc_field(p)], "neg-crafted-out-of-range")
    for lot, seq in ((1048576, 0), (0, 4096), (2**40, 1)):
        yield Case("b38int", [nfc_field("p"), hx(bytes(4)), lot, seq], "neg-lotseq")
    # WIF over every WIF version byte of the coin tables
    from harness.props.c05 import key_net_versions
    from bip_utils.coin_conf import CoinsConf
    from bip_utils.coin_conf.coin_conf import CoinConf
    from harness.canon import conf_params
    wifs = sorted({conf_params(getattr(CoinsConf, n))["wif_net_ver"] for n in dir(CoinsConf)
                   if isinstance(getattr(CoinsConf, n), CoinConf) and "wif_net_ver" in conf_params(getattr(CoinsConf, n))})
    for i in range(300 if tier == "quick" else 20000):
        v = wifs[i % len(wifs)]
        k = rand_priv(rng, "secp256k1")
        if i % 10 == 3:
            k = k[:-1] + b"\x01"          # a key ending with the value of the compression suffix
        elif i % 10 == 7:
            k = b"\x00" + k[1:]
        c = str(i % 2)
        yield Case("wifenc", [hx(k), hx(v), c], "wif-enc")
        s = WifEncoder.Encode(k, v, WifPubKeyModes.COMPRESSED if c == "1" else WifPubKeyModes.UNCOMPRESSED)
        yield Case("wifdec", [tx(s), hx(v)], "wif-dec")
        if i % 7 == 0:
            yield Case("wifdec", [tx(s), hx(bytes([v[0] ^ 1]))], "neg-wif-ver")
        if i % 11 == 0:   # payload classes: 33 bytes ending in 0x02, 31 bytes, key >= n, empty
            for pl in (k + b"\x02", k[:31], b"\xff" * 32, b"\xff" * 32 + b"\x01", b"", k + b"\x01\x01"):
                yield Case("wifdec", [tx(Base58Encoder.CheckEncode(v + pl)), hx(v)], "neg-wif-payload")


def relations(rng, tier, rpt):
    """WIF through the key objects of the hierarchy classes: both compression modes asked of ONE object, in both orders, each answer
    equal to the encoder's and decoding back to (key, mode)."""
    from bip_utils import Bip44, Bip49, Bip84, Bip44Coins, Bip49Coins, Bip84Coins
    bad = []
    n = 0
    for cls, coin in ((Bip44, Bip44Coins.BITCOIN), (Bip44, Bip44Coins.DOGECOIN), (Bip49, Bip49Coins.LITECOIN), (Bip84, Bip84Coins.BITCOIN), (Bip44, Bip44Coins.DASH), (Bip44, Bip44Coins.BITCOIN_TESTNET)):
        for i in range(2 if tier == "quick" else 20):
            seed = bytes(rng.randrange(256) for _ in range(32))
            b = cls.FromSeed(seed, coin)
            objs = [b.PrivateKey(), b.DeriveDefaultPath().PrivateKey()]
            for pk in objs:
                modes = [None, WifPubKeyModes.UNCOMPRESSED, WifPubKeyModes.COMPRESSED, WifPubKeyModes.UNCOMPRESSED]
                if i % 2:
                    modes.reverse()
                for md in modes:
                    n += 1
                    w = pk.ToWif() if md is None else pk.ToWif(md)
                    want_mode = WifPubKeyModes.COMPRESSED if md is None else md
                    k, gm = WifDecoder.Decode(w, Base58Decoder.CheckDecode(w)[:1])
                    ref = WifEncoder.Encode(pk.Raw().ToBytes(), Base58Decoder.CheckDecode(w)[:1], want_mode)
                    if k != pk.Raw().ToBytes() or gm != want_mode or w != ref:
                        bad.append({"property": "C13", "entry_point": "%s[%s] PrivateKey().ToWif" % (cls.__name__, coin.name), "request_lines": [],
                                    "relation": "ToWif(mode) of a key object asked for several modes does not round-trip to (key, mode)",
                                    "input": "%s modes=%s at %s" % (seed.hex(), [str(m) for m in modes], want_mode), "impl_output": "%s -> %s %s" % (w, k.hex(), gm),
                                    "model_output": "%s -> %s %s" % (ref, pk.Raw().ToHex(), want_mode), "no_failing_input": False})
                        break
    rpt.extra["key_object_wif_checks"] = n
    # the one-call wrapper Bip38Encrypter.GeneratePrivateKeyEc equals the two documented steps on the same random bytes, for every
    # presence / value pattern of lot and sequence numbers (zero is a legitimate number, distinct from "absent")
    from bip_utils import Bip38Encrypter
    nw = 0
    pairs = [(None, None), (0, 0), (0, 4095), (1048575, 0), (1, 0), (0, 1), (7, 9)]
    for lot, seq in pairs if tier == "quick" else pairs + [(rng.randrange(1048576), rng.randrange(4096)) for _ in range(6)]:
        salt = bytes(rng.randrange(256) for _ in range(8 if lot is None else 4))
        seedb = bytes(rng.randrange(256) for _ in range(24))
        md = Bip38PubKeyModes.COMPRESSED if nw % 2 else Bip38PubKeyModes.UNCOMPRESSED
        p = PASSPHRASES[nw % len(PASSPHRASES)]
        nw += 1
        ip = with_urandom([salt], lambda: Bip38EcKeysGenerator.GenerateIntermediatePassphrase(p, lot, seq))
        want = with_urandom([seedb], lambda: Bip38EcKeysGenerator.GeneratePrivateKey(ip, md))
        try:
            got = with_urandom([salt, seedb], lambda: Bip38Encrypter.GeneratePrivateKeyEc(p, md, lot, seq))
        except AssertionError as ex:     # asked for a different amount of random bytes than the two-step route
            got = "random-byte request of a different size %s" % (ex,)
        if got != want:
            bad.append({"property": "C13", "entry_point": "Bip38Encrypter.GeneratePrivateKeyEc", "request_lines": [],
                        "relation": "the one-call EC generation differs from GenerateIntermediatePassphrase + GeneratePrivateKey on the same random bytes",
                        "input": "passphrase=%r lot=%s seq=%s salt=%s seedb=%s" % (p, lot, seq, salt.hex(), seedb.hex()), "impl_output": str(got),
                        "model_output": str(want), "no_failing_input": False})
    rpt.extra["ec_wrapper_checks"] = nw
    bad = bad[:5]
    bad += _ec_histories_against_the_standard(rng, tier, rpt)
    bad = bad[:8]
    bad += _padlike_blocks_against_the_standard(rng, tier, rpt)
    return bad[:12]


# ---- EC-multiplied mode recomputed from the text of BIP-38 (hashlib scrypt/SHA-256, pycryptodome AES, coincurve point arithmetic): nothing of
# ---- bip_utils is used by the reference, so it has no state that a call history could touch
_N_SECP = 0xFFFFFFFFFFFFFFFFFFFFFFFFFFFFFFFEBAAEDCE6AF48A03BBFD25E8CD0364141
_B58 = "123456789ABCDEFGHJKLMNPQRSTUVWXYZabcdefghijkmnopqrstuvwxyz"
_REF_PREFACTOR = {}        # memo of the REFERENCE's own slow scrypt, keyed on its complete input (password bytes, salt)


def _sha256d(b):
    import hashlib
    return hashlib.sha256(hashlib.sha256(b).digest()).digest()


def _b58check(b):
    b = b + _sha256d(b)[:4]
    v, s = int.from_bytes(b, "big"), ""
    while v:
        v, r = divmod(v, 58)
        s = _B58[r] + s
    return "1" * (len(b) - len(b.lstrip(b"\x00"))) + s


def _b58check_raw(s):
    v = 0
    for ch in s:
        v = v * 58 + _B58.index(ch)
    pad = len(s) - len(s.lstrip("1"))
    b = bytes(pad) + (v.to_bytes((v.bit_length() + 7) // 8, "big") if v else b"")
    assert _sha256d(b[:-4])[:4] == b[-4:]
    return b[:-4]


def _ref_passfactor(passphrase, owner_entropy, has_lot_seq):
    """BIP-38: prefactor = scrypt(NFC(passphrase), ownersalt, 16384, 8, 8, 32) with ownersalt = the first 4 bytes of the owner entropy when lot and
    sequence numbers are present and all 8 otherwise; passfactor = SHA256(SHA256(prefactor || ownerentropy)) with lot/sequence, prefactor without"""
    import hashlib
    pw = unicodedata.normalize("NFC", passphrase).encode("utf-8")
    salt = owner_entropy[:4] if has_lot_seq else owner_entropy
    if (pw, salt) not in _REF_PREFACTOR:
        _REF_PREFACTOR[(pw, salt)] = hashlib.scrypt(pw, salt=salt, n=16384, r=8, p=8, dklen=32, maxmem=64 * 1024 * 1024)
    pre = _REF_PREFACTOR[(pw, salt)]
    return _sha256d(pre + owner_entropy) if has_lot_seq else pre


def _ref_pub(scalar_bytes, compressed=True):
    import coincurve
    return coincurve.PrivateKey(scalar_bytes).public_key.format(compressed=compressed)


def _ref_intermediate(passphrase, owner_entropy, has_lot_seq):
    magic = bytes.fromhex("2ce9b3e1ff39e251" if has_lot_seq else "2ce9b3e1ff39e253")
    return _b58check(magic + owner_entropy + _ref_pub(_ref_passfactor(passphrase, owner_entropy, has_lot_seq)))


def _ref_ec_decrypt(enc, passphrase):
    """(private key, compressed?) of an EC-multiplied encrypted key under the passphrase as BIP-38 defines decryption, or None when the
    address hash embedded in the string is not the one of the resulting key"""
    import hashlib
    from Crypto.Cipher import AES
    raw = _b58check_raw(enc)
    assert len(raw) == 39 and raw[:2] == b"\x01\x43"
    flag, ah, ent, e1a, e2 = raw[2], raw[3:7], raw[7:15], raw[15:23], raw[23:39]
    has_lot_seq, compressed = bool(flag & 0x04), bool(flag & 0x20)
    pf = _ref_passfactor(passphrase, ent, has_lot_seq)
    if not 0 < int.from_bytes(pf, "big") < _N_SECP:
        return None
    dk = hashlib.scrypt(_ref_pub(pf), salt=ah + ent, n=1024, r=1, p=1, dklen=64)
    dh1, aes = dk[:32], AES.new(dk[32:], AES.MODE_ECB)
    d2 = bytes(a ^ b for a, b in zip(aes.decrypt(e2), dh1[16:]))
    d1 = bytes(a ^ b for a, b in zip(aes.decrypt(e1a + d2[:8]), dh1[:16]))
    key = int.from_bytes(pf, "big") * int.from_bytes(_sha256d(d1 + d2[8:]), "big") % _N_SECP
    if key == 0:
        return None
    kb = key.to_bytes(32, "big")
    h160 = hashlib.new("ripemd160", hashlib.sha256(_ref_pub(kb, compressed)).digest()).digest()
    if _sha256d(_b58check(b"\x00" + h160).encode())[:4] != ah:
        return None
    return kb, compressed


def _ec_histories_against_the_standard(rng, tier, rpt):
    """Every answer of the EC-multiplied entry points, at any point of a call history, is the one BIP-38 defines for its arguments.

    One owner (one passphrase, typed in a form that is NOT NFC-normalised: the standard normalises it) gets an intermediate code with and one
    without lot/sequence numbers whose 8 owner-entropy bytes are the SAME, a key from each, and of each key the copy whose lot/sequence flag bit
    alone is altered (checksum recomputed). The four strings agree on passphrase and owner entropy and differ in the field that selects the
    scrypt salt and the extra hash, so the standard gives them four unrelated pass factors: the two genuine keys decrypt to the key recomputed
    here and the two altered ones fail on the address hash, in whatever order they are asked and whatever was generated before. The codes are
    asked of `Bip38EcKeysGenerator` directly (the entry point an owner uses to hand a code to a third party), the keys of `Bip38Decrypter`."""
    bad = []

    def rep(what, inp, got, want):
        bad.append({"property": "C13", "entry_point": what, "request_lines": [], "relation": what, "input": inp,
                    "impl_output": str(got), "model_output": str(want), "no_failing_input": False})

    bases = ["cafe\u0301", "\u212b ngstro\u0308m", "\u03d2\u0301\U0001f4a9", "\u1e9b\u0323 n\u0303", "\u1100\u1161\u11a8 \u212b"]
    n_hist = n_obs = 0
    for rnd in range(1 if tier == "quick" else 6):
        base = bases[rng.randrange(len(bases))] + (" %d" % rng.randrange(10) if rnd else "")
        nfc = unicodedata.normalize("NFC", base)
        forms = sorted({f for f in (base, unicodedata.normalize("NFD", base)) if f != nfc})
        one = rng.choice(forms)
        # even rounds (the quick tier's only one): one un-normalised spelling throughout; odd rounds: canonically equivalent spellings mixed
        spell = (lambda: one) if rnd % 2 == 0 else (lambda: rng.choice(forms + [nfc]))
        lot, seq = rng.choice([0, 1, 1048575, rng.randrange(1048576)]), rng.choice([0, 1, 4095, rng.randrange(4096)])
        ent = bytes(rng.randrange(256) for _ in range(4)) + (lot * 4096 + seq).to_bytes(4, "big")
        hist = []
        codes = {}
        order = [True, False]
        rng.shuffle(order)
        for has_lot in order:
            p = spell()
            hist.append("GenerateIntermediatePassphrase(%r, %s)" % (p, "%d, %d" % (lot, seq) if has_lot else "no lot/sequence"))
            got = with_urandom([ent[:4] if has_lot else ent], lambda: Bip38EcKeysGenerator.GenerateIntermediatePassphrase(p, lot if has_lot else None, seq if has_lot else None))
            want = _ref_intermediate(p, ent, has_lot)
            n_obs += 1
            if got != want:
                rep("Bip38EcKeysGenerator.GenerateIntermediatePassphrase: the intermediate code is not the one BIP-38 defines for the (NFC-normalised) passphrase and owner entropy",
                    "passphrase=%r owner_entropy=%s history=%s" % (p, ent.hex(), hist), got, want)
            codes[has_lot] = want          # continue from the standard's code, so that one slip is reported once
        keys = []
        for has_lot in (False, True):
            md = rng.choice([Bip38PubKeyModes.COMPRESSED, Bip38PubKeyModes.UNCOMPRESSED])
            seedb = bytes(rng.randrange(256) for _ in range(24))
            enc = with_urandom([seedb], lambda: Bip38EcKeysGenerator.GeneratePrivateKey(codes[has_lot], md))
            raw = bytearray(_b58check_raw(enc))
            raw[2] ^= 0x04
            keys += [("genuine key %s lot/sequence" % ("with" if has_lot else "without"), enc), ("the same key with the lot/sequence flag bit altered", _b58check(bytes(raw)))]
        rng.shuffle(keys)
        if tier != "quick":
            keys += [rng.choice(keys), rng.choice(keys)]
        for what, enc in keys:
            p = spell()
            want = _ref_ec_decrypt(enc, p)
            hist.append("DecryptEc(%s, %r)" % (enc, p))
            n_obs += 1
            try:
                k, m = Bip38Decrypter.DecryptEc(enc, p)
                got = (k, m == Bip38PubKeyModes.COMPRESSED)
            except ValueError:
                got = None
            if got != want:
                rep("Bip38Decrypter.DecryptEc (%s): the answer is not the one BIP-38 defines for this string and passphrase" % what,
                    "history=%s" % hist, "ValueError" if got is None else "%s compressed=%s" % (got[0].hex(), got[1]),
                    "fails: the embedded address hash does not match" if want is None else "%s compressed=%s" % (want[0].hex(), want[1]))
        n_hist += 1
    rpt.extra["ec_standard_histories"] = n_hist
    rpt.extra["ec_standard_history_observations"] = n_obs
    return bad[:4]


# ---- what the AES layer sees ---------------------------------------------------------------------------------------------------------
# BIP-38 uses raw AES-256-ECB on exactly one 16-byte block at a time: every 16-byte value is a legitimate plaintext, also one that LOOKS like
# padded data (last byte 01, or 02 02, … — PKCS#7; 80 00… — ISO 7816-4; 00… n — ANSI X.923). The block recovered by AES is
# (key half XOR scrypt-derived half) resp. (seedb part XOR derived half), so whether it has such a tail depends on key, passphrase and mode
# together (≈ 1 input in 85 for one of the three shapes): random inputs of a quick run never meet it.
#  * no-EC: each candidate costs one scrypt(N=16384, r=8, p=8); the inputs were found by an off-line sweep over a counter (key =
#    SHA-256(tag || counter), passphrase and mode from the counter's low bits). Only the counter is taken from the table: the blocks are recomputed
#    with hashlib/coincurve on every run and the run stops with a harness error if they do not have the tail.
#  * EC-multiplied: a candidate seedb costs one scrypt(N=1024, r=1, p=1), so they are searched on every run (PRNG-driven) with the
#    reference below.
_NOEC_TAG = b"verif-c13-noec"
_NOEC_PASSES = ["TestingOneTwoThree", "\u03d2\u0301\x00\U00010400\U0001f4a9", "pass phrase \U0001f642", ""]
NOEC_PADLIKE = [  # (counter, which block, shape) of 96 hits of an off-line sweep over counters 0..5999
    (20, 1, 'pkcs7-1'), (79, 1, 'pkcs7-1'), (424, 1, 'pkcs7-1'), (698, 1, 'pkcs7-1'), (1885, 1, 'pkcs7-1'), (2475, 1, 'pkcs7-1'), (259, 2, 'pkcs7-1'),
    (1068, 2, 'pkcs7-1'), (1656, 2, 'pkcs7-1'), (1854, 2, 'pkcs7-1'), (2370, 2, 'pkcs7-1'), (2941, 2, 'pkcs7-1'), (481, 1, 'iso7816-1'), (720, 1, 'iso7816-1'),
    (923, 1, 'iso7816-1'), (35, 2, 'iso7816-1'), (340, 2, 'iso7816-1'), (1258, 2, 'iso7816-1'), (4962, 2, 'x923-2'),
]
_PADLIKE_ITEMS = {}    # tier -> items chosen by gen() of this run, so that relations() looks at the same ones


def _padlike_tails(blk):
    out = []
    v = blk[-1]
    if 1 <= v <= 16 and blk[-v:] == bytes([v]) * v:
        out.append("pkcs7-%d" % v)
    if 2 <= v <= 16 and blk[-v:-1] == bytes(v - 1):
        out.append("x923-%d" % v)
    s = blk.rstrip(b"\x00")
    if s and s[-1] == 0x80:
        out.append("iso7816-%d" % (16 - len(s) + 1))
    return out


def _xor(a, b):
    return bytes(x ^ y for x, y in zip(a, b))


def _ref_addr_hash(pub):
    import hashlib
    h160 = hashlib.new("ripemd160", hashlib.sha256(pub).digest()).digest()
    return _sha256d(_b58check(b"\x00" + h160).encode())[:4]


def _noec_pinned(counter):
    import hashlib
    return hashlib.sha256(_NOEC_TAG + counter.to_bytes(8, "little")).digest(), bool(counter & 1), _NOEC_PASSES[(counter >> 1) % len(_NOEC_PASSES)]


def _ref_noec_encrypt(key, passphrase, compressed):
    """BIP-38 without EC multiplication -> (encrypted key string, the two 16-byte blocks AES encrypts = the blocks AES recovers on decryption)"""
    import hashlib
    from Crypto.Cipher import AES
    ah = _ref_addr_hash(_ref_pub(key, compressed))
    dk = hashlib.scrypt(unicodedata.normalize("NFC", passphrase).encode("utf-8"), salt=ah, n=16384, r=8, p=8, dklen=64, maxmem=64 * 1024 * 1024)
    b1, b2 = _xor(key[:16], dk[:16]), _xor(key[16:], dk[16:32])
    aes = AES.new(dk[32:], AES.MODE_ECB)
    return _b58check(b"\x01\x42" + bytes([0xe0 if compressed else 0xc0]) + ah + aes.encrypt(b1) + aes.encrypt(b2)), b1, b2


def _ref_ec_generate(code, seedb, compressed):
    """BIP-38 EC-multiplied key from an intermediate code and the 24 random bytes seedb -> (encrypted key string, the two blocks AES encrypts)"""
    import hashlib, coincurve
    from Crypto.Cipher import AES
    raw = _b58check_raw(code)
    assert len(raw) == 49 and raw[:7] == bytes.fromhex("2ce9b3e1ff39e2") and raw[7] in (0x51, 0x53)
    has_lot_seq, ent, passpoint = raw[7] == 0x51, raw[8:16], raw[16:49]
    factorb = _sha256d(seedb)
    pub = coincurve.PublicKey(passpoint).multiply(factorb).format(compressed=compressed)
    ah = _ref_addr_hash(pub)
    dk = hashlib.scrypt(passpoint, salt=ah + ent, n=1024, r=1, p=1, dklen=64)
    aes = AES.new(dk[32:], AES.MODE_ECB)
    b1 = _xor(seedb[:16], dk[:16])
    e1 = aes.encrypt(b1)
    b2 = _xor(e1[8:] + seedb[16:], dk[16:32])
    e2 = aes.encrypt(b2)
    flag = (0x20 if compressed else 0) | (0x04 if has_lot_seq else 0)
    return _b58check(b"\x01\x43" + bytes([flag]) + ah + ent + e1[:8] + e2), b1, b2


def padlike_items(rng, tier):
    """[("noec", key, compressed, passphrase, enc, blocks) | ("ec", code, seedb, compressed, passphrase, enc, blocks)]: inputs for which a block
    the AES layer handles has a padding-like tail (quick: two pinned no-EC inputs, one per block, and one searched EC input; thorough: all
    pinned ones and 8 searched)"""
    from harness.core import HarnessError
    if tier in _PADLIKE_ITEMS:
        return _PADLIKE_ITEMS[tier]
    items = []
    pins = list(NOEC_PADLIKE)
    if tier == "quick":
        # one PKCS#7-shaped tail (the padding scheme of the library's own AES wrapper in its padding mode) in one block, any shape in the other
        blk = 1 + rng.randrange(2)
        first = [p for p in pins if p[1] == blk and p[2].startswith("pkcs7")]
        second = [p for p in pins if p[1] == 3 - blk]
        pins = [first[rng.randrange(len(first))], second[rng.randrange(len(second))]]
    for counter, blk, shape in pins:
        key, compressed, p = _noec_pinned(counter)
        enc, b1, b2 = _ref_noec_encrypt(key, p, compressed)
        if shape not in _padlike_tails((b1, b2)[blk - 1]):
            raise HarnessError("C13 pinned no-EC input %d: block %d recomputed as %s has no %s tail" % (counter, blk, (b1, b2)[blk - 1].hex(), shape))
        items.append(("noec", key, compressed, p, enc, "block %d = %s (%s)" % (blk, (b1, b2)[blk - 1].hex(), shape)))
    n_ec = 1 if tier == "quick" else 8
    for j in range(n_ec):
        p = PASSPHRASES[rng.randrange(len(PASSPHRASES))]
        with_lot = bool((j + rng.randrange(2)) % 2)
        lot, seq = (rng.randrange(1048576), rng.randrange(4096)) if with_lot else (None, None)
        ent = bytes(rng.getrandbits(8) for _ in range(4)) + ((lot * 4096 + seq).to_bytes(4, "big") if with_lot else bytes(rng.getrandbits(8) for _ in range(4)))
        code = _ref_intermediate(p, ent, with_lot)
        compressed = bool(rng.randrange(2))
        want_block = 1 + (j + rng.randrange(2)) % 2
        head = bytes(rng.getrandbits(8) for _ in range(20))
        for ctr in range(20000):
            seedb = head[:10] + ctr.to_bytes(4, "big") + head[10:]
            enc, b1, b2 = _ref_ec_generate(code, seedb, compressed)
            tails = _padlike_tails((b1, b2)[want_block - 1])
            # the two common shapes in turn (the quick tier's single search asks for the PKCS#7 one)
            tails = [t for t in tails if t.startswith(("pkcs7", "iso7816")[j % 2])]
            if tails:
                items.append(("ec", code, seedb, compressed, p, enc, "block %d = %s (%s)" % (want_block, (b1, b2)[want_block - 1].hex(), tails[0]), ent, with_lot))
                break
    _PADLIKE_ITEMS[tier] = items
    return items


def padlike_cases(rng, tier):
    """the same inputs through the model: every one in the thorough tier, the EC decryption in the quick tier (each request costs the model a
    full scrypt); relations() checks all of them against the hashlib/AES/coincurve reference in both tiers"""
    for it in padlike_items(rng, tier):
        if it[0] == "noec":
            _k, key, compressed, p, enc, _what = it
            if tier != "quick":
                yield Case("b38noecenc", [hx(key), nfc_field(p), "1" if compressed else "0"], "noec-enc-padlike-block")
                yield Case("b38noecdec", [tx(enc), nfc_field(p)], "noec-dec-padlike-block")
        else:
            _k, code, seedb, compressed, p, enc, _what, _ent, _with_lot = it
            if tier != "quick":
                yield Case("b38ecgen", [tx(code), hx(seedb), "1" if compressed else "0"], "ec-gen-padlike-block")
            yield Case("b38ecdec", [tx(enc), nfc_field(p)], "ec-dec-padlike-block")


def _padlike_blocks_against_the_standard(rng, tier, rpt):
    """Encryption yields the standard's ciphertext and decryption with the same passphrase returns the key and mode (no-EC); an EC-multiplied key
    generated from a code decrypts, with the owner's passphrase, to the valid key whose address hash it embeds — ALSO for the inputs on which a
    16-byte block handled by AES has a padding-like tail. Expected values: BIP-38 recomputed with hashlib scrypt/SHA-256, pycryptodome's raw AES
    and coincurve."""
    bad = []

    def rep(what, inp, got, want):
        bad.append({"property": "C13", "entry_point": what, "request_lines": [], "relation": what, "input": inp,
                    "impl_output": str(got), "model_output": str(want), "no_failing_input": False})

    def call(f):
        try:
            return f()
        except Exception as ex:  # noqa
            return "raised %s: %s" % (type(ex).__name__, str(ex)[:100])

    n = 0
    for j, it in enumerate(padlike_items(rng, tier)):
        if it[0] == "noec":
            _k, key, compressed, p, enc, what = it
            md = Bip38PubKeyModes.COMPRESSED if compressed else Bip38PubKeyModes.UNCOMPRESSED
            n += 1
            got = call(lambda: Bip38Decrypter.DecryptNoEc(enc, p))
            if got != (key, md):
                rep("Bip38Decrypter.DecryptNoEc with the passphrase the key was encrypted under does not return the key and mode (an AES block with a padding-like tail)",
                    "key=%s compressed=%s passphrase=%r encrypted=%s; %s" % (key.hex(), compressed, p, enc, what),
                    got if isinstance(got, str) else "%s %s" % (got[0].hex(), got[1]), "%s %s" % (key.hex(), md))
            if tier != "quick" or j == 0:
                n += 1
                got = call(lambda: Bip38Encrypter.EncryptNoEc(key, p, md))
                if got != enc:
                    rep("Bip38Encrypter.EncryptNoEc is not the standard's ciphertext (an AES block with a padding-like tail)",
                        "key=%s compressed=%s passphrase=%r; %s" % (key.hex(), compressed, p, what), got, enc)
        else:
            _k, code, seedb, compressed, p, enc, what, ent, with_lot = it
            md = Bip38PubKeyModes.COMPRESSED if compressed else Bip38PubKeyModes.UNCOMPRESSED
            n += 2
            got = call(lambda: with_urandom([seedb], lambda: Bip38EcKeysGenerator.GeneratePrivateKey(code, md)))
            if got != enc:
                rep("Bip38EcKeysGenerator.GeneratePrivateKey is not the key BIP-38 defines for this code and seedb (an AES block with a padding-like tail)",
                    "code=%s seedb=%s compressed=%s; %s" % (code, seedb.hex(), compressed, what), got, enc)
            want = _ref_ec_decrypt(enc, p)
            if want is None:
                from harness.core import HarnessError
                raise HarnessError("C13 reference: the EC key generated by the reference does not decrypt under the reference (%s)" % enc)
            got = call(lambda: (lambda r: (r[0], r[1] == Bip38PubKeyModes.COMPRESSED))(Bip38Decrypter.DecryptEc(enc, p)))
            if got != want:
                rep("Bip38Decrypter.DecryptEc of a key generated for the owner's code, with the owner's passphrase, does not return the valid key whose address hash "
                    "it embeds (an AES block with a padding-like tail)",
                    "passphrase=%r owner_entropy=%s lot/sequence=%s code=%s seedb=%s encrypted=%s; %s" % (p, ent.hex(), with_lot, code, seedb.hex(), enc, what),
                    got if isinstance(got, str) else "%s compressed=%s" % (got[0].hex(), got[1]), "%s compressed=%s" % (want[0].hex(), want[1]))
    rpt.extra["aes_padlike_block_checks"] = n
    return bad[:4]
