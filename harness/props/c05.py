"""C05 — extended-key serialisation is lossless, canonical and version-checked."""
from harness.core import Case
from harness.canon import hx, tx, nats
from harness.props.bip32_common import IMPL, CLS, ORDER, rand_index, rand_seed
from bip_utils import Base58Encoder, Base58Decoder, Bip32KeyNetVersions
from bip_utils.base58.base58 import Base58Utils

LEAN_MODULES = ["BipVerif.Props.C05"]
MAIN = (bytes.fromhex("0488b21e"), bytes.fromhex("0488ade4"))


def key_net_versions():
    """every key-net-version pair of the coin tables (regenerated from the working tree)."""
    from bip_utils import Bip44Coins, Bip49Coins, Bip84Coins, Bip86Coins, Bip44ConfGetter, Bip49ConfGetter, Bip84ConfGetter, Bip86ConfGetter
    out = {MAIN}
    for enum, getter in ((Bip44Coins, Bip44ConfGetter), (Bip49Coins, Bip49ConfGetter), (Bip84Coins, Bip84ConfGetter), (Bip86Coins, Bip86ConfGetter)):
        for m in enum:
            kv = getter.GetConfig(m).KeyNetVersions()
            out.add((kv.Public(), kv.Private()))
    return sorted(out)


def ser(ver, depth, fp, idx, cc, key):
    return Base58Encoder.CheckEncode(ver + bytes([depth]) + fp + idx.to_bytes(4, "big") + cc + key)


def gen(rng, tier):
    kvs = key_net_versions()
    n = 300 if tier == "quick" else 8000

    def rb(k, zero_lead=False):
        b = bytes(rng.randrange(256) for _ in range(k))
        return (bytes(rng.randrange(1, 3)) + b)[:k] if zero_lead else b

    for i in range(n):
        pv, sv = kvs[i % len(kvs)]
        depth = rng.choice([0, 1, 127, 128, 255, rng.randrange(256)])
        idx = rand_index(rng)
        fp = rb(4, rng.random() < 0.2)
        cc = rb(32, rng.random() < 0.2)
        if depth == 0 and rng.random() < 0.7:
            fp, idx = bytes(4), 0
        c = ("secp256k1", "nist256p1")[i % 2]
        k = rng.randrange(1, ORDER[c]) if rng.random() < 0.8 else rng.randrange(1, 2**rng.choice([8, 100, 240]))
        kb = k.to_bytes(32, "big")
        # layout: serialise explicit fields on both sides
        yield Case("serkey", [hx(sv), depth, hx(fp), idx, hx(cc), hx(b"\x00" + kb)], "ser-priv")
        s_priv = ser(sv, depth, fp, idx, cc, b"\x00" + kb)
        yield Case("deserkey", [hx(pv), hx(sv), tx(s_priv)], "deser-priv")
        yield Case("fromxkey", [c, hx(pv), hx(sv), tx(s_priv)], "fromx-priv" if not (depth == 0 and (fp != bytes(4) or idx)) else "neg-master-meta")
        # public twin: build the public key with the implementation's own key class
        pub = CLS[c].FromPrivateKey(kb).PublicKey().RawCompressed().ToBytes()
        yield Case("serkey", [hx(pv), depth, hx(fp), idx, hx(cc), hx(pub)], "ser-pub")
        s_pub = ser(pv, depth, fp, idx, cc, pub)
        yield Case("deserkey", [hx(pv), hx(sv), tx(s_pub)], "deser-pub")
        yield Case("fromxkey", [c, hx(pv), hx(sv), tx(s_pub)], "fromx-pub" if not (depth == 0 and (fp != bytes(4) or idx)) else "neg-master-meta")
        # corruption stream (checksum recomputed unless stated)
        raw = sv + bytes([depth]) + fp + idx.to_bytes(4, "big") + cc + b"\x00" + kb
        kind = rng.randrange(11)
        if kind == 0:      # unknown version
            bad = bytes([raw[0] ^ 1]) + raw[1:]
        elif kind == 1:    # truncated / extended
            bad = raw[:rng.choice([0, 1, 3, 4, 5, 44, 45, 46, 77])] if rng.random() < 0.6 else raw + bytes(rng.choice([1, 31, 32, 33]))
        elif kind == 2:    # non-zero pad byte
            bad = raw[:45] + bytes([rng.randrange(1, 256)]) + raw[46:]
        elif kind == 3:    # invalid key: zero or >= n
            bad = raw[:46] + rng.choice([bytes(32), ORDER[c].to_bytes(32, "big"), b"\xff" * 32])
        elif kind == 4:    # public version over private payload
            bad = pv + raw[4:]
        elif kind == 5:    # invalid public key bytes
            bad = pv + raw[4:45] + rng.choice([b"\x05" + kb, b"\x02" + b"\xff" * 32, b"\x04" + kb])
        elif kind == 6:    # 110-byte private form (Kholaw length) on a 32-byte-key curve
            bad = raw + bytes(32)
        elif kind == 9:    # public version over a 110-byte payload: uncompressed key field, or trailing bytes
            unc = CLS[c].FromPrivateKey(kb).PublicKey().RawUncompressed().ToBytes()
            bad = pv + raw[4:45] + (unc if rng.random() < 0.6 else pub + bytes(32))
        elif kind == 10:   # every wrong length around the legal ones, either version
            ln = rng.choice([76, 77, 79, 80, 109, 111, 142])
            body = (rng.choice([pv, sv]) + raw[4:] + bytes(64))[:ln]
            bad = body
        else:
            bad = None
        if bad is not None:
            s_bad = Base58Encoder.CheckEncode(bad)
            yield Case("deserkey", [hx(pv), hx(sv), tx(s_bad)], "neg-field")
            yield Case("fromxkey", [c, hx(pv), hx(sv), tx(s_bad)], "neg-field")
        else:
            # text-layer damage: checksum / alphabet
            if kind == 7:
                j = rng.randrange(len(s_priv))
                ch = rng.choice("123456789ABCDEFGHJKLMNPQRSTUVWXYZabcdefghijkmnopqrstuvwxyz")
                s_bad = s_priv[:j] + ch + s_priv[j + 1:]
            else:
                j = rng.randrange(len(s_priv))
                s_bad = s_priv[:j] + rng.choice("0OIl+/ é") + s_priv[j + 1:]
            yield Case("deserkey", [hx(pv), hx(sv), tx(s_bad)], "neg-text")
    # round trip through derived nodes for every key-net-version pair
    for pv, sv in kvs:
        seed = rand_seed(rng)
        path = [rand_index(rng) for _ in range(rng.randrange(0, 4))]
        yield Case("xkeys", ["secp256k1", hx(seed), nats(path), hx(pv), hx(sv)], "xkeys")


def relations(rng, tier, rpt):
    """re-serialisation of a parsed key is the identical string (on the implementation)."""
    bad = []
    n = 0
    kvs = key_net_versions()
    for i in range(60 if tier == "quick" else 1500):
        pv, sv = kvs[i % len(kvs)]
        kv = Bip32KeyNetVersions(pv, sv)
        b = CLS["secp256k1"].FromSeed(rand_seed(rng), kv)
        for _ in range(rng.randrange(0, 3)):
            b = b.ChildKey(rand_index(rng))
        for s, is_pub in ((b.PrivateKey().ToExtended(), False), (b.PublicKey().ToExtended(), True)):
            n += 1
            b2 = CLS["secp256k1"].FromExtendedKey(s, kv)
            s2 = b2.PublicKey().ToExtended() if is_pub else b2.PrivateKey().ToExtended()
            same_meta = (int(b2.Depth()), int(b2.Index()), b2.ChainCode().ToBytes(), b2.ParentFingerPrint().ToBytes(), b2.PublicKey().RawCompressed().ToBytes()) == \
                        (int(b.Depth()), int(b.Index()), b.ChainCode().ToBytes(), b.ParentFingerPrint().ToBytes(), b.PublicKey().RawCompressed().ToBytes())
            if s2 != s or not same_meta:
                bad.append({"property": "C05", "entry_point": "FromExtendedKey/ToExtended", "request_lines": [],
                            "relation": "parse then re-serialise is not the identity on the implementation",
                            "input": s, "impl_output": s2, "model_output": s, "no_failing_input": False})
    rpt.extra["impl_roundtrips"] = n
    return bad[:5]
