"""C05 — extended-key serialisation is lossless, canonical and version-checked."""
from harness.core import Case
from harness.canon import hx, tx, nats
from harness.props.bip32_common import IMPL, CLS, ORDER, rand_index, rand_seed
from bip_utils import Base58Encoder, Base58Decoder, Bip32KeyNetVersions
from bip_utils.base58.base58 import Base58Utils

LEAN_MODULES = ["BipVerif.Props.C05", "BipVerif.Props.C05Tables"]


def pre_build():
    from gen import gen_consts, gen_unicode, gen_coins
    gen_unicode.main()
    gen_consts.main()
    gen_coins.main()


def search_broken(broken, rng):
    """the version-byte table theorem failed: exhibit an extended key that is no longer the one the registered version bytes give."""
    from harness.props.c08 import search_broken as sb8
    return sb8(broken, rng, fields=("keyNetPub", "keyNetPriv"))


def _bech32_ref(hrp, data):
    """BIP-173 Bech32 of a byte string (8->5 regrouping with padding), written from the standard: the SLIP-32 layout reference"""
    acc, bits, five = 0, 0, []
    for b in data:
        acc = (acc << 8) | b
        bits += 8
        while bits >= 5:
            bits -= 5
            five.append((acc >> bits) & 31)
    if bits:
        five.append((acc << (5 - bits)) & 31)

    def polymod(vals):
        chk = 1
        for v in vals:
            top = chk >> 25
            chk = ((chk & 0x1ffffff) << 5) ^ v
            for i, g in enumerate((0x3b6a57b2, 0x26508e6d, 0x1ea119fa, 0x3d4233dd, 0x2a1462b3)):
                if (top >> i) & 1:
                    chk ^= g
        return chk
    exp = [ord(c) >> 5 for c in hrp] + [0] + [ord(c) & 31 for c in hrp]
    pm = polymod(exp + five + [0] * 6) ^ 1
    chars = "qpzry9x8gf2tvdw0s3jn54khce6mua7l"
    return hrp + "1" + "".join(chars[d] for d in five + [(pm >> 5 * (5 - i)) & 31 for i in range(6)])
MAIN = (bytes.fromhex("0488b21e"), bytes.fromhex("0488ade4"))


def key_net_versions():
    """every key-net-version pair of the coin tables (regenerated from the working tree)."""
    from bip_utils import Bip44Coins, Bip49Coins, Bip84Coins, Bip86Coins, Bip44ConfGetter, Bip49ConfGetter, Bip84ConfGetter, Bip86ConfGetter
    out = {MAIN}
    for enum, getter in ((Bip44Coins, Bip44ConfGetter), (Bip49Coins, Bip49ConfGetter), (Bip84Coins, Bip84ConfGetter), (Bip86Coins, Bip86ConfGetter)):
        for m in enum:
            kv = getter.GetConfig(m).KeyNetVersions()
            out.add((kv.Public(), kv.Private()))
    return sorted(out)


def ser(ver, depth, fp, idx, cc, key):
    return Base58Encoder.CheckEncode(ver + bytes([depth]) + fp + idx.to_bytes(4, "big") + cc + key)


def gen(rng, tier):
    kvs = key_net_versions()
    n = 300 if tier == "quick" else 8000

    def rb(k, zero_lead=False):
        b = bytes(rng.randrange(256) for _ in range(k))
        return (bytes(rng.randrange(1, 3)) + b)[:k] if zero_lead else b

    for i in range(n):
        pv, sv = kvs[i % len(kvs)]
        depth = rng.choice([0, 1, 127, 128, 255, rng.randrange(256)])
        idx = rand_index(rng)
        fp = rb(4, rng.random() < 0.2)
        cc = rb(32, rng.random() < 0.2)
        if depth == 0 and rng.random() < 0.7:
            fp, idx = bytes(4), 0
        elif depth > 0 and rng.random() < 0.25:
            fp = bytes(4)          # what the library itself writes for keys built from raw key bytes without derivation data
        c = ("secp256k1", "nist256p1")[i % 2]
        k = rng.randrange(1, ORDER[c]) if rng.random() < 0.8 else rng.randrange(1, 2**rng.choice([8, 100, 240]))
        kb = k.to_bytes(32, "big")
        # layout: serialise explicit fields on both sides
        yield Case("serkey", [hx(sv), depth, hx(fp), idx, hx(cc), hx(b"\x00" + kb)], "ser-priv")
        s_priv = ser(sv, depth, fp, idx, cc, b"\x00" + kb)
        yield Case("deserkey", [hx(pv), hx(sv), tx(s_priv)], "deser-priv")
        yield Case("fromxkey", [c, hx(pv), hx(sv), tx(s_priv)], "fromx-priv" if not (depth == 0 and (fp != bytes(4) or idx)) else "neg-master-meta")
        # public twin: build the public key with the implementation's own key class
        pub = CLS[c].FromPrivateKey(kb).PublicKey().RawCompressed().ToBytes()
        yield Case("serkey", [hx(pv), depth, hx(fp), idx, hx(cc), hx(pub)], "ser-pub")
        s_pub = ser(pv, depth, fp, idx, cc, pub)
        yield Case("deserkey", [hx(pv), hx(sv), tx(s_pub)], "deser-pub")
        yield Case("fromxkey", [c, hx(pv), hx(sv), tx(s_pub)], "fromx-pub" if not (depth == 0 and (fp != bytes(4) or idx)) else "neg-master-meta")
        # corruption stream (checksum recomputed unless stated)
        raw = sv + bytes([depth]) + fp + idx.to_bytes(4, "big") + cc + b"\x00" + kb
        kind = rng.randrange(11)
        if kind == 0:      # unknown version
            bad = bytes([raw[0] ^ 1]) + raw[1:]
        elif kind == 1:    # truncated / extended
            bad = raw[:rng.choice([0, 1, 3, 4, 5, 44, 45, 46, 77])] if rng.random() < 0.6 else raw + bytes(rng.choice([1, 31, 32, 33]))
        elif kind == 2:    # non-zero pad byte
            bad = raw[:45] + bytes([rng.randrange(1, 256)]) + raw[46:]
        elif kind == 3:    # invalid key: zero or >= n
            bad = raw[:46] + rng.choice([bytes(32), ORDER[c].to_bytes(32, "big"), b"\xff" * 32])
        elif kind == 4:    # public version over private payload
            bad = pv + raw[4:]
        elif kind == 5:    # invalid public key bytes
            bad = pv + raw[4:45] + rng.choice([b"\x05" + kb, b"\x02" + b"\xff" * 32, b"\x04" + kb])
        elif kind == 6:    # 110-byte private form (Kholaw length) on a 32-byte-key curve
            bad = raw + bytes(32)
        elif kind == 9:    # public version over a 110-byte payload: uncompressed key field, or trailing bytes
            unc = CLS[c].FromPrivateKey(kb).PublicKey().RawUncompressed().ToBytes()
            bad = pv + raw[4:45] + (unc if rng.random() < 0.6 else pub + bytes(32))
        elif kind == 10:   # every wrong length around the legal ones, either version
            ln = rng.choice([76, 77, 79, 80, 109, 111, 142])
            body = (rng.choice([pv, sv]) + raw[4:] + bytes(64))[:ln]
            bad = body
        else:
            bad = None
        if bad is not None:
            s_bad = Base58Encoder.CheckEncode(bad)
            yield Case("deserkey", [hx(pv), hx(sv), tx(s_bad)], "neg-field")
            yield Case("fromxkey", [c, hx(pv), hx(sv), tx(s_bad)], "neg-field")
        else:
            # text-layer damage: checksum / alphabet
            if kind == 7:
                j = rng.randrange(len(s_priv))
                ch = rng.choice("123456789ABCDEFGHJKLMNPQRSTUVWXYZabcdefghijkmnopqrstuvwxyz")
                s_bad = s_priv[:j] + ch + s_priv[j + 1:]
            else:
                j = rng.randrange(len(s_priv))
                s_bad = s_priv[:j] + rng.choice("0OIl+/ é") + s_priv[j + 1:]
            yield Case("deserkey", [hx(pv), hx(sv), tx(s_bad)], "neg-text")
    # the ed25519 SLIP-0010 classes: 32-byte private keys round-trip; every other private payload size the deserialiser lets through
    # (the 110-byte Khovratovich-Law size: 64 key bytes, e.g. a libsodium "seed || public key" pair) is refused by the key layer
    for i in range(6 if tier == "quick" else 120):
        c = ("ed25519", "ed25519blake2b")[i % 2]
        pv, sv = kvs[i % len(kvs)]
        kb = rb(32, i % 3 == 0)
        depth, idx, fp, cc = (0, 0, bytes(4), rb(32)) if i % 4 == 0 else (rng.randrange(1, 256), rand_index(rng) | 0x80000000, rb(4), rb(32))
        yield Case("fromxkey", [c, hx(pv), hx(sv), tx(ser(sv, depth, fp, idx, cc, b"\x00" + kb))], "fromx-priv-ed")
        pub = CLS[c].FromPrivateKey(kb).PublicKey().RawCompressed().ToBytes()
        yield Case("fromxkey", [c, hx(pv), hx(sv), tx(ser(pv, depth, fp, idx, cc, pub))], "fromx-pub-ed")
        for tail in (pub[1:], rb(32), bytes(32)):
            yield Case("fromxkey", [c, hx(pv), hx(sv), tx(ser(sv, depth, fp, idx, cc, b"\x00" + kb + tail))], "neg-ed-64-byte-key")
        yield Case("fromxkey", [c, hx(pv), hx(sv), tx(ser(pv, depth, fp, idx, cc, pub + bytes(32)))], "neg-ed-long-pub")
    # round trip through derived nodes for every key-net-version pair
    for pv, sv in kvs:
        seed = rand_seed(rng)
        path = [rand_index(rng) for _ in range(rng.randrange(0, 4))]
        yield Case("xkeys", ["secp256k1", hx(seed), nats(path), hx(pv), hx(sv)], "xkeys")


def relations(rng, tier, rpt):
    """re-serialisation of a parsed key is the identical string (on the implementation)."""
    bad = []
    n = 0
    kvs = key_net_versions()
    for i in range(60 if tier == "quick" else 1500):
        pv, sv = kvs[i % len(kvs)]
        kv = Bip32KeyNetVersions(pv, sv)
        b = CLS["secp256k1"].FromSeed(rand_seed(rng), kv)
        for _ in range(rng.randrange(0, 3)):
            b = b.ChildKey(rand_index(rng))
        for s, is_pub in ((b.PrivateKey().ToExtended(), False), (b.PublicKey().ToExtended(), True)):
            n += 1
            b2 = CLS["secp256k1"].FromExtendedKey(s, kv)
            s2 = b2.PublicKey().ToExtended() if is_pub else b2.PrivateKey().ToExtended()
            same_meta = (int(b2.Depth()), int(b2.Index()), b2.ChainCode().ToBytes(), b2.ParentFingerPrint().ToBytes(), b2.PublicKey().RawCompressed().ToBytes()) == \
                        (int(b.Depth()), int(b.Index()), b.ChainCode().ToBytes(), b.ParentFingerPrint().ToBytes(), b.PublicKey().RawCompressed().ToBytes())
            if s2 != s or not same_meta:
                bad.append({"property": "C05", "entry_point": "FromExtendedKey/ToExtended", "request_lines": [],
                            "relation": "parse then re-serialise is not the identity on the implementation",
                            "input": s, "impl_output": s2, "model_output": s, "no_failing_input": False})
    # several live objects that share key material but differ in metadata (depth, index, fingerprint, chain code): each serialises ITS
    # fields, in whatever order they are asked (layout reference: Base58Check of version || depth || fp || index || cc || key)
    from bip_utils import Bip32KeyData, Bip32Depth, Bip32KeyIndex, Bip32ChainCode, Bip32FingerPrint
    for i in range(6 if tier == "quick" else 120):
        c = ("secp256k1", "nist256p1")[i % 2]
        pv, sv = kvs[i % len(kvs)]
        kv = Bip32KeyNetVersions(pv, sv)
        kb = rng.randrange(1, ORDER[c]).to_bytes(32, "big")
        pubb = CLS[c].FromPrivateKey(kb).PublicKey().RawCompressed().ToBytes()
        metas = [(0, 0, bytes(4), bytes(32)), (1, 5, bytes(4), bytes(range(32))), (3, 2**31 + 1, b"\x01\x02\x03\x04", b"\x11" * 32), (255, 2**32 - 1, b"\xff" * 4, bytes(31) + b"\x01")]
        objs = []
        for d, ix, fp, cc in metas:
            kd = Bip32KeyData(Bip32Depth(d), Bip32KeyIndex(ix), Bip32ChainCode(cc), Bip32FingerPrint(fp))
            objs.append((CLS[c].FromPublicKey(pubb, kd, kv), CLS[c].FromPrivateKey(kb, kd, kv), d, ix, fp, cc))
        order = list(range(len(objs)))
        rng.shuffle(order)
        for j in order + order[::-1]:
            po, so, d, ix, fp, cc = objs[j]
            n += 1
            want_pub, want_prv = ser(pv, d, fp, ix, cc, pubb), ser(sv, d, fp, ix, cc, b"\x00" + kb)
            got = (po.PublicKey().ToExtended(), so.PublicKey().ToExtended(), so.PrivateKey().ToExtended())
            if got != (want_pub, want_pub, want_prv):
                bad.append({"property": "C05", "entry_point": "PublicKey().ToExtended() / PrivateKey().ToExtended()", "request_lines": [],
                            "relation": "an object's extended key is not the serialisation of ITS OWN metadata when other objects with the same key material are alive",
                            "input": "%s key=%s depth=%d index=%d fp=%s" % (c, kb.hex(), d, ix, fp.hex()), "impl_output": str(got), "model_output": str((want_pub, want_pub, want_prv)),
                            "no_failing_input": False})
                break
    # the metadata of a key is a VALUE: what the accessors hand out (and the depth/index/chain-code/fingerprint objects the caller passed in)
    # can be used freely — every documented value-returning method called (Harden/Unharden/Increase "get a new object", the converters, the
    # predicates) — without changing the key: its fields still read as parsed and its FIRST serialisation after that use (and a repeated
    # one) is the identical string.  Flows: parsed from xprv/xpub on all four curve classes; built from raw key + caller-owned key data;
    # derived with a caller-owned index object / path object that the caller goes on using.  Truth is the explicit field tuple (`ser`).
    from bip_utils import Bip32PathParser
    na = 0

    def use_value(v, still_ok=None):
        """call the documented value-returning methods of a metadata object, in a random order; after each of the "get a new object" ones the
        owner is looked at (`still_ok`), so that a change undone by a later call (Harden then Unharden) is seen too.  Returns descriptions of
        wrong results / of the first change of the owner"""
        wrong = []
        before = int(v) if hasattr(v, "__int__") else (v.ToBytes() if hasattr(v, "ToBytes") else None)
        names = ["ToInt", "ToBytes", "ToHex", "IsHardened", "IsMasterKey", "Length", "Size", "FixedLength", "__int__", "__bytes__", "__hash__", "Harden", "Unharden", "Increase"]
        rng.shuffle(names)
        for m in names:
            f = getattr(v, m, None)
            if not callable(f):
                continue
            if m == "Increase" and isinstance(before, int) and before >= 255:
                continue            # no depth 256
            try:
                r = f()
            except TypeError:       # unhashable / not this kind of object
                continue
            want = {"Harden": lambda: before | 0x80000000, "Unharden": lambda: before & 0x7fffffff, "Increase": lambda: before + 1}.get(m)
            if want is not None:
                if isinstance(before, int) and int(r) != want():
                    wrong.append("%s() of %d returned %d" % (m, before, int(r)))
                if still_ok is not None and not wrong:
                    now = still_ok()
                    if now is not None:
                        wrong.append("after %s() on a %s value: %s" % (m, type(v).__name__, now))
        return wrong

    def use_all(o, truth):
        w = []
        ok = lambda: None if fields(o) == truth else "the key reads %s" % (fields(o),)     # noqa: E731
        for v in (o.Index(), o.Depth(), o.ChainCode(), o.ParentFingerPrint(), o.FingerPrint(), o.PublicKey().Data().Index(), o.PublicKey().Data().Depth(),
                  o.PublicKey().Data().ChainCode(), o.PublicKey().Data().ParentFingerPrint(), o.PublicKey().ChainCode()):
            w += use_value(v, ok)
        return w, ok

    def fields(o):
        return (int(o.Depth()), int(o.Index()), o.ChainCode().ToBytes().hex(), o.ParentFingerPrint().ToBytes().hex(), o.PublicKey().RawCompressed().ToBytes().hex())

    def alias(where, inp, got, want):
        bad.append({"property": "C05", "entry_point": where, "request_lines": [],
                    "relation": "using the values handed out by (or passed to) an extended-key object changes its metadata or its serialisation: " + where,
                    "input": inp, "impl_output": str(got), "model_output": str(want), "no_failing_input": False})

    curves = list(CLS)
    for i in range(24 if tier == "quick" else 600):
        c = curves[i % 4]
        ed = c.startswith("ed25519")
        pv, sv = kvs[rng.randrange(len(kvs))]
        kv = Bip32KeyNetVersions(pv, sv)
        kb = bytes(rng.randrange(256) for _ in range(32)) if ed else rng.randrange(1, ORDER[c]).to_bytes(32, "big")
        pubb = CLS[c].FromPrivateKey(kb).PublicKey().RawCompressed().ToBytes()
        if i % 6 == 5:
            d, ix, fp = 0, 0, bytes(4)
        else:
            d, ix, fp = rng.choice([1, 2, 127, 254, 255, rng.randrange(1, 256)]), rand_index(rng, True if ed else None), bytes(rng.randrange(256) for _ in range(4))
        cc = bytes(rng.randrange(256) for _ in range(32))
        s_prv, s_pub = ser(sv, d, fp, ix, cc, b"\x00" + kb), ser(pv, d, fp, ix, cc, pubb)
        truth = (d, ix, cc.hex(), fp.hex(), pubb.hex())
        flow = (i // 4) % 3
        for is_pub, s in ((False, s_prv), (True, s_pub)):
            na += 1
            kd_objs = None
            if flow < 2:        # parsed from the string; flow 1 serialises once BEFORE the values are used as well
                o = CLS[c].FromExtendedKey(s, kv)
                how = "FromExtendedKey(%s)" % ("xpub" if is_pub else "xprv")
            else:               # built from raw key + key data objects that stay in the caller's hands
                kd_objs = (Bip32Depth(d), Bip32KeyIndex(ix), Bip32ChainCode(cc), Bip32FingerPrint(fp))
                o = CLS[c].FromPublicKey(pubb, Bip32KeyData(*kd_objs), kv) if is_pub else CLS[c].FromPrivateKey(kb, Bip32KeyData(*kd_objs), kv)
                how = "%s(key, Bip32KeyData(depth, index, chain code, fingerprint objects))" % ("FromPublicKey" if is_pub else "FromPrivateKey")
            out = (lambda: o.PublicKey().ToExtended()) if is_pub else (lambda: o.PrivateKey().ToExtended())
            if flow == 1 and out() != s:
                continue        # reported by the round-trip relation above
            wrong, ok = use_all(o, truth)
            if kd_objs is not None:
                for v in kd_objs:
                    wrong += use_value(v, ok)
            inp = "%s %s, then Harden()/Unharden()/Increase()/converters called on the objects returned by Index(), Depth(), ChainCode(), ParentFingerPrint(), FingerPrint()%s; string=%s" % (
                c, how, " and on the caller's key-data objects" if kd_objs is not None else "", s)
            if wrong:
                alias("a value-returning method returns the wrong value or changes the key it came from", inp, wrong[0], "new objects (index | 2^31, index & (2^31-1), depth + 1); the key reads %s" % (truth,))
            elif fields(o) != truth:
                alias("Depth()/Index()/ChainCode()/ParentFingerPrint()/PublicKey() no longer read as the fields of the string", inp, fields(o), truth)
            elif out() != s or out() != s:
                alias("the serialisation after that use is not the string the object was built from", inp, out(), s)
            elif not is_pub and o.PublicKey().ToExtended() != s_pub:
                alias("the extended public key of the private object after that use is not the standard string", inp, o.PublicKey().ToExtended(), s_pub)
    # derived keys: the index object / path object used for the derivation stays the caller's and is reused (sibling m/i' from m/i ...)
    for i in range(12 if tier == "quick" else 300):
        c = curves[i % 4]
        ed = c.startswith("ed25519")
        seed = rand_seed(rng)
        par = CLS[c].FromSeed(seed)
        ixs = [rand_index(rng, True if ed else None) for _ in range(1 + i % 3)]
        ptxt = "/".join("%d%s" % (e & 0x7fffffff, "'" if e >> 31 else "") for e in ixs)
        ref = CLS[c].FromSeed(seed)
        for e in ixs:
            ref = ref.ChildKey(e)           # plain ints: nothing the caller could touch
        want = (ref.PrivateKey().ToExtended(), ref.PublicKey().ToExtended(), fields(ref))
        na += 1
        if i % 2 == 0:
            objs = [Bip32KeyIndex(e) for e in ixs]
            o = par
            for e in objs:
                o = o.ChildKey(e)
            how = "ChildKey(Bip32KeyIndex) chain %s, then Harden()/Unharden() on the caller's index objects" % ptxt
        else:
            path = Bip32PathParser.Parse(ptxt)
            o = par.DerivePath(path)
            objs = list(path)
            how = "DerivePath(Bip32Path %s), then Harden()/Unharden() on the elements of the caller's path object" % ptxt
        wrong = []
        ok = lambda: None if fields(o) == want[2] else "the key reads %s" % (fields(o),)     # noqa: E731
        for e in objs:
            wrong += use_value(e, ok)
        wrong += use_all(o, want[2])[0]
        got = (o.PrivateKey().ToExtended(), o.PublicKey().ToExtended(), fields(o))
        if wrong:
            alias("a value-returning method returns the wrong value or changes the key it came from", "%s seed=%s %s" % (c, seed.hex(), how), wrong[0],
                  "new objects (index | 2^31, index & (2^31-1), depth + 1); the key reads %s" % (want[2],))
        elif got != want:
            alias("a derived key no longer serialises as the child it is", "%s seed=%s %s" % (c, seed.hex(), how), got, want)
    rpt.extra["metadata_value_checks"] = na
    # option switches are per coin configuration: setting the alternate version bytes of ONE Litecoin configuration changes the strings of
    # that configuration only (the others keep printing and parsing their standard versions), and restoring it restores everything
    from bip_utils import Bip44, Bip49, Bip84, Bip44Coins, Bip49Coins, Bip84Coins, Bip44ConfGetter, Bip49ConfGetter, Bip84ConfGetter
    fams = [(Bip44, Bip44Coins, Bip44ConfGetter), (Bip49, Bip49Coins, Bip49ConfGetter), (Bip84, Bip84Coins, Bip84ConfGetter)]
    lite = [(cls, coin, getter.GetConfig(coin)) for cls, en, getter in fams for coin in en if hasattr(getter.GetConfig(coin), "UseAlternateKeyNetVersions")]
    others = [(Bip44, Bip44Coins.BITCOIN, None), (Bip49, Bip49Coins.BITCOIN, None)]
    seed_t = rand_seed(rng)

    def strings():
        return {"%s.%s" % (cls.__name__, coin.name): (cls.FromSeed(seed_t, coin).PrivateKey().ToExtended(), cls.FromSeed(seed_t, coin).PublicKey().ToExtended())
                for cls, coin, _ in lite + others}
    base = strings()
    nt = 0
    for cls, coin, conf in lite:
        name = "%s.%s" % (cls.__name__, coin.name)
        conf.UseAlternateKeyNetVersions(True)
        try:
            during = strings()
            nt += 1
            for k in base:
                if k != name and during[k] != base[k]:
                    bad.append({"property": "C05", "entry_point": "UseAlternateKeyNetVersions", "request_lines": [],
                                "relation": "setting the alternate key-net versions of %s changes the extended keys of %s" % (name, k),
                                "input": seed_t.hex(), "impl_output": str(during[k]), "model_output": str(base[k]), "no_failing_input": False})
            for k in base:
                if k != name:
                    c2, coin2 = next((c_, co) for c_, co, _ in lite + others if "%s.%s" % (c_.__name__, co.name) == k)
                    try:
                        if c2.FromExtendedKey(base[k][0], coin2).PrivateKey().ToExtended() != base[k][0]:
                            raise ValueError("different string")
                    except Exception as ex:  # noqa
                        bad.append({"property": "C05", "entry_point": "%s.FromExtendedKey" % c2.__name__, "request_lines": [],
                                    "relation": "with the alternate versions of %s set, %s no longer parses and reprints its own standard extended key" % (name, k),
                                    "input": base[k][0], "impl_output": type(ex).__name__, "model_output": base[k][0], "no_failing_input": False})
        finally:
            conf.UseAlternateKeyNetVersions(False)
        if strings() != base:
            bad.append({"property": "C05", "entry_point": "UseAlternateKeyNetVersions", "request_lines": [], "relation": "restoring the switch of %s does not restore every extended key" % name,
                        "input": seed_t.hex(), "impl_output": "differs", "model_output": "as before", "no_failing_input": False})
    rpt.extra["toggle_isolation_checks"] = nt
    # SLIP-32 form: layout against the standard (depth || path || chain code || key in Bech32 under xprv/xpub), parse, re-serialise;
    # keys with leading zero bytes and long paths included
    from bip_utils import Slip32PrivateKeySerializer, Slip32PublicKeySerializer, Slip32KeyDeserializer, Secp256k1PrivateKey, Ed25519PrivateKey, Bip32Path
    ns = 0
    n_small = 40 if tier == "quick" else 800
    # path lengths: short ones at random, then the whole range of the one-byte depth field — a SLIP-32 string has no fixed length
    # (11 + ceil((66 + 4*depth)*8/5) characters: 117 at depth 0, 1749 at depth 255), so every limit of the text layer lies somewhere on this axis
    deep = sorted({11, 12, 13, 50, 100, 128, 140, 141, 142, 143, 150, 200, 254, 255} | {rng.randrange(11, 256) for _ in range(4)}) if tier == "quick" else list(range(256))
    plan = [None] * n_small + deep
    for i, plen in enumerate(plan):
        ed = i % 5 == 4
        kb = bytes(rng.randrange(256) for _ in range(32)) if ed else \
            rng.choice([rng.randrange(1, ORDER["secp256k1"]), rng.randrange(1, 2**248), rng.randrange(1, 2**240), rng.randrange(1, 256), 1]).to_bytes(32, "big")
        priv = (Ed25519PrivateKey if ed else Secp256k1PrivateKey).FromBytes(kb)
        elems = [rand_index(rng, True if ed else None) for _ in range(rng.choice([0, 1, 3, 5, 10]) if plen is None else plen)]
        path = Bip32Path(elems, True)
        cc = bytes(rng.randrange(256) for _ in range(32)) if i % 7 else bytes(2) + bytes(rng.randrange(256) for _ in range(30))
        head = bytes([len(elems)]) + b"".join(e.to_bytes(4, "big") for e in elems) + cc
        for is_pub, ser_s, key_field in ((False, Slip32PrivateKeySerializer.Serialize(priv, path, cc), b"\x00" + kb),
                                      (True, Slip32PublicKeySerializer.Serialize(priv.PublicKey(), path, cc), priv.PublicKey().RawCompressed().ToBytes())):
            ns += 1
            want = _bech32_ref("xpub" if is_pub else "xprv", head + key_field)
            if ser_s != want:
                rep_s = {"property": "C05", "entry_point": "Slip32 serializer", "request_lines": [], "relation": "SLIP-32 string differs from the standard layout",
                         "input": "%s path=%s" % (kb.hex(), elems), "impl_output": ser_s, "model_output": want, "no_failing_input": False}
                bad.append(rep_s)
                continue
            try:
                d = Slip32KeyDeserializer.DeserializeKey(ser_s)
                got = (d.KeyBytes(), d.Path().ToList(), d.ChainCode().ToBytes(), d.IsPublic())
            except Exception as ex:  # noqa
                got = type(ex).__name__
            exp = (key_field if is_pub else kb, elems, cc, is_pub)
            if got != exp:
                bad.append({"property": "C05", "entry_point": "Slip32KeyDeserializer.DeserializeKey", "request_lines": [],
                            "relation": "parsing a SLIP-32 string (depth %d, %d characters) does not reconstruct the key material and metadata it was built from" % (len(elems), len(ser_s)),
                            "input": ser_s, "impl_output": str(got if isinstance(got, str) else (got[0].hex(), got[1], got[2].hex(), got[3])),
                            "model_output": str((exp[0].hex(), exp[1], exp[2].hex(), exp[3])), "no_failing_input": False})
                continue
            # re-serialisation from the PARSED parts is the identical string — also after the parsed values have been used (the path elements
            # are index objects: Harden()/Unharden() give new objects)
            for e in d.Path():
                e.Harden(), e.Unharden(), e.ToInt()
            d.ChainCode().ToBytes()
            again = (Slip32PublicKeySerializer.Serialize(priv.PublicKey(), d.Path(), d.ChainCode()) if is_pub else
                     Slip32PrivateKeySerializer.Serialize(priv, d.Path(), d.ChainCode()))
            if again != ser_s or d.Path().ToList() != elems:
                bad.append({"property": "C05", "entry_point": "Slip32 serializer after Slip32KeyDeserializer.DeserializeKey", "request_lines": [],
                            "relation": "re-serialising the parts of a parsed SLIP-32 key (after Harden()/Unharden() were called on the elements of its path) does not give the identical string",
                            "input": ser_s, "impl_output": again, "model_output": ser_s, "no_failing_input": False})
    rpt.extra["slip32_checks"] = ns
    rpt.extra["impl_roundtrips"] = n
    extra = _entry_point_text_damage(rng, tier, rpt) + _parse_history(rng, tier, rpt)
    return bad[:8] + extra[:8]


B58 = "123456789ABCDEFGHJKLMNPQRSTUVWXYZabcdefghijkmnopqrstuvwxyz"


def b58check_ref(s):
    """Base58Check text layer written from the definition (hashlib only): "Value" when a character is outside the alphabet, "Checksum" when
    the last four bytes are not the double SHA-256 of the rest, otherwise the payload bytes"""
    import hashlib
    v = 0
    for ch in s:
        k = B58.find(ch) if len(ch) == 1 else -1
        if k < 0:
            return "Value"
        v = v * 58 + k
    raw = bytes(len(s) - len(s.lstrip("1"))) + (v.to_bytes((v.bit_length() + 7) // 8, "big") if v else b"")
    if len(raw) < 4 or hashlib.sha256(hashlib.sha256(raw[:-4]).digest()).digest()[:4] != raw[-4:]:
        return "Checksum"
    return raw[:-4]


def _parse_entry_points(rng, tier):
    """every documented entry point that parses an extended key string, each with a private object of its own to take valid strings from:
    -> [(name, parse(str) -> object with IsPublicOnly/PublicKey().ToExtended()/PrivateKey().ToExtended(), to_public(obj), source object)].
    Core classes (the four SLIP-0010 curves, BIP32-Ed25519, the Cardano ones), the bare deserialiser, and the BIP-44 family wrappers over
    fixed and randomly drawn coins of every family (account-level keys)."""
    import bip_utils as B
    from bip_utils.bip.bip32.bip32_key_ser import Bip32KeyDeserializer
    out = []
    seed = bytes(rng.randrange(256) for _ in range(32))
    cores = [B.Bip32Slip10Secp256k1, B.Bip32Slip10Nist256p1, B.Bip32Slip10Ed25519, B.Bip32Slip10Ed25519Blake2b, B.Bip32KholawEd25519,
             B.CardanoIcarusBip32, B.CardanoByronLegacyBip32]
    for cls in cores:
        src = cls.FromSeed(seed).ChildKey(2**31 + rng.randrange(100)).ChildKey(2**31 + rng.getrandbits(20))
        out.append((cls.__name__ + ".FromExtendedKey", cls.FromExtendedKey, lambda o: o.ConvertToPublic(), src))
        kv = rng.choice(key_net_versions())
        kvo = Bip32KeyNetVersions(*kv)
        if cls in (B.Bip32Slip10Secp256k1, B.Bip32Slip10Nist256p1):
            src2 = cls.FromSeed(seed, kvo).ChildKey(rand_index(rng))
            out.append(("%s.FromExtendedKey(versions %s)" % (cls.__name__, kv[0].hex()), (lambda s, c=cls, k=kvo: c.FromExtendedKey(s, k)), lambda o: o.ConvertToPublic(), src2))

    class _Deser:      # the bare deserialiser seen through the same three observables
        def __init__(self, s):
            self.s, self.d = s, Bip32KeyDeserializer.DeserializeKey(s)

        def IsPublicOnly(self):
            return self.d.IsPublic()
    out.append(("Bip32KeyDeserializer.DeserializeKey", _Deser, None, B.Bip32Slip10Secp256k1.FromSeed(seed).ChildKey(7)))
    fams = [(B.Bip44, B.Bip44Coins), (B.Bip49, B.Bip49Coins), (B.Bip84, B.Bip84Coins), (B.Bip86, B.Bip86Coins), (B.Cip1852, B.Cip1852Coins)]
    fixed = {B.Bip44: [B.Bip44Coins.BITCOIN, B.Bip44Coins.DOGECOIN, B.Bip44Coins.SOLANA, B.Bip44Coins.NEO, B.Bip44Coins.CARDANO_BYRON_ICARUS],
             B.Bip49: [B.Bip49Coins.LITECOIN], B.Bip84: [B.Bip84Coins.BITCOIN], B.Bip86: [B.Bip86Coins.BITCOIN_TESTNET], B.Cip1852: [B.Cip1852Coins.CARDANO_ICARUS]}
    for fam, enum in fams:
        coins = list(fixed[fam])
        members = list(enum)
        coins += [members[rng.randrange(len(members))] for _ in range(2 if tier == "quick" else 12)]
        for coin in dict.fromkeys(coins):
            acc = fam.FromSeed(seed, coin).Purpose().Coin().Account(rng.randrange(4))
            out.append(("%s.FromExtendedKey(%s)" % (fam.__name__, coin.name), (lambda s, f=fam, c=coin: f.FromExtendedKey(s, c)),
                        lambda w: w.Bip32Object().ConvertToPublic(), acc))
    return out


def _text_damages(rng, s):
    """strings differing from `s` at the text layer only: characters outside the Base58 alphabet (every Unicode blank, invisible
    characters, ASCII look-alikes, non-ASCII letters and digits) put before, after, around and inside the string or over one of its
    characters; alphabet characters substituted, swapped in case, dropped, added (checksum).  -> [(description, string)]"""
    blanks = [chr(i) for i in range(0x3001) if chr(i).isspace()]
    foreign = ["​", "﻿", "\x00", "\x7f", "0", "O", "I", "l", "+", "/", "=", "-", "_", ".", ",", ":", "\"", "é", "１", "٣", "ａ", "\U0001d7d9"]
    out = []
    for ch in ["\n", "\r\n", " ", "\t", " ", " "] + [rng.choice(blanks) for _ in range(3)] + [rng.choice(foreign) for _ in range(4)]:
        where = rng.randrange(4)
        out.append(("%r after the string" % ch, s + ch))
        out.append(("%r before the string" % ch, ch + s))
        if where == 0:
            out.append(("%r around the string" % ch, ch + s + ch))
        elif where == 1:
            j = rng.randrange(1, len(s))
            out.append(("%r inserted at %d" % (ch, j), s[:j] + ch + s[j:]))
        elif where == 2:
            j = rng.randrange(len(s))
            out.append(("%r over character %d" % (ch, j), s[:j] + ch + s[j + 1:]))
        else:
            out.append(("%r twice after the string" % ch, s + ch + ch))
    for _ in range(3):
        j = rng.randrange(len(s))
        out.append(("alphabet character substituted at %d" % j, s[:j] + rng.choice(B58.replace(s[j], "")) + s[j + 1:]))
    j = rng.choice([k for k, ch in enumerate(s) if ch.isalpha()])
    out.append(("case swapped at %d" % j, s[:j] + s[j].swapcase() + s[j + 1:]))
    out += [("last character dropped", s[:-1]), ("first character dropped", s[1:]), ("'1' put before", "1" + s), ("character appended", s + rng.choice(B58)),
            ("upper-cased", s.upper()), ("two neighbours swapped", s[:5] + s[6] + s[5] + s[7:] if s[5] != s[6] else s[:-1])]
    return [(d, t) for d, t in out if t != s]


def _entry_point_text_damage(rng, tier, rpt):
    """rejection clause at EVERY parsing entry point: a string damaged at the text layer is refused with the Base58 value error (a character
    outside the alphabet) or the Base58 checksum error — by the core classes, the bare deserialiser and every BIP-44 family wrapper alike;
    which of the two is decided by an independent Base58Check reference (hashlib).  The undamaged string is accepted and re-serialises as
    itself (canonical: no other spelling of a key is accepted)."""
    from bip_utils import Base58ChecksumError
    bad = []
    n = 0

    def rep(what, inp, got, want):
        bad.append({"property": "C05", "entry_point": what, "request_lines": [], "relation": what, "input": inp,
                    "impl_output": got, "model_output": want, "no_failing_input": False})
    for name, parse, _conv, src in _parse_entry_points(rng, tier):
        nbad = 0
        for is_pub, s in ((False, src.PrivateKey().ToExtended()), (True, src.PublicKey().ToExtended())):
            o = parse(s)
            if o.IsPublicOnly() != is_pub or (hasattr(o, "PublicKey") and (o.PublicKey().ToExtended() if is_pub else o.PrivateKey().ToExtended()) != s):
                rep("%s: the canonical string is not parsed back to the key it came from" % name, s, "differs", s)
            for what, t in _text_damages(rng, s):
                want = b58check_ref(t)
                if not isinstance(want, str):
                    continue          # checksum still valid (2^-32): not a text-layer damage
                n += 1
                try:
                    r = parse(t)
                    got = "accepted (%s)" % ("public-only" if r.IsPublicOnly() else "private")
                except Exception as ex:  # noqa
                    got = exc_kind_(ex)
                if got != want and nbad < 2:
                    nbad += 1
                    rep("%s: an extended %s key string damaged at the text layer (%s) is not refused with the Base58 %s error" % (
                        name, "public" if is_pub else "private", what, "value" if want == "Value" else "checksum"), repr(t), got, "err " + want)
    rpt.extra["entry_point_text_damage_checks"] = n
    return bad


def exc_kind_(ex):
    from harness.canon import exc_kind
    return exc_kind(ex)


def _parse_history(rng, tier, rpt):
    """parsing is a function of the string: whatever was done before with objects parsed from the same (or another) string — converted to
    public-only, used for derivation, parsed again in between — a later parse of an extended private key gives an object WITH the private
    key, whose fields and both re-serialisations are those of the string, and a parse of the extended public key gives the public-only one.
    Random histories over the strings of one key at every parsing entry point (core classes with default and explicit version objects,
    BIP-44 family wrappers)."""
    bad = []
    n = 0

    def rep(what, inp, got, want):
        bad.append({"property": "C05", "entry_point": what, "request_lines": [], "relation": what, "input": inp,
                    "impl_output": got, "model_output": want, "no_failing_input": False})

    def view(o):
        w = o.Bip32Object() if hasattr(o, "Bip32Object") else o
        return (w.IsPublicOnly(), w.PublicKey().ToExtended(), None if w.IsPublicOnly() else w.PrivateKey().ToExtended(),
                int(w.Depth()), int(w.Index()), w.ChainCode().ToBytes().hex(), w.ParentFingerPrint().ToBytes().hex())
    for name, parse, conv, src in _parse_entry_points(rng, tier):
        if conv is None:
            continue
        xprv, xpub = src.PrivateKey().ToExtended(), src.PublicKey().ToExtended()
        sv = view(src)
        truth = {xprv: sv, xpub: (True, xpub, None) + sv[3:]}
        live = []
        hist = []
        steps = [rng.choice(["xprv", "xprv", "xpub", "convert", "child"]) for _ in range(8 if tier == "quick" else 20)]
        for st in ["xprv", "convert", "xprv"] + steps + ["xprv"]:
            hist.append(st)
            if st in ("xprv", "xpub"):
                s = xprv if st == "xprv" else xpub
                n += 1
                o = parse(s)
                got = view(o)
                if got != truth[s]:
                    rep("%s: a parsed extended %s key is not the key of the string after the history %s on objects parsed earlier from the same strings" % (
                        name, "private" if st == "xprv" else "public", "/".join(hist[:-1]) or "-"), s, str(got), str(truth[s]))
                    break
                live.append(o)
            elif live:
                o = live[rng.randrange(len(live))]
                if st == "convert":
                    conv(o)
                else:
                    w = o.Bip32Object() if hasattr(o, "Bip32Object") else o
                    try:
                        w.ChildKey(rand_index(rng, None if w.IsPublicOnly() else True))
                    except Exception:  # noqa  (hardened from public-only, non-hardened on ed25519 …: refusals are not this relation's matter)
                        pass
    rpt.extra["parse_history_checks"] = n
    return bad
