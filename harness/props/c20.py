"""C20 — Electrum wallets, brainwallets and SPL addresses equal their defining formulas."""
import hashlib
from harness.core import Case
from harness.canon import hx, tx, unhx, untx, exc_kind
from harness.props.addr_common import rand_priv
from harness.props.bip32_common import rand_seed, IDX_EDGE
from bip_utils import (ElectrumV1, ElectrumV2Standard, ElectrumV2Segwit, Brainwallet, BrainwalletAlgos, BrainwalletCoins, SplToken,
                       Bip32KeyIndex, Secp256k1PrivateKey, Ed25519PrivateKey, SolAddrEncoder, Base58Encoder, Bip32Slip10Secp256k1)
from bip_utils.ecc.ed25519.lib import ed25519_lib

LEAN_MODULES = ["BipVerif.Props.C20"]
N = 0xFFFFFFFFFFFFFFFFFFFFFFFFFFFFFFFEBAAEDCE6AF48A03BBFD25E8CD0364141


def opt(f):
    try:
        return f()
    except Exception as ex:  # noqa
        return "!" + exc_kind(ex)


def _ev1(kind, key, ch, ad):
    w = ElectrumV1.FromPrivateKey(unhx(key)) if kind == "priv" else ElectrumV1.FromPublicKey(unhx(key))
    ch, ad = int(ch), int(ad)
    return " ".join([opt(lambda: hx(w.GetPrivateKey(ch, ad).Raw().ToBytes())), opt(lambda: hx(w.GetPublicKey(ch, ad).RawCompressed().ToBytes())),
                     opt(lambda: tx(w.GetAddress(ch, ad)))])


def _ev2(kind, seed, ch, ad):
    w = (ElectrumV2Segwit if kind == "segwit" else ElectrumV2Standard).FromSeed(unhx(seed))
    ch, ad = int(ch), int(ad)
    return " ".join([hx(w.GetPrivateKey(ch, ad).Raw().ToBytes()), hx(w.GetPublicKey(ch, ad).RawCompressed().ToBytes()), opt(lambda: tx(w.GetAddress(ch, ad)))])


def _brain(algo, pw, salt, n, r, p):
    kw = {}
    if algo == "PBKDF2_HMAC_SHA512":
        kw = {"salt": untx(salt), "itr_num": int(n)}
    elif algo == "SCRYPT":
        kw = {"salt": untx(salt), "n": int(n), "r": int(r), "p": int(p)}
    b = Brainwallet.Generate(untx(pw), BrainwalletCoins.BITCOIN, BrainwalletAlgos[algo], **kw)
    return hx(b.PrivateKey().Raw().ToBytes()) + " " + hx(b.PublicKey().RawCompressed().ToBytes())


IMPL = {"ev1wallet": _ev1, "ev2wallet": _ev2, "brain": _brain,
        "findpda": lambda seeds, prog: tx(SplToken.FindPda([] if seeds == "-" else [unhx(s) for s in seeds.split(";")], untx(prog))),
        "splata": lambda w, m, t: tx(SplToken.GetAssociatedTokenAddressWithProgramId(untx(w), untx(m), untx(t)))}


def idx(rng):
    return rng.choice(IDX_EDGE + [9, 10, 99, 100, rng.getrandbits(32)]) if rng.random() < 0.9 else rng.choice([2**32, 2**40])


def sol_addr(rng):
    return SolAddrEncoder.EncodeKey(Ed25519PrivateKey.FromBytes(bytes(rng.randrange(256) for _ in range(32))).PublicKey())


def gen(rng, tier):
    n = 60 if tier == "quick" else 4000
    for i in range(n):
        k = rand_priv(rng, "secp256k1")
        ch, ad = idx(rng), idx(rng)
        if i % 3 == 2:
            pub = Secp256k1PrivateKey.FromBytes(k).PublicKey().RawCompressed().ToBytes()
            yield Case("ev1wallet", ["pub", hx(pub), ch, ad], "ev1-pub")
        else:
            yield Case("ev1wallet", ["priv", hx(k if i % 19 else bytes(32)), ch, ad], "ev1-priv")
        yield Case("ev2wallet", [("std", "segwit")[i % 2], hx(rand_seed(rng)), ch, ad], "ev2")
    # output-dependent: Electrum v1 master keys whose uncompressed public key has an x (or y) coordinate starting with 0x04 (the SEC1 prefix
    # value), 0x00 or 0xff — the bytes hashed into every child's sequence value; found with coincurve directly
    from coincurve import PublicKey as _CPub
    need = {("x", 4), ("x", 0), ("y", 4), ("x", 255)}
    for j in range(40000):
        if not need or (tier == "quick" and ("x", 4) not in need and len(need) <= 2):
            break
        k = rand_priv(rng, "secp256k1")
        unc = _CPub.from_valid_secret(k).format(compressed=False)
        tag = ("x", unc[1]) if ("x", unc[1]) in need else ("y", unc[33]) if ("y", unc[33]) in need else None
        if tag:
            need.discard(tag)
            for ch, ad in ((0, 0), (1, 5)):
                yield Case("ev1wallet", ["priv", hx(k), ch, ad], "ev1-master-pub-%s-starts-%02x" % tag)
                yield Case("ev1wallet", ["pub", hx(_CPub.from_valid_secret(k).format(compressed=True)), ch, ad], "ev1-master-pub-%s-starts-%02x" % tag)
    pws = ["", "correct horse battery staple", "pässwörd", "😀", "a\x00b", "The quick brown fox"]
    for i in range(12 if tier == "quick" else 300):
        pw = pws[i % len(pws)] + (str(i) if i >= len(pws) else "")
        salt = ["", "salt", "sält"][i % 3]
        yield Case("brain", ["SHA256", tx(pw), "-", 0, 0, 0], "brain")
        yield Case("brain", ["DOUBLE_SHA256", tx(pw), "-", 0, 0, 0], "brain")
        yield Case("brain", ["PBKDF2_HMAC_SHA512", tx(pw), tx(salt), rng.choice([1, 2, 10, 100]), 0, 0], "brain")
        yield Case("brain", ["SCRYPT", tx(pw), tx(salt), rng.choice([2, 16, 64]), rng.choice([1, 2, 8]), rng.choice([1, 2])], "brain")
    if tier == "thorough":
        yield Case("brain", ["PBKDF2_HMAC_SHA512", tx("default cost"), "-", 2 * 1024 * 1024, 0, 0], "brain-default")
    for i in range(40 if tier == "quick" else 2500):
        w, m = sol_addr(rng), sol_addr(rng)
        t = "TokenkegQfeZyiNwAJbNbGKPFXCWuBvf9Ss623VQ5DA" if i % 4 else sol_addr(rng)
        yield Case("splata", [tx(w), tx(m), tx(t)], "spl-ata")
        seeds = [bytes(rng.randrange(256) for _ in range(rng.choice([0, 1, 8, 32]))) for _ in range(rng.randrange(0, 5))]
        yield Case("findpda", [";".join(hx(s) for s in seeds) if seeds else "-", tx(rng.choice([w, "ATokenGPvbdGVxr1b2hvZbsiqW5xWH25efTNsLJA8knL"]))], "spl-pda")
    yield Case("findpda", [";".join(hx(bytes(1)) for _ in range(17)), tx("ATokenGPvbdGVxr1b2hvZbsiqW5xWH25efTNsLJA8knL")], "neg-spl")
    yield Case("findpda", [hx(bytes(33)), tx("ATokenGPvbdGVxr1b2hvZbsiqW5xWH25efTNsLJA8knL")], "neg-spl")
    yield Case("splata", [tx("notbase58!"), tx(sol_addr(rng)), tx(sol_addr(rng))], "neg-spl")


def relations(rng, tier, rpt):
    """defining formulas computed independently (hashlib, the Bip32 class, ed25519 on-curve test) and index objects honoured."""
    bad = []
    n = 0

    def rep(what, inp, got, want):
        bad.append({"property": "C20", "entry_point": what, "request_lines": [], "relation": what, "input": inp,
                    "impl_output": got, "model_output": want, "no_failing_input": False})

    # a wallet whose master object is converted to public-only BEFORE its first use still answers every public question like a fresh wallet,
    # and refuses the private ones (for both Electrum v2 classes and the v1 class built from a Bip32-free key)
    from bip_utils import Bip32Slip10Secp256k1, Bip32KeyError
    for i, cls in enumerate((ElectrumV2Standard, ElectrumV2Segwit) * (1 if tier == "quick" else 10)):
        sd = rand_seed(rng)
        ref = cls(Bip32Slip10Secp256k1.FromSeed(sd))
        want = (ref.GetPublicKey(0, 3).RawCompressed().ToHex(), ref.GetAddress(1, 2), ref.MasterPublicKey().RawCompressed().ToHex())
        master = Bip32Slip10Secp256k1.FromSeed(sd)
        w = cls(master)
        master.ConvertToPublic()
        n += 1
        got = opt(lambda: (w.GetPublicKey(0, 3).RawCompressed().ToHex(), w.GetAddress(1, 2), w.MasterPublicKey().RawCompressed().ToHex()))
        if got != want:
            rep("%s built from a private master that is converted to public-only before the first call does not answer like a fresh wallet" % cls.__name__,
                sd.hex(), str(got), str(want))
        p = opt(lambda: w.GetPrivateKey(0, 3).Raw().ToHex())
        if p != "!Key":
            rep("%s: private key handed out (or wrong error) after the master was converted to public-only before the first call" % cls.__name__, sd.hex(), str(p), "!Key")
    # one wallet object asked for many (change, index) pairs, incl. the same index under both changes and repeated pairs:
    # every answer equals the one of a fresh wallet asked only for that pair
    for i in range(6 if tier == "quick" else 120):
        k = rand_priv(rng, "secp256k1")
        seed = rand_seed(rng)
        makers = [("ElectrumV1(private)", lambda: ElectrumV1.FromPrivateKey(k)),
                  ("ElectrumV1(public-only)", lambda: ElectrumV1.FromPublicKey(ElectrumV1.FromPrivateKey(k).MasterPublicKey().RawCompressed().ToBytes())),
                  ("ElectrumV2Standard", lambda: ElectrumV2Standard.FromSeed(seed)), ("ElectrumV2Segwit", lambda: ElectrumV2Segwit.FromSeed(seed))]
        a1, a2 = rng.getrandbits(10), rng.choice(IDX_EDGE[:4])
        pairs = [(0, a1), (1, a1), (0, a1), (1, a2), (0, a2), (a1, a1), (1, a1), (a1, 0), (0, 0)]
        for name, mk in makers:
            shared = mk()
            for ch_, ad_ in pairs:
                n += 1
                got = (shared.GetAddress(ch_, ad_), shared.GetPublicKey(ch_, ad_).RawCompressed().ToBytes().hex())
                fresh = mk()
                want = (fresh.GetAddress(ch_, ad_), fresh.GetPublicKey(ch_, ad_).RawCompressed().ToBytes().hex())
                if got != want:
                    rep("%s: the answer for (change, index) depends on the pairs the same wallet object was asked before" % name,
                        "%s pairs=%s at %s" % ((k if "V1" in name else seed).hex(), pairs, (ch_, ad_)), str(got), str(want))
                    break
    for i in range(15 if tier == "quick" else 400):
        k = rand_priv(rng, "secp256k1")
        ch, ad = rng.choice(IDX_EDGE), rng.getrandbits(32)
        w = ElectrumV1.FromPrivateKey(k)
        mpub = w.MasterPublicKey().RawUncompressed().ToBytes()[1:]
        seq = int.from_bytes(hashlib.sha256(hashlib.sha256(("%d:%d:" % (ad, ch)).encode() + mpub).digest()).digest(), "big")
        want = ((int.from_bytes(k, "big") + seq) % N).to_bytes(32, "big")
        n += 1
        if w.GetPrivateKey(ch, ad).Raw().ToBytes() != want:
            rep("Electrum v1 child is not master + SHA256d('index:change:' || master public key) mod n", "%s %d %d" % (k.hex(), ch, ad),
                w.GetPrivateKey(ch, ad).Raw().ToHex(), want.hex())
        wp = ElectrumV1.FromPublicKey(w.MasterPublicKey().RawCompressed().ToBytes())
        if wp.GetPublicKey(ch, ad).RawCompressed().ToBytes() != w.GetPublicKey(ch, ad).RawCompressed().ToBytes() or wp.GetAddress(ch, ad) != w.GetAddress(ch, ad):
            rep("Electrum v1 public-only wallet derives a different key/address", "%s %d %d" % (k.hex(), ch, ad), wp.GetAddress(ch, ad), w.GetAddress(ch, ad))
        seed = rand_seed(rng)
        for cls, path in ((ElectrumV2Standard, "m/%d/%d"), (ElectrumV2Segwit, "m/0'/%d/%d")):
            e = cls.FromSeed(seed)
            plain = Bip32Slip10Secp256k1.FromSeed(seed).DerivePath(path % (ch, ad))
            if e.GetPrivateKey(ch, ad).Raw().ToBytes() != plain.PrivateKey().Raw().ToBytes():
                rep("Electrum v2 key is not the BIP-32 child " + path, "%s %d %d" % (seed.hex(), ch, ad), e.GetPrivateKey(ch, ad).Raw().ToHex(), plain.PrivateKey().Raw().ToHex())
            try:
                o = e.GetPrivateKey(Bip32KeyIndex(ch), Bip32KeyIndex(ad)).Raw().ToBytes()
                a2 = e.GetAddress(Bip32KeyIndex(ch), Bip32KeyIndex(ad))
                if o != e.GetPrivateKey(ch, ad).Raw().ToBytes() or a2 != e.GetAddress(ch, ad):
                    rep("index objects give a different key than integers", "%s %d %d" % (seed.hex(), ch, ad), o.hex(), "same as ints")
            except Exception as ex:  # noqa
                rep("index objects (documented argument type) are refused", "%s.GetPrivateKey(Bip32KeyIndex(%d), Bip32KeyIndex(%d))" % (cls.__name__, ch, ad), type(ex).__name__, "same as ints")
    # SPL: first bump from 255 downward whose digest is off-curve
    for i in range(20 if tier == "quick" else 600):
        seeds = [bytes(rng.randrange(256) for _ in range(32)) for _ in range(3)]
        prog = sol_addr(rng)
        from bip_utils import SolAddrDecoder
        pb = SolAddrDecoder.DecodeAddr(prog)
        want = None
        for bump in range(255, 0, -1):
            d = hashlib.sha256(b"".join(seeds) + bytes([bump]) + pb + b"ProgramDerivedAddress").digest()
            if not ed25519_lib.point_is_on_curve(d):
                want = Base58Encoder.Encode(d)
                break
        n += 1
        got = SplToken.FindPda(seeds, prog)
        if got != want:
            rep("FindPda is not the first off-curve SHA-256 PDA from bump 255 downward", prog, got, str(want))
        # the caller's seeds are an input, not scratch space: the same list asked again answers alike and is left as it was
        kept = list(seeds)
        again = opt(lambda: SplToken.FindPda(seeds, prog))
        if again != want or seeds != kept:
            rep("FindPda on the same seeds list a second time answers differently / changes the caller's list",
                "%s seeds=%s" % (prog, [x.hex() for x in kept]), "again=%s list-now=%d items" % (again, len(seeds)), str(want))
    rpt.extra["impl_relation_checks"] = n
    return bad[:6]
