"""C20 — Electrum wallets, brainwallets and SPL addresses equal their defining formulas."""
import hashlib
from harness.core import Case
from harness.canon import hx, tx, unhx, untx, exc_kind
from harness.props.addr_common import rand_priv
from harness.props.bip32_common import rand_seed, IDX_EDGE
from bip_utils import (ElectrumV1, ElectrumV2Standard, ElectrumV2Segwit, Brainwallet, BrainwalletAlgos, BrainwalletCoins, SplToken,
                       Bip32KeyIndex, Secp256k1PrivateKey, Ed25519PrivateKey, SolAddrEncoder, Base58Encoder, Bip32Slip10Secp256k1)
from bip_utils.ecc.ed25519.lib import ed25519_lib

LEAN_MODULES = ["BipVerif.Props.C20", "BipVerif.Props.C04Group"]
N = 0xFFFFFFFFFFFFFFFFFFFFFFFFFFFFFFFEBAAEDCE6AF48A03BBFD25E8CD0364141


def opt(f):
    try:
        return f()
    except Exception as ex:  # noqa
        return "!" + exc_kind(ex)


def _ev1(kind, key, ch, ad):
    w = ElectrumV1.FromPrivateKey(unhx(key)) if kind == "priv" else ElectrumV1.FromPublicKey(unhx(key))
    ch, ad = int(ch), int(ad)
    return " ".join([opt(lambda: hx(w.GetPrivateKey(ch, ad).Raw().ToBytes())), opt(lambda: hx(w.GetPublicKey(ch, ad).RawCompressed().ToBytes())),
                     opt(lambda: tx(w.GetAddress(ch, ad)))])


def _ev2(kind, seed, ch, ad):
    w = (ElectrumV2Segwit if kind == "segwit" else ElectrumV2Standard).FromSeed(unhx(seed))
    ch, ad = int(ch), int(ad)
    return " ".join([hx(w.GetPrivateKey(ch, ad).Raw().ToBytes()), hx(w.GetPublicKey(ch, ad).RawCompressed().ToBytes()), opt(lambda: tx(w.GetAddress(ch, ad)))])


def _brain(algo, pw, salt, n, r, p):
    kw = {}
    if algo == "PBKDF2_HMAC_SHA512":
        kw = {"salt": untx(salt), "itr_num": int(n)}
    elif algo == "SCRYPT":
        kw = {"salt": untx(salt), "n": int(n), "r": int(r), "p": int(p)}
    b = Brainwallet.Generate(untx(pw), BrainwalletCoins.BITCOIN, BrainwalletAlgos[algo], **kw)
    return hx(b.PrivateKey().Raw().ToBytes()) + " " + hx(b.PublicKey().RawCompressed().ToBytes())


IMPL = {"ev1wallet": _ev1, "ev2wallet": _ev2, "brain": _brain,
        "findpda": lambda seeds, prog: tx(SplToken.FindPda([] if seeds == "-" else [unhx(s) for s in seeds.split(";")], untx(prog))),
        "splata": lambda w, m, t: tx(SplToken.GetAssociatedTokenAddressWithProgramId(untx(w), untx(m), untx(t)))}


def idx(rng):
    return rng.choice(IDX_EDGE + [9, 10, 99, 100, rng.getrandbits(32)]) if rng.random() < 0.9 else rng.choice([2**32, 2**40])


def sol_addr(rng):
    return SolAddrEncoder.EncodeKey(Ed25519PrivateKey.FromBytes(bytes(rng.randrange(256) for _ in range(32))).PublicKey())


# ---- SPL program-derived addresses with LONG runs of discarded candidates -------------------------------------------------------------
# Every candidate digest is a valid ed25519 point with probability ~1/2, so an input whose first k candidates (bumps 255, 254, …) are all
# discarded has probability 2^-k: random inputs never walk more than a dozen steps down. The reference below is the statement itself with
# hashlib and integer arithmetic only (a 32-byte string is a valid point iff (y^2 - 1)/(d y^2 + 1) is a square mod 2^255 - 19).
_P = 2**255 - 19
_D = (-121665 * pow(121666, _P - 2, _P)) % _P
_B58 = "123456789ABCDEFGHJKLMNPQRSTUVWXYZabcdefghijkmnopqrstuvwxyz"
ATA_PROGRAM = "ATokenGPvbdGVxr1b2hvZbsiqW5xWH25efTNsLJA8knL"
TOKEN_PROGRAM = "TokenkegQfeZyiNwAJbNbGKPFXCWuBvf9Ss623VQ5DA"
_MARK = b"ProgramDerivedAddress"


def b58e(b):
    n, out = int.from_bytes(b, "big"), ""
    while n:
        n, r = divmod(n, 58)
        out = _B58[r] + out
    return "1" * (len(b) - len(b.lstrip(b"\x00"))) + out


def b58d32(a):
    n = 0
    for ch in a:
        n = n * 58 + _B58.index(ch)
    return n.to_bytes(32, "big")


def ref_is_point(b):
    y = int.from_bytes(b, "little") & ((1 << 255) - 1)
    yy = y * y % _P
    t = (yy - 1) * (_D * yy + 1) % _P
    return t == 0 or pow(t, (_P - 1) // 2, _P) == 1


def ref_find_pda(seeds, prog_bytes):
    """(address, bump) of the first candidate, from bump 255 downward, that is not a valid point"""
    pre = hashlib.sha256(b"".join(seeds))
    for bump in range(255, 0, -1):
        h = pre.copy()
        h.update(bytes([bump]) + prog_bytes + _MARK)
        d = h.digest()
        if not ref_is_point(d):
            return b58e(d), bump
    return None, 0


def _fast_is_point(b):
    """search filter only (libsodium's point decoding through the nacl bindings, ~10x faster than the integer test): it chooses WHICH inputs
    are looked at; what the answer must be always comes from ref_find_pda"""
    try:
        from nacl import bindings as nb
    except Exception:  # noqa
        return ref_is_point(b)
    try:
        nb.crypto_core_ed25519_add(b, (1).to_bytes(32, "little"))
        return True
    except Exception:  # noqa
        return False


def _run_length(seeds, prog_bytes, cap=64):
    pre = hashlib.sha256(b"".join(seeds))
    k = 0
    while k < cap:
        h = pre.copy()
        h.update(bytes([255 - k]) + prog_bytes + _MARK)
        if not _fast_is_point(h.digest()):
            break
        k += 1
    return k


_WALLET_KEY = hashlib.sha256(b"verif-wallet").digest()
# (counter, candidates discarded) found by an off-line sweep of 90 / 12 million counters; the run length is re-computed with the reference on
# every run, nothing but the counter is taken from here
LONG_RUN_PDA = [(82131, 15), (124255, 15), (184747, 16), (208004, 16), (89282, 17), (401627, 17), (575083, 18), (776874, 18), (1020886, 19), (3398183, 19),
                (4316250, 20), (512225, 21), (1445095, 21), (2884384, 21), (3939322, 21), (25519022, 23), (9656076, 24), (2193103, 25), (86488354, 26),
                (7159963, 28)]
LONG_RUN_ATA = [(98860, 15), (316331, 15), (140588, 16), (360072, 16), (334644, 17), (870437, 17), (93654, 18), (679684, 18), (1573962, 19), (2893847, 19),
                (10481861, 20), (11573872, 20), (4858534, 21), (482934, 22), (5509237, 25)]


def long_run_inputs():
    """[("pda", seeds, program address) | ("ata", wallet, mint, token program)] whose first 15 … 28 candidates are all valid points"""
    out = []
    for j, (c, _k) in enumerate(LONG_RUN_PDA):
        c8 = c.to_bytes(8, "little")
        seeds = ([b"verif-pda", c8], [b"verif", b"-pda", c8[:3], c8[3:]], [b"verif-pda" + c8], [b"", b"verif-pda", c8, b""])[j % 4]
        out.append(("pda", seeds, TOKEN_PROGRAM))
    wallet = SolAddrEncoder.EncodeKey(Ed25519PrivateKey.FromBytes(_WALLET_KEY).PublicKey())
    for c, _k in LONG_RUN_ATA:
        out.append(("ata", wallet, b58e(hashlib.sha256(b"verif-mint" + c.to_bytes(8, "little")).digest()), TOKEN_PROGRAM))
    return out


def search_long_runs(rng, tries, keep=6):
    """random (seeds, program) and (wallet, mint, token program) inputs; the `keep` longest runs of discarded candidates seen are returned"""
    best = []
    progs = [TOKEN_PROGRAM, ATA_PROGRAM, sol_addr(rng)]
    wallet = sol_addr(rng)
    wb, tb, ab = b58d32(wallet), b58d32(TOKEN_PROGRAM), b58d32(ATA_PROGRAM)
    pbs = [b58d32(x) for x in progs]
    tag = bytes(rng.randrange(256) for _ in range(rng.randrange(1, 12)))
    for i in range(tries):
        c = rng.getrandbits(64).to_bytes(8, "little")
        if i % 2:
            mint = hashlib.sha256(tag + c).digest()
            if not _fast_is_point(mint):
                continue
            k = _run_length([wb, tb, mint], ab)
            item = ("ata", wallet, b58e(mint), TOKEN_PROGRAM)
        else:
            j = i // 2 % len(progs)
            seeds = [tag, c] if i % 4 else [tag + c[:5], c[5:], b""]
            k = _run_length(seeds, pbs[j])
            item = ("pda", seeds, progs[j])
        if len(best) < keep or k > best[-1][0]:
            best.append((k, i, item))
            best.sort(key=lambda x: (-x[0], x[1]))
            del best[keep:]
    return [it for _k, _i, it in best]


def long_run_case(item):
    if item[0] == "pda":
        return Case("findpda", [";".join(hx(x) if x else "-" for x in item[1]), tx(item[2])], "spl-pda-long-run")
    return Case("splata", [tx(item[1]), tx(item[2]), tx(item[3])], "spl-ata-long-run")


def gen(rng, tier):
    n = 60 if tier == "quick" else 4000
    for i in range(n):
        k = rand_priv(rng, "secp256k1")
        ch, ad = idx(rng), idx(rng)
        if i % 3 == 2:
            pub = Secp256k1PrivateKey.FromBytes(k).PublicKey().RawCompressed().ToBytes()
            yield Case("ev1wallet", ["pub", hx(pub), ch, ad], "ev1-pub")
        else:
            yield Case("ev1wallet", ["priv", hx(k if i % 19 else bytes(32)), ch, ad], "ev1-priv")
        yield Case("ev2wallet", [("std", "segwit")[i % 2], hx(rand_seed(rng)), ch, ad], "ev2")
    # output-dependent: Electrum v1 master keys whose uncompressed public key has an x (or y) coordinate starting with 0x04 (the SEC1 prefix
    # value), 0x00 or 0xff — the bytes hashed into every child's sequence value; found with coincurve directly
    from coincurve import PublicKey as _CPub
    need = {("x", 4), ("x", 0), ("y", 4), ("x", 255)}
    for j in range(40000):
        if not need or (tier == "quick" and ("x", 4) not in need and len(need) <= 2):
            break
        k = rand_priv(rng, "secp256k1")
        unc = _CPub.from_valid_secret(k).format(compressed=False)
        tag = ("x", unc[1]) if ("x", unc[1]) in need else ("y", unc[33]) if ("y", unc[33]) in need else None
        if tag:
            need.discard(tag)
            for ch, ad in ((0, 0), (1, 5)):
                yield Case("ev1wallet", ["priv", hx(k), ch, ad], "ev1-master-pub-%s-starts-%02x" % tag)
                yield Case("ev1wallet", ["pub", hx(_CPub.from_valid_secret(k).format(compressed=True)), ch, ad], "ev1-master-pub-%s-starts-%02x" % tag)
    pws = ["", "correct horse battery staple", "pässwörd", "😀", "a\x00b", "The quick brown fox"]
    for i in range(12 if tier == "quick" else 300):
        pw = pws[i % len(pws)] + (str(i) if i >= len(pws) else "")
        salt = ["", "salt", "sält"][i % 3]
        yield Case("brain", ["SHA256", tx(pw), "-", 0, 0, 0], "brain")
        yield Case("brain", ["DOUBLE_SHA256", tx(pw), "-", 0, 0, 0], "brain")
        yield Case("brain", ["PBKDF2_HMAC_SHA512", tx(pw), tx(salt), rng.choice([1, 2, 10, 100]), 0, 0], "brain")
        yield Case("brain", ["SCRYPT", tx(pw), tx(salt), rng.choice([2, 16, 64]), rng.choice([1, 2, 8]), rng.choice([1, 2])], "brain")
    if tier == "thorough":
        yield Case("brain", ["PBKDF2_HMAC_SHA512", tx("default cost"), "-", 2 * 1024 * 1024, 0, 0], "brain-default")
    for i in range(40 if tier == "quick" else 2500):
        w, m = sol_addr(rng), sol_addr(rng)
        t = "TokenkegQfeZyiNwAJbNbGKPFXCWuBvf9Ss623VQ5DA" if i % 4 else sol_addr(rng)
        yield Case("splata", [tx(w), tx(m), tx(t)], "spl-ata")
        seeds = [bytes(rng.randrange(256) for _ in range(rng.choice([0, 1, 8, 32]))) for _ in range(rng.randrange(0, 5))]
        yield Case("findpda", [";".join(hx(s) for s in seeds) if seeds else "-", tx(rng.choice([w, "ATokenGPvbdGVxr1b2hvZbsiqW5xWH25efTNsLJA8knL"]))], "spl-pda")
    # long runs of discarded candidates (15 … 28 from the pinned counters, plus the longest found by a random search): the model walks down too
    for item in long_run_inputs() + search_long_runs(rng, 6000 if tier == "quick" else 400000):
        if item[0] == "pda" and any(len(x) == 0 for x in item[1]):
            continue        # an empty seed has no spelling inside a ';'-joined request field; the relation below covers those
        yield long_run_case(item)
    yield Case("findpda", [";".join(hx(bytes(1)) for _ in range(17)), tx("ATokenGPvbdGVxr1b2hvZbsiqW5xWH25efTNsLJA8knL")], "neg-spl")
    yield Case("findpda", [hx(bytes(33)), tx("ATokenGPvbdGVxr1b2hvZbsiqW5xWH25efTNsLJA8knL")], "neg-spl")
    yield Case("splata", [tx("notbase58!"), tx(sol_addr(rng)), tx(sol_addr(rng))], "neg-spl")


def relations(rng, tier, rpt):
    """defining formulas computed independently (hashlib, the Bip32 class, ed25519 on-curve test) and index objects honoured."""
    bad = []
    n = 0

    def rep(what, inp, got, want):
        bad.append({"property": "C20", "entry_point": what, "request_lines": [], "relation": what, "input": inp,
                    "impl_output": got, "model_output": want, "no_failing_input": False})

    # a wallet whose master object is converted to public-only BEFORE its first use still answers every public question like a fresh wallet,
    # and refuses the private ones (for both Electrum v2 classes and the v1 class built from a Bip32-free key)
    from bip_utils import Bip32Slip10Secp256k1, Bip32KeyError
    for i, cls in enumerate((ElectrumV2Standard, ElectrumV2Segwit) * (1 if tier == "quick" else 10)):
        sd = rand_seed(rng)
        ref = cls(Bip32Slip10Secp256k1.FromSeed(sd))
        want = (ref.GetPublicKey(0, 3).RawCompressed().ToHex(), ref.GetAddress(1, 2), ref.MasterPublicKey().RawCompressed().ToHex())
        master = Bip32Slip10Secp256k1.FromSeed(sd)
        w = cls(master)
        master.ConvertToPublic()
        n += 1
        got = opt(lambda: (w.GetPublicKey(0, 3).RawCompressed().ToHex(), w.GetAddress(1, 2), w.MasterPublicKey().RawCompressed().ToHex()))
        if got != want:
            rep("%s built from a private master that is converted to public-only before the first call does not answer like a fresh wallet" % cls.__name__,
                sd.hex(), str(got), str(want))
        p = opt(lambda: w.GetPrivateKey(0, 3).Raw().ToHex())
        if p != "!Key":
            rep("%s: private key handed out (or wrong error) after the master was converted to public-only before the first call" % cls.__name__, sd.hex(), str(p), "!Key")
    # one wallet object asked for many (change, index) pairs, incl. the same index under both changes and repeated pairs:
    # every answer equals the one of a fresh wallet asked only for that pair
    for i in range(6 if tier == "quick" else 120):
        k = rand_priv(rng, "secp256k1")
        seed = rand_seed(rng)
        makers = [("ElectrumV1(private)", lambda: ElectrumV1.FromPrivateKey(k)),
                  ("ElectrumV1(public-only)", lambda: ElectrumV1.FromPublicKey(ElectrumV1.FromPrivateKey(k).MasterPublicKey().RawCompressed().ToBytes())),
                  ("ElectrumV2Standard", lambda: ElectrumV2Standard.FromSeed(seed)), ("ElectrumV2Segwit", lambda: ElectrumV2Segwit.FromSeed(seed))]
        a1, a2 = rng.getrandbits(10), rng.choice(IDX_EDGE[:4])
        pairs = [(0, a1), (1, a1), (0, a1), (1, a2), (0, a2), (a1, a1), (1, a1), (a1, 0), (0, 0)]
        for name, mk in makers:
            shared = mk()
            for ch_, ad_ in pairs:
                n += 1
                got = (shared.GetAddress(ch_, ad_), shared.GetPublicKey(ch_, ad_).RawCompressed().ToBytes().hex())
                fresh = mk()
                want = (fresh.GetAddress(ch_, ad_), fresh.GetPublicKey(ch_, ad_).RawCompressed().ToBytes().hex())
                if got != want:
                    rep("%s: the answer for (change, index) depends on the pairs the same wallet object was asked before" % name,
                        "%s pairs=%s at %s" % ((k if "V1" in name else seed).hex(), pairs, (ch_, ad_)), str(got), str(want))
                    break
    for i in range(15 if tier == "quick" else 400):
        k = rand_priv(rng, "secp256k1")
        ch, ad = rng.choice(IDX_EDGE), rng.getrandbits(32)
        w = ElectrumV1.FromPrivateKey(k)
        mpub = w.MasterPublicKey().RawUncompressed().ToBytes()[1:]
        seq = int.from_bytes(hashlib.sha256(hashlib.sha256(("%d:%d:" % (ad, ch)).encode() + mpub).digest()).digest(), "big")
        want = ((int.from_bytes(k, "big") + seq) % N).to_bytes(32, "big")
        n += 1
        if w.GetPrivateKey(ch, ad).Raw().ToBytes() != want:
            rep("Electrum v1 child is not master + SHA256d('index:change:' || master public key) mod n", "%s %d %d" % (k.hex(), ch, ad),
                w.GetPrivateKey(ch, ad).Raw().ToHex(), want.hex())
        wp = ElectrumV1.FromPublicKey(w.MasterPublicKey().RawCompressed().ToBytes())
        if wp.GetPublicKey(ch, ad).RawCompressed().ToBytes() != w.GetPublicKey(ch, ad).RawCompressed().ToBytes() or wp.GetAddress(ch, ad) != w.GetAddress(ch, ad):
            rep("Electrum v1 public-only wallet derives a different key/address", "%s %d %d" % (k.hex(), ch, ad), wp.GetAddress(ch, ad), w.GetAddress(ch, ad))
        seed = rand_seed(rng)
        for cls, path in ((ElectrumV2Standard, "m/%d/%d"), (ElectrumV2Segwit, "m/0'/%d/%d")):
            e = cls.FromSeed(seed)
            plain = Bip32Slip10Secp256k1.FromSeed(seed).DerivePath(path % (ch, ad))
            if e.GetPrivateKey(ch, ad).Raw().ToBytes() != plain.PrivateKey().Raw().ToBytes():
                rep("Electrum v2 key is not the BIP-32 child " + path, "%s %d %d" % (seed.hex(), ch, ad), e.GetPrivateKey(ch, ad).Raw().ToHex(), plain.PrivateKey().Raw().ToHex())
            try:
                o = e.GetPrivateKey(Bip32KeyIndex(ch), Bip32KeyIndex(ad)).Raw().ToBytes()
                a2 = e.GetAddress(Bip32KeyIndex(ch), Bip32KeyIndex(ad))
                if o != e.GetPrivateKey(ch, ad).Raw().ToBytes() or a2 != e.GetAddress(ch, ad):
                    rep("index objects give a different key than integers", "%s %d %d" % (seed.hex(), ch, ad), o.hex(), "same as ints")
            except Exception as ex:  # noqa
                rep("index objects (documented argument type) are refused", "%s.GetPrivateKey(Bip32KeyIndex(%d), Bip32KeyIndex(%d))" % (cls.__name__, ch, ad), type(ex).__name__, "same as ints")
    # SPL: first bump from 255 downward whose digest is off-curve
    for i in range(20 if tier == "quick" else 600):
        seeds = [bytes(rng.randrange(256) for _ in range(32)) for _ in range(3)]
        prog = sol_addr(rng)
        from bip_utils import SolAddrDecoder
        pb = SolAddrDecoder.DecodeAddr(prog)
        want = None
        for bump in range(255, 0, -1):
            d = hashlib.sha256(b"".join(seeds) + bytes([bump]) + pb + b"ProgramDerivedAddress").digest()
            if not ed25519_lib.point_is_on_curve(d):
                want = Base58Encoder.Encode(d)
                break
        n += 1
        got = SplToken.FindPda(seeds, prog)
        if got != want:
            rep("FindPda is not the first off-curve SHA-256 PDA from bump 255 downward", prog, got, str(want))
        # the caller's seeds are an input, not scratch space: the same list asked again answers alike and is left as it was
        kept = list(seeds)
        again = opt(lambda: SplToken.FindPda(seeds, prog))
        if again != want or seeds != kept:
            rep("FindPda on the same seeds list a second time answers differently / changes the caller's list",
                "%s seeds=%s" % (prog, [x.hex() for x in kept]), "again=%s list-now=%d items" % (again, len(seeds)), str(want))
    # SPL: inputs on which MANY candidates have to be discarded before the first one that is not a valid point (pinned 15 … 28 deep, and the
    # deepest of a random search): every entry point returns the reference's address, however long the walk down from bump 255
    pinned = long_run_inputs()
    pinned = [x for i in range(len(pinned)) for x in ([y for y in pinned if y[0] == "pda"][i:i + 1] + [y for y in pinned if y[0] == "ata"][i:i + 1])]
    items = pinned + search_long_runs(rng, 20000 if tier == "quick" else 1500000, keep=8)
    deepest = 0
    for item in items:
        if item[0] == "pda":
            seeds, prog = list(item[1]), item[2]
            want, bump = ref_find_pda(seeds, b58d32(prog))
            calls = [("SplToken.FindPda(%s, %s)" % ([x.hex() for x in seeds], prog), lambda: SplToken.FindPda(list(seeds), prog))]
        else:
            _, w, m, t = item
            want, bump = ref_find_pda([b58d32(w), b58d32(t), b58d32(m)], b58d32(ATA_PROGRAM))
            calls = [("SplToken.GetAssociatedTokenAddress(%s, %s)" % (w, m), lambda: SplToken.GetAssociatedTokenAddress(w, m)),
                     ("SplToken.GetAssociatedTokenAddressWithProgramId(%s, %s, %s)" % (w, m, t), lambda: SplToken.GetAssociatedTokenAddressWithProgramId(w, m, t)),
                     ("SplToken.FindPda([wallet, token program, mint] of %s %s, associated-token program)" % (w, m),
                      lambda: SplToken.FindPda([b58d32(w), b58d32(t), b58d32(m)], ATA_PROGRAM))]
        if want is None:
            continue
        deepest = max(deepest, 255 - bump)
        for name, f in calls:
            n += 1
            got = opt(f)
            if got != want:
                rep("the SPL address is not the first SHA-256 candidate, from bump 255 downward, that is not a valid ed25519 point "
                    "(%d candidates are valid points and have to be discarded first; reference bump %d)" % (255 - bump, bump), name, str(got), want)
    rpt.extra["spl_longest_discarded_run"] = deepest
    rpt.extra["impl_relation_checks"] = n
    bad = bad[:6]
    slow_ref = _start_default_cost_reference(rng, tier)       # runs beside the next relation (hashlib releases the interpreter lock)
    bad += _one_wallet_many_threads(rng, tier, rpt)
    bad = bad[:10]
    bad += _brainwallet_defaults_in_histories(rng, tier, rpt, slow_ref)
    return bad[:14]


# ---- brainwallet KDFs: every omitted parameter means its documented default, on every call of a process
BRAIN_DEFAULTS = {"PBKDF2_HMAC_SHA512": {"salt": "", "itr_num": 2097152}, "SCRYPT": {"salt": "", "n": 131072, "r": 8, "p": 8}}


def _ref_brain(algo, pw, given):
    """the key the statement defines: the selected KDF of the passphrase with the given parameters, the documented default for each omitted one"""
    prm = dict(BRAIN_DEFAULTS[algo])
    prm.update(given)
    pwb, salt = pw.encode("utf-8"), prm["salt"].encode("utf-8")
    if algo == "PBKDF2_HMAC_SHA512":
        return hashlib.pbkdf2_hmac("sha512", pwb, salt, prm["itr_num"], 32)
    return hashlib.scrypt(pwb, salt=salt, n=prm["n"], r=prm["r"], p=prm["p"], dklen=32, maxmem=128 * prm["n"] * prm["r"] * 2 + 128 * prm["r"] * prm["p"] * 4 + (1 << 20))


def _start_default_cost_reference(rng, tier):
    """the reference values of the calls that run at the documented DEFAULT cost (seconds each) are computed by a helper thread while the main
    thread goes on; -> (calls [(algo, passphrase, given parameters)], answers dict filled by the thread, thread)"""
    import threading
    pw = "default cost %d" % rng.randrange(10**6)
    calls = [("PBKDF2_HMAC_SHA512", pw, {"salt": "pepper %d" % rng.randrange(100)})]
    if tier != "quick":
        calls += [("PBKDF2_HMAC_SHA512", pw, {}), ("SCRYPT", pw, {}), ("SCRYPT", pw, {"salt": "NaCl"})]
    answers = {}

    def work():
        for j, (algo, p, given) in enumerate(calls):
            answers[j] = _ref_brain(algo, p, given)
    th = threading.Thread(target=work)
    th.start()
    return calls, answers, th


def _brainwallet_defaults_in_histories(rng, tier, rpt, slow_ref):
    """A brainwallet key is the selected KDF of the passphrase with the parameters of THAT call; a parameter the call omits is its documented
    default (salt "", 2 097 152 PBKDF2 iterations, scrypt N = 131 072, r = 8, p = 8) whatever earlier calls of the process passed. Several
    "users" of one process ask for PBKDF2 and scrypt wallets, each giving a different SUBSET of the parameters (all, none of the cheap ones,
    each one alone omitted), in a shuffled order that is run twice, so that every omission is preceded by explicit non-default values of the
    same parameter. Each key is compared with hashlib's pbkdf2_hmac / scrypt. The calls at the full default cost come last (quick: one PBKDF2
    call without `itr_num`; thorough: also everything omitted, both KDFs)."""
    bad = []
    seen = set()

    def rep(what, inp, got, want):
        if what not in seen:
            seen.add(what)
            bad.append({"property": "C20", "entry_point": what, "request_lines": [], "relation": what, "input": inp,
                        "impl_output": got, "model_output": want, "no_failing_input": False})

    # coins whose private key is any 32-byte string in the curve's range (the Cardano coins take 64-byte extended keys: no KDF output fits)
    def takes_32_bytes(c):
        try:
            Brainwallet.Generate("probe", c, BrainwalletAlgos.SHA256)
            return True
        except Exception:  # noqa
            return False
    coins = [c for c in BrainwalletCoins if takes_32_bytes(c)] or [BrainwalletCoins.BITCOIN]
    pws = ["correct horse battery staple", "pässwörd", "", "😀 brain", "The quick brown fox %d" % rng.randrange(1000)]
    salts = ["pepper", "sält", "NaCl %d" % rng.randrange(1000), "s"]
    cheap = []
    for rnd in range(1 if tier == "quick" else 6):
        itr = lambda: rng.choice([1, 2, 3, 10, 100, 1000])              # noqa: E731
        n_ = lambda: rng.choice([2, 4, 16, 64, 1024])                    # noqa: E731
        r_ = lambda: rng.choice([1, 2, 4])                               # noqa: E731
        p_ = lambda: rng.choice([1, 2, 3])                               # noqa: E731
        sl = lambda: rng.choice(salts)                                   # noqa: E731
        cheap += [("PBKDF2_HMAC_SHA512", {"salt": sl(), "itr_num": itr()}), ("PBKDF2_HMAC_SHA512", {"itr_num": itr()}),
                  ("PBKDF2_HMAC_SHA512", {"salt": sl(), "itr_num": itr()}), ("PBKDF2_HMAC_SHA512", {"itr_num": itr()}),
                  ("SCRYPT", {"salt": sl(), "n": n_(), "r": r_(), "p": p_()}), ("SCRYPT", {"n": n_(), "r": r_(), "p": p_()}),
                  ("SCRYPT", {"salt": sl(), "n": n_(), "p": p_()}), ("SCRYPT", {"salt": sl(), "n": n_(), "r": r_()}), ("SCRYPT", {"salt": sl(), "n": n_()}),
                  ("SCRYPT", {"n": n_()}), ("SCRYPT", {"salt": sl(), "n": n_(), "r": r_(), "p": p_()}),
                  # N omitted: the default 131 072 at the smallest block size for which it is a legal scrypt parameter set (N < 2^(16 r))
                  ("SCRYPT", {"salt": sl(), "r": 2, "p": 1})]
    history = []
    n = 0

    def run(algo, pw, given):
        nonlocal n
        n += 1
        omitted = [k for k in BRAIN_DEFAULTS[algo] if k not in given]
        desc = "Brainwallet.Generate(%r, %s, %s%s)" % (pw, coin.name, algo, "".join(", %s=%r" % kv for kv in given.items()))
        history.append(desc)
        try:
            got = Brainwallet.Generate(pw, coin, BrainwalletAlgos[algo], **given).PrivateKey().Raw().ToBytes().hex()
        except Exception as ex:  # noqa
            got = "raised %s: %s" % (type(ex).__name__, str(ex)[:100])
        return desc, omitted, got

    for pas in range(2):
        order = list(cheap)
        rng.shuffle(order)
        if pas == 0:      # the process' first KDF call of each kind gives every parameter explicitly
            order.sort(key=lambda c: len(c[1]) != len(BRAIN_DEFAULTS[c[0]]))
        for algo, given in order:
            coin = coins[rng.randrange(len(coins))]
            pw = pws[rng.randrange(len(pws))]
            desc, omitted, got = run(algo, pw, given)
            want = _ref_brain(algo, pw, given).hex()
            if got != want:
                rep("brainwallet %s with %s: the key is not the KDF of the passphrase under the given parameters and the documented defaults (%s) for the omitted ones"
                    % (algo, ("%s omitted" % " and ".join(omitted)) if omitted else "every parameter given", ", ".join("%s=%r" % (k, BRAIN_DEFAULTS[algo][k]) for k in omitted) or "-"),
                    "%s; calls of the process so far: %s" % (desc, history[-12:]), got, want)
    calls, answers, th = slow_ref
    for j, (algo, pw, given) in enumerate(calls):
        coin = coins[rng.randrange(len(coins))]
        desc, omitted, got = run(algo, pw, given)
        th.join() if j not in answers else None
        want = answers[j].hex()
        if got != want:
            rep("brainwallet %s at the default cost (%s omitted): the key is not the KDF of the passphrase under the documented defaults (%s)"
                % (algo, " and ".join(omitted), ", ".join("%s=%r" % (k, BRAIN_DEFAULTS[algo][k]) for k in omitted)),
                "%s; calls of the process so far: %s" % (desc, history[-8:]), got, want)
    th.join()
    rpt.extra["brainwallet_history_calls"] = n
    return bad[:4]


# ---- the defining formulas once more, with hashlib / hmac / coincurve only (no bip_utils code, hence no state any call could touch)
def _ref_pub(k32, compressed=True):
    from coincurve import PublicKey as _CPub
    return _CPub.from_valid_secret(k32).format(compressed=compressed)


def _hash160(b):
    try:
        return hashlib.new("ripemd160", hashlib.sha256(b).digest()).digest()
    except ValueError:      # OpenSSL built without the legacy digests
        from Crypto.Hash import RIPEMD160
        return RIPEMD160.new(hashlib.sha256(b).digest()).digest()


def _ref_p2pkh(pub):
    body = b"\x00" + _hash160(pub)
    return b58e(body + hashlib.sha256(hashlib.sha256(body).digest()).digest()[:4])


def _ref_p2wpkh(pub, hrp="bc"):
    """BIP-173: witness version 0, the 20-byte key hash regrouped into 5-bit symbols, the 6-symbol BCH checksum"""
    charset = "qpzry9x8gf2tvdw0s3jn54khce6mua7l"
    acc = bits = 0
    data = [0]
    for byte in _hash160(pub):
        acc, bits = (acc << 8) | byte, bits + 8
        while bits >= 5:
            bits -= 5
            data.append((acc >> bits) & 31)
    if bits:
        data.append((acc << (5 - bits)) & 31)
    chk = 1
    for v in [ord(c) >> 5 for c in hrp] + [0] + [ord(c) & 31 for c in hrp] + data + [0] * 6:
        top = chk >> 25
        chk = (chk & 0x1ffffff) << 5 ^ v
        for i, g in enumerate((0x3b6a57b2, 0x26508e6d, 0x1ea119fa, 0x3d4233dd, 0x2a1462b3)):
            chk ^= g if (top >> i) & 1 else 0
    chk ^= 1
    return hrp + "1" + "".join(charset[d] for d in data + [(chk >> 5 * (5 - i)) & 31 for i in range(6)])


def _ref_bip32_path(seed, path):
    """private key of the BIP-32 secp256k1 node at `path` (a list of 32-bit indexes) under the master of `seed`"""
    import hmac
    i64 = hmac.new(b"Bitcoin seed", seed, hashlib.sha512).digest()
    k, c = int.from_bytes(i64[:32], "big"), i64[32:]
    for i in path:
        kb = k.to_bytes(32, "big")
        i64 = hmac.new(c, (b"\x00" + kb if i >= 2**31 else _ref_pub(kb)) + i.to_bytes(4, "big"), hashlib.sha512).digest()
        k, c = (int.from_bytes(i64[:32], "big") + k) % N, i64[32:]
    return k.to_bytes(32, "big")


def _ref_ev1_child(master32, change, index):
    mpub = _ref_pub(master32, compressed=False)[1:]
    seq = hashlib.sha256(hashlib.sha256(("%d:%d:" % (index, change)).encode() + mpub).digest()).digest()
    return ((int.from_bytes(master32, "big") + int.from_bytes(seq, "big")) % N).to_bytes(32, "big")


def _one_wallet_many_threads(rng, tier, rpt):
    """"For every master key and index pair" holds for every CALL: a child key, public key or address depends on the wallet's master key and
    the (change, index) arguments of the call, not on what other threads ask the same wallet object at the same moment. ONE wallet object per
    class (Electrum v1 private and public-only, v2 standard, v2 segwit) is shared by several threads released together (barrier, minimal
    switch interval); the threads walk over one pool of (change, index) pairs, each in its own order and more than once (so that calls for
    the same pair, for pairs sharing one component, and repeated calls all meet), asking private key, public key and address in turn. Every
    answer is compared with the formula recomputed outside the library (hashlib / hmac / coincurve) before the threads start."""
    import sys, threading
    bad = []

    def rep(what, inp, got, want):
        bad.append({"property": "C20", "entry_point": what, "request_lines": [], "relation": what, "input": inp,
                    "impl_output": got, "model_output": want, "no_failing_input": False})

    n_threads = 5
    per_thread = 150 if tier == "quick" else 1000
    kinds = ["ElectrumV1 (private)", "ElectrumV1 (public-only)", "ElectrumV2Standard", "ElectrumV2Segwit"]
    if tier != "quick":
        kinds = kinds * 3
    n_obs = 0
    old = sys.getswitchinterval()
    for rnd, kind in enumerate(kinds):
        k = rand_priv(rng, "secp256k1")
        seed = rand_seed(rng)
        if kind == "ElectrumV1 (private)":
            w = ElectrumV1.FromPrivateKey(k)
        elif kind == "ElectrumV1 (public-only)":
            w = ElectrumV1.FromPublicKey(_ref_pub(k))
        else:
            w = (ElectrumV2Standard if kind == "ElectrumV2Standard" else ElectrumV2Segwit).FromSeed(seed)
        changes = [0, 1] + ([rng.choice([2, 2**31 - 1, rng.getrandbits(31)])] if "V1" in kind else [])
        idxs = list(range(rng.randrange(0, 5), 60, 3))[:16] + [2**31 - 1, rng.getrandbits(31)]
        pool = [(c, i) for c in changes for i in idxs]
        want = {}
        for c, i in pool:
            if "V1" in kind:
                priv = _ref_ev1_child(k, c, i)
                addr = _ref_p2pkh(_ref_pub(priv, compressed=False))
            elif kind == "ElectrumV2Standard":
                priv = _ref_bip32_path(seed, [c, i])
                addr = _ref_p2pkh(_ref_pub(priv))
            else:
                priv = _ref_bip32_path(seed, [2**31, c, i])
                addr = _ref_p2wpkh(_ref_pub(priv))
            want[(c, i)] = {"GetPrivateKey": priv.hex(), "GetPublicKey": _ref_pub(priv).hex(), "GetAddress": addr}
        questions = ["GetPrivateKey", "GetPublicKey", "GetAddress"] if kind != "ElectrumV1 (public-only)" else ["GetPublicKey", "GetAddress"]
        ask = {"GetPrivateKey": lambda c, i: w.GetPrivateKey(c, i).Raw().ToBytes().hex(), "GetPublicKey": lambda c, i: w.GetPublicKey(c, i).RawCompressed().ToBytes().hex(),
               "GetAddress": lambda c, i: w.GetAddress(c, i)}
        jobs = []
        for t in range(n_threads):
            order = list(pool)
            rng.shuffle(order)
            # thread t asks its q-th pair question number (q + t): at any moment the threads mostly ask different questions about different pairs
            jobs.append([(questions[(q + t) % len(questions)],) + order[q % len(order)] for q in range(per_thread)])
        results = [[None] * per_thread for _ in range(n_threads)]
        bar = threading.Barrier(n_threads)

        def worker(t):
            bar.wait()
            for q, (what, c, i) in enumerate(jobs[t]):
                try:
                    results[t][q] = ask[what](c, i)
                except Exception as ex:  # noqa
                    results[t][q] = "raised %s: %s" % (type(ex).__name__, str(ex)[:80])
        sys.setswitchinterval(1e-6)
        try:
            ths = [threading.Thread(target=worker, args=(t,)) for t in range(n_threads)]
            for th in ths:
                th.start()
            for th in ths:
                th.join()
        finally:
            sys.setswitchinterval(old)
        n_obs += n_threads * per_thread
        wrong = [(t, q) for t in range(n_threads) for q in range(per_thread) if results[t][q] != want[jobs[t][q][1:]][jobs[t][q][0]]]
        if wrong:
            t, q = wrong[0]
            what, c, i = jobs[t][q]
            other = [p for p in pool if p != (c, i) and want[p][what] == results[t][q]]
            rep("%s shared by %d threads: %s(change, index) answered to one thread is not the defining formula's value for the wallet's master key and these indexes "
                "(%d of %d concurrent answers wrong%s)" % (kind, n_threads, what, len(wrong), n_threads * per_thread,
                                                          "; it is the value for (change, index) = %s, asked by other threads" % (other[0],) if other else ""),
                "%s, thread %d call #%d: %s(%d, %d)" % ("master private key " + k.hex() if "V1" in kind else "seed " + seed.hex(), t, q, what, c, i),
                str(results[t][q]), want[(c, i)][what])
    rpt.extra["shared_wallet_thread_observations"] = n_obs
    return bad[:4]
