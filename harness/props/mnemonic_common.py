"""Adapters shared by C01/C02/C17: mnemonic encoders/decoders and seed generators."""
import unicodedata
from harness.canon import hx, tx, unhx, untx
from bip_utils import (Bip39Languages, Bip39MnemonicDecoder, Bip39MnemonicEncoder, Bip39SeedGenerator, MoneroLanguages,
                       MoneroMnemonicDecoder, MoneroMnemonicEncoder, AlgorandMnemonicDecoder, AlgorandMnemonicEncoder,
                       AlgorandLanguages, ElectrumV1MnemonicDecoder, ElectrumV1MnemonicEncoder, ElectrumV1SeedGenerator,
                       ElectrumV2Languages, ElectrumV2MnemonicDecoder, ElectrumV2MnemonicEncoder, ElectrumV2MnemonicTypes,
                       ElectrumV2SeedGenerator, SubstrateBip39SeedGenerator)

BIP39_LANGS = [l.name for l in Bip39Languages]
MONERO_LANGS = [l.name for l in MoneroLanguages]
V2_LANGS = [l.name for l in ElectrumV2Languages]
V2_TYPES = [t.name for t in ElectrumV2MnemonicTypes]


def oracle_for(sentence):
    """NFKD(lower(tok)) for every non-ASCII token, computed with unicodedata directly (not through bip_utils)."""
    pairs = []
    seen = set()
    for tok in sentence.split():
        if not tok.isascii() and tok not in seen:
            seen.add(tok)
            pairs.append(tx(tok) + ":" + tx(unicodedata.normalize("NFKD", tok.lower())))
    return ",".join(pairs) if pairs else "-"


def nfkd(s):
    return unicodedata.normalize("NFKD", s)


def _lang(enum, l):
    return None if l == "auto" else enum[l]


def _bip39dec(l, mode, s, o):
    d = Bip39MnemonicDecoder(_lang(Bip39Languages, l))
    return hx(d.DecodeWithChecksum(untx(s)) if mode == "ck" else d.Decode(untx(s)))


def _monenc(l, e, ck):
    enc = MoneroMnemonicEncoder(MoneroLanguages[l])
    return tx((enc.EncodeWithChecksum(unhx(e)) if ck == "1" else enc.EncodeNoChecksum(unhx(e))).ToStr())


def _v2type(t):
    return None if t == "any" else ElectrumV2MnemonicTypes[t]


KEPT = {}      # generator objects kept for the whole run, one per (class, constructor arguments): the "object used before" route


def _routes(label, routes):
    """every documented route to one result: all must give the same answer, or all must refuse with the same error class"""
    from harness.canon import exc_kind
    outs = []
    for name, f in routes:
        try:
            outs.append((name, f()))
        except Exception as ex:  # noqa
            outs.append((name, "!" + exc_kind(ex)))
    if len({o for _, o in outs}) != 1:
        return "ARGUMENT-FORM-DEPENDENT " + label + ": " + " | ".join("%s: %s" % (n, str(o)[:100]) for n, o in outs)
    if outs[0][1].startswith("!"):
        routes[0][1]()          # re-raise for the caller's error classification
    return outs[0][1]


def _kept(cls, *a):
    k = (cls.__name__,) + tuple(str(x) for x in a)
    if k not in KEPT:
        KEPT[k] = cls(*a)
    return KEPT[k]


def _bip39enc(l, e):
    from bip_utils import Bip39MnemonicGenerator
    lang, ent = Bip39Languages[l], unhx(e)
    return _routes("BIP-39 encode", [("Encoder.Encode", lambda: tx(Bip39MnemonicEncoder(lang).Encode(ent).ToStr())),
                                    ("Generator.FromEntropy", lambda: tx(Bip39MnemonicGenerator(lang).FromEntropy(ent).ToStr())),
                                    ("kept Generator.FromEntropy", lambda: tx(_kept(Bip39MnemonicGenerator, lang).FromEntropy(ent).ToStr())),
                                    ("kept Encoder.Encode", lambda: tx(_kept(Bip39MnemonicEncoder, lang).Encode(ent).ToStr()))])


def _monenc_routes(l, e, ck):
    from bip_utils import MoneroMnemonicGenerator
    lang, ent = MoneroLanguages[l], unhx(e)
    if ck == "1":
        return _routes("Monero encode", [("Encoder", lambda: _monenc(l, e, ck)),
                                         ("Generator", lambda: tx(MoneroMnemonicGenerator(lang).FromEntropyWithChecksum(ent).ToStr())),
                                         ("kept Generator", lambda: tx(_kept(MoneroMnemonicGenerator, lang).FromEntropyWithChecksum(ent).ToStr()))])
    return _routes("Monero encode", [("Encoder", lambda: _monenc(l, e, ck)),
                                     ("Generator", lambda: tx(MoneroMnemonicGenerator(lang).FromEntropyNoChecksum(ent).ToStr())),
                                     ("kept Generator", lambda: tx(_kept(MoneroMnemonicGenerator, lang).FromEntropyNoChecksum(ent).ToStr()))])


def _algoenc(e):
    from bip_utils import AlgorandMnemonicGenerator
    ent = unhx(e)
    return _routes("Algorand encode", [("Encoder", lambda: tx(AlgorandMnemonicEncoder().Encode(ent).ToStr())),
                                       ("Generator", lambda: tx(AlgorandMnemonicGenerator().FromEntropy(ent).ToStr())),
                                       ("kept Generator", lambda: tx(_kept(AlgorandMnemonicGenerator).FromEntropy(ent).ToStr()))])


def _ev1enc(e):
    from bip_utils import ElectrumV1MnemonicGenerator
    ent = unhx(e)
    return _routes("Electrum v1 encode", [("Encoder", lambda: tx(ElectrumV1MnemonicEncoder().Encode(ent).ToStr())),
                                          ("Generator", lambda: tx(ElectrumV1MnemonicGenerator().FromEntropy(ent).ToStr())),
                                          ("kept Generator", lambda: tx(_kept(ElectrumV1MnemonicGenerator).FromEntropy(ent).ToStr()))])


def _ev2enc(l, t, e):
    # (ElectrumV2MnemonicGenerator.FromEntropy is documented to search upward from the given entropy for a value whose sentence carries
    # the version prefix, so it is not another route to Encode's answer; only fresh-vs-kept encoder objects are compared)
    lang, ty, ent = ElectrumV2Languages[l], ElectrumV2MnemonicTypes[t], unhx(e)
    return _routes("Electrum v2 encode", [("Encoder", lambda: tx(ElectrumV2MnemonicEncoder(ty, lang).Encode(ent).ToStr())),
                                          ("kept Encoder", lambda: tx(_kept(ElectrumV2MnemonicEncoder, ty, lang).Encode(ent).ToStr()))])


def _seed_routes(label, mk, salt):
    """a fresh generator asked once, and one generator object asked first for ANOTHER passphrase and then for this one"""
    def second_call():
        g = mk()
        g.Generate(PASS[salt] + "\u00a0other")
        return hx(g.Generate(PASS[salt]))
    return _routes(label, [("fresh object", lambda: hx(mk().Generate(PASS[salt]))), ("second call on one object", second_call)])


IMPL = {
    "bip39enc": _bip39enc,
    "bip39dec": _bip39dec,
    "bip39seed": lambda l, s, o, salt: _seed_routes("BIP-39 seed", lambda: Bip39SeedGenerator(untx(s), _lang(Bip39Languages, l)), salt),
    "subseed": lambda l, s, o, salt: _seed_routes("Substrate seed", lambda: SubstrateBip39SeedGenerator(untx(s), _lang(Bip39Languages, l)), salt),
    "monenc": _monenc_routes,
    "mondec": lambda l, s: hx(MoneroMnemonicDecoder(_lang(MoneroLanguages, l)).Decode(untx(s))),
    "algoenc": _algoenc,
    "algodec": lambda l, s, o: hx(AlgorandMnemonicDecoder(_lang(AlgorandLanguages, l)).Decode(untx(s))),
    "ev1enc": _ev1enc,
    "ev1dec": lambda s, o: hx(ElectrumV1MnemonicDecoder().Decode(untx(s))),
    "ev1seed": lambda s, o: hx(ElectrumV1SeedGenerator(untx(s)).Generate()),
    "ev2enc": _ev2enc,
    "ev2dec": lambda l, t, s, o: hx(ElectrumV2MnemonicDecoder(_v2type(t), _lang(ElectrumV2Languages, l)).Decode(untx(s))),
    "ev2seed": lambda l, s, o, salt: _seed_routes("Electrum v2 seed", lambda: ElectrumV2SeedGenerator(untx(s), _lang(ElectrumV2Languages, l)), salt),
}
# the seed ops receive NFKD(salt) (what the model needs); the passphrase itself is kept here, keyed by that field
PASS = {}
SALTS = {}


def salt_field(prefix, passphrase):
    f = hx(nfkd(prefix + passphrase).encode("utf-8"))
    old = PASS.get(f)
    if old is not None and nfkd(old) != nfkd(passphrase):
        raise AssertionError("salt collision")
    PASS.setdefault(f, passphrase)
    return f


# ---- first use from several threads at once, in a fresh interpreter -------------------------------------------------------------
# The codecs are pure functions of (language, phrase); the word lists behind them are process-wide objects that are loaded (and, in
# some designs, indexed) the first time they are needed.  Whatever is built lazily on first use is built while other threads may be
# asking for it, and in this process every list has long been used by the time a relation runs — so the first use is replayed in a
# fresh interpreter: per round, optional calls in the main thread (e.g. an encoder, which loads a list without searching it), then N
# threads released together, each with its own public object (constructed before or after the release) and making one call, arriving
# spread over a short time (a half-built structure is only seen by a thread that arrives while another is building).  Only public
# classes, addressed by name.
_FIRST_USE_CHILD = r'''
import json, sys, threading
import bip_utils
rounds = json.loads(sys.stdin.read())
sys.setswitchinterval(1e-6)

def arg(a):
    if a is None: return None
    k, v = a
    if k == "enum": return getattr(bip_utils, v[0])[v[1]]
    if k == "hex": return bytes.fromhex(v)
    return v

def canon(r):
    if isinstance(r, (bytes, bytearray)): return bytes(r).hex()
    if hasattr(r, "ToStr"): return r.ToStr()
    return str(r)

def make(t):
    return getattr(bip_utils, t["cls"])(*[arg(a) for a in t["ctor"]])

def call(t, obj=None):
    obj = make(t) if obj is None else obj
    return canon(getattr(obj, t["meth"])(arg(t["arg"]))) if t.get("meth") else ""

out = []
for rnd in rounds:
    tasks = rnd["tasks"]
    bar = threading.Barrier(len(tasks) + 1)
    go = [False]
    stagger = rnd.get("stagger", 0)
    res = [None] * len(tasks)
    for t in rnd.get("before", []):
        try:
            call(t)
        except Exception as ex:      # reported after the task results
            res.append(["!" + type(ex).__name__, "in the main thread, before the threads started: " + str(ex)[:120]])
    def work(i, t):
        # every other thread has its object ready when the round starts (its first call is then the first search of the list); the
        # others construct it afterwards as well (their first call is then also the first load of the list)
        obj = err = None
        if i % 2:
            try:
                obj = make(t)
            except Exception as ex:
                err = ex
        try:
            bar.wait()
        except threading.BrokenBarrierError:
            pass
        while not go[0]:          # spin: every thread is runnable (not asleep in a lock) at the moment the round starts
            pass
        for _ in range(i * stagger):      # … and they arrive spread over the time a lazy initialisation would take, not all at its very beginning
            pass
        try:
            if err is not None:
                raise err
            res[i] = [call(t, obj), ""]
        except Exception as ex:
            res[i] = ["!" + type(ex).__name__, str(ex)[:120]]
    ths = [threading.Thread(target=work, args=(i, t)) for i, t in enumerate(tasks)]
    for th in ths: th.start()
    try:
        bar.wait(60)
    except threading.BrokenBarrierError:
        pass
    go[0] = True
    for th in ths: th.join()
    out.append(res)
print("\n" + json.dumps(out))
'''


def first_use_concurrently(rounds, timeout=120):
    """run `rounds` ([{"before": [task…], "tasks": [task…]}], task = {"cls", "ctor": [arg…], "meth", "arg"}, arg = None | ["enum", [enum class
    name, member name]] | ["hex", h] | ["str", s]) in ONE fresh interpreter: per round the `before` calls in the main thread, then all
    `tasks` from as many threads released together.  Returns per round the list of [canonical result | "!ExceptionClass", detail]."""
    import json, os, subprocess, sys
    from harness.core import VERIF, HarnessError
    p = subprocess.run([sys.executable, "-c", _FIRST_USE_CHILD], input=json.dumps(rounds), stdout=subprocess.PIPE, stderr=subprocess.PIPE, text=True,
                       timeout=timeout, env=dict(os.environ, PYTHONPATH=VERIF + ":" + os.environ.get("VERIF_REPO", "/repo"), PYTHONDONTWRITEBYTECODE="1"))
    if p.returncode != 0:
        raise HarnessError("first-use child interpreter failed: " + p.stderr[-600:])
    return [[r if r else ["!no-result", ""] for r in res] for res in json.loads(p.stdout.strip().split("\n")[-1])]


def task(cls, ctor, meth=None, a=None):
    def enc(x):
        if x is None:
            return None
        if isinstance(x, (bytes, bytearray)):
            return ["hex", bytes(x).hex()]
        if isinstance(x, str):
            return ["str", x]
        return ["enum", [type(x).__name__, x.name]]
    return {"cls": cls, "ctor": [enc(x) for x in ctor], "meth": meth, "arg": enc(a)}


# ---- the same calls in another process configuration ------------------------------------------------------------------------------
# The codecs are functions of their arguments: what a sentence means cannot depend on how the interpreter was started.  The word lists are
# files read at run time, so the answers are asked again in fresh interpreters whose configuration differs from this one's in what file
# reading, assertions and hashing depend on — the locale's preferred encoding (a legacy locale; here the C locale with Python's UTF-8 mode
# and locale coercion switched off), `-OO` (asserts and docstrings stripped), another working directory, another hash seed — and compared
# with references computed in this process (everything crosses the pipe ASCII-escaped).  Only public classes, addressed by name.
_CONFIG_CHILD = r'''
import json, locale, sys
import bip_utils
tasks = json.loads(sys.stdin.read())

def arg(a):
    if a is None: return None
    k, v = a
    if k == "enum": return getattr(bip_utils, v[0])[v[1]]
    if k == "hex": return bytes.fromhex(v)
    return v

def canon(r):
    if isinstance(r, (bytes, bytearray)): return bytes(r).hex()
    if hasattr(r, "ToStr"): return r.ToStr()
    return str(r)

out = []
for t in tasks:
    try:
        obj = getattr(bip_utils, t["cls"])(*[arg(a) for a in t["ctor"]])
        out.append([canon(getattr(obj, t["meth"])(*([arg(t["arg"])] if t["arg"] is not None else []))) if t.get("meth") else "", ""])
    except Exception as ex:
        out.append(["!" + type(ex).__name__, str(ex)[:120]])
print("\n" + json.dumps({"encoding": locale.getpreferredencoding(False), "utf8_mode": sys.flags.utf8_mode, "optimize": sys.flags.optimize,
                         "results": out}))
'''


def configurations(rng):
    """[(label, extra environment, variables removed, interpreter flags, working directory)]"""
    return [("the locale's preferred encoding is not UTF-8 (C locale, UTF-8 mode and locale coercion off)",
             {"LC_ALL": "C", "PYTHONUTF8": "0", "PYTHONCOERCECLOCALE": "0"}, ("LANG", "LANGUAGE", "LC_"), ["-X", "utf8=0"], None),
            ("-OO (asserts and docstrings stripped), another working directory, another hash seed",
             {"PYTHONHASHSEED": str(rng.randrange(1, 2 ** 32))}, (), ["-OO"], "/")]


def in_configuration(tasks, config, timeout=120):
    """run `tasks` (see `task`; a task without argument calls the method without one) one after the other in ONE fresh interpreter started
    in the configuration `config` (an entry of `configurations`).  Returns (facts about the child: its preferred encoding …,
    [[canonical result | "!ExceptionClass", detail] per task])."""
    import json, os, subprocess, sys
    from harness.core import VERIF, HarnessError
    _label, extra, drop, flags, cwd = config
    env = {k: v for k, v in os.environ.items() if not any(k == d or (d.endswith("_") and k.startswith(d)) for d in drop)}
    env.update(extra)
    env.update(PYTHONPATH=VERIF + ":" + os.environ.get("VERIF_REPO", "/repo"), PYTHONDONTWRITEBYTECODE="1")
    p = subprocess.run([sys.executable] + list(flags) + ["-c", _CONFIG_CHILD], input=json.dumps(tasks), stdout=subprocess.PIPE, stderr=subprocess.PIPE,
                       text=True, timeout=timeout, env=env, cwd=cwd)
    if p.returncode != 0:
        # the library could not even be imported / driven in this configuration: an answer of the implementation, not of the machinery,
        # when the traceback ends in library code
        if "/bip_utils/" in p.stderr:
            return {"encoding": "?", "crashed": p.stderr[-400:]}, [["!interpreter-exit-%d" % p.returncode, p.stderr.strip().split("\n")[-1][:160]] for _ in tasks]
        raise HarnessError("configuration child interpreter failed: " + p.stderr[-600:])
    d = json.loads(p.stdout.strip().split("\n")[-1])
    return {k: v for k, v in d.items() if k != "results"}, d["results"]


# ---- one object, asked again ---------------------------------------------------------------------------------------------------------
def coarse(f):
    """the verdict of one call: "accepted:<canonical value>" or "refused" (which error class is a matter of each property's own clauses)"""
    try:
        r = f()
    except Exception:  # noqa
        return "refused"
    if isinstance(r, (bytes, bytearray)):
        r = bytes(r).hex()
    elif hasattr(r, "ToStr"):
        r = r.ToStr()
    return "accepted:" + str(r)


def history_independent(rep, label, points, script):
    """acceptance is a property of the phrase: an object that has already been asked about other phrases — accepted ones and refused ones,
    refused at any word position and for any reason — answers the next phrase as an object that has never been used does.
    points = [(name, make_object, call(object, phrase))]; script = [(kind, phrase)].  Returns the number of comparisons."""
    n = 0
    for name, make, call in points:
        kept = make()
        past = []
        for kind, phrase in script:
            n += 1
            got = coarse(lambda: call(kept, phrase))
            want = coarse(lambda: call(make(), phrase))
            if got != want:
                rep("%s: %s answers a phrase (%s) differently from a fresh object after having been asked about other phrases (%s)" % (
                    label, name, kind, ", then ".join(k for k, _p in past[-3:]) or "none"),
                    " || ".join([p if isinstance(p, str) else p.ToStr() for _k, p in past[-3:]] + [phrase if isinstance(phrase, str) else phrase.ToStr()]), got, want)
                break
            past.append((kind, phrase))
    return n


def mnemonic_objects_stable(rep, label, cases, forms, points, attempts=3):
    """a phrase handed over as a Mnemonic OBJECT is the same phrase at every attempt: each observation point gives, at every one of
    `attempts` consecutive calls on one object, the verdict it gives for the phrase as a string, and the object — and the list the
    caller built it from — still spell the phrase afterwards (ToList, ToStr, WordsCount), so that what was accepted is what the caller holds.
    cases = [(kind, [canonical tokens])]; forms = [(name, factory(list) -> object)]; points = [(name, call(str | object))]."""
    n = 0
    for kind, toks in cases:
        text = " ".join(toks)
        for pname, call in points:
            want = coarse(lambda: call(text))
            for fname, mk in forms:
                mine = list(toks)
                obj = mk(mine)
                for a in range(1, attempts + 1):
                    n += 1
                    got = coarse(lambda: call(obj))
                    now = (list(obj.ToList()), obj.ToStr(), obj.WordsCount(), mine)
                    if got != want:
                        rep("%s: %s gives for a phrase (%s) handed over as %s, at attempt %d on the same object, another verdict than for the phrase as str" % (
                            label, pname, kind, fname, a), text, got + "   [the object now spells %d words]" % now[2], want)
                        break
                    if now != (list(toks), text, len(toks), list(toks)):
                        rep("%s: %s changes the mnemonic object it is asked about (%s phrase handed over as %s): the phrase that was checked is no longer the "
                            "phrase the caller holds" % (label, pname, kind, fname), text, "%d words: %s" % (now[2], now[1]), "%d words: %s" % (len(toks), text))
                        break
    return n


# ---- spellings that another folding than the one the properties name would identify ---------------------------------------------------
# The properties fix how a user's token is read: lower-cased, then NFKD.  A token is a spelling of a list word iff THAT reading is the
# word.  Other foldings are near at hand in any Unicode-aware code base — full case folding (ß -> ss), upper-then-lower (ı -> i),
# NFKC case folding, ignoring combining marks (é -> e), ignoring default-ignorable characters (soft hyphen, zero-width joiner) — and agree
# with the named one on every list word and on ASCII.  The table below is computed with `unicodedata` and `str` methods only: for every
# code point its named reading and its readings under the other foldings; where they differ, the code point can be substituted into a
# list word to give a token the OTHER folding would accept.  Whether such a token IS a spelling is then decided by the named reading alone.
_FOLDS = None
IGNORABLE = ["\u00ad", "\u200b", "\u200c", "\u200d", "\u2060", "\ufeff", "\u034f", "\ufe0f"]      # soft hyphen, zero-width space / non-joiner / joiner, word joiner, BOM, grapheme joiner, variation selector


def _strip_marks(s):
    return "".join(c for c in s if not unicodedata.combining(c))


def fold_table():
    """({other reading: [(folding name, code point)]}, {named reading: [code point]}) over the cased / decomposable part of Unicode"""
    global _FOLDS
    if _FOLDS is not None:
        return _FOLDS
    other, same = {}, {}
    skip = ((0x3400, 0x9FFF), (0xAC00, 0xD7A3), (0xD800, 0xF8FF), (0x17000, 0x1AFFF), (0x20000, 0x10FFFF))
    cp = 0x80
    while cp < 0x20000:
        for a, b in skip:
            if a <= cp <= b:
                cp = b + 1
        x = chr(cp)
        cp += 1
        if x.isspace() or unicodedata.category(x) in ("Cn", "Cs", "Co", "Cc", "Zs", "Zl", "Zp"):
            continue
        named = nfkd(x.lower())
        if not named or any(c.isspace() for c in named):
            continue
        if named != x and len(named) <= 3:
            same.setdefault(named, []).append(x)
        for fname, alt in (("full case folding", nfkd(x.casefold())), ("upper-casing then lower-casing", nfkd(x.upper().lower())),
                           ("NFKC then case folding", nfkd(unicodedata.normalize("NFKC", x).casefold())),
                           ("ignoring combining marks", _strip_marks(named))):
            if alt and alt != named and len(alt) <= 3 and not any(c.isspace() for c in alt):
                other.setdefault(alt, []).append((fname, x))
    _FOLDS = (other, same)
    return _FOLDS


def respellings(rng, word, want_kind=None):
    """tokens made from the list word `word` by substituting one code point (or inserting an ignorable one): [(folding that would identify
    the token with the word, token, True iff the token IS a spelling of the word — its lower-cased NFKD form is the word)]"""
    other, same = fold_table()
    out = []
    for i in range(len(word)):
        for L in (1, 2, 3):
            sub = word[i:i + L]
            if len(sub) < L:
                continue
            for fname, x in other.get(sub, ()):
                if want_kind is None or want_kind == fname:
                    out.append((fname, word[:i] + x + word[i + L:]))
            if want_kind in (None, "compatibility / case form"):
                for x in same.get(sub, ()):
                    out.append(("compatibility / case form", word[:i] + x + word[i + L:]))
    if want_kind in (None, "ignoring default-ignorable characters"):
        for z in IGNORABLE:
            i = rng.randrange(len(word) + 1)
            out.append(("ignoring default-ignorable characters", word[:i] + z + word[i:]))
    res = []
    for fname, t in out:
        if t.split() != [t]:
            continue
        named = nfkd(t.lower())
        if nfkd(named.lower()) != named:
            # not a fixed point of the named reading (e.g. U+1D5A0, a capital without lower-case mapping whose NFKD is "A"): the unchanged
            # library applies the reading twice to str input and once to Mnemonic.FromList input, so such tokens are outside what can be
            # compared here (reported separately)
            continue
        res.append((fname, t, named == word))
    return res


FOLD_KINDS = ["full case folding", "upper-casing then lower-casing", "NFKC then case folding", "ignoring combining marks",
              "ignoring default-ignorable characters", "compatibility / case form"]


def fold_candidates(rng, lists, per_kind):
    """for every folding kind, `per_kind` (language, word index, token, is-a-spelling) drawn over all the lists given ({name: [words]})"""
    out = []
    names = sorted(lists)
    for kind in FOLD_KINDS:
        got = 0
        for _ in range(per_kind * 60):
            if got >= per_kind:
                break
            lang = names[rng.randrange(len(names))]
            wi = rng.randrange(len(lists[lang]))
            if kind == "full case folding" and got == 0:       # rare in the lists: look for a word this folding applies to
                ck = ("fcf",) + tuple((l, len(lists[l]), lists[l][0]) for l in names)
                if ck not in _CACHE:
                    _CACHE[ck] = [(l, i) for l in names for i, w in enumerate(lists[l]) if respellings(rng, w, kind)]
                hits = _CACHE[ck]
                if not hits:
                    break
                lang, wi = hits[rng.randrange(len(hits))]
            r = respellings(rng, lists[lang][wi], kind)
            if not r:
                continue
            _k, tok, ok = r[rng.randrange(len(r))]
            out.append((kind, lang, wi, tok, ok))
            got += 1
    return out


_CACHE = {}
