"""Adapters shared by C01/C02/C17: mnemonic encoders/decoders and seed generators."""
import unicodedata
from harness.canon import hx, tx, unhx, untx
from bip_utils import (Bip39Languages, Bip39MnemonicDecoder, Bip39MnemonicEncoder, Bip39SeedGenerator, MoneroLanguages,
                       MoneroMnemonicDecoder, MoneroMnemonicEncoder, AlgorandMnemonicDecoder, AlgorandMnemonicEncoder,
                       AlgorandLanguages, ElectrumV1MnemonicDecoder, ElectrumV1MnemonicEncoder, ElectrumV1SeedGenerator,
                       ElectrumV2Languages, ElectrumV2MnemonicDecoder, ElectrumV2MnemonicEncoder, ElectrumV2MnemonicTypes,
                       ElectrumV2SeedGenerator, SubstrateBip39SeedGenerator)

BIP39_LANGS = [l.name for l in Bip39Languages]
MONERO_LANGS = [l.name for l in MoneroLanguages]
V2_LANGS = [l.name for l in ElectrumV2Languages]
V2_TYPES = [t.name for t in ElectrumV2MnemonicTypes]


def oracle_for(sentence):
    """NFKD(lower(tok)) for every non-ASCII token, computed with unicodedata directly (not through bip_utils)."""
    pairs = []
    seen = set()
    for tok in sentence.split():
        if not tok.isascii() and tok not in seen:
            seen.add(tok)
            pairs.append(tx(tok) + ":" + tx(unicodedata.normalize("NFKD", tok.lower())))
    return ",".join(pairs) if pairs else "-"


def nfkd(s):
    return unicodedata.normalize("NFKD", s)


def _lang(enum, l):
    return None if l == "auto" else enum[l]


def _bip39dec(l, mode, s, o):
    d = Bip39MnemonicDecoder(_lang(Bip39Languages, l))
    return hx(d.DecodeWithChecksum(untx(s)) if mode == "ck" else d.Decode(untx(s)))


def _monenc(l, e, ck):
    enc = MoneroMnemonicEncoder(MoneroLanguages[l])
    return tx((enc.EncodeWithChecksum(unhx(e)) if ck == "1" else enc.EncodeNoChecksum(unhx(e))).ToStr())


def _v2type(t):
    return None if t == "any" else ElectrumV2MnemonicTypes[t]


KEPT = {}      # generator objects kept for the whole run, one per (class, constructor arguments): the "object used before" route


def _routes(label, routes):
    """every documented route to one result: all must give the same answer, or all must refuse with the same error class"""
    from harness.canon import exc_kind
    outs = []
    for name, f in routes:
        try:
            outs.append((name, f()))
        except Exception as ex:  # noqa
            outs.append((name, "!" + exc_kind(ex)))
    if len({o for _, o in outs}) != 1:
        return "ARGUMENT-FORM-DEPENDENT " + label + ": " + " | ".join("%s: %s" % (n, str(o)[:100]) for n, o in outs)
    if outs[0][1].startswith("!"):
        routes[0][1]()          # re-raise for the caller's error classification
    return outs[0][1]


def _kept(cls, *a):
    k = (cls.__name__,) + tuple(str(x) for x in a)
    if k not in KEPT:
        KEPT[k] = cls(*a)
    return KEPT[k]


def _bip39enc(l, e):
    from bip_utils import Bip39MnemonicGenerator
    lang, ent = Bip39Languages[l], unhx(e)
    return _routes("BIP-39 encode", [("Encoder.Encode", lambda: tx(Bip39MnemonicEncoder(lang).Encode(ent).ToStr())),
                                    ("Generator.FromEntropy", lambda: tx(Bip39MnemonicGenerator(lang).FromEntropy(ent).ToStr())),
                                    ("kept Generator.FromEntropy", lambda: tx(_kept(Bip39MnemonicGenerator, lang).FromEntropy(ent).ToStr())),
                                    ("kept Encoder.Encode", lambda: tx(_kept(Bip39MnemonicEncoder, lang).Encode(ent).ToStr()))])


def _monenc_routes(l, e, ck):
    from bip_utils import MoneroMnemonicGenerator
    lang, ent = MoneroLanguages[l], unhx(e)
    if ck == "1":
        return _routes("Monero encode", [("Encoder", lambda: _monenc(l, e, ck)),
                                         ("Generator", lambda: tx(MoneroMnemonicGenerator(lang).FromEntropyWithChecksum(ent).ToStr())),
                                         ("kept Generator", lambda: tx(_kept(MoneroMnemonicGenerator, lang).FromEntropyWithChecksum(ent).ToStr()))])
    return _routes("Monero encode", [("Encoder", lambda: _monenc(l, e, ck)),
                                     ("Generator", lambda: tx(MoneroMnemonicGenerator(lang).FromEntropyNoChecksum(ent).ToStr())),
                                     ("kept Generator", lambda: tx(_kept(MoneroMnemonicGenerator, lang).FromEntropyNoChecksum(ent).ToStr()))])


def _algoenc(e):
    from bip_utils import AlgorandMnemonicGenerator
    ent = unhx(e)
    return _routes("Algorand encode", [("Encoder", lambda: tx(AlgorandMnemonicEncoder().Encode(ent).ToStr())),
                                       ("Generator", lambda: tx(AlgorandMnemonicGenerator().FromEntropy(ent).ToStr())),
                                       ("kept Generator", lambda: tx(_kept(AlgorandMnemonicGenerator).FromEntropy(ent).ToStr()))])


def _ev1enc(e):
    from bip_utils import ElectrumV1MnemonicGenerator
    ent = unhx(e)
    return _routes("Electrum v1 encode", [("Encoder", lambda: tx(ElectrumV1MnemonicEncoder().Encode(ent).ToStr())),
                                          ("Generator", lambda: tx(ElectrumV1MnemonicGenerator().FromEntropy(ent).ToStr())),
                                          ("kept Generator", lambda: tx(_kept(ElectrumV1MnemonicGenerator).FromEntropy(ent).ToStr()))])


def _ev2enc(l, t, e):
    # (ElectrumV2MnemonicGenerator.FromEntropy is documented to search upward from the given entropy for a value whose sentence carries
    # the version prefix, so it is not another route to Encode's answer; only fresh-vs-kept encoder objects are compared)
    lang, ty, ent = ElectrumV2Languages[l], ElectrumV2MnemonicTypes[t], unhx(e)
    return _routes("Electrum v2 encode", [("Encoder", lambda: tx(ElectrumV2MnemonicEncoder(ty, lang).Encode(ent).ToStr())),
                                          ("kept Encoder", lambda: tx(_kept(ElectrumV2MnemonicEncoder, ty, lang).Encode(ent).ToStr()))])


def _seed_routes(label, mk, salt):
    """a fresh generator asked once, and one generator object asked first for ANOTHER passphrase and then for this one"""
    def second_call():
        g = mk()
        g.Generate(PASS[salt] + "\u00a0other")
        return hx(g.Generate(PASS[salt]))
    return _routes(label, [("fresh object", lambda: hx(mk().Generate(PASS[salt]))), ("second call on one object", second_call)])


IMPL = {
    "bip39enc": _bip39enc,
    "bip39dec": _bip39dec,
    "bip39seed": lambda l, s, o, salt: _seed_routes("BIP-39 seed", lambda: Bip39SeedGenerator(untx(s), _lang(Bip39Languages, l)), salt),
    "subseed": lambda l, s, o, salt: _seed_routes("Substrate seed", lambda: SubstrateBip39SeedGenerator(untx(s), _lang(Bip39Languages, l)), salt),
    "monenc": _monenc_routes,
    "mondec": lambda l, s: hx(MoneroMnemonicDecoder(_lang(MoneroLanguages, l)).Decode(untx(s))),
    "algoenc": _algoenc,
    "algodec": lambda l, s, o: hx(AlgorandMnemonicDecoder(_lang(AlgorandLanguages, l)).Decode(untx(s))),
    "ev1enc": _ev1enc,
    "ev1dec": lambda s, o: hx(ElectrumV1MnemonicDecoder().Decode(untx(s))),
    "ev1seed": lambda s, o: hx(ElectrumV1SeedGenerator(untx(s)).Generate()),
    "ev2enc": _ev2enc,
    "ev2dec": lambda l, t, s, o: hx(ElectrumV2MnemonicDecoder(_v2type(t), _lang(ElectrumV2Languages, l)).Decode(untx(s))),
    "ev2seed": lambda l, s, o, salt: _seed_routes("Electrum v2 seed", lambda: ElectrumV2SeedGenerator(untx(s), _lang(ElectrumV2Languages, l)), salt),
}
# the seed ops receive NFKD(salt) (what the model needs); the passphrase itself is kept here, keyed by that field
PASS = {}
SALTS = {}


def salt_field(prefix, passphrase):
    f = hx(nfkd(prefix + passphrase).encode("utf-8"))
    old = PASS.get(f)
    if old is not None and nfkd(old) != nfkd(passphrase):
        raise AssertionError("salt collision")
    PASS.setdefault(f, passphrase)
    return f


# ---- first use from several threads at once, in a fresh interpreter -------------------------------------------------------------
# The codecs are pure functions of (language, phrase); the word lists behind them are process-wide objects that are loaded (and, in
# some designs, indexed) the first time they are needed.  Whatever is built lazily on first use is built while other threads may be
# asking for it, and in this process every list has long been used by the time a relation runs — so the first use is replayed in a
# fresh interpreter: per round, optional calls in the main thread (e.g. an encoder, which loads a list without searching it), then N
# threads released together, each with its own public object (constructed before or after the release) and making one call, arriving
# spread over a short time (a half-built structure is only seen by a thread that arrives while another is building).  Only public
# classes, addressed by name.
_FIRST_USE_CHILD = r'''
import json, sys, threading
import bip_utils
rounds = json.loads(sys.stdin.read())
sys.setswitchinterval(1e-6)

def arg(a):
    if a is None: return None
    k, v = a
    if k == "enum": return getattr(bip_utils, v[0])[v[1]]
    if k == "hex": return bytes.fromhex(v)
    return v

def canon(r):
    if isinstance(r, (bytes, bytearray)): return bytes(r).hex()
    if hasattr(r, "ToStr"): return r.ToStr()
    return str(r)

def make(t):
    return getattr(bip_utils, t["cls"])(*[arg(a) for a in t["ctor"]])

def call(t, obj=None):
    obj = make(t) if obj is None else obj
    return canon(getattr(obj, t["meth"])(arg(t["arg"]))) if t.get("meth") else ""

out = []
for rnd in rounds:
    tasks = rnd["tasks"]
    bar = threading.Barrier(len(tasks) + 1)
    go = [False]
    stagger = rnd.get("stagger", 0)
    res = [None] * len(tasks)
    for t in rnd.get("before", []):
        try:
            call(t)
        except Exception as ex:      # reported after the task results
            res.append(["!" + type(ex).__name__, "in the main thread, before the threads started: " + str(ex)[:120]])
    def work(i, t):
        # every other thread has its object ready when the round starts (its first call is then the first search of the list); the
        # others construct it afterwards as well (their first call is then also the first load of the list)
        obj = err = None
        if i % 2:
            try:
                obj = make(t)
            except Exception as ex:
                err = ex
        try:
            bar.wait()
        except threading.BrokenBarrierError:
            pass
        while not go[0]:          # spin: every thread is runnable (not asleep in a lock) at the moment the round starts
            pass
        for _ in range(i * stagger):      # … and they arrive spread over the time a lazy initialisation would take, not all at its very beginning
            pass
        try:
            if err is not None:
                raise err
            res[i] = [call(t, obj), ""]
        except Exception as ex:
            res[i] = ["!" + type(ex).__name__, str(ex)[:120]]
    ths = [threading.Thread(target=work, args=(i, t)) for i, t in enumerate(tasks)]
    for th in ths: th.start()
    try:
        bar.wait(60)
    except threading.BrokenBarrierError:
        pass
    go[0] = True
    for th in ths: th.join()
    out.append(res)
print("\n" + json.dumps(out))
'''


def first_use_concurrently(rounds, timeout=120):
    """run `rounds` ([{"before": [task…], "tasks": [task…]}], task = {"cls", "ctor": [arg…], "meth", "arg"}, arg = None | ["enum", [enum class
    name, member name]] | ["hex", h] | ["str", s]) in ONE fresh interpreter: per round the `before` calls in the main thread, then all
    `tasks` from as many threads released together.  Returns per round the list of [canonical result | "!ExceptionClass", detail]."""
    import json, os, subprocess, sys
    from harness.core import VERIF, HarnessError
    p = subprocess.run([sys.executable, "-c", _FIRST_USE_CHILD], input=json.dumps(rounds), stdout=subprocess.PIPE, stderr=subprocess.PIPE, text=True,
                       timeout=timeout, env=dict(os.environ, PYTHONPATH=VERIF + ":" + os.environ.get("VERIF_REPO", "/repo"), PYTHONDONTWRITEBYTECODE="1"))
    if p.returncode != 0:
        raise HarnessError("first-use child interpreter failed: " + p.stderr[-600:])
    return [[r if r else ["!no-result", ""] for r in res] for res in json.loads(p.stdout.strip().split("\n")[-1])]


def task(cls, ctor, meth=None, a=None):
    def enc(x):
        if x is None:
            return None
        if isinstance(x, (bytes, bytearray)):
            return ["hex", bytes(x).hex()]
        if isinstance(x, str):
            return ["str", x]
        return ["enum", [type(x).__name__, x.name]]
    return {"cls": cls, "ctor": [enc(x) for x in ctor], "meth": meth, "arg": enc(a)}
