"""Adapters shared by C01/C02/C17: mnemonic encoders/decoders and seed generators."""
import unicodedata
from harness.canon import hx, tx, unhx, untx
from bip_utils import (Bip39Languages, Bip39MnemonicDecoder, Bip39MnemonicEncoder, Bip39SeedGenerator, MoneroLanguages,
                       MoneroMnemonicDecoder, MoneroMnemonicEncoder, AlgorandMnemonicDecoder, AlgorandMnemonicEncoder,
                       AlgorandLanguages, ElectrumV1MnemonicDecoder, ElectrumV1MnemonicEncoder, ElectrumV1SeedGenerator,
                       ElectrumV2Languages, ElectrumV2MnemonicDecoder, ElectrumV2MnemonicEncoder, ElectrumV2MnemonicTypes,
                       ElectrumV2SeedGenerator, SubstrateBip39SeedGenerator)

BIP39_LANGS = [l.name for l in Bip39Languages]
MONERO_LANGS = [l.name for l in MoneroLanguages]
V2_LANGS = [l.name for l in ElectrumV2Languages]
V2_TYPES = [t.name for t in ElectrumV2MnemonicTypes]


def oracle_for(sentence):
    """NFKD(lower(tok)) for every non-ASCII token, computed with unicodedata directly (not through bip_utils)."""
    pairs = []
    seen = set()
    for tok in sentence.split():
        if not tok.isascii() and tok not in seen:
            seen.add(tok)
            pairs.append(tx(tok) + ":" + tx(unicodedata.normalize("NFKD", tok.lower())))
    return ",".join(pairs) if pairs else "-"


def nfkd(s):
    return unicodedata.normalize("NFKD", s)


def _lang(enum, l):
    return None if l == "auto" else enum[l]


def _bip39dec(l, mode, s, o):
    d = Bip39MnemonicDecoder(_lang(Bip39Languages, l))
    return hx(d.DecodeWithChecksum(untx(s)) if mode == "ck" else d.Decode(untx(s)))


def _monenc(l, e, ck):
    enc = MoneroMnemonicEncoder(MoneroLanguages[l])
    return tx((enc.EncodeWithChecksum(unhx(e)) if ck == "1" else enc.EncodeNoChecksum(unhx(e))).ToStr())


def _v2type(t):
    return None if t == "any" else ElectrumV2MnemonicTypes[t]


IMPL = {
    "bip39enc": lambda l, e: tx(Bip39MnemonicEncoder(Bip39Languages[l]).Encode(unhx(e)).ToStr()),
    "bip39dec": _bip39dec,
    "bip39seed": lambda l, s, o, salt: hx(Bip39SeedGenerator(untx(s), _lang(Bip39Languages, l)).Generate(PASS[salt])),
    "subseed": lambda l, s, o, salt: hx(SubstrateBip39SeedGenerator(untx(s), _lang(Bip39Languages, l)).Generate(PASS[salt])),
    "monenc": _monenc,
    "mondec": lambda l, s: hx(MoneroMnemonicDecoder(_lang(MoneroLanguages, l)).Decode(untx(s))),
    "algoenc": lambda e: tx(AlgorandMnemonicEncoder().Encode(unhx(e)).ToStr()),
    "algodec": lambda l, s, o: hx(AlgorandMnemonicDecoder(_lang(AlgorandLanguages, l)).Decode(untx(s))),
    "ev1enc": lambda e: tx(ElectrumV1MnemonicEncoder().Encode(unhx(e)).ToStr()),
    "ev1dec": lambda s, o: hx(ElectrumV1MnemonicDecoder().Decode(untx(s))),
    "ev1seed": lambda s, o: hx(ElectrumV1SeedGenerator(untx(s)).Generate()),
    "ev2enc": lambda l, t, e: tx(ElectrumV2MnemonicEncoder(ElectrumV2MnemonicTypes[t], ElectrumV2Languages[l]).Encode(unhx(e)).ToStr()),
    "ev2dec": lambda l, t, s, o: hx(ElectrumV2MnemonicDecoder(_v2type(t), _lang(ElectrumV2Languages, l)).Decode(untx(s))),
    "ev2seed": lambda l, s, o, salt: hx(ElectrumV2SeedGenerator(untx(s), _lang(ElectrumV2Languages, l)).Generate(PASS[salt])),
}
# the seed ops receive NFKD(salt) (what the model needs); the passphrase itself is kept here, keyed by that field
PASS = {}
SALTS = {}


def salt_field(prefix, passphrase):
    f = hx(nfkd(prefix + passphrase).encode("utf-8"))
    old = PASS.get(f)
    if old is not None and nfkd(old) != nfkd(passphrase):
        raise AssertionError("salt collision")
    PASS.setdefault(f, passphrase)
    return f
