"""C19 — Substrate junction encoding and wallet derivation are consistent."""
import sr25519
from harness.core import Case
from harness.canon import hx, tx, unhx, untx, exc_kind
from harness.props.c07 import pre_build
from bip_utils import Substrate, SubstrateCoins, SubstratePathParser, SubstratePathElem, SubstratePath

LEAN_MODULES = ["BipVerif.Props.C19"]
COINS = [c.name for c in SubstrateCoins]

# sr25519 (third-party Rust bindings) answers, obtained by calling the bindings directly
ORACLES = {
    "sr_pair": lambda b: (lambda r: bytes(r[0]) + bytes(r[1]))(sr25519.pair_from_seed(b)),
    "sr_pub": lambda b: bytes(sr25519.public_from_secret_key(b)),
    "sr_hard": lambda b: (lambda r: bytes(r[1]) + bytes(r[2]))(sr25519.hard_derive_keypair((b[:32], b[32:64], b[64:]), b"")),
    "sr_soft": lambda b: (lambda r: bytes(r[1]) + bytes(r[2]))(sr25519.derive_keypair((b[:32], b[32:64], b[64:]), b"")),
    "sr_softpub": lambda b: bytes(sr25519.derive_pubkey((b[:32], b[32:]), b"")[1]),
}
JUNCTIONS = ["0", "1", "255", "256", "65535", "65536", "4294967295", "4294967296", str(2**64 - 1), str(2**64), str(2**128 - 1), str(2**128),
             str(2**256 - 1), str(2**256), str(2**300), "007", "00000000000000000000000000000000000001", "١٢٣", "²", "½", "一", "Alice", "alice", "a" * 30,
             "a" * 31, "a" * 32, "b" * 33, "é" * 15, "é" * 16, "😀" * 8, "stash", "polkadot", " ", "a b", "0x10", "-1", "1e3", "x" * 64, "\n", "1\n",
             "x" * 62, "x" * 63, "x" * 64, "é" * 31 + "a", "y" * 16383, "y" * 16384, "z" * 16382, "9" * 4301, "0" * 4400 + "7", "1" * 78, "9" * 77, "a ", " a", "7 ", " 7", "a\t", "a\u3000", "\u00a0b", "a" * 31 + " ", " " + "a" * 31, "12\u2003"]


def rand_path(rng):
    n = rng.choice([0, 1, 1, 2, 3, 5])
    return "".join(rng.choice(["/", "//"]) + rng.choice(JUNCTIONS) for _ in range(n))


def _out(o):
    # the nonce half of an sr25519 secret key is randomised by soft derivation: compare the scalar half only
    priv = hx(o.PrivateKey().Raw().ToBytes()[:32]) if not o.IsPublicOnly() else "-"
    try:
        addr = tx(o.PublicKey().ToAddress())
    except Exception as ex:  # noqa
        addr = "!" + exc_kind(ex)
    return " ".join([priv, hx(o.PublicKey().RawCompressed().ToBytes()), tx(o.Path().ToStr()), addr])


def _substrate(kind, key, coin, path, k):
    c = SubstrateCoins[coin]
    if kind == "seed":
        o = Substrate.FromSeed(unhx(key), c)
    elif kind == "priv":
        o = Substrate.FromPrivateKey(unhx(key), c)
    else:
        o = Substrate.FromPublicKey(unhx(key), c)
    p = SubstratePathParser.Parse(untx(path))
    elems = list(p)
    k = int(k)
    for e in elems[:k]:
        o = o.ChildKey(e)
    if k < len(elems):
        o.ConvertToPublic()
    rest = elems[k:]

    def chain(o):
        for e in rest:
            o = o.ChildKey(e)
        return o
    # the same walk through every documented route: junction by junction, DerivePath(text), DerivePath(path object)
    from bip_utils import SubstratePath
    outs = []
    for route in (chain, lambda o: o.DerivePath("".join(e.ToStr() for e in rest)), lambda o: o.DerivePath(SubstratePath(rest))):
        try:
            outs.append(_out(route(o)))
        except Exception as ex:  # noqa
            outs.append("!" + exc_kind(ex))
    if len(set(outs)) != 1:
        return "ARGUMENT-FORM-DEPENDENT ChildKey chain: %s | DerivePath(str): %s | DerivePath(SubstratePath): %s" % tuple(x[:120] for x in outs)
    if outs[0].startswith("!"):
        return chain(o) and ""
    return outs[0]


def _subpath(s):
    p = SubstratePathParser.Parse(untx(s))
    items = ",".join(("H" if e.IsHard() else "S") + tx(e.ToStr().lstrip("/")) for e in p)
    return tx(p.ToStr()) + " " + (items or "-")


IMPL = {"substrate": _substrate, "subpath": _subpath, "subcc": lambda s: hx(SubstratePathElem(untx(s)).ChainCode())}


def gen(rng, tier):
    for j in JUNCTIONS:
        for pre in ("/", "//"):
            yield Case("subcc", [tx(pre + j)], "chaincode")
    for s in ["", "/", "//", "a", "/a/", "/a//b", "///a", "/a///b", "//a/b//c", "/ /", "/a/ /b", "//", "/a//", "a/b", "/a\n", "/😀//é",
              " /a", "/a ", " //hard", "//hard/soft ", "\t/a", "/a\u3000", "\u00a0/a", "/ ", "// ", " ", "/a /b", "/7 ", "/a\r\n"]:
        yield Case("subpath", [tx(s)], "parse")
    for _ in range(300 if tier == "quick" else 20000):
        yield Case("subpath", [tx(rand_path(rng) + rng.choice(["", "", "", "/", "//", "x"]))], "parse")
    # numeric junctions at and past 2^256 (and over-long digit strings) on every kind of object, public-only and converted ones included:
    # the refusal is the PATH error whatever the object, as for a private object
    big = [str(2**256 - 1), str(2**256), str(2**300), "0" * 40 + str(2**256), "9" * 79, "1" * 4301]
    for i, j in enumerate(big):
        sd = bytes(rng.randrange(256) for _ in range(32))
        pubk = bytes(sr25519.pair_from_seed(sd)[0])
        for pre in ("/", "/1/", "/a/b/"):
            yield Case("substrate", ["pub", hx(pubk), COINS[i % len(COINS)], tx(pre + j), 99], "public-only-big-junction")
            yield Case("substrate", ["seed", hx(sd), COINS[i % len(COINS)], tx(pre + j), 0], "converted-big-junction")
            yield Case("substrate", ["seed", hx(sd), COINS[i % len(COINS)], tx(pre + j), 99], "private-big-junction")
    n = 40 if tier == "quick" else 3000
    for i in range(n):
        coin = COINS[i % len(COINS)]
        kind = ["seed", "seed", "priv", "pub"][i % 4]
        seed = bytes(rng.randrange(256) for _ in range(rng.choice([32, 32, 64, 33, 31, 0]) if kind == "seed" else 32))
        path = rand_path(rng)
        nelem = path.count("/") - path.count("//")
        if kind == "seed":
            key = seed
        elif kind == "priv":
            key = bytes(sr25519.pair_from_seed(seed)[1]) if i % 8 else bytes(63)
        else:
            key = bytes(sr25519.pair_from_seed(seed)[0]) if i % 8 else bytes(31)
        k = rng.choice([99, 99, 0, 1, 2])
        yield Case("substrate", [kind, hx(key), coin, tx(path), k], "wallet-" + kind)


def relations(rng, tier, rpt):
    """compositionality, soft commutation with the public key, hard refusal on public-only — implementation only."""
    bad = []
    n = 0

    def rep(what, inp, got, want):
        bad.append({"property": "C19", "entry_point": what, "request_lines": [], "relation": what, "input": inp,
                    "impl_output": got, "model_output": want, "no_failing_input": False})

    for i in range(15 if tier == "quick" else 400):
        c = SubstrateCoins[COINS[i % len(COINS)]]
        seed = bytes(rng.randrange(256) for _ in range(32))
        good = [j for j in JUNCTIONS if not (j.isdecimal() and (len(j.lstrip("0")) > 78 or int(j.lstrip("0") or "0") >= 2**256))]
        p = ["//" + rng.choice(good) for _ in range(rng.randrange(0, 3))]
        q = ["/" + rng.choice(good) for _ in range(rng.randrange(1, 3))]
        m = Substrate.FromSeed(seed, c)
        a = m.DerivePath("".join(p)).DerivePath("".join(q))
        b = m.DerivePath("".join(p + q))
        n += 1
        if _out(a) != _out(b):
            rep("derive p then q differs from p++q", "%s %r %r" % (seed.hex(), p, q), _out(a), _out(b))
        base = m.DerivePath("".join(p))
        pub = Substrate.FromPublicKey(base.PublicKey().RawCompressed().ToBytes(), c)
        if pub.DerivePath("".join(q)).PublicKey().RawCompressed().ToBytes() != a.PublicKey().RawCompressed().ToBytes():
            rep("soft derivation does not commute with taking the public key", "%s %r %r" % (seed.hex(), p, q), "differs", "equal")
        try:
            pub.ChildKey("//0")
            rep("hard junction accepted on a public-only object", seed.hex(), "ok", "SubstrateKeyError")
        except Exception as ex:  # noqa
            if exc_kind(ex) != "Key":
                rep("hard junction on public-only raises the wrong error", seed.hex(), exc_kind(ex), "Key")
        # conversion after use: derive children, convert the same object to public-only, ask again
        hj, sj = "//" + rng.choice(good), "/" + rng.choice(good)
        ctx = Substrate.FromSeed(seed, c).DerivePath("".join(p))
        want_soft = ctx.ChildKey(sj).PublicKey().RawCompressed().ToBytes()
        ctx.ChildKey(hj)
        before_path = ctx.Path().ToStr()
        ctx.ConvertToPublic()
        try:
            again = ctx.ChildKey(sj)
            if not again.IsPublicOnly():
                rep("after ConvertToPublic a soft child (derived before the conversion) still holds a private key", "%s %r %s" % (seed.hex(), p, sj), "private", "public-only")
            elif again.PublicKey().RawCompressed().ToBytes() != want_soft:
                rep("after ConvertToPublic the soft child differs from the public half of the private child", "%s %r %s" % (seed.hex(), p, sj), "differs", "equal")
        except Exception as ex:  # noqa
            rep("after ConvertToPublic soft derivation raises", "%s %r %s" % (seed.hex(), p, sj), type(ex).__name__, "public child")
        try:
            ctx.ChildKey(hj)
            rep("after ConvertToPublic a hard junction derived before the conversion is still handed out", "%s %r %s" % (seed.hex(), p, hj), "ok", "SubstrateKeyError")
        except Exception as ex:  # noqa
            if exc_kind(ex) != "Key":
                rep("hard junction on a converted object raises the wrong error", seed.hex(), exc_kind(ex), "Key")
        if ctx.Path().ToStr() != before_path or ctx.Path().ToStr() != "".join(p):
            rep("deriving children changed the parent's path", "%s %r" % (seed.hex(), p), ctx.Path().ToStr(), "".join(p))
        s = "".join(p + q)
        if SubstratePathParser.Parse(s).ToStr() != s:
            rep("print(parse(s)) != s", s, SubstratePathParser.Parse(s).ToStr(), s)
    rpt.extra["impl_relation_checks"] = n
    return bad[:6]
