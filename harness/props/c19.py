"""C19 — Substrate junction encoding and wallet derivation are consistent."""
import sr25519
from harness.core import Case
from harness.canon import hx, tx, unhx, untx, exc_kind
from harness.props.c07 import pre_build
from bip_utils import Substrate, SubstrateCoins, SubstratePathParser, SubstratePathElem, SubstratePath

LEAN_MODULES = ["BipVerif.Props.C19"]
COINS = [c.name for c in SubstrateCoins]

# sr25519 (third-party Rust bindings) answers, obtained by calling the bindings directly
ORACLES = {
    "sr_pair": lambda b: (lambda r: bytes(r[0]) + bytes(r[1]))(sr25519.pair_from_seed(b)),
    "sr_pub": lambda b: bytes(sr25519.public_from_secret_key(b)),
    "sr_hard": lambda b: (lambda r: bytes(r[1]) + bytes(r[2]))(sr25519.hard_derive_keypair((b[:32], b[32:64], b[64:]), b"")),
    "sr_soft": lambda b: (lambda r: bytes(r[1]) + bytes(r[2]))(sr25519.derive_keypair((b[:32], b[32:64], b[64:]), b"")),
    "sr_softpub": lambda b: bytes(sr25519.derive_pubkey((b[:32], b[32:]), b"")[1]),
}
JUNCTIONS = ["0", "1", "255", "256", "65535", "65536", "4294967295", "4294967296", str(2**64 - 1), str(2**64), str(2**128 - 1), str(2**128),
             str(2**256 - 1), str(2**256), str(2**300), "007", "00000000000000000000000000000000000001", "١٢٣", "²", "½", "一", "Alice", "alice", "a" * 30,
             "a" * 31, "a" * 32, "b" * 33, "é" * 15, "é" * 16, "😀" * 8, "stash", "polkadot", " ", "a b", "0x10", "-1", "1e3", "x" * 64, "\n", "1\n",
             "x" * 62, "x" * 63, "x" * 64, "é" * 31 + "a", "y" * 16383, "y" * 16384, "z" * 16382, "9" * 4301, "0" * 4400 + "7", "1" * 78, "9" * 77, "a ", " a", "7 ", " 7", "a\t", "a\u3000", "\u00a0b", "a" * 31 + " ", " " + "a" * 31, "12\u2003"]


# junction text that is NOT a fixed point of the text transformations a library is tempted to apply (Unicode NFC / NFD / NFKC / NFKD, case
# mapping, case folding, white-space or invisible-character stripping): the statement encodes the junction's UTF-8 text as given, so each of
# these has the chain code of ITS OWN bytes (written with escapes so that no editor re-normalises this file)
TEXT_AS_GIVEN = [
    "cafe\u0301", "caf\u00e9", "A\u030a", "\u00c5", "\u212b", "\u2126", "\u03a9", "\u212a", "K", "\u2126hm", "n\u0303o", "\u00f1o", "e\u0323\u0302", "e\u0302\u0323", "\u1ec7",
    "\u1112\u1161\u11ab", "\ud55c", "\u0958", "\u0915\u093c", "\u0344", "\u0308\u0301", "\u1e9b\u0323", "\u1e9b", "\ufb01", "fi", "\ufb03x", "\u2460", "\uff21\uff11", "A1x", "\u33a1", "\u210c",
    "\u2075x", "\u00bd", "\uff76\uff9e", "\u30ac", "\u30ab\u3099", "\u0130", "i\u0307", "\u00df", "\u1e9e", "ss", "SS", "\u01c5", "\u03a3\u03c3\u03c2", "\u03c2", "Alice", "ALICE",
    "\u00e9".upper(), "stra\u00dfe", "STRASSE", "a\u200bb", "ab\u200d", "\ufeffab", "a\u00adb", "a\ufe0f", "\u2764\ufe0f", "\u2764", "\U0001f468\u200d\U0001f469\u200d\U0001f467", "\U0001d7d8x",
    "x\U0001d7d9", "\u0661\u0662x", "\u00a0a\u00a0", "\u2003a", "a\u3000", "a\tb", "\tab", "ab\r", "a\x00", "\x00", "a\x1fb", "\x7f", "a\u2028", "a\u0085",
    "Stra\u00dfe-" + "n\u0303" * 20, "\u00f1" * 15, "n\u0303" * 10, "n\u0303" * 11, "\u212b" * 10, "\u212b" * 11, "\u00c5" * 15, "\u00c5" * 16, "\ufb01" * 10, "\ufb01" * 11, "\u1112\u1161\u11ab" * 4,
    "\ud55c" * 10, "\ud55c" * 11, "e\u0301" * 5000, "\u00e9" * 8192,
]
_POOL = (["a", "b", "Z", "e", "n", "A", "K", "i", "s", "S", "0", "7", " ", "-", "_", ".", "'", "h"] +
         ["\u0301", "\u0300", "\u030a", "\u0323", "\u0302", "\u0303", "\u0308", "\u0327", "\u0307", "\u093c", "\u3099", "\u0344"] +
         ["\u00e9", "\u00c5", "\u00f1", "\u00e7", "\u00fc", "\u1ec7", "\u212b", "\u2126", "\u212a", "\u1e9b", "\ufb01", "\u2460", "\uff21", "\uff11", "\u00b2", "\u00bd", "\uff76", "\uff9e",
          "\u30ab", "\u1112", "\u1161", "\u11ab", "\ud55c", "\u0130", "\u00df", "\u1e9e", "\u01c5", "\u03a3", "\u03c2", "\u200b", "\u200d", "\ufeff", "\u00ad", "\ufe0f", "\u00a0", "\u3000",
          "\u2003", "\t", "\x00", "\U0001f600", "\U0001d7d8", "\u0661", "\u4e00"])


def rand_text(rng):
    """a random junction text over a pool rich in combining marks, composed / singleton / compatibility / cased / invisible characters"""
    n = rng.choice([1, 2, 3, 3, 4, 6, 9, 12, 16, 31, 40])
    return "".join(rng.choice(_POOL) for _ in range(n))


def text_forms(t):
    """the spellings of `t` under the usual text transformations: distinct texts, each a junction of its own"""
    import unicodedata
    out = [t]
    for f in ("NFC", "NFD", "NFKC", "NFKD"):
        out.append(unicodedata.normalize(f, t))
    out += [t.lower(), t.upper(), t.casefold(), t.title(), t.swapcase(), t.strip(), t + " ", " " + t, t.replace("\u200b", "").replace("\ufeff", "").replace("\u00ad", "")]
    return [x for x in dict.fromkeys(out) if x and "/" not in x]


def _compact(n):
    """SCALE compact integer (the length prefix), from its definition"""
    if n < 1 << 6:
        return (n << 2).to_bytes(1, "little")
    if n < 1 << 14:
        return ((n << 2) | 1).to_bytes(2, "little")
    if n < 1 << 30:
        return ((n << 2) | 2).to_bytes(4, "little")
    raise ValueError("longer than this harness generates")


def ref_text_chain_code(text):
    """the statement's rule for a non-decimal junction, with hashlib only: compact length ++ UTF-8 text, padded to 32 or Blake2b-256-hashed"""
    import hashlib
    raw = text.encode("utf-8")
    enc = _compact(len(raw)) + raw
    return hashlib.blake2b(enc, digest_size=32).digest() if len(enc) > 32 else enc.ljust(32, b"\x00")


_B58 = "123456789ABCDEFGHJKLMNPQRSTUVWXYZabcdefghijkmnopqrstuvwxyz"


def ref_ss58(pub, fmt):
    """SS58 from its definition, with hashlib only: base58(prefix ++ 32-byte key ++ Blake2b-512("SS58PRE" ++ prefix ++ key)[:2]); the prefix
    is one byte for formats below 64, the two-byte form above"""
    import hashlib
    assert len(pub) == 32 and 0 <= fmt < 16384
    pre = bytes([fmt]) if fmt < 64 else bytes([((fmt & 0xFC) >> 2) | 0x40, (fmt >> 8) | ((fmt & 0x03) << 6)])
    data = pre + pub + hashlib.blake2b(b"SS58PRE" + pre + pub, digest_size=64).digest()[:2]
    num, out = int.from_bytes(data, "big"), ""
    while num:
        num, r = divmod(num, 58)
        out = _B58[r] + out
    return "1" * (len(data) - len(data.lstrip(b"\x00"))) + out


def _zero_class(pub):
    """which of the output-dependent byte classes a 32-byte public key falls in (a key is 32 bytes whatever they are)"""
    if pub[:2] == b"\x00\x00":
        return "two-leading-zero-bytes"
    if pub[0] == 0:
        return "leading-zero-byte"
    if pub[-1] == 0:
        return "trailing-zero-byte"
    if pub[0] == 1:
        return "leading-one-byte"
    return None


def zero_byte_roots(rng, want, tries):
    """seeds whose sr25519 root public key has a zero first byte / zero last byte (1 key in 128 / 256; two zero bytes when `tries` allows),
    found with the sr25519 bindings directly -> [(class, seed, public key, secret key)]. (A Ristretto encoding is an even little-endian
    number, so the first byte 0x01 — a class of the ed25519 flavour below — does not occur here.)"""
    out, have = [], {}
    for _ in range(tries):
        seed = rng.getrandbits(256).to_bytes(32, "big")
        pub, sec = (bytes(x) for x in sr25519.pair_from_seed(seed))
        c = _zero_class(pub)
        if c and have.get(c, 0) < want.get(c, 0):
            have[c] = have.get(c, 0) + 1
            out.append((c, seed, pub, sec))
            if all(have.get(k, 0) >= v for k, v in want.items()):
                break
    return out


def zero_byte_children(rng, seed, want, tries):
    """numeric junctions under `seed` whose soft / hard CHILD public key falls in a zero-byte class, found with the sr25519 bindings directly
    (a decimal junction below 2^64 has the little-endian integer, zero-padded to 32 bytes, as chain code) -> [(class, junction text)]"""
    pub0, sec0 = (bytes(x) for x in sr25519.pair_from_seed(seed))
    out, have = [], {}
    start = rng.getrandbits(40)
    for n_ in range(start, start + tries):
        cc = n_.to_bytes(32, "little")
        for pre, child in (("/", bytes(sr25519.derive_pubkey((cc, pub0), b"")[1])), ("//", bytes(sr25519.hard_derive_keypair((cc, pub0, sec0), b"")[1]))):
            c = _zero_class(child)
            if c and c != "leading-one-byte" and have.get((pre, c), 0) < want:
                have[(pre, c)] = have.get((pre, c), 0) + 1
                out.append((c, pre + str(n_)))
    return out


def rand_path(rng):
    n = rng.choice([0, 1, 1, 2, 3, 5])
    return "".join(rng.choice(["/", "//"]) + rng.choice(JUNCTIONS) for _ in range(n))


def _out(o):
    # the nonce half of an sr25519 secret key is randomised by soft derivation: compare the scalar half only
    priv = hx(o.PrivateKey().Raw().ToBytes()[:32]) if not o.IsPublicOnly() else "-"
    try:
        addr = tx(o.PublicKey().ToAddress())
    except Exception as ex:  # noqa
        addr = "!" + exc_kind(ex)
    return " ".join([priv, hx(o.PublicKey().RawCompressed().ToBytes()), tx(o.Path().ToStr()), addr])


def _substrate(kind, key, coin, path, k):
    c = SubstrateCoins[coin]
    if kind == "seed":
        o = Substrate.FromSeed(unhx(key), c)
    elif kind == "priv":
        o = Substrate.FromPrivateKey(unhx(key), c)
    else:
        o = Substrate.FromPublicKey(unhx(key), c)
    p = SubstratePathParser.Parse(untx(path))
    elems = list(p)
    k = int(k)
    for e in elems[:k]:
        o = o.ChildKey(e)
    if k < len(elems):
        o.ConvertToPublic()
    rest = elems[k:]

    def chain(o):
        for e in rest:
            o = o.ChildKey(e)
        return o
    # the same walk through every documented route: junction by junction, DerivePath(text), DerivePath(path object)
    from bip_utils import SubstratePath
    outs = []
    for route in (chain, lambda o: o.DerivePath("".join(e.ToStr() for e in rest)), lambda o: o.DerivePath(SubstratePath(rest))):
        try:
            outs.append(_out(route(o)))
        except Exception as ex:  # noqa
            outs.append("!" + exc_kind(ex))
    if len(set(outs)) != 1:
        return "ARGUMENT-FORM-DEPENDENT ChildKey chain: %s | DerivePath(str): %s | DerivePath(SubstratePath): %s" % tuple(x[:120] for x in outs)
    if outs[0].startswith("!"):
        return chain(o) and ""
    return outs[0]


def _subpath(s):
    p = SubstratePathParser.Parse(untx(s))
    items = ",".join(("H" if e.IsHard() else "S") + tx(e.ToStr().lstrip("/")) for e in p)
    return tx(p.ToStr()) + " " + (items or "-")


IMPL = {"substrate": _substrate, "subpath": _subpath, "subcc": lambda s: hx(SubstratePathElem(untx(s)).ChainCode())}


def gen(rng, tier):
    for j in JUNCTIONS:
        for pre in ("/", "//"):
            yield Case("subcc", [tx(pre + j)], "chaincode")
    # junction text as given (not normalised, case-mapped or stripped): every listed text and random ones, with all their transformed
    # spellings, through the model's chain-code rule; and through parse/print
    texts = list(TEXT_AS_GIVEN)
    for _ in range(25 if tier == "quick" else 1500):
        texts += text_forms(rand_text(rng))
    for t in dict.fromkeys(texts):
        yield Case("subcc", [tx(("/", "//")[len(t) % 2] + t)], "chaincode-text-as-given")
        if len(t) < 200:
            yield Case("subpath", [tx("//" + t + "/" + t)], "parse-text-as-given")
    short = [t for t in TEXT_AS_GIVEN if len(t) < 40]
    for i in range(12 if tier == "quick" else 400):
        sd = bytes(rng.randrange(256) for _ in range(32))
        t = rng.choice(short) if i % 3 else rand_text(rng)
        yield Case("substrate", ["seed", hx(sd), COINS[i % len(COINS)], tx(("//", "/")[i % 2] + t + rng.choice(["", "/" + rng.choice(short), "//" + rng.choice(short)])), 99],
                   "wallet-text-as-given")
    for s in ["", "/", "//", "a", "/a/", "/a//b", "///a", "/a///b", "//a/b//c", "/ /", "/a/ /b", "//", "/a//", "a/b", "/a\n", "/😀//é",
              " /a", "/a ", " //hard", "//hard/soft ", "\t/a", "/a\u3000", "\u00a0/a", "/ ", "// ", " ", "/a /b", "/7 ", "/a\r\n"]:
        yield Case("subpath", [tx(s)], "parse")
    for _ in range(300 if tier == "quick" else 20000):
        yield Case("subpath", [tx(rand_path(rng) + rng.choice(["", "", "", "/", "//", "x"]))], "parse")
    # numeric junctions at and past 2^256 (and over-long digit strings) on every kind of object, public-only and converted ones included:
    # the refusal is the PATH error whatever the object, as for a private object
    big = [str(2**256 - 1), str(2**256), str(2**300), "0" * 40 + str(2**256), "9" * 79, "1" * 4301]
    for i, j in enumerate(big):
        sd = bytes(rng.randrange(256) for _ in range(32))
        pubk = bytes(sr25519.pair_from_seed(sd)[0])
        for pre in ("/", "/1/", "/a/b/"):
            yield Case("substrate", ["pub", hx(pubk), COINS[i % len(COINS)], tx(pre + j), 99], "public-only-big-junction")
            yield Case("substrate", ["seed", hx(sd), COINS[i % len(COINS)], tx(pre + j), 0], "converted-big-junction")
            yield Case("substrate", ["seed", hx(sd), COINS[i % len(COINS)], tx(pre + j), 99], "private-big-junction")
    n = 40 if tier == "quick" else 3000
    for i in range(n):
        coin = COINS[i % len(COINS)]
        kind = ["seed", "seed", "priv", "pub"][i % 4]
        seed = bytes(rng.randrange(256) for _ in range(rng.choice([32, 32, 64, 33, 31, 0]) if kind == "seed" else 32))
        path = rand_path(rng)
        nelem = path.count("/") - path.count("//")
        if kind == "seed":
            key = seed
        elif kind == "priv":
            key = bytes(sr25519.pair_from_seed(seed)[1]) if i % 8 else bytes(63)
        else:
            key = bytes(sr25519.pair_from_seed(seed)[0]) if i % 8 else bytes(31)
        k = rng.choice([99, 99, 0, 1, 2])
        yield Case("substrate", [kind, hx(key), coin, tx(path), k], "wallet-" + kind)
    # directed, output-dependent: public keys with a zero first byte (or two), a zero last byte — a key is 32 bytes whatever
    # they are, and its address is the SS58 of all 32. Roots (from a seed, from the private key, public-only) on every coin in turn, and
    # soft / hard children reached through a junction (also from the object converted to public-only first)
    quick = tier == "quick"
    roots = zero_byte_roots(rng, {"leading-zero-byte": 3 if quick else 14, "trailing-zero-byte": 1 if quick else 6, "two-leading-zero-bytes": 0 if quick else 1},
                            6000 if quick else 400000)
    for i, (c, seed, pub, sec) in enumerate(roots):
        coins = [COINS[(i * 5 + j) % len(COINS)] for j in range(2)] if quick else COINS
        for coin in coins:
            yield Case("substrate", ["seed", hx(seed), coin, tx(""), 99], "root-key-" + c)
        yield Case("substrate", ["pub", hx(pub), COINS[(i * 3 + 1) % len(COINS)], tx(""), 99], "root-key-" + c)
        yield Case("substrate", ["priv", hx(sec), COINS[(i * 3 + 2) % len(COINS)], tx(""), 99], "root-key-" + c)
    for i in range(1 if quick else 6):
        seed = rng.getrandbits(256).to_bytes(32, "big")
        for j, (c, junction) in enumerate(zero_byte_children(rng, seed, 1 if quick else 2, 700 if quick else 4000)):
            coin = COINS[(i + j) % len(COINS)]
            yield Case("substrate", ["seed", hx(seed), coin, tx(junction), 99], "child-key-" + c)
            if not junction.startswith("//"):
                yield Case("substrate", ["seed", hx(seed), coin, tx(junction), 0], "child-key-public-" + c)


def relations(rng, tier, rpt):
    """compositionality, soft commutation with the public key, hard refusal on public-only — implementation only."""
    bad = []
    n = 0

    def rep(what, inp, got, want):
        bad.append({"property": "C19", "entry_point": what, "request_lines": [], "relation": what, "input": inp,
                    "impl_output": got, "model_output": want, "no_failing_input": False})

    for i in range(15 if tier == "quick" else 400):
        c = SubstrateCoins[COINS[i % len(COINS)]]
        seed = bytes(rng.randrange(256) for _ in range(32))
        good = [j for j in JUNCTIONS if not (j.isdecimal() and (len(j.lstrip("0")) > 78 or int(j.lstrip("0") or "0") >= 2**256))]
        p = ["//" + rng.choice(good) for _ in range(rng.randrange(0, 3))]
        q = ["/" + rng.choice(good) for _ in range(rng.randrange(1, 3))]
        m = Substrate.FromSeed(seed, c)
        a = m.DerivePath("".join(p)).DerivePath("".join(q))
        b = m.DerivePath("".join(p + q))
        n += 1
        if _out(a) != _out(b):
            rep("derive p then q differs from p++q", "%s %r %r" % (seed.hex(), p, q), _out(a), _out(b))
        base = m.DerivePath("".join(p))
        pub = Substrate.FromPublicKey(base.PublicKey().RawCompressed().ToBytes(), c)
        if pub.DerivePath("".join(q)).PublicKey().RawCompressed().ToBytes() != a.PublicKey().RawCompressed().ToBytes():
            rep("soft derivation does not commute with taking the public key", "%s %r %r" % (seed.hex(), p, q), "differs", "equal")
        try:
            pub.ChildKey("//0")
            rep("hard junction accepted on a public-only object", seed.hex(), "ok", "SubstrateKeyError")
        except Exception as ex:  # noqa
            if exc_kind(ex) != "Key":
                rep("hard junction on public-only raises the wrong error", seed.hex(), exc_kind(ex), "Key")
        # conversion after use: derive children, convert the same object to public-only, ask again
        hj, sj = "//" + rng.choice(good), "/" + rng.choice(good)
        ctx = Substrate.FromSeed(seed, c).DerivePath("".join(p))
        want_soft = ctx.ChildKey(sj).PublicKey().RawCompressed().ToBytes()
        ctx.ChildKey(hj)
        before_path = ctx.Path().ToStr()
        ctx.ConvertToPublic()
        try:
            again = ctx.ChildKey(sj)
            if not again.IsPublicOnly():
                rep("after ConvertToPublic a soft child (derived before the conversion) still holds a private key", "%s %r %s" % (seed.hex(), p, sj), "private", "public-only")
            elif again.PublicKey().RawCompressed().ToBytes() != want_soft:
                rep("after ConvertToPublic the soft child differs from the public half of the private child", "%s %r %s" % (seed.hex(), p, sj), "differs", "equal")
        except Exception as ex:  # noqa
            rep("after ConvertToPublic soft derivation raises", "%s %r %s" % (seed.hex(), p, sj), type(ex).__name__, "public child")
        try:
            ctx.ChildKey(hj)
            rep("after ConvertToPublic a hard junction derived before the conversion is still handed out", "%s %r %s" % (seed.hex(), p, hj), "ok", "SubstrateKeyError")
        except Exception as ex:  # noqa
            if exc_kind(ex) != "Key":
                rep("hard junction on a converted object raises the wrong error", seed.hex(), exc_kind(ex), "Key")
        if ctx.Path().ToStr() != before_path or ctx.Path().ToStr() != "".join(p):
            rep("deriving children changed the parent's path", "%s %r" % (seed.hex(), p), ctx.Path().ToStr(), "".join(p))
        s = "".join(p + q)
        if SubstratePathParser.Parse(s).ToStr() != s:
            rep("print(parse(s)) != s", s, SubstratePathParser.Parse(s).ToStr(), s)
    # the SCALE text rule with hashlib only, on junction text AS GIVEN: every spelling (composed, decomposed, compatibility, cased, padded
    # with white space or invisible characters) has the chain code of its own UTF-8 bytes; parse/print keeps it; the children derived
    # through it are the ones the sr25519 bindings give for that chain code (so two different spellings are two different accounts)
    texts = list(TEXT_AS_GIVEN)
    for _ in range(60 if tier == "quick" else 4000):
        texts += text_forms(rand_text(rng))
    texts = [t for t in dict.fromkeys(texts) if not t.isdecimal()]
    seen_cc = {}
    for t in texts:
        want = ref_text_chain_code(t)
        for pre in ("/", "//"):
            n += 1
            e = SubstratePathElem(pre + t)
            got = e.ChainCode()
            if got != want:
                rep("chain code of a text junction is not compact-length ++ UTF-8 of the text as given (padded to 32 / Blake2b-256)", ascii(pre + t), got.hex(), want.hex())
                break
            if e.ToStr() != pre + t or e.IsHard() != (pre == "//"):
                rep("a junction does not print as it was written", ascii(pre + t), ascii(e.ToStr()), ascii(pre + t))
        if len(t) < 200:
            ps = "/" + t + "//" + t
            pp = SubstratePathParser.Parse(ps)
            if pp.ToStr() != ps or [x.ChainCode() for x in pp] != [want, want]:
                rep("parse/print or the parsed junctions' chain codes differ from the text as given", ascii(ps), ascii(pp.ToStr()), ascii(ps))
        raw = t.encode("utf-8")
        if len(raw) <= 30:
            other = seen_cc.setdefault(got, t)
            if other != t:
                rep("two different junction texts (of at most 30 UTF-8 bytes) share one chain code", ascii([other, t]), got.hex(), "distinct")
    pick = [t for t in texts if len(t) < 64]
    for i in range(10 if tier == "quick" else 300):
        c = SubstrateCoins[COINS[i % len(COINS)]]
        seed = bytes(rng.randrange(256) for _ in range(32))
        t = rng.choice(pick)
        cc = ref_text_chain_code(t)
        m = Substrate.FromSeed(seed, c)
        pub0, sec0 = (bytes(x) for x in sr25519.pair_from_seed(seed))
        n += 1
        soft = m.ChildKey("/" + t).PublicKey().RawCompressed().ToBytes()
        want_soft = bytes(sr25519.derive_pubkey((cc, pub0), b"")[1])
        if soft != want_soft:
            rep("soft child through a text junction is not sr25519's child for the chain code of the text as given", "%s %s" % (seed.hex(), ascii("/" + t)), soft.hex(), want_soft.hex())
        hard = m.DerivePath("//" + t).PublicKey().RawCompressed().ToBytes()
        want_hard = bytes(sr25519.hard_derive_keypair((cc, pub0, sec0), b"")[1])
        if hard != want_hard:
            rep("hard child through a text junction is not sr25519's child for the chain code of the text as given", "%s %s" % (seed.hex(), ascii("//" + t)), hard.hex(), want_hard.hex())
    # the address clause against an independent SS58 (hashlib + local base58), for EVERY Substrate coin, on ordinary keys and on keys of the
    # output-dependent byte classes (zero first byte, zero last byte; first byte 0x01 for ed25519): through the wallet (from seed, public-only, from the
    # private key, a soft child), through the address encoder class with the coin's format given by hand, and decoded back; the ed25519
    # flavour of the Substrate encoder likewise (its key object carries a 0x00 type prefix that is not part of the 32-byte key)
    from bip_utils import SubstrateSr25519AddrEncoder, SubstrateSr25519AddrDecoder, SubstrateEd25519AddrEncoder, SubstrateEd25519AddrDecoder
    quick = tier == "quick"
    keys = []
    for _ in range(2 if quick else 10):
        sd_ = rng.getrandbits(256).to_bytes(32, "big")
        keys.append(("ordinary", sd_) + tuple(bytes(x) for x in sr25519.pair_from_seed(sd_)))
    keys += zero_byte_roots(rng, {"leading-zero-byte": 2 if quick else 8, "trailing-zero-byte": 1 if quick else 4}, 6000 if quick else 40000)
    n_addr = 0
    for ki, (kc, seed, pub, sec) in enumerate(keys):
        for ci, coin_name in enumerate(COINS):
            c = SubstrateCoins[coin_name]
            ctx = Substrate.FromSeed(seed, c)
            fmt = ctx.CoinConf().SS58Format()
            want = ref_ss58(pub, fmt)
            routes = [("Substrate.FromSeed(seed).PublicKey().ToAddress()", lambda: ctx.PublicKey().ToAddress()),
                      ("Substrate.FromPublicKey(key).PublicKey().ToAddress()", lambda: Substrate.FromPublicKey(pub, c).PublicKey().ToAddress()),
                      ("SubstrateSr25519AddrEncoder.EncodeKey(key, ss58_format=%d)" % fmt, lambda: SubstrateSr25519AddrEncoder.EncodeKey(pub, ss58_format=fmt))]
            if (ki + ci) % 3 == 0 or not quick:
                routes.append(("Substrate.FromPrivateKey(key).PublicKey().ToAddress()", lambda: Substrate.FromPrivateKey(sec, c).PublicKey().ToAddress()))
            for rname, route in routes:
                n += 1
                n_addr += 1
                try:
                    got = route()
                except Exception as ex:  # noqa
                    got = "!" + type(ex).__name__
                if got != want:
                    rep("%s: %s is not the SS58 encoding of the 32-byte public key under the coin's format %d (%s key)" % (coin_name, rname, fmt, kc),
                        "seed=%s public key=%s" % (seed.hex(), pub.hex()), got, want)
                    break
            else:
                try:
                    back = SubstrateSr25519AddrDecoder.DecodeAddr(want, ss58_format=fmt)
                except Exception as ex:  # noqa
                    back = ("!" + type(ex).__name__).encode()
                if back != pub:
                    rep("%s: SubstrateSr25519AddrDecoder does not decode the address of a %s key back to the key" % (coin_name, kc), "%s format %d" % (want, fmt), back.hex(), pub.hex())
    # a soft child of every key class (the child key itself is checked against the bindings above; here: its address is the SS58 of it)
    for kc, seed, pub, sec in keys[:4] if quick else keys:
        c = SubstrateCoins[COINS[rng.randrange(len(COINS))]]
        ch = Substrate.FromSeed(seed, c).ChildKey("/7")
        cpub = ch.PublicKey().RawCompressed().ToBytes()
        n += 1
        got = _out(ch).split(" ")[-1]
        if len(cpub) != 32 or got != tx(ref_ss58(cpub, ch.CoinConf().SS58Format())):
            rep("%s: the address of a child is not the SS58 encoding of the child's public key" % c.name, "seed=%s /7 child key=%s" % (seed.hex(), cpub.hex()), got, "SS58 of the key")
    try:
        from nacl.bindings import crypto_sign_seed_keypair
    except ImportError:
        crypto_sign_seed_keypair = None
    if crypto_sign_seed_keypair is not None:
        eds, have = [], {}
        for _ in range(4000 if quick else 40000):
            pk = crypto_sign_seed_keypair(rng.getrandbits(256).to_bytes(32, "big"))[0]
            kc = _zero_class(pk) or "ordinary"
            if have.get(kc, 0) < (1 if quick else 4):
                have[kc] = have.get(kc, 0) + 1
                eds.append((kc, pk))
                if quick and all(k in have for k in ("ordinary", "leading-zero-byte", "trailing-zero-byte", "leading-one-byte")):
                    break
        for kc, pk in eds:
            for fmt in {0, 2, 42, 63, 64, 1284, 16383, rng.randrange(64, 16384)}:
                want = ref_ss58(pk, fmt)
                for form, arg in (("32 raw bytes", pk), ("0x00-prefixed bytes", b"\x00" + pk)):
                    n += 1
                    try:
                        got = SubstrateEd25519AddrEncoder.EncodeKey(arg, ss58_format=fmt)
                    except Exception as ex:  # noqa
                        got = "!" + type(ex).__name__
                    if got != want:
                        rep("SubstrateEd25519AddrEncoder.EncodeKey(%s, ss58_format=%d) is not the SS58 encoding of the 32-byte key (%s key)" % (form, fmt, kc), pk.hex(), got, want)
                        break
                try:
                    back = SubstrateEd25519AddrDecoder.DecodeAddr(want, ss58_format=fmt)
                except Exception as ex:  # noqa
                    back = ("!" + type(ex).__name__).encode()
                if back != pk:
                    rep("SubstrateEd25519AddrDecoder does not decode the address of a %s key back to the key" % kc, "%s format %d" % (want, fmt), back.hex(), pk.hex())
    rpt.extra["ss58_reference_checks"] = n_addr
    rpt.extra["impl_relation_checks"] = n
    from harness.props.accessors_common import substrate_wrappers
    for what, inp, got, want in substrate_wrappers(rng):
        rep(what, inp, got, want)
    return bad[:6]
