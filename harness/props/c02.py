"""C02 — mnemonic-to-seed generators equal their KDF definition under Unicode folding."""
import hashlib, unicodedata
from harness.core import Case
from harness.canon import hx, tx
from harness.props.mnemonic_common import IMPL, BIP39_LANGS, V2_LANGS, V2_TYPES, oracle_for, salt_field, nfkd
from harness.props.c01 import pre_build, words_of, spec_encode, respell, gen_encode, shared_sentences, sentence_with_word, ref_read
from harness.props.c17 import v2_valid_entropy, v2_prefix_phrases, v2_phrase_with_word, v2_lists
from bip_utils import (Bip39SeedGenerator, Bip39Languages, ElectrumV1MnemonicEncoder, SubstrateBip39SeedGenerator,
                       ElectrumV2SeedGenerator, ElectrumV1SeedGenerator)

LEAN_MODULES = ["BipVerif.Props.C02", "BipVerif.Props.C01Tables"]   # the seed theorems are about sentences over the registered word lists
PASSPHRASES = ["", "TREZOR", "pass phrase", "é", "é", "ﬁancé", "ｆｕｌｌ", "Å", "Å", "Å", "q̣̇", "q̣̇", "　x　", "😀𝔘", "a\x00b", "ǆ",
               "ﷺ", "가", "가", "ßẞ", " trailing "]


# the passphrase enters the salt as it is, apart from NFKD: white space of every kind and at every place (leading, trailing, repeated, tabs,
# line ends, no-break / ideographic / zero-width), letter case, control characters and length are all significant
WS_PASSPHRASES = [" ", "  ", " lead", "trail ", "two  spaces", "tab\tbed", "line\nfeed", "cr\r\nlf", "\tx", "x\n", "a b", "a\u00a0b", "\u3000wide\u3000\u3000x",
                  "a\u2003b", "zero\u200bwidth", "\ufeffbom", "\u2028sep", "a\x0bb\x0cc", "\x1cfs", "nel\x85", "Upper lower", "UPPER", "upper",
                  "\u0301leading mark", "x" * 121, "long " * 60]
_PIECES = ["a", "B", "z", "0", " ", "  ", "\t", "\n", "\r", "\u00a0", "\u3000", "\u2003", "\u200b", "\ufeff", "\x00", "\x1f", "\x85", "é", "e\u0301", "É", "\ufb01", "\uff46", "\u212b",
           "\u210c", "ß", "\u1e9e", "\u0131", "\u0130", "\u01c6", "\uac00", "\u1100\u1161", "\U0001f600", "\U0001d518", "\ufdfa", "\u0345", "\u0323\u0307", "\u0307\u0323"]


def random_passphrase(rng):
    return "".join(rng.choice(_PIECES) for _ in range(rng.choice([1, 2, 3, 5, 8, 13])))


def gen(rng, tier):
    lists = {l: words_of(l) for l in BIP39_LANGS}
    n = 4 if tier == "quick" else 120
    for i in range(n * 9):
        lang = BIP39_LANGS[i % 9]
        sz = rng.choice([16, 20, 24, 28, 32])
        ws = spec_encode(lists[lang], bytes(rng.randrange(256) for _ in range(sz)))
        p = PASSPHRASES[i % len(PASSPHRASES)]
        s = " ".join(ws) if i % 3 else respell(rng, ws)
        yield Case("bip39seed", [rng.choice([lang, "auto"]), tx(s), oracle_for(s), salt_field("mnemonic", p)], "bip39seed")
        if i % 4 == 0:
            yield Case("subseed", [lang, tx(s), oracle_for(s), salt_field("mnemonic", p)], "subseed")
        if i % 5 == 0:       # invalid sentences never yield a seed
            bad = list(ws)
            bad[rng.randrange(len(bad))] = rng.choice(lists[lang])
            sb = " ".join(bad if rng.random() < 0.7 else bad[:-1])
            yield Case("bip39seed", [lang, tx(sb), oracle_for(sb), salt_field("mnemonic", p)], "neg-invalid-sentence")
    # self-consistent sentences of an illegal word count (multiples of 3 outside 12..24) never yield a seed
    for i in range(9 if tier == "quick" else 90):
        lang = BIP39_LANGS[i % 9]
        ws = gen_encode(lists[lang], bytes(rng.randrange(256) for _ in range([4, 8, 12, 36, 40, 48][i % 6])))
        sb = " ".join(ws)
        yield Case("bip39seed", [rng.choice([lang, "auto"]), tx(sb), oracle_for(sb), salt_field("mnemonic", "")], "neg-count-mult3")
        yield Case("subseed", [lang, tx(sb), oracle_for(sb), salt_field("mnemonic", "")], "neg-count-mult3")
    for i in range(4 if tier == "quick" else 60):
        t, lang = V2_TYPES[i % 4], V2_LANGS[i % 4]
        e, s = v2_valid_entropy(rng, (132, 264)[i % 2], t, lang)
        if s is None:
            continue
        p = PASSPHRASES[(3 * i) % len(PASSPHRASES)]
        s2 = s if i % 2 else respell(rng, s.split(" "))
        yield Case("ev2seed", [rng.choice([lang, "auto"]), tx(s2), oracle_for(s2), salt_field("electrum", p)], "ev2seed")
        ws = s.split(" ")
        ws[0], ws[1] = ws[1], ws[0]
        yield Case("ev2seed", [lang, tx(" ".join(ws)), oracle_for(" ".join(ws)), salt_field("electrum", p)], "neg-ev2")
    # Electrum v2: a sentence yields a seed only under one of the four version prefixes (digit-by-digit neighbours are refused)
    engw = lists["ENGLISH"]
    for pre, ph in sorted(v2_prefix_phrases(rng, engw, ["01", "100", "103", "107", "10f", "11", "00"] if tier == "quick" else
                                            ["01", "100", "101", "102"] + ["10%x" % d for d in range(3, 16)] + ["00", "02", "11", "1f"]).items()):
        yield Case("ev2seed", [rng.choice(["ENGLISH", "auto"]), tx(ph), oracle_for(ph), salt_field("electrum", "pw")], "ev2seed-prefix-" + ("type" if pre in ("01", "100", "101", "102") else "none"))
    # output-dependent: sentences whose NFKD UTF-8 length sits on the HMAC block size (128 bytes) and next to it — the PBKDF2 password
    # is hashed first only when it is LONGER than a block
    got = {}
    for j in range(40000):
        lang = BIP39_LANGS[j % 9]
        if lang.startswith("CHINESE") or lang in ("KOREAN",):
            continue
        ws = spec_encode(lists[lang], bytes(rng.randrange(256) for _ in range(rng.choice([20, 24, 28, 32]))))
        L = len(nfkd(" ".join(ws)).encode("utf-8"))
        if L in (127, 128, 129) and (L, lang) not in got and sum(1 for k in got if k[0] == L) < (2 if tier == "quick" else 6):
            got[(L, lang)] = ws
            sb = " ".join(ws)
            yield Case("bip39seed", [lang, tx(sb), oracle_for(sb), salt_field("mnemonic", PASSPHRASES[j % 5])], "bip39seed-len-%d" % L)
        if len({k[0] for k in got}) == 3 and len(got) >= (6 if tier == "quick" else 18):
            break
    for i in range(2 if tier == "quick" else 25):
        e = bytes(rng.randrange(256) for _ in range(16))
        s = ElectrumV1MnemonicEncoder().Encode(e).ToStr()
        yield Case("ev1seed", [tx(s if i % 2 else s.upper()), "-"], "ev1seed")
    # the language argument decides which entropy a sentence has (Substrate: the entropy IS the password) and whether it is valid at all:
    # sentences valid in list A made only of words list B contains too (at other positions; B's reading checksum-valid or not), with
    # each language given and auto-detected
    for n_words in ((12,) if tier == "quick" else (12, 15, 18, 21, 24)):
        for A, B, ws, _ea, _eb in shared_sentences(rng, lists, n_words, both=(n_words == 12)):
            sb = " ".join(ws)
            p = PASSPHRASES[rng.randrange(len(PASSPHRASES))]
            for l_ in (A, B, "auto"):
                yield Case("subseed", [l_, tx(sb), oracle_for(sb), salt_field("mnemonic", p)], "subseed-shared-words")
            yield Case("bip39seed", [B, tx(sb), oracle_for(sb), salt_field("mnemonic", p)], "bip39seed-shared-words")
    # every generator that takes a passphrase, with passphrases whose white space / case / length matters (the salt is NFKD(prefix + passphrase))
    pool = WS_PASSPHRASES + [random_passphrase(rng) for _ in range(6)]
    for i, p in enumerate(rng.sample(pool, 6 if tier == "quick" else len(pool))):
        lang = BIP39_LANGS[rng.randrange(9)]
        sb = " ".join(spec_encode(lists[lang], bytes(rng.randrange(256) for _ in range(rng.choice([16, 32])))))
        if i % 3 == 0:
            yield Case("bip39seed", [lang, tx(sb), oracle_for(sb), salt_field("mnemonic", p)], "bip39seed-passphrase")
        elif i % 3 == 1:
            yield Case("subseed", [lang, tx(sb), oracle_for(sb), salt_field("mnemonic", p)], "subseed-passphrase")
        else:
            t, l2 = "STANDARD", V2_LANGS[rng.randrange(len(V2_LANGS))]
            e, s2 = v2_valid_entropy(rng, (132, 264)[i % 2], t, l2)
            if s2 is not None:
                yield Case("ev2seed", [rng.choice([l2, "auto"]), tx(s2), oracle_for(s2), salt_field("electrum", p)], "ev2seed-passphrase")
    # 'an invalid sentence never yields a seed': whether a token is a list word is decided by ONE reading, lower-cased then NFKD.  Tokens that
    # another folding (full case folding, upper-then-lower, NFKC case folding, dropping combining marks or ignorable characters) would
    # identify with a list word are not spellings of it; compatibility / case forms whose named reading IS the word are
    from harness.props.mnemonic_common import fold_candidates
    for kind, lang, wi, tok, ok in fold_candidates(rng, lists, 2 if tier == "quick" else 20):
        _ent, ws, pos = sentence_with_word(rng, lists[lang], wi)
        ws[pos] = tok
        sb = " ".join(ws)
        cls = "fold-spelling" if ok else "neg-fold-" + kind.replace(" ", "-")
        yield Case("bip39seed", [rng.choice([lang, "auto"]), tx(sb), oracle_for(sb), salt_field("mnemonic", "")], cls)
        if not ok or tier == "thorough":
            yield Case("subseed", [lang, tx(sb), oracle_for(sb), salt_field("mnemonic", "")], cls)
    v2l = v2_lists()
    for kind, lang, wi, tok, ok in fold_candidates(rng, v2l, 1 if tier == "quick" else 8):
        nw = rng.choice([12, 24])
        pos = rng.randrange(nw)
        ws, _v = v2_phrase_with_word(rng, v2l[lang], "01", nw, pos, wi, [v2l[lang]])
        if ws is None or (ok and tier == "quick" and kind != "compatibility / case form"):
            continue
        ws[pos] = tok
        sb = " ".join(ws)
        yield Case("ev2seed", [rng.choice([lang, "auto"]), tx(sb), oracle_for(sb), salt_field("electrum", "")], ("ev2-fold-spelling" if ok else "neg-ev2-fold-" + kind.replace(" ", "-")))
    from harness.props.c17 import _v1_words
    v1w = _v1_words()
    for kind, _l, wi, tok, ok in fold_candidates(rng, {"v1": v1w}, 1 if tier == "quick" else 6):
        if ok and tier == "quick":
            continue                          # (an accepted Electrum v1 sentence costs 100000 hashes on either side)
        ws = [rng.choice(v1w) for _ in range(12)]
        ws[rng.randrange(12)] = tok
        sb = " ".join(ws)
        yield Case("ev1seed", [tx(sb), oracle_for(sb)], "ev1-fold-spelling" if ok else "neg-ev1-fold-" + kind.replace(" ", "-"))


def _pb(password, passphrase, prefix="mnemonic"):
    return hashlib.pbkdf2_hmac("sha512", password, nfkd(prefix + passphrase).encode("utf-8"), 2048, 64)


def _shared_words_language(rng, tier, rep):
    """'for every valid sentence' is relative to the language the caller names: a sentence valid in list A whose words all occur in list B
    too (at other positions) has, with A given, A's entropy (Substrate password) and is, with B given, B's reading — another entropy, or
    not a valid sentence at all.  hashlib reference for every reading; auto-detection may pick either valid reading, nothing else."""
    lists = {l: words_of(l) for l in BIP39_LANGS}
    n = 0
    for n_words in ((12, 24) if tier == "quick" else (12, 15, 18, 21, 24)):
        for A, B, ws, ea, eb in shared_sentences(rng, lists, n_words, both=(n_words == 12 or tier == "thorough")):
            base = " ".join(ws)
            p = PASSPHRASES[rng.randrange(len(PASSPHRASES))]
            for s in (base, respell(rng, ws)):
                for gname, G, pw in (("SubstrateBip39SeedGenerator", SubstrateBip39SeedGenerator, lambda e: e), ("Bip39SeedGenerator", Bip39SeedGenerator, lambda e: nfkd(base).encode("utf-8"))):
                    for lname, e in ((A, ea), (B, eb), (None, None)):
                        n += 1
                        try:
                            got = G(s, Bip39Languages[lname] if lname else None).Generate(p).hex()
                        except Exception as ex:  # noqa
                            got = "refused (%s)" % type(ex).__name__
                        if lname is None:
                            ok = [_pb(pw(x), p).hex() for x in (ea, eb) if x is not None]
                            if not got.startswith("refused") and got not in ok:
                                rep("%s (language auto-detected) yields a seed that belongs to no valid reading of the sentence" % gname, "%r | %r" % (s, p), got, " or ".join(ok) + " or refusal")
                            continue
                        want = _pb(pw(e), p).hex() if e is not None else "refused"
                        if got != want and not (want == "refused" and got.startswith("refused")):
                            rep("%s(sentence, %s): a sentence valid in %s made of words %s contains too must be read in the language given (%s)" % (
                                gname, lname, A, B, "its reading there is not checksum-valid: no seed" if e is None else "seed of that reading's definition"),
                                "%r | %r" % (s, p), got, want)
    return n


def _noncanonical_objects(rng, tier, rep):
    """a Mnemonic OBJECT is one more spelling of a sentence: the generic container and the plain constructors keep the caller's tokens
    as they are (upper case, precomposed accents).  Whatever the generator does with such an object — fold it or refuse it — the outcome
    is the seed of the canonical sentence's definition (hashlib) or no seed; never the PBKDF2 of the raw spelling."""
    from bip_utils import (Bip39Mnemonic, ElectrumV2Mnemonic, ElectrumV1Mnemonic, ElectrumV2Languages, ElectrumV2MnemonicTypes)
    from bip_utils.utils.mnemonic import Mnemonic
    n = 0

    def spellings(ws):
        out = [[w.upper() for w in ws], [w.capitalize() for w in ws], [unicodedata.normalize("NFC", w) for w in ws],
               [rng.choice([w.upper(), unicodedata.normalize("NFC", w), w.capitalize(), w]) for w in ws], ws[:-1] + [ws[-1].upper()]]
        return [o for o in out if o != ws]

    def containers(extra):
        return [("Mnemonic.FromString", lambda t: Mnemonic.FromString(" ".join(t))), ("Mnemonic.FromList", lambda t: Mnemonic.FromList(list(t))),
                ("Mnemonic(list)", lambda t: Mnemonic(list(t)))] + extra

    def probe(what, make_gen, toks, want, p, inp):
        try:
            got = make_gen().Generate(p).hex() if p is not None else make_gen().Generate().hex()
        except Exception:  # noqa   refusing the object is fine: no seed
            return
        if got != want():
            rep("%s accepts a Mnemonic object whose words are not in canonical spelling and its seed is not the seed of the sentence "
                "(a spelling is folded or refused, never hashed as it is)" % what, inp, got, want() + " or refusal")

    for i in range(9 if tier == "quick" else 90):
        lang = BIP39_LANGS[i % 9]
        ent = bytes(rng.randrange(256) for _ in range(rng.choice([16, 24, 32])))
        ws = spec_encode(words_of(lang), ent)
        p = PASSPHRASES[rng.randrange(len(PASSPHRASES))]
        for toks in spellings(ws):
            for cname, mk in containers([("Bip39Mnemonic(list)", lambda t: Bip39Mnemonic(list(t))), ("Bip39Mnemonic.FromList", lambda t: Bip39Mnemonic.FromList(list(t)))]):
                for lg in (Bip39Languages[lang], None):
                    n += 2
                    inp = "%s | %s of %r | language %s | passphrase %r" % (lang, cname, toks, lg.name if lg else "auto-detected", p)
                    probe("Bip39SeedGenerator", lambda: Bip39SeedGenerator(mk(toks), lg), toks, lambda: _pb(nfkd(" ".join(ws)).encode("utf-8"), p).hex(), p, inp)
                    if lg is not None:
                        probe("SubstrateBip39SeedGenerator", lambda: SubstrateBip39SeedGenerator(mk(toks), lg), toks, lambda: _pb(ent, p).hex(), p, inp)
    # Electrum: the reference is the generator's own answer for the canonical string (tied to the definition by the correspondence cases)
    for i in range(2 if tier == "quick" else 16):
        t, lang = V2_TYPES[0 if tier == "quick" else i % 4], ("ENGLISH", "SPANISH", "PORTUGUESE")[i % 3]      # (the 3-digit prefixes take thousands of attempts)
        e2, s2 = v2_valid_entropy(rng, (132, 264)[i % 2], t, lang)
        if s2 is None:
            continue
        ws = s2.split(" ")
        want = ElectrumV2SeedGenerator(s2, ElectrumV2Languages[lang]).Generate("pw").hex()
        for toks in spellings(ws):
            for cname, mk in containers([("ElectrumV2Mnemonic(list)", lambda t: ElectrumV2Mnemonic(list(t)))]):
                for lg in (ElectrumV2Languages[lang], None):
                    n += 1
                    probe("ElectrumV2SeedGenerator", lambda: ElectrumV2SeedGenerator(mk(toks), lg), toks, lambda: want, "pw",
                          "%s %s | %s of %r | language %s" % (lang, t, cname, toks, lg.name if lg else "auto-detected"))
    ws = ElectrumV1MnemonicEncoder().Encode(bytes(rng.randrange(256) for _ in range(16))).ToList()
    want = ElectrumV1SeedGenerator(" ".join(ws)).Generate().hex()
    for toks in spellings(ws)[: 2 if tier == "quick" else 5]:
        for cname, mk in containers([("ElectrumV1Mnemonic(list)", lambda t: ElectrumV1Mnemonic(list(t)))]):
            n += 1
            probe("ElectrumV1SeedGenerator", lambda: ElectrumV1SeedGenerator(mk(toks)), toks, lambda: want, None, "%s of %r" % (cname, toks))
    return n


def _passphrase_opaque(rng, tier, rep):
    """'for every passphrase': the three generators that take one (BIP-39, Substrate, Electrum v2) equal their definition — hashlib PBKDF2 with
    the salt NFKD(prefix + passphrase) and nothing else done to the passphrase — on passphrases with white space at every place and of every
    kind, case differences, control characters, long ones, random mixtures; asked on one generator object in a row and on fresh ones."""
    from bip_utils import ElectrumV2Languages
    lists = {l: words_of(l) for l in BIP39_LANGS}
    n = 0
    lang = BIP39_LANGS[rng.randrange(9)]
    ent = bytes(rng.randrange(256) for _ in range(rng.choice([16, 24, 32])))
    sent = " ".join(spec_encode(lists[lang], ent))
    l2 = V2_LANGS[rng.randrange(len(V2_LANGS))]
    _e2, s2 = v2_valid_entropy(rng, rng.choice([132, 264]), "STANDARD", l2)
    gens = [("Bip39SeedGenerator", lambda: Bip39SeedGenerator(sent, Bip39Languages[lang]), nfkd(sent).encode("utf-8"), "mnemonic", sent),
            ("SubstrateBip39SeedGenerator", lambda: SubstrateBip39SeedGenerator(sent, Bip39Languages[lang]), ent, "mnemonic", sent)]
    if s2 is not None:
        gens.append(("ElectrumV2SeedGenerator", lambda: ElectrumV2SeedGenerator(s2, ElectrumV2Languages[l2]), nfkd(s2).encode("utf-8"), "electrum", s2))
    pool = PASSPHRASES + WS_PASSPHRASES + [random_passphrase(rng) for _ in range(20 if tier == "quick" else 400)]
    for gname, mk, password, prefix, shown in gens:
        kept = mk()
        for p in (pool if tier == "thorough" else WS_PASSPHRASES + rng.sample(pool, 14)):
            want = _pb(password, p, prefix).hex()
            for route, g in (("one generator object asked in a row", kept), ("fresh generator object", None)):
                if g is None and rng.random() < 0.6 and tier == "quick":
                    continue
                n += 1
                got = (g or mk()).Generate(p).hex()
                if got != want:
                    rep("%s(sentence).Generate(passphrase) is not PBKDF2-HMAC-SHA512(password of the scheme, NFKD(%r + passphrase), 2048, 64): the passphrase "
                        "enters the salt as given (%s)" % (gname, prefix, route), "%s | passphrase %r" % (shown, p), got, want)
                    break
    return n


def _fold_spellings(rng, tier, rep):
    """valid / invalid is decided by the lower-cased NFKD reading of each token alone (unicodedata reference, hashlib seeds): a sentence with a
    token another folding would identify with a list word yields no seed unless that reading makes a checksum-valid sentence of one list, in
    which case the seed is the one of the canonical sentence — for the BIP-39, Substrate, Electrum v2 and Electrum v1 generators."""
    from harness.props.mnemonic_common import fold_candidates
    from harness.props.c17 import _v1_words
    from bip_utils import ElectrumV2Languages
    lists = {l: words_of(l) for l in BIP39_LANGS}
    index = {l: {w: i for i, w in enumerate(lists[l])} for l in BIP39_LANGS}
    anyword = set().union(*[set(w) for w in lists.values()])
    n = 0

    def seed_of(f):
        try:
            return f().hex()
        except ValueError:
            return "refused"
        except Exception as ex:  # noqa
            return "refused (%s)" % type(ex).__name__

    for kind, lang, wi, tok, ok in fold_candidates(rng, lists, 3 if tier == "quick" else 40):
        ent, ws, pos = sentence_with_word(rng, lists[lang], wi)
        ws[pos] = tok
        for s in (" ".join(ws), respell(rng, ws) if tier == "thorough" else None):
            if s is None:
                continue
            named = [nfkd(t.lower()) for t in s.split()]
            if any(nfkd(x.lower()) != x for x in named):        # (only fixed points of the named reading are compared, see mnemonic_common.respellings)
                continue
            readings = {l: ref_read(index[l], named) for l in BIP39_LANGS}
            p = PASSPHRASES[rng.randrange(len(PASSPHRASES))]
            what = "a %s sentence one of whose tokens is %r (U+%s; %s would read it as the list word %r, lower-casing then NFKD reads it as %r)" % (
                lang, tok, " U+".join("%04X" % ord(c) for c in tok if not c.isascii()), kind, lists[lang][wi], nfkd(tok.lower()))
            for lg in (lang, None):
                n += 1
                got = seed_of(lambda: Bip39SeedGenerator(s, Bip39Languages[lg] if lg else None).Generate(p))
                gsub = seed_of(lambda: SubstrateBip39SeedGenerator(s, Bip39Languages[lg] if lg else None).Generate(p))
                oks = [e for l, (k, e, _v) in readings.items() if k == "ok" and (lg is None or l == lg)]
                wants = [_pb(nfkd(" ".join(named)).encode("utf-8"), p).hex() for _e in oks] or ["refused"]
                wsub = [_pb(e, p).hex() for e in oks] or ["refused"]
                if lg is None and oks:
                    wants.append("refused"); wsub.append("refused")       # (auto-detection may settle on a list whose reading is not checksum-valid)
                if got.split(" ")[0] not in wants:
                    rep("Bip39SeedGenerator(sentence, %s) on %s: %s" % (lg or "language auto-detected", what, "an invalid sentence never yields a seed" if wants == ["refused"] else "the seed is the one of the canonical sentence"),
                        "%r | passphrase %r" % (s, p), got, " or ".join(wants))
                if gsub.split(" ")[0] not in wsub:
                    rep("SubstrateBip39SeedGenerator(sentence, %s) on %s: %s" % (lg or "language auto-detected", what, "an invalid sentence never yields a seed" if wsub == ["refused"] else "the seed is the one of the entropy"),
                        "%r | passphrase %r" % (s, p), gsub, " or ".join(wsub))
    v2l = v2_lists()
    for kind, lang, wi, tok, ok in fold_candidates(rng, v2l, 2 if tier == "quick" else 12):
        nw = rng.choice([12, 24])
        pos = rng.randrange(nw)
        ws, _v = v2_phrase_with_word(rng, v2l[lang], "01", nw, pos, wi, [v2l[lang]])
        if ws is None:
            continue
        canon = " ".join(ws)
        ws[pos] = tok
        s = " ".join(ws)
        named = nfkd(tok.lower())
        if not ok and named in anyword:
            continue
        for lg in (lang, None):
            n += 1
            got = seed_of(lambda: ElectrumV2SeedGenerator(s, ElectrumV2Languages[lg] if lg else None).Generate("pw"))
            want = _pb(nfkd(canon).encode("utf-8"), "pw", "electrum").hex() if ok else "refused"
            if got.split(" ")[0] != want:
                rep("ElectrumV2SeedGenerator(sentence, %s) on a %s sentence one of whose tokens is %r (%s would read it as the list word %r, lower-casing then NFKD reads it as %r, "
                    "which is %s): %s" % (lg or "language auto-detected", lang, tok, kind, v2l[lang][wi], named, "that word" if ok else "in no list",
                                          "the seed is the one of the canonical sentence" if ok else "an invalid sentence never yields a seed"), "%r | passphrase 'pw'" % s, got, want)
    v1w = _v1_words()
    v1set = set(v1w)
    for kind, _l, wi, tok, ok in fold_candidates(rng, {"v1": v1w}, 1 if tier == "quick" else 6):
        if ok and tier == "quick" and kind != "compatibility / case form":
            continue
        ws = [rng.choice(v1w) for _ in range(12)]
        pos = rng.randrange(12)
        ws[pos] = v1w[wi]
        canon = " ".join(ws)
        ws[pos] = tok
        s = " ".join(ws)
        named = nfkd(tok.lower())
        if not ok and named in v1set:
            continue
        n += 1
        got = seed_of(lambda: ElectrumV1SeedGenerator(s).Generate())
        want = seed_of(lambda: ElectrumV1SeedGenerator(canon).Generate()) if ok else "refused"
        if got.split(" ")[0] != want:
            rep("ElectrumV1SeedGenerator(sentence) on a sentence one of whose tokens is %r (%s would read it as the list word %r, lower-casing then NFKD reads it as %r): %s" % (
                tok, kind, v1w[wi], named, "the seed is the one of the canonical sentence" if ok else "an invalid sentence never yields a seed"), repr(s), got, want)
    return n


def relations(rng, tier, rpt):
    """the literal clauses on the implementation: seed == PBKDF2 of the folded strings (hashlib, independent of the library),
    all spellings of one (sentence, passphrase) give one seed, invalid sentences raise."""
    bad = []
    n = 0

    def rep(what, inp, got, want):
        bad.append({"property": "C02", "entry_point": what, "request_lines": [], "relation": what, "input": inp,
                    "impl_output": got, "model_output": want, "no_failing_input": False})

    for i in range(9 if tier == "quick" else 180):
        lang = BIP39_LANGS[i % 9]
        words = words_of(lang)
        ent = bytes(rng.randrange(256) for _ in range(rng.choice([16, 24, 32])))
        ws = spec_encode(words, ent)
        base = " ".join(ws)
        p = PASSPHRASES[i % len(PASSPHRASES)]
        want = hashlib.pbkdf2_hmac("sha512", nfkd(base).encode(), nfkd("mnemonic" + p).encode(), 2048, 64)
        spellings = [base, respell(rng, ws), unicodedata.normalize("NFC", base), base.upper() if lang not in ("KOREAN",) else base]
        pvars = [p, unicodedata.normalize("NFC", p), unicodedata.normalize("NFD", p), unicodedata.normalize("NFKC", p)]
        for s in spellings:
            for pv in pvars[: 2 if tier == "quick" else 4]:
                n += 1
                try:
                    got = Bip39SeedGenerator(s, Bip39Languages[lang]).Generate(pv)
                except Exception as ex:  # noqa
                    got = type(ex).__name__.encode()
                if got != want:
                    rep("BIP-39 seed differs from PBKDF2-HMAC-SHA512(NFKD sentence, NFKD('mnemonic'+passphrase), 2048, 64)",
                        "%s | %r | %r" % (lang, s, pv), got.hex(), want.hex())
        wsub = hashlib.pbkdf2_hmac("sha512", ent, nfkd("mnemonic" + p).encode(), 2048, 64)
        if SubstrateBip39SeedGenerator(base, Bip39Languages[lang]).Generate(p) != wsub:
            rep("Substrate seed differs from PBKDF2 with the entropy as password", base, "?", wsub.hex())
    e = bytes(rng.randrange(256) for _ in range(16))
    s = ElectrumV1MnemonicEncoder().Encode(e).ToStr()
    h = e.hex().encode()
    x = h
    for _ in range(100000):
        x = hashlib.sha256(x + h).digest()
    if ElectrumV1SeedGenerator(s).Generate() != x:
        rep("Electrum v1 seed differs from 100000x iterated SHA-256 of the hex entropy", s, "?", x.hex())
    # argument forms: the generators document `str or Mnemonic object`; an invalid sentence yields no seed in either form,
    # a valid one yields the same seed in every form
    from bip_utils import (Bip39Mnemonic, ElectrumV2Mnemonic, ElectrumV1Mnemonic, ElectrumV2Languages, ElectrumV1Languages)
    from bip_utils.utils.mnemonic import Mnemonic
    nf = 0
    for i in range(18 if tier == "quick" else 360):
        lang = BIP39_LANGS[i % 9]
        words = words_of(lang)
        ws = spec_encode(words, bytes(rng.randrange(256) for _ in range(rng.choice([16, 20, 32]))))
        k = i % 6
        if k == 0:
            sent, valid = list(ws), True
        elif k == 1:
            sent = list(ws); j = rng.randrange(len(sent)); sent[j] = words[(words.index(sent[j]) + 1 + rng.randrange(2046)) % 2048]; valid = None   # checksum almost surely wrong
        elif k == 2:
            sent, valid = list(ws[:-1]), False
        elif k == 3:
            sent = list(ws); sent[rng.randrange(len(sent))] = "notaword"; valid = False
        elif k == 4:
            sent, valid = list(ws) + [ws[0]], False
        else:
            other = words_of(BIP39_LANGS[(i + 1) % 9]); sent = list(ws); sent[0] = other[rng.randrange(2048)]; valid = None
        text = " ".join(sent)
        forms = [("str", text), ("Bip39Mnemonic.FromString", Bip39Mnemonic.FromString(text)), ("Bip39Mnemonic.FromList", Bip39Mnemonic.FromList(sent)),
                 ("Mnemonic.FromList", Mnemonic.FromList(sent))]
        for gname, G in (("Bip39SeedGenerator", Bip39SeedGenerator), ("SubstrateBip39SeedGenerator", SubstrateBip39SeedGenerator)):
            outs = []
            for fname, arg in forms:
                nf += 1
                try:
                    outs.append((fname, G(arg, Bip39Languages[lang]).Generate("pw").hex()))
                except ValueError:
                    outs.append((fname, "ValueError"))
                except Exception as ex:  # noqa
                    outs.append((fname, type(ex).__name__))
            ref = outs[0][1]
            if valid is True and ref == "ValueError":
                rep(gname + " refuses a valid sentence", text, ref, "a seed")
            if valid is False and ref != "ValueError":
                rep(gname + " yields a seed for an invalid sentence", text, ref, "ValueError")
            for fname, o in outs[1:]:
                if o != ref:
                    rep("%s: the sentence given as %s behaves differently from the same sentence given as str (an invalid sentence must never yield a seed)" % (gname, fname),
                        "%s | %s" % (lang, text), o, ref)
    e = bytes(rng.randrange(256) for _ in range(16))
    v1 = ElectrumV1MnemonicEncoder().Encode(e).ToList()
    for sent in (v1, v1[:-1], v1[:-1] + ["notaword"], v1 + v1[:1]):
        text = " ".join(sent)
        outs = []
        for arg in (text, ElectrumV1Mnemonic.FromList(sent), Mnemonic.FromList(sent)):
            nf += 1
            try:
                outs.append(ElectrumV1SeedGenerator(arg).Generate().hex())
            except ValueError:
                outs.append("ValueError")
            except Exception as ex:  # noqa
                outs.append(type(ex).__name__)
        if len(set(outs)) != 1 or (sent is not v1 and outs[0] != "ValueError"):
            rep("ElectrumV1SeedGenerator: argument forms disagree or an invalid sentence yields a seed", text, str(outs), "equal; ValueError when invalid")
    for i in range(2 if tier == "quick" else 20):
        e2, s2 = v2_valid_entropy(rng, 132, V2_TYPES[i % 4], V2_LANGS[i % 4])
        if s2 is None:
            continue
        w2 = s2.split(" ")
        for sent in (w2, w2[:-1], [w2[1], w2[0]] + w2[2:]):
            text = " ".join(sent)
            outs = []
            for arg in (text, ElectrumV2Mnemonic.FromList(sent), Mnemonic.FromList(sent)):
                nf += 1
                try:
                    outs.append(ElectrumV2SeedGenerator(arg, ElectrumV2Languages[V2_LANGS[i % 4]]).Generate("pw").hex())
                except ValueError:
                    outs.append("ValueError")
                except Exception as ex:  # noqa
                    outs.append(type(ex).__name__)
            if len(set(outs)) != 1 or (len(sent) != 12 and outs[0] != "ValueError"):
                rep("ElectrumV2SeedGenerator: argument forms disagree or an invalid sentence yields a seed", text, str(outs), "equal; ValueError when invalid")
    # history: the seed is a function of (sentence, passphrase) whatever was processed before — sentences made only of words shared by
    # two lists, interleaved with sentences of the other language, every generator in auto-detection mode and with the language given
    from harness.c15_catalogue import _shared_words
    amb = [(a, b, _shared_words(a, b)) for a, b in (("english", "french"), ("french", "english"))]
    nh = 0
    for rnd in range(2):
        for a, b, sent in amb:
            if not sent:
                continue
            other = Bip39Languages[b.upper()]
            warm = " ".join(spec_encode(words_of(b.upper()), bytes(rng.randrange(256) for _ in range(16))))
            want = hashlib.pbkdf2_hmac("sha512", nfkd(sent).encode(), nfkd("mnemonic" + "p").encode(), 2048, 64).hex()
            first = None
            for phase in ("before", "after"):
                if phase == "after":
                    Bip39SeedGenerator(warm).Generate("")                 # an auto-detected sentence of the other language
                    Bip39SeedGenerator(warm, other).Generate("")
                    SubstrateBip39SeedGenerator(warm).Generate("")
                for lg in (None, Bip39Languages[a.upper()]):
                    nh += 1
                    try:
                        got = Bip39SeedGenerator(sent, lg).Generate("p").hex()
                    except Exception as ex:  # noqa
                        got = type(ex).__name__
                    try:
                        sub = SubstrateBip39SeedGenerator(sent, lg).Generate("p").hex()
                    except Exception as ex:  # noqa
                        sub = type(ex).__name__
                    # with the language given the sentence is valid by construction; auto-detection must at least be stable
                    if lg is not None and got != want:
                        rep("BIP-39 seed of a valid sentence (language given) is not its PBKDF2 definition %s processing a sentence of another language" % phase, sent, got, want)
                    key = (lg is None)
                    if first is None:
                        first = {}
                    if key in first and first[key] != (got, sub):
                        rep("seed generators answer differently for the same (sentence, passphrase) after a sentence of another language was processed", sent, str((got[:16], sub[:16])), str((first[key][0][:16], first[key][1][:16])))
                    first.setdefault(key, (got, sub))
    rpt.extra["passphrase_checks"] = _passphrase_opaque(rng, tier, rep)
    rpt.extra["fold_spelling_checks"] = _fold_spellings(rng, tier, rep)
    rpt.extra["shared_word_language_checks"] = _shared_words_language(rng, tier, rep)
    rpt.extra["noncanonical_object_checks"] = _noncanonical_objects(rng, tier, rep)
    rpt.extra["history_checks"] = nh
    rpt.extra["argument_form_checks"] = nf
    rpt.extra["impl_relation_checks"] = n
    return bad[:10]


def search_broken(broken, rng):
    """a word-list table theorem failed: exhibit a sentence of the registered list whose seed is no longer PBKDF2 of its NFKD form
    (refused, or different), or an invalid sentence that now yields a seed."""
    import os
    from harness.core import VERIF
    gdir = os.path.join(VERIF, "golden", "bip39")
    for lang in BIP39_LANGS:
        gold = [w for w in open(os.path.join(gdir, lang + ".txt"), encoding="utf-8").read().split("\n") if w]
        try:
            cur = words_of(lang)
        except Exception as ex:  # noqa
            return {"relation": "word list %s cannot be loaded: %s" % (lang, ex), "impl_output": type(ex).__name__, "model_output": "2048 words"}
        for i, (a, b) in enumerate(zip(cur, gold)):
            if a != b:
                for _ in range(8):
                    v = (i << 121) | rng.getrandbits(121)
                    ent = (v >> 4).to_bytes(16, "big")
                    sent = " ".join(spec_encode(gold, ent))
                    want = hashlib.pbkdf2_hmac("sha512", nfkd(sent).encode(), nfkd("mnemonic").encode(), 2048, 64).hex()
                    for lg in (Bip39Languages[lang], None):
                        try:
                            got = Bip39SeedGenerator(sent, lg).Generate("").hex()
                        except Exception as ex:  # noqa
                            got = type(ex).__name__
                        if got != want:
                            return {"relation": "word %d of %s differs from the registered BIP-39 list: the seed of a valid registered sentence is not its PBKDF2 definition" % (i, lang),
                                    "entry_point": "Bip39SeedGenerator(sentence, %s).Generate('')" % (lg.name if lg else "auto"), "input": sent, "impl_output": got, "model_output": want,
                                    "request_lines": []}
    return None
