"""C10 — decoders accept exactly what the format allows; damage is never mis-decoded."""
from harness.core import Case
from harness.canon import hx, tx, unhx, untx
from harness.props.addr_common import IMPL as ADDR_IMPL, fmt_table, kwfields, rand_priv, pub_forms, conv_kw
from harness.props.c11 import IMPL as CODEC_IMPL
from harness.props.bip32_common import IMPL as B32_IMPL
from harness.props.c09 import pre_build
from bip_utils import (Base58Encoder, Bech32Encoder, SegwitBech32Encoder, BchBech32Encoder, SS58Encoder, WifEncoder, Base58XmrEncoder,
                       SegwitBech32Decoder, BchBech32Decoder, WifPubKeyModes)

LEAN_MODULES = ["BipVerif.Props.C10Codec", "BipVerif.Props.C10Addr", "BipVerif.Props.C10Distance"]
IMPL = dict(CODEC_IMPL)
IMPL.update(ADDR_IMPL)
IMPL["wifdec"] = B32_IMPL["wifdec"]


def _segwitdec(h, s):
    v, p = SegwitBech32Decoder.Decode(untx(h), untx(s))
    return "%d %s" % (v, hx(p))


def _bchdec(h, s):
    v, p = BchBech32Decoder.Decode(untx(h), untx(s))
    return hx(v) + " " + hx(p)


IMPL["segwitdec"] = _segwitdec
IMPL["bchdec"] = _bchdec
IMPL["segwitenc"] = lambda h, v, d: tx(SegwitBech32Encoder.Encode(untx(h), int(v), unhx(d)))
IMPL["byrondec"] = lambda a: hx(__import__("bip_utils").AdaByronAddrDecoder.DecodeAddr(untx(a)))
IMPL["bchenc"] = lambda h, v, d: tx(BchBech32Encoder.Encode(untx(h), unhx(v), unhx(d)))

B58 = "123456789ABCDEFGHJKLMNPQRSTUVWXYZabcdefghijkmnopqrstuvwxyz"
NIM_ALPHABET = "0123456789ABCDEFGHJKLMNPQRSTUVXY"


def _ss58_checksum(payload):
    """SS58: first two bytes of BLAKE2b-512("SS58PRE" || payload) — computed with hashlib, independent of the library"""
    import hashlib
    return hashlib.blake2b(b"SS58PRE" + payload, digest_size=64).digest()[:2]


def _nim_checksum(enc):
    """Nimiq IBAN-style check digits of a Base32 body: 98 - (digits(body + "NQ00") mod 97), two decimal digits"""
    digits = "".join(ch if ch in "0123456789" else str(ord(ch) - 55) for ch in (enc + "NQ00"))   # letters A=10…; same rule for any other symbol
    return "%02d" % (98 - int(digits) % 97)
B32C = "qpzry9x8gf2tvdw0s3jn54khce6mua7l"
EXTRA = "0OIl+/= _-.:bio1BIOKé😀"


def mutations(rng, s, alphabet, n, exhaustive_single=False):
    """yield (mutated string, kind)."""
    L = len(s)
    if L == 0:
        return
    if exhaustive_single:
        for i in range(L):
            for ch in alphabet:
                if ch != s[i]:
                    yield s[:i] + ch + s[i + 1:], "sub1"
    for _ in range(n):
        k = rng.randrange(11)
        i = rng.randrange(L)
        if k == 0:
            yield s[:i] + rng.choice(alphabet) + s[i + 1:], "sub1"
        elif k == 1:
            j = rng.randrange(L)
            t = list(s)
            t[i] = rng.choice(alphabet)
            t[j] = rng.choice(alphabet)
            yield "".join(t), "sub2"
        elif k == 2 and L > 1:
            i = rng.randrange(L - 1)
            yield s[:i] + s[i + 1] + s[i] + s[i + 2:], "transpose"
        elif k == 3:
            yield s[:i] + rng.choice(alphabet) + s[i:], "insert"
        elif k == 4:
            yield s[:i] + s[i + 1:], "delete"
        elif k == 5:
            yield s[:i] + s[i].swapcase() + s[i + 1:], "caseflip"
        elif k == 6:
            yield s.upper() if rng.random() < 0.5 else s.lower(), "case"
        elif k == 7:
            yield s[:rng.randrange(L)], "truncate"
        elif k == 8:
            yield s[:i] + rng.choice(EXTRA) + s[i + 1:], "foreign"
        elif k == 9:
            t = list(s)
            for _ in range(rng.choice([3, 4])):
                t[rng.randrange(L)] = rng.choice(alphabet)
            yield "".join(t), "sub3-4"
        else:
            yield s + rng.choice(alphabet), "extend"



def _bech32_polymod(values):
    gen = (0x3b6a57b2, 0x26508e6d, 0x1ea119fa, 0x3d4233dd, 0x2a1462b3)
    chk = 1
    for v in values:
        b = chk >> 25
        chk = ((chk & 0x1ffffff) << 5) ^ v
        for i in range(5):
            chk ^= gen[i] if (b >> i) & 1 else 0
    return chk


def _bech32_string(hrp, data5, const=1):
    """BIP-173 / BIP-350 string for the 5-bit groups `data5` (checksum from the published polymod, not the library's)"""
    exp = [ord(c) >> 5 for c in hrp] + [0] + [ord(c) & 31 for c in hrp]
    pm = _bech32_polymod(exp + list(data5) + [0] * 6) ^ const
    return hrp + "1" + "".join(B32C[d] for d in list(data5) + [(pm >> 5 * (5 - i)) & 31 for i in range(6)])


def _cashaddr_string(hrp, data5):
    gen = (0x98f2bc8e61, 0x79b76d99e2, 0xf33e5fb3c4, 0xae2eabe2a8, 0x1e4f43e470)

    def polymod(values):
        c = 1
        for d in values:
            c0 = c >> 35
            c = ((c & 0x07ffffffff) << 5) ^ d
            for i in range(5):
                c ^= gen[i] if (c0 >> i) & 1 else 0
        return c ^ 1
    pm = polymod([ord(c) & 31 for c in hrp] + [0] + list(data5) + [0] * 8)
    return hrp + ":" + "".join(B32C[d] for d in list(data5) + [(pm >> 5 * (7 - i)) & 31 for i in range(8)])


def _groups5(b):
    acc, bits, out = 0, 0, []
    for x in b:
        acc, bits = (acc << 8) | x, bits + 8
        while bits >= 5:
            bits -= 5
            out.append((acc >> bits) & 31)
    if bits:
        out.append((acc << (5 - bits)) & 31)
    return out


_CONF = None


def confusables():
    """non-ASCII characters that some str method maps onto ONE ASCII character: lower(), upper(), casefold(), NFKC/NFKD, or a decimal digit value
    (int() / isdecimal()): ASCII char -> {kind: [characters]} — computed from unicodedata, nothing is hard-coded"""
    global _CONF
    if _CONF is None:
        import unicodedata
        _CONF = {}
        for u in list(range(0x80, 0x3000)) + list(range(0xff00, 0xfff0)) + list(range(0x1d400, 0x1d800)):
            ch = chr(u)
            for kind, f in (("lower", str.lower), ("upper", str.upper), ("casefold", str.casefold),
                            ("nfkc", lambda c: unicodedata.normalize("NFKC", c)), ("nfkd", lambda c: unicodedata.normalize("NFKD", c))):
                t = f(ch)
                if len(t) == 1 and ord(t) < 128 and t != ch:
                    _CONF.setdefault(t, {}).setdefault(kind, []).append(ch)
            if ch.isdecimal():
                _CONF.setdefault(str(unicodedata.decimal(ch)), {}).setdefault("decimal", []).append(ch)
    return _CONF


def confusable_spellings(rng, addr, per_kind=1):
    """`addr` (and its all-upper / all-lower spelling) with one character replaced by a non-ASCII look-alike that a case-folding or normalising
    str method would map back onto it — e.g. the Kelvin sign for K inside an upper-case Bech32 string.  None of them is in any format's alphabet."""
    conf = confusables()
    seen = set()
    for base in (addr, addr.upper(), addr.lower()):
        for i, c in enumerate(base):
            for t in sorted({c, c.lower(), c.upper()}):
                for kind, lst in conf.get(t, {}).items():
                    if (t, kind, base is addr) in seen:
                        continue
                    seen.add((t, kind, base is addr))
                    for u in rng.sample(lst, min(per_kind, len(lst))):
                        yield base[:i] + u + base[i + 1:], "confusable-" + kind


def byron_cases(rng, tier):
    """Cardano Byron addresses (Icarus and legacy): valid ones, the neighbourhood mutation stream, and CBOR-level re-spellings of the checksum
    field — CRC + k·2^32 as a 64-bit unsigned, CRC − 2^32 as a negative integer (same text length as the valid address), the CRC in a
    wider-than-needed unsigned — all with everything else intact"""
    import zlib
    from bip_utils import CardanoByronLegacy, AdaByronIcarusAddrEncoder, Base58Decoder
    for i in range(2 if tier == "quick" else 20):
        seed = bytes(rng.randrange(256) for _ in range(32))
        w = CardanoByronLegacy.FromSeed(seed)
        pub = w.GetPublicKey(0, i)
        addrs = [w.GetAddress(0, i), AdaByronIcarusAddrEncoder.EncodeKey(pub.KeyObject(), chain_code=pub.ChainCode().ToBytes())]
        for a in addrs:
            yield Case("byrondec", [tx(a)], "valid-byron")
            for m, kind in mutations(rng, a, B58, 25 if tier == "quick" else 300):
                yield Case("byrondec", [tx(m)], "neg-" + kind)
            raw = Base58Decoder.Decode(a)
            # the address is array(2)[ tag24(bytes payload), uint crc ]: find the payload to recompute where the CRC item starts
            for cut in range(len(raw) - 1, len(raw) - 10, -1):
                head = raw[cut]
                if head in (0x1a, 0x19, 0x18) and len(raw) - cut - 1 == {0x1a: 4, 0x19: 2, 0x18: 1}[head]:
                    crc = int.from_bytes(raw[cut + 1:], "big")
                    body = raw[:cut]
                    variants = [("neg-crc-plus-2^32", b"\x1b" + (crc + 2**32).to_bytes(8, "big")), ("neg-crc-plus-5*2^32", b"\x1b" + (crc + 5 * 2**32).to_bytes(8, "big")),
                                ("neg-crc-minus-2^32", b"\x3a" + (2**32 - crc - 1).to_bytes(4, "big")), ("neg-crc-negated", b"\x3a" + ((crc - 1) % 2**32).to_bytes(4, "big")),
                                ("neg-crc-off-by-one", b"\x1a" + ((crc + 1) % 2**32).to_bytes(4, "big"))]
                    for cls_, item in variants:
                        yield Case("byrondec", [tx(Base58Encoder.Encode(body + item))], cls_)
                    break
            # bytes AFTER a complete CBOR item (outer array, the tagged payload, the attribute byte strings): every item must span its whole
            # string, so each of these is refused although CRC, shapes and lengths are all intact (payload surgery recomputes the CRC)
            for tail in (b"\x00", b"\x00\x01", b"\xff", raw[-1:]):
                yield Case("byrondec", [tx(Base58Encoder.Encode(raw + tail))], "neg-trailing-outer")
            try:
                import cbor2
                outer = cbor2.loads(raw)
                payload = outer[0].value
                for tail in (b"\x00", b"\x18\x2a"):
                    p2 = payload + tail
                    yield Case("byrondec", [tx(Base58Encoder.Encode(cbor2.dumps([cbor2.CBORTag(24, p2), zlib.crc32(p2)])))], "neg-trailing-payload")
                root, attrs, typ = cbor2.loads(payload)
                for k in list(attrs):
                    a2 = dict(attrs)
                    a2[k] = attrs[k] + b"\x00"
                    p2 = cbor2.dumps([root, a2, typ])
                    yield Case("byrondec", [tx(Base58Encoder.Encode(cbor2.dumps([cbor2.CBORTag(24, p2), zlib.crc32(p2)])))], "neg-trailing-attr")
            except ImportError:
                pass


def caseless_strings(rng, tier):
    """valid Bech32 / Bech32m strings that contain no letter at all (HRP of digits or symbols, data and checksum spelled with the nine digit
    symbols of the charset): neither lower nor upper case, hence not mixed case — legal under BIP-173, found by searching digit-only data
    parts whose checksum (published polymod) is digit-only too"""
    digits = [i for i, ch in enumerate(B32C) if ch.isdigit()]
    want = 2 if tier == "quick" else 8
    for hrp in ("2", "42", "1", "+", "2-3"):
        found = 0
        for _ in range(60000):
            d = [rng.choice(digits) for _ in range(8)]        # 40 bits = 5 bytes, no padding
            s = _bech32_string(hrp, d)
            if not any(ch.isalpha() for ch in s):
                yield Case("bech32dec", [tx(hrp), tx(s)], "valid-caseless")
                found += 1
                if found == want:
                    break
        found = 0
        for _ in range(60000):
            ver = rng.choice([v for v in range(1, 17) if B32C[v].isdigit()])
            d = [ver] + [rng.choice(digits) for _ in range(16)]   # 80 bits = 10-byte program
            s = _bech32_string(hrp, d, 0x2bc830a3)
            if not any(ch.isalpha() for ch in s):
                yield Case("segwitdec", [tx(hrp), tx(s)], "valid-caseless")
                found += 1
                if found == want:
                    break


def regrouped_spellings(rng, tier):
    """non-canonical 5-bit spellings of a byte payload with a VALID checksum: a whole extra all-zero group, two extra groups, non-zero
    padding bits, a dropped last group — only the canonical regrouping may be accepted"""
    for ln in (1, 2, 3, 4, 5, 20, 32) if tier == "quick" else (1, 2, 3, 4, 5, 6, 7, 8, 9, 10, 19, 20, 21, 32, 33, 40):
        payload = bytes(rng.randrange(256) for _ in range(ln))
        g = _groups5(payload)
        pad_bits = 5 * len(g) - 8 * ln
        variants = [("canonical", g), ("extra-zero-group", g + [0]), ("two-extra-groups", g + [0, 0]), ("extra-nonzero-group", g + [1]), ("dropped-group", g[:-1])]
        if pad_bits:
            variants.append(("nonzero-padding", g[:-1] + [g[-1] | 1]))
        for kind, d in variants:
            cls = "valid-regroup" if kind == "canonical" else "neg-regroup-" + kind
            yield Case("bech32dec", [tx("test"), tx(_bech32_string("test", d))], cls)
            if ln in (2, 20, 32, 40):
                for v, const in ((0, 1), (1, 0x2bc830a3)):
                    if v == 0 and ln not in (20, 32):
                        continue
                    yield Case("segwitdec", [tx("bc"), tx(_bech32_string("bc", [v] + d, const))], cls)
            if ln == 20:
                yield Case("addrdec", ["atom", tx(_bech32_string("cosmos", d)), "hrp=" + tx("cosmos")], cls)
                yield Case("addrdec", ["p2wpkh", tx(_bech32_string("bc", [0] + d)), "hrp=" + tx("bc")], cls)
            if ln == 32:
                yield Case("addrdec", ["p2tr", tx(_bech32_string("bc", [1] + d, 0x2bc830a3)), "hrp=" + tx("bc")], cls)
        if ln in (20, 32):
            g = _groups5(b"\x00" + payload)
            for kind, d in (("canonical", g), ("extra-zero-group", g + [0]), ("dropped-group", g[:-1])):
                yield Case("bchdec", [tx("bitcoincash"), tx(_cashaddr_string("bitcoincash", d))], "valid-regroup" if kind == "canonical" else "neg-regroup-" + kind)


WS_ASCII = [" ", "\t", "\n", "\r", "\x0b", "\x0c"]
IGNORABLE_OTHER = ["\x00", "\x1c", "\x85", "\u00a0", "\u2003", "\u200b", "\ufeff", "_", "-", "+", "=", ".", ","]


def ignorable_mutations(rng, s, tier):
    """`s` with characters that lenient text parsers skip or strip (ASCII and Unicode white space, control and zero-width characters, digit
    separators, signs, padding) — none is in the alphabet of any format.  Systematic in the positions that matter to a decoder working on
    fixed-size chunks: appended, prepended, inserted at an even and at an odd offset, and substituted for two adjacent characters at an
    even and at an odd offset (so that one of the two is aligned with 2-character byte pairs whatever prefix the format has).  A trailing
    line feed is always among the characters tried."""
    L = len(s)
    if L < 6:
        return
    if tier == "thorough":
        chars = WS_ASCII + IGNORABLE_OTHER
    else:
        chars = ["\n"] + rng.sample([c for c in WS_ASCII if c != "\n"], 2) + rng.sample(IGNORABLE_OTHER, 1)
    for c in chars:
        yield s + c, "ignorable-append"
        yield c + s, "ignorable-prepend"
        for _ in range(1 if tier == "quick" else 2):
            p = rng.randrange(1, L - 3)
            for q in (p, p + 1):
                yield s[:q] + c + s[q:], "ignorable-insert"
                yield s[:q] + c + c + s[q + 2:], "ignorable-sub2"
    if tier == "thorough":
        for _ in range(8):             # longer aligned runs, several places at once
            t = list(s)
            for _k in range(rng.randrange(1, 4)):
                q = rng.randrange(0, L - 4)
                n = rng.choice([2, 4])
                t[q:q + n] = [rng.choice(WS_ASCII)] * n
            yield "".join(t), "ignorable-runs"


def cross_family(rng, tier):
    """the three checksum variants of the Bech32 family (Bech32 constant 1, Bech32m, the 40-bit CashAddr code) over the same human-readable
    part and the same data symbols, each spelling given to EVERY decoder of the family (codec level and address level, with that decoder's
    separator) — twice over, so that each decoder also sees each string after every decoder that accepts it has accepted it — then the same
    data part under another human-readable part and with its last symbol changed.  A decoder accepts a spelling iff it carries that
    decoder's own checksum (and shape), whatever any decoder has accepted before; the reference is the model."""
    T = fmt_table()
    bch_ver = {f: dict(T[f][3][0])["net_ver"] for f in ("bchp2pkh", "bchp2sh")}
    targets = [("1", lambda h, s: Case("bech32dec", [tx(h), tx(s)], "cross-family")),
               ("1", lambda h, s: Case("segwitdec", [tx(h), tx(s)], "cross-family")),
               (":", lambda h, s: Case("bchdec", [tx(h), tx(s)], "cross-family")),
               ("1", lambda h, s: Case("addrdec", ["p2wpkh", tx(s), "hrp=" + tx(h)], "cross-family")),
               ("1", lambda h, s: Case("addrdec", ["p2tr", tx(s), "hrp=" + tx(h)], "cross-family")),
               ("1", lambda h, s: Case("addrdec", ["atom", tx(s), "hrp=" + tx(h)], "cross-family")),
               (":", lambda h, s: Case("addrdec", ["bchp2pkh", tx(s), "hrp=" + tx(h), "net_ver=" + bch_ver["bchp2pkh"]], "cross-family")),
               (":", lambda h, s: Case("addrdec", ["bchp2sh", tx(s), "hrp=" + tx(h), "net_ver=" + bch_ver["bchp2sh"]], "cross-family"))]
    hrps = ["bc", "tb", "bitcoincash", "cosmos", "ltc"]
    for _ in range(1 if tier == "quick" else 12):
        rb = lambda n: bytes(rng.randrange(256) for _ in range(n))
        shapes = [[0] + _groups5(rb(20)), [0] + _groups5(rb(32)), [1] + _groups5(rb(32)), [rng.randrange(2, 17)] + _groups5(rb(rng.choice([2, 20, 32, 40]))),
                  _groups5(unhx(bch_ver["bchp2pkh"]) + rb(20)), _groups5(unhx(bch_ver["bchp2sh"]) + rb(20)), _groups5(rb(20))]
        for data5 in shapes:
            hrp = rng.choice(hrps)
            other = rng.choice([h for h in hrps if h != hrp])
            for spell in (lambda h: _bech32_string(h, data5, 1), lambda h: _bech32_string(h, data5, 0x2bc830a3), lambda h: _cashaddr_string(h, data5)):
                yield None           # a new block: the history that matters to the cases below starts here
                full = spell(hrp)
                part = full[len(hrp) + 1:]
                for rnd in range(2):
                    for sep, mk in targets:
                        s = hrp + sep + part
                        yield mk(hrp, s.upper() if rnd and rng.random() < 0.25 else s)
                for sep, mk in targets:
                    yield mk(other, other + sep + part)
                    yield mk(hrp, hrp + sep + part[:-1] + rng.choice([c for c in B32C if c != part[-1]]))
                # ... and the spelling that IS valid under the other human-readable part, after this one was accepted
                part2 = spell(other)[len(other) + 1:]
                for sep, mk in targets:
                    yield mk(other, other + sep + part2)
                    yield mk(hrp, hrp + sep + part2)


ORACLE_MISS_OPS = ("byrondec",)     # the Byron model covers the canonical CBOR shapes; outside them only the error family is checked


def equiv(case, impl_reply, model_reply):
    return case.op == "byrondec" and model_reply.startswith("err OracleMiss") and (impl_reply.startswith("ok") or impl_reply == "err Value")


def gen(rng, tier):
    yield from regrouped_spellings(rng, tier)
    yield from caseless_strings(rng, tier)
    yield from byron_cases(rng, tier)
    T = fmt_table()
    valid_addrs = []
    n_addr = 2 if tier == "quick" else 12
    n_mut = 40 if tier == "quick" else 500
    first = True
    for fmt, (curve, enc, dec, params) in T.items():
        for i in range(n_addr):
            kw = dict(params[(i * 7) % len(params)])
            pub = pub_forms(curve, rand_priv(rng, curve))[0]
            if fmt in ("xmr", "xmrint"):
                kw["pub_vkey"] = hx(pub_forms(curve, rand_priv(rng, curve))[0])
                if fmt == "xmrint":
                    kw["payment_id"] = hx(bytes(rng.randrange(256) for _ in range(8)))
            addr = enc.EncodeKey(pub, **conv_kw(fmt, kw))
            dkw = {k: v for k, v in kw.items() if k not in ("compressed", "trim_zeroes", "pub_vkey")}
            alphabet = B32C if fmt in ("p2wpkh", "p2tr", "atom", "avaxp", "avaxx", "inj", "okex", "one", "egld", "zil", "bchp2pkh", "bchp2sh") else \
                "0123456789abcdefABCDEF" if fmt in ("eth", "aptos", "sui", "icx", "near") else \
                "ABCDEFGHIJKLMNOPQRSTUVWXYZ234567" if fmt in ("algo", "xlm") else \
                "abcdefghijklmnopqrstuvwxyz234567" if fmt == "fil" else "13456789abcdefghijkmnopqrstuwxyz" if fmt == "nano" else \
                "0123456789ABCDEFGHJKLMNPQRSTUVXY" if fmt == "nim" else B58
            yield Case("addrdec", [fmt, tx(addr)] + kwfields(dkw), "valid-" + fmt)
            ex = (tier == "thorough" and i == 0) or (tier == "quick" and first and fmt == "p2wpkh")
            for m, kind in mutations(rng, addr, alphabet, n_mut, exhaustive_single=ex):
                yield Case("addrdec", [fmt, tx(m)] + kwfields(dkw), "neg-" + kind)
            if i == 0 or tier == "thorough":
                for m, kind in confusable_spellings(rng, addr):
                    yield Case("addrdec", [fmt, tx(m)] + kwfields(dkw), "neg-" + kind)
            for m, kind in ignorable_mutations(rng, addr, tier):
                yield Case("addrdec", [fmt, tx(m)] + kwfields(dkw), "neg-" + kind)
            if i == 0 or tier == "thorough":
                valid_addrs.append((fmt, addr))
            # wrong parameters
            other = dict(params[(i * 7 + 1) % len(params)])
            okw = {k: v for k, v in other.items() if k not in ("compressed", "trim_zeroes", "pub_vkey")}
            if fmt == "xmrint":
                okw["payment_id"] = hx(bytes(8))
            yield Case("addrdec", [fmt, tx(addr)] + kwfields(okw), "neg-wrongparam")
        first = False
    # every valid address, accepted above by its own decoder, then given to the decoder of every OTHER format (first parameter row): what a
    # decoder accepts depends on the string and its own parameters only, never on what another decoder has accepted before
    for fmt, addr in valid_addrs:
        for fmt2, (_c, _e, _d, params2) in T.items():
            if fmt2 != fmt:
                kw2 = {k: v for k, v in dict(params2[0]).items() if k not in ("compressed", "trim_zeroes", "pub_vkey")}
                if fmt2 == "xmrint":
                    kw2["payment_id"] = hx(bytes(8))
                yield Case("addrdec", [fmt2, tx(addr)] + kwfields(kw2), "cross-format")
    # codec-level decoders
    for i in range(6 if tier == "quick" else 60):
        payload = bytes(rng.randrange(256) for _ in range(rng.choice([1, 5, 20, 21, 32, 33])))
        s = Base58Encoder.CheckEncode(payload)
        yield Case("b58chkdec", ["btc", tx(s)], "valid-b58chk")
        for m, kind in mutations(rng, s, B58, n_mut):
            yield Case("b58chkdec", ["btc", tx(m)], "neg-" + kind)
        for m, kind in ignorable_mutations(rng, s, tier):
            yield Case("b58chkdec", ["btc", tx(m)], "neg-" + kind)
        # non-canonical: extra leading '1'
        yield Case("b58chkdec", ["btc", tx("1" + s)], "neg-noncanon")
        s = Bech32Encoder.Encode("test", payload)
        yield Case("bech32dec", [tx("test"), tx(s)], "valid-bech32")
        for m, kind in mutations(rng, s, B32C, n_mut):
            yield Case("bech32dec", [tx("test"), tx(m)], "neg-" + kind)
        for m, kind in ignorable_mutations(rng, s, tier):
            yield Case("bech32dec", [tx("test"), tx(m)], "neg-" + kind)
        if i < 2:
            for m, kind in confusable_spellings(rng, s):
                yield Case("bech32dec", [tx("test"), tx(m)], "neg-" + kind)
        prog = bytes(rng.randrange(256) for _ in range(rng.choice([2, 20, 32, 40])))
        v = rng.choice([0, 1, 2, 16])
        if v == 0 and len(prog) not in (20, 32):
            v = 1
        s = SegwitBech32Encoder.Encode("bc", v, prog)
        yield Case("segwitdec", [tx("bc"), tx(s)], "valid-segwit")
        for m, kind in mutations(rng, s, B32C, n_mut):
            yield Case("segwitdec", [tx("bc"), tx(m)], "neg-" + kind)
        for m, kind in ignorable_mutations(rng, s, tier):
            yield Case("segwitdec", [tx("bc"), tx(m)], "neg-" + kind)
        if i < 2:
            for m, kind in confusable_spellings(rng, s):
                yield Case("segwitdec", [tx("bc"), tx(m)], "neg-" + kind)
        s = BchBech32Encoder.Encode("bitcoincash", b"\x00", prog)
        yield Case("bchdec", [tx("bitcoincash"), tx(s)], "valid-bch")
        for m, kind in mutations(rng, s, B32C, n_mut):
            yield Case("bchdec", [tx("bitcoincash"), tx(m)], "neg-" + kind)
        for m, kind in ignorable_mutations(rng, s, tier):
            yield Case("bchdec", [tx("bitcoincash"), tx(m)], "neg-" + kind)
        if i < 2:
            for m, kind in confusable_spellings(rng, s):
                yield Case("bchdec", [tx("bitcoincash"), tx(m)], "neg-" + kind)
        d32 = bytes(rng.randrange(256) for _ in range(32))
        f = rng.choice([0, 2, 42, 63, 64, 127, 255, 256, 5000, 16383])
        s = SS58Encoder.Encode(d32, f)
        yield Case("ss58dec", [tx(s)], "valid-ss58")
        for m, kind in mutations(rng, s, B58, n_mut):
            yield Case("ss58dec", [tx(m)], "neg-" + kind)
        for m, kind in ignorable_mutations(rng, s, tier):
            yield Case("ss58dec", [tx(m)], "neg-" + kind)
        k = rand_priv(rng, "secp256k1")
        s = WifEncoder.Encode(k, b"\x80", rng.choice([WifPubKeyModes.COMPRESSED, WifPubKeyModes.UNCOMPRESSED]))
        yield Case("wifdec", [tx(s), hx(b"\x80")], "valid-wif")
        for m, kind in mutations(rng, s, B58, n_mut):
            yield Case("wifdec", [tx(m), hx(b"\x80")], "neg-" + kind)
        for m, kind in ignorable_mutations(rng, s, tier):
            yield Case("wifdec", [tx(m), hx(b"\x80")], "neg-" + kind)
        yield Case("wifdec", [tx(s), hx(b"\xef")], "neg-wrongparam")
        s = Base58XmrEncoder.Encode(payload)
        yield Case("xmrdec", [tx(s)], "valid-xmr")
        for m, kind in mutations(rng, s, B58, n_mut):
            yield Case("xmrdec", [tx(m)], "neg-" + kind)
        for m, kind in ignorable_mutations(rng, s, tier):
            yield Case("xmrdec", [tx(m)], "neg-" + kind)
    # directed non-canonical encodings / reserved prefixes / published vectors
    for pre in (b"\x80", b"\xc0\x00", bytes([0x41, 0x40]), bytes([0x40, 0x00]), bytes([0x7f, 0xff]), bytes([0x4b, 0x80]), bytes([0x4b, 0xc0]), bytes([46]), bytes([47])):
        p = pre + bytes(range(32))
        yield Case("ss58dec", [tx(Base58Encoder.Encode(p + _ss58_checksum(p)))], "neg-noncanon")
    # every first byte from 0x40 up (two-byte forms, the reserved range 0x80-0xff) with representative second bytes, valid checksum
    acct = bytes(rng.randrange(256) for _ in range(32))
    for b0 in range(0x40, 0x100):
        for b1 in (0x00, 0x3f, 0x40, 0x45, 0xff):
            p = bytes([b0, b1]) + acct
            yield Case("ss58dec", [tx(Base58Encoder.Encode(p + _ss58_checksum(p)))], "neg-ss58-prefix" if b0 >= 0x80 else "ss58-two-byte")
    for s in ("", "1", "11", "zzzzzzzzzzz", "zz", "11111111112", "jpXCZedGfVQ", "jpXCZedGfVR", "1111111111", "5Q", "5R", "LUv", "LUw", "2UzHL", "2UzHM",
              "ZiCa", "ZiCb", "VtB5VXc", "3CUsUpv9t", "3CUsUpv9u", "Ahg1opVcGW", "Ahg1opVcGX"):
        yield Case("xmrdec", [tx(s)], "neg-xmrblock")
    for s in ("A1G7SNZ", "a12UEL5L", "a12uel5l", "an83characterlonghumanreadablepartthatcontainsthenumber1andtheexcludedcharactersbio1tt5tgs",
              "abcdef1qpzry9x8gf2tvdw0s3jn54khce6mua7lmqqqxw", "split1checkupstagehandshakeupstreamerranterredcaperred2y9e3w", "?1ezyfcl", "1pzry9x0s0muk", "x1b4n0q5v",
              "li1dgmt3", "de1lg7wt\xff", "A1G7SNz", "10a06t8", "1qzzfhee", "K1qqqqqq", "AK12UEL5L".replace("12UEL5L", "1QQQQQQ")):
        hrp = s[:s.rfind("1")].lower() if "1" in s else "a"
        if all(ord(c) < 128 for c in hrp):
            yield Case("bech32dec", [tx(hrp), tx(s)], "vector-bech32")
    for s in ("BC1QW508D6QEJXTDG4Y5R3ZARVARY0C5XW7KV8F3T4", "bc1pw508d6qejxtdg4y5r3zarvary0c5xw7kw508d6qejxtdg4y5r3zarvary0c5xw7kt5nd6y", "BC1SW50QGDZ25J",
              "bc1zw508d6qejxtdg4y5r3zarvaryvaxxpcs", "bc1p0xlxvlhemja6c4dqv22uapctqupfhlxm9h8z3k2e72q4k9hcz7vqzk5jj0", "bc1qw508d6qejxtdg4y5r3zarvary0c5xw7kv8f3t4",
              "bc1qw508d6qejxtdg4y5r3zarvary0c5xw7kemeawh", "bc1p38j9r5y49hruaue7wxjce0updqjuyyx0kh56v8s25huc6995vvpql3jow4", "BC130XLXVLHEMJA6C4DQV22UAPCTQUPFHLXM9H8Z3K2E72Q4K9HCZ7VQ7ZWS8R",
              "bc1qw508d6qejxtdg4y5r3zarvary0c5xw7kv8f3t5", "bc1gmk9yu", "bc1pw5dgrnzv", "bc1zw508d6qejxtdg4y5r3zarvaryvqyzf3du", "BC1QR508D6QEJXTDG4Y5R3ZARVARYV98GJ9P",
              "bc1p0xlxvlhemja6c4dqv22uapctqupfhlxm9h8z3k2e72q4k9hcz7v8n0nx0muaewav253zgeav", "bc1p0xlxvlhemja6c4dqv22uapctqupfhlxm9h8z3k2e72q4k9hcz7v07qwwzcrf"):
        yield Case("segwitdec", [tx("bc"), tx(s)], "vector-segwit")
    # directed: past failures of address decoders (padding bits, padded Base32, foreign payload sizes)
    from bip_utils import NanoAddrEncoder, NimAddrEncoder, XmrAddrEncoder, Base32Encoder
    for i in range(3 if tier == "quick" else 40):
        pub = pub_forms("ed25519blake2b", rand_priv(rng, "ed25519blake2b"))[0]
        a = NanoAddrEncoder.EncodeKey(pub)
        for c in "13456789abcdefghijkmnopqrstuwxyz":
            yield Case("addrdec", ["nano", tx("nano_" + c + a[6:])], "directed-nano-pad")
        for n in (16, 17, 18, 19, 20):
            enc = Base32Encoder.Encode(bytes(rng.randrange(256) for _ in range(n)), NIM_ALPHABET)
            yield Case("addrdec", ["nim", tx("NQ" + _nim_checksum(enc) + enc)], "directed-nim-padded")
        for hrp in ("bc", "tb", "ltc"):
            for v, ln in ((0, 32), (0, 20), (1, 32), (1, 20)):
                yield Case("addrdec", ["p2wpkh", tx(SegwitBech32Encoder.Encode(hrp, v, bytes(rng.randrange(256) for _ in range(ln)))), "hrp=" + tx(hrp)], "directed-witprog")
                yield Case("addrdec", ["p2tr", tx(SegwitBech32Encoder.Encode(hrp, v, bytes(rng.randrange(256) for _ in range(ln)))), "hrp=" + tx(hrp)], "directed-witprog")
        # Stellar addresses whose CRC16 has a zero high byte, built from the StrKey definition with stdlib pieces only
        import base64, binascii
        want = {"high", "low"}                      # one address of each kind per round: CRC high byte zero, CRC low byte zero
        for j in range(40000):
            pub = pub_forms("ed25519", rand_priv(rng, "ed25519"))[0][1:]
            body = bytes([6 << 3]) + pub
            crc = binascii.crc_hqx(body, 0)
            kind = "high" if crc < 0x100 else "low" if crc & 0xff == 0 else None
            if kind in want:
                want.discard(kind)
                addr = base64.b32encode(body + crc.to_bytes(2, "little")).decode()
                yield Case("addrdec", ["xlm", tx(addr), "addr_type=48"], "directed-xlm-crc-zero-byte-" + kind)
                if not want:
                    break
        # WIF of keys whose first byte is the network byte or whose last byte is the compression marker 0x01 (and 0x00), both modes and
        # three network bytes: the payload layout (version || key [|| 01]) must be read by position, not by content
        for nv in (b"\x80", b"\xef", b"\xb0"):
            for k in (nv + bytes(rng.randrange(256) for _ in range(31)), bytes(rng.randrange(1, 256) for _ in range(31)) + b"\x01",
                      bytes(rng.randrange(1, 256) for _ in range(30)) + b"\x01\x01", nv + bytes(rng.randrange(256) for _ in range(30)) + b"\x01",
                      bytes(rng.randrange(1, 256) for _ in range(31)) + b"\x00"):
                for mode in (WifPubKeyModes.COMPRESSED, WifPubKeyModes.UNCOMPRESSED):
                    yield Case("wifdec", [tx(WifEncoder.Encode(k, nv, mode)), hx(nv)], "directed-wif-marker-bytes")
        sk, vk = (pub_forms("ed25519monero", rand_priv(rng, "ed25519monero"))[0] for _ in range(2))
        std = XmrAddrEncoder.EncodeKey(sk, pub_vkey=vk, net_ver=b"\x12")
        yield Case("addrdec", ["xmrint", tx(std), "net_ver=12", "payment_id=" + hx(bytes(8))], "directed-xmr-std-as-int")
        from bip_utils import XmrIntegratedAddrEncoder
        integ = XmrIntegratedAddrEncoder.EncodeKey(sk, pub_vkey=vk, net_ver=b"\x13", payment_id=bytes(range(8)))
        yield Case("addrdec", ["xmr", tx(integ), "net_ver=13"], "directed-xmr-int-as-std")
        yield Case("addrdec", ["xmrint", tx(integ), "net_ver=13", "payment_id=" + hx(bytes(range(8)))], "directed-xmr-int")


def relations(rng, tier, rpt):
    """Bech32 family on the implementation: no string at substitution distance 1..4 from a valid one is accepted."""
    bad = []
    n = 0
    from bip_utils import Bech32Decoder, Bech32ChecksumError
    for _ in range(30 if tier == "quick" else 600):
        payload = bytes(rng.randrange(256) for _ in range(20))
        s = Bech32Encoder.Encode("cosmos", payload)
        sep = s.rfind("1")
        for _ in range(40):
            t = list(s)
            pos = rng.sample(range(sep + 1, len(s)), rng.randrange(1, 5))
            for p in pos:
                t[p] = rng.choice([c for c in B32C if c != s[p]])
            m = "".join(t)
            n += 1
            try:
                got = Bech32Decoder.Decode("cosmos", m)
            except (ValueError, Bech32ChecksumError):
                continue
            except Exception as ex:  # noqa
                got = type(ex).__name__
            bad.append({"property": "C10", "entry_point": "Bech32Decoder.Decode", "request_lines": ["bech32dec %s %s" % (tx("cosmos"), tx(m))],
                        "relation": "a Bech32 string with 1..4 substituted symbols is accepted", "input": m,
                        "impl_output": got.hex() if isinstance(got, bytes) else str(got), "model_output": "rejected", "no_failing_input": False})
    rpt.extra["bech32_le4_substitution_checks"] = n
    bad = bad[:5] + _spelling_relation(rng, tier, rpt) + _cross_family_relation(rng, tier, rpt)
    return bad


def _cross_family_relation(rng, tier, rpt):
    """the cases of cross_family, run in their order in this process; the reply demanded for each is the model's (one batch through the
    compiled driver).  A witness is a call HISTORY: its request lines are the earlier accepted requests of the block, then the failing one."""
    import sys
    from harness.core import run_driver, run_impl, HarnessError
    me = sys.modules[__name__]
    blocks = []
    for c in cross_family(rng, tier):
        if c is None:
            blocks.append([])
        else:
            blocks[-1].append(c)
    flat = [c for b in blocks for c in b]
    model = dict(zip([c.line for c in flat], run_driver([c.line for c in flat])))
    bad, n = [], 0
    for b in blocks:
        seen = []
        for c in b:
            n += 1
            want = model[c.line]
            if want.startswith("bad-"):
                raise HarnessError("driver rejected request %r: %s" % (c.line, want))
            got = run_impl(me, c)
            if got != want and len(bad) < 6:
                bad.append({"property": "C10", "entry_point": c.op + (" " + c.args[0] if c.op == "addrdec" else ""), "class": "cross-family-history",
                            "request_lines": [x.line for x, g in seen if g.startswith("ok")] + [c.line],
                            "relation": "after the earlier requests of this history were accepted (same human-readable part and data symbols, another decoder of the "
                                        "Bech32 family), a decoder answers differently from the model: what it accepts must depend on the string alone",
                            "input": untx(c.args[1]), "impl_output": got, "model_output": want, "no_failing_input": False})
                break
            seen.append((c, got))
    rpt.extra["cross_family_history_checks"] = n
    return bad


ALPHA = {"nano": "13456789abcdefghijkmnopqrstuwxyz", "nim": "0123456789ABCDEFGHJKLMNPQRSTUVXY=", "algo": "ABCDEFGHIJKLMNOPQRSTUVWXYZ234567=",
         "xlm": "ABCDEFGHIJKLMNOPQRSTUVWXYZ234567=", "fil": "abcdefghijklmnopqrstuvwxyz234567="}


def _spelling_relation(rng, tier, rpt):
    """every address decoder on the implementation: a string that differs from a valid address (beyond letter case and,
    for Nimiq, spaces) and is accepted under the same parameters never yields the same payload, and every accepted
    string yields a payload of the format's fixed length.  All single substitutions are enumerated."""
    bad = []
    n = acc = 0
    T = fmt_table()
    for fmt, (curve, enc, dec, params) in T.items():
        for i in range(1 if tier == "quick" else 6):
            kw = dict(params[rng.randrange(len(params))])
            pub = pub_forms(curve, rand_priv(rng, curve))[0]
            if fmt in ("xmr", "xmrint"):
                kw["pub_vkey"] = hx(pub_forms(curve, rand_priv(rng, curve))[0])
                if fmt == "xmrint":
                    kw["payment_id"] = hx(bytes(rng.randrange(256) for _ in range(8)))
            ckw = conv_kw(fmt, kw)
            addr = enc.EncodeKey(pub, **ckw)
            dkw = {k: v for k, v in ckw.items() if k not in ("pub_key_mode", "trim_zeroes", "pub_vkey", "pub_skey", "compressed")}
            try:
                ref = dec.DecodeAddr(addr, **dkw)
            except Exception:  # noqa  (reported by the model diff)
                continue
            alphabet = ALPHA.get(fmt) or (B32C + "b1io" if addr.lower() == addr and "1" in addr and fmt not in ("eth",) and set(addr[addr.rfind("1") + 1:]) <= set(B32C) else B58 + "0OIl")
            norm = (lambda x: x.replace(" ", "").lower()) if fmt == "nim" else (lambda x: x.lower())
            import itertools
            for m, kind in itertools.chain(mutations(rng, addr, alphabet, 60 if tier == "quick" else 400, exhaustive_single=True),
                                           ignorable_mutations(rng, addr, tier)):
                if norm(m) == norm(addr):
                    continue
                n += 1
                try:
                    got = dec.DecodeAddr(m, **dkw)
                except Exception:  # noqa  (error classes are C14's and the model diff's business)
                    continue
                acc += 1
                why = None
                if got == ref:
                    why = "a different spelling of a valid address decodes to the same payload (non-canonical form accepted)"
                elif isinstance(got, (bytes, str)) and len(got) != len(ref):
                    why = "an accepted string yields a payload of a length the format does not define"
                if why:
                    line = "addrdec %s %s %s" % (fmt, tx(m), " ".join(kwfields({k: v for k, v in kw.items() if k not in ("compressed", "trim_zeroes", "pub_vkey")})))
                    bad.append({"property": "C10", "entry_point": dec.__name__ + ".DecodeAddr", "request_lines": [line.strip()], "relation": why,
                                "input": m, "valid_address": addr, "impl_output": got.hex() if isinstance(got, bytes) else str(got),
                                "model_output": "rejected or a different payload of the fixed length", "no_failing_input": False})
                    break
    rpt.extra["spelling_relation_mutants"] = n
    rpt.extra["spelling_relation_accepted"] = acc
    return bad[:5]
