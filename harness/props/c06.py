"""C06 — path handling is compositional and notation-independent."""
from harness.core import Case
from harness.canon import hx, tx, nats
from harness.props.bip32_common import IMPL as _B32_IMPL, CLS, rand_index, rand_seed, node_out
from harness.props import c19 as _c19
IMPL = dict(_B32_IMPL)
IMPL.update({"subpath": _c19.IMPL["subpath"], "substrate": _c19.IMPL["substrate"]})
ORACLES = getattr(_c19, "ORACLES", None)
from bip_utils import Bip32PathParser, Bip32Path, Bip32KeyIndex

LEAN_MODULES = ["BipVerif.Props.C06"]
MARKERS = ["'", "h", "p"]
SPACES = [" ", "\t", " ", "　", " ", "  "]
ODD = ["", " ", "'", "h", "m", "-1", "+1", "0x1", "1e3", "1''", "1'h", "1 2", "1_0", "²", "½", "Ⅻ", "一", "١٢", "٣'", "१२३",
       "𝟙𝟚", "4294967296", "4294967295", "4294967295'", "2147483648'", "99999999999999999999999", "00000000001", "0'", "1.0", "m'", "M",
       "​1", "1​", "é", "😀", "1/", "//", "1p", "1P", "1H", "٠",
       "9" * 4300, "9" * 4301, "1" * 5000 + "'", "0" * 4400 + "7", "4294967296'", "4294967296h", "4294967296p", "2147483648h", "10000000000'", "99999999999999999999999p", "4294967295h", "2147483647'", "2147483647p"]


def spell(rng, elems, absolute):
    """one textual spelling of the path object (notation family of the property)."""
    parts = []
    for e in elems:
        if e >= 2**31:
            if rng.random() < 0.25:
                s = str(e)                      # raw index >= 2^31
            else:
                s = str(e - 2**31) + rng.choice(MARKERS)
        else:
            s = str(e)
        if rng.random() < 0.2:
            s = "0" * rng.randrange(1, 4) + s
        if rng.random() < 0.3:
            s = rng.choice(SPACES) + s
        if rng.random() < 0.3:
            s = s + rng.choice(SPACES)
        parts.append(s)
    out = ("/" * (rng.randrange(1, 3) if rng.random() < 0.15 else 0) + "m") if absolute else ""
    for p in parts:
        out += "/" * (1 if rng.random() < 0.8 else rng.randrange(2, 4)) + p
    if not absolute:
        out = out.lstrip("/") if rng.random() < 0.7 else out
    if rng.random() < 0.2:
        out += "/"
    return out


def gen(rng, tier):
    n = 1500 if tier == "quick" else 60000
    for i in range(n):
        ln = rng.choice([0, 1, 2, 3, 5, 8, 20]) if rng.random() < 0.8 else rng.randrange(0, 21)
        elems = [rand_index(rng) for _ in range(ln)]
        ab = rng.random() < 0.6
        yield Case("printpath", [1 if ab else 0, nats(elems)], "print")
        yield Case("parsepath", [tx(Bip32Path(elems, ab).ToStr())], "parse-canonical")
        yield Case("parsepath", [tx(spell(rng, elems, ab))], "parse-spelling")
    for i in range(800 if tier == "quick" else 30000):
        # malformed stream
        k = rng.randrange(1, 5)
        parts = [rng.choice(ODD) if rng.random() < 0.5 else str(rand_index(rng, False)) + rng.choice(["", "'", "h", "p"]) for _ in range(k)]
        s = ("m/" if rng.random() < 0.5 else "") + "/".join(parts)
        yield Case("parsepath", [tx(s)], "neg-malformed")
    for s in ODD + ["m", "m/", "/", "", "m//", "/m", "m/m", " m/0", "m /0", "m/0/m"]:
        yield Case("parsepath", [tx(s)], "neg-malformed")
        yield Case("parsepath", [tx("m/" + s)], "neg-malformed")
    # derivations through textual paths on real keys
    for i in range(40 if tier == "quick" else 1500):
        c = ("secp256k1", "nist256p1", "ed25519")[i % 3]
        seed = rand_seed(rng)
        ln = rng.randrange(0, 5)
        elems = [rand_index(rng, True if c == "ed25519" else None) for _ in range(ln)]
        yield Case("derivepathstr", [c, hx(seed), tx(spell(rng, elems, rng.random() < 0.7))], "derive-str")
    yield from gen_marker_structure(rng, tier)
    yield from gen_nodes(rng, tier)


def gen_marker_structure(rng, tier):
    """"a decimal number with AT MOST ONE hardened marker": the whole structure space around the marker, not a list of examples.
    Every ordered sequence of two and of three markers (3^2 + 3^3, so every order in which a parser could meet them), random longer ones,
    markers separated from each other or from the number by blanks, markers before or inside the number, upper-case look-alikes — each after
    several numbers (0, small, 2^31-1, above 2^31), as the only element, the first, an inner and the last one of a relative and of an absolute
    path, with and without blanks around the element.  The model decides (all but the single-marker controls are path errors); the same
    strings are also given to DerivePath on real keys of three curves, so that an accepted element shows as a derived key."""
    import itertools
    seqs = [t for k in (2, 3) for t in itertools.product(MARKERS, repeat=k)]
    seqs += [tuple(rng.choice(MARKERS) for _ in range(rng.randrange(4, 7))) for _ in range(6 if tier == "quick" else 60)]
    nums = ["0", "44", "2147483647", "1", "7", "2147483648", "00"]

    def contexts(elem):
        a, b = str(rand_index(rng, False)), str(rand_index(rng, False)) + rng.choice(["", "'", "h", "p"])
        return [elem, "m/" + elem, "m/%s/%s/%s" % (a, elem, b), "%s/%s" % (elem, b), "m/%s/%s" % (b, elem), " %s /%s" % (elem, a), "m/%s/ %s" % (a, elem)]

    nder = 0
    for si, seq in enumerate(seqs):
        for num in (nums if tier == "thorough" else [nums[si % 3], rng.choice(nums)]):
            elem = num + "".join(seq)
            ctx = contexts(elem)
            for s in (ctx if tier == "thorough" else [ctx[0], ctx[1], rng.choice(ctx[2:]), rng.choice(ctx[2:])]):
                yield Case("parsepath", [tx(s)], "neg-marker-structure")
            c = ("secp256k1", "nist256p1", "ed25519")[nder % 3]
            nder += 1
            yield Case("derivepathstr", [c, hx(rand_seed(rng)), tx(rng.choice(ctx[:3]))], "neg-marker-structure-derive")
    # the same marker material in other places of the element
    for i in range(60 if tier == "quick" else 2000):
        num = rng.choice(nums)
        m1, m2 = rng.choice(MARKERS), rng.choice(MARKERS)
        sp = rng.choice(SPACES)
        elem = rng.choice([num + m1 + sp + m2, num + sp + m1, num + sp + m1 + m2, m1 + num, m1 + num + m2, num[:1] + m1 + num[1:] + "5", num + m1.upper() + m2,
                           num + m1 + m2.upper(), m1 + m2, m1 + sp + num, num + m1 + num + m2, num + m1 + "/" + m2, num + m1 + sp])
        for s in rng.sample(contexts(elem), 2):
            yield Case("parsepath", [tx(s)], "neg-marker-structure")
    for num in nums[:4]:          # controls: exactly one marker is the hardened index, in every context
        for m1 in MARKERS:
            for s in contexts(num + m1)[:4]:
                yield Case("parsepath", [tx(s)], "parse-spelling")


def gen_nodes(rng, tier):
    """keys built from raw fields (any depth / index / parent fingerprint, e.g. re-imported with a zeroed fingerprint) and a textual
    path: an absolute path is refused whenever depth > 0, whatever the fingerprint says."""
    from harness.props.bip32_common import ORDER
    for i in range(60 if tier == "quick" else 2000):
        c = ("secp256k1", "nist256p1", "ed25519")[i % 3]
        k = rng.randrange(1, ORDER[c]).to_bytes(32, "big") if c in ORDER else bytes(rng.randrange(256) for _ in range(32))
        cc = bytes(rng.randrange(256) for _ in range(32))
        depth = rng.choice([0, 0, 1, 2, 3, 5, 254, 255])
        fp = bytes(4) if rng.random() < 0.6 else bytes(rng.randrange(256) for _ in range(4))
        idx = 0 if rng.random() < 0.5 else rand_index(rng)
        elems = [rand_index(rng, True if c == "ed25519" else None) for _ in range(rng.randrange(0, 3))]
        ab = rng.random() < 0.6
        yield Case("nodepath", [c, hx(k), hx(cc), depth, idx, hx(fp), tx(spell(rng, elems, ab))],
                   "node-abs" if ab and depth > 0 else "node-path")
    # Substrate junction paths: parse/print and derivation, blanks and Unicode inside junction names included (they are significant)
    for sp in ["", "/a", "//hard/soft", "/a ", " /a", "//polkadot//0 ", "//polkadot//0 /1", "/7 ", "/a\n", "/a\t/b", "\u00a0/a", "/a\u3000", " ", "/ ", "// /x", "/a/", "a/b"]:
        yield Case("subpath", [tx(sp)], "substrate-parse")
    for _ in range(60 if tier == "quick" else 3000):
        yield Case("subpath", [tx(_c19.rand_path(rng) + rng.choice(["", "", " ", "\n", "/"]))], "substrate-parse")
    for i in range(8 if tier == "quick" else 300):
        seed = bytes(rng.randrange(256) for _ in range(32))
        path = "".join(rng.choice(["/", "//"]) + rng.choice(["a ", " a", "7 ", "0", "alice", "12\u2003", "x\n", "stash"]) for _ in range(rng.randrange(1, 4)))
        yield Case("substrate", ["seed", hx(seed), "POLKADOT", tx(path), 99], "substrate-derive")


def relations(rng, tier, rpt):
    """compositionality, spelling independence, parent unchanged, absolute path on child refused — on the implementation."""
    bad = []
    n = 0

    def rep(what, inp, got, want):
        bad.append({"property": "C06", "entry_point": what, "request_lines": [], "relation": what, "input": inp,
                    "impl_output": got, "model_output": want, "no_failing_input": False})

    for i in range(25 if tier == "quick" else 700):
        c = ("secp256k1", "nist256p1", "ed25519")[i % 3]
        seed = rand_seed(rng)
        hard = True if c == "ed25519" else None
        p = [rand_index(rng, hard) for _ in range(rng.randrange(0, 4))]
        q = [rand_index(rng, hard) for _ in range(rng.randrange(0, 4))]
        m = CLS[c].FromSeed(seed)
        before = node_out(m)
        a = node_out(m.DerivePath(Bip32Path(p, False)).DerivePath(Bip32Path(q, False)))
        b = node_out(m.DerivePath(Bip32Path(p + q, True)))
        x = m
        for e in p + q:
            x = x.ChildKey(e)
        cc = node_out(x)
        s1, s2 = spell(rng, p + q, True), spell(rng, p + q, False)
        d1, d2 = node_out(m.DerivePath(s1)), node_out(m.DerivePath(s2))
        n += 5
        if not (a == b == cc == d1 == d2):
            rep("derive p then q / p++q / child chain / two spellings disagree", "%s seed=%s p=%s q=%s %r %r" % (c, seed.hex(), p, q, s1, s2), "|".join([a, b, cc, d1, d2]), a)
        if node_out(m) != before:
            rep("parent object changed by derivation", seed.hex(), node_out(m), before)
        if p:
            child = m.ChildKey(p[0])
            try:
                child.DerivePath("m/0'")
                rep("absolute path accepted on a non-master key", seed.hex(), "ok", "err Value")
            except ValueError:
                pass
        # print/parse identity
        po = Bip32Path(p + q, i % 2 == 0)
        back = Bip32PathParser.Parse(po.ToStr())
        if back.ToList() != po.ToList() or back.IsAbsolute() != po.IsAbsolute():
            rep("parse(print(p)) != p", po.ToStr(), str(back.ToList()), str(po.ToList()))
        # path objects are compositional too: p extended element by element (ints and index objects) is the path p++q of the SAME kind
        # (absolute/relative), prints and re-parses as such, leaves its receiver unchanged and derives the same key
        from bip_utils import Bip32KeyIndex
        for absolute in (False, True):
            for start in (Bip32Path(p, absolute), Bip32PathParser.Parse(Bip32Path(p, absolute).ToStr())):
                ext = start
                for k, e in enumerate(q):
                    ext = ext.AddElem(e if k % 2 == 0 else Bip32KeyIndex(e))
                want = Bip32Path(p + q, absolute)
                n += 1
                if (ext.ToList(), ext.IsAbsolute(), ext.ToStr(), ext.Length()) != (want.ToList(), absolute, want.ToStr(), len(p + q)):
                    rep("Bip32Path.AddElem: p extended by the elements of q is not the path p++q of the same kind",
                        "p=%s q=%s absolute=%s" % (p, q, absolute), str((ext.ToList(), ext.IsAbsolute(), ext.ToStr())), str((want.ToList(), absolute, want.ToStr())))
                if (start.ToList(), start.IsAbsolute()) != (p, absolute):
                    rep("Bip32Path.AddElem changed its receiver", "p=%s q=%s" % (p, q), str((start.ToList(), start.IsAbsolute())), str((p, absolute)))
                rp = Bip32PathParser.Parse(ext.ToStr())
                if rp.ToList() != p + q or rp.IsAbsolute() != absolute:
                    rep("parse(print(p.AddElem…)) != p++q", ext.ToStr(), str((rp.ToList(), rp.IsAbsolute())), str((p + q, absolute)))
        if p:
            child = m.DerivePath(Bip32Path(p, False))
            rel = Bip32Path([], False)
            for e in q:
                rel = rel.AddElem(e)
            try:
                got = node_out(child.DerivePath(rel))
            except Exception as ex:  # noqa
                got = "raised " + type(ex).__name__
            if got != a:
                rep("a relative path built with AddElem does not derive like q on a child key", "%s seed=%s p=%s q=%s" % (c, seed.hex(), p, q), got, a)
    # compositionality of the WHOLE object (extended keys under non-default version bytes included), through private and public splits
    from harness.props.c05 import key_net_versions
    from bip_utils import Bip32KeyNetVersions
    kvs = [Bip32KeyNetVersions(a, b) for a, b in key_net_versions()]
    for i in range(8 if tier == "quick" else 200):
        c = ("secp256k1", "nist256p1")[i % 2]
        kv = kvs[rng.randrange(len(kvs))]
        m = CLS[c].FromSeed(rand_seed(rng), kv)
        pq = [rand_index(rng, False) for _ in range(rng.randrange(2, 5))]
        cut = rng.randrange(1, len(pq))

        def full(o):
            return node_out(o) + " " + o.PublicKey().ToExtended() + " " + (o.PrivateKey().ToExtended() if not o.IsPublicOnly() else "-") + " " + o.KeyNetVersions().Public().hex()
        whole = m.DerivePath(Bip32Path(pq, False))
        a = m.DerivePath(Bip32Path(pq[:cut], False)).DerivePath(Bip32Path(pq[cut:], False))
        n += 1
        if full(a) != full(whole):
            rep("p then q differs from p++q under non-default key net versions (private)", "%s %s" % (c, pq), full(a)[-140:], full(whole)[-140:])
        mid = m.DerivePath(Bip32Path(pq[:cut], False))
        mid.ConvertToPublic()
        b = mid.DerivePath(Bip32Path(pq[cut:], False))
        wp = whole.PublicKey().ToExtended()
        if b.PublicKey().ToExtended() != wp or b.KeyNetVersions().Public() != kv.Public():
            rep("p then (public) q differs from p++q under non-default key net versions: the publicly derived child does not carry the parent's version bytes",
                "%s %s versions=%s" % (c, pq, kv.Public().hex()), b.PublicKey().ToExtended(), wp)
    # derived objects are independent of each other and of later changes to their siblings: converting one child to public-only must not
    # change what the parent hands out next, and "p then q" keeps working through an index whose child was converted
    from bip_utils import Bip32KholawEd25519
    for i in range(8 if tier == "quick" else 200):
        c = ("secp256k1", "nist256p1", "ed25519", "kholaw")[i % 4]
        cls = CLS[c] if c in CLS else Bip32KholawEd25519
        hard = c == "ed25519"
        m = cls.FromSeed(rand_seed(rng)[:32].ljust(32, b"\x01"))
        i1 = rand_index(rng, True if hard else None)
        i2 = rand_index(rng, True)
        ref = node_out(m.ChildKey(i1).ChildKey(i2))
        ch = m.ChildKey(i1)
        ch.ConvertToPublic()                       # the caller neuters ITS child object
        n += 1
        again = m.ChildKey(i1)
        if again.IsPublicOnly():
            rep("converting a derived child to public-only changed what the parent derives for the same index", "%s idx=%d" % (c, i1), "public-only", "private child")
        for what, f in (("ChildKey chain", lambda: m.ChildKey(i1).ChildKey(i2)), ("DerivePath", lambda: m.DerivePath(Bip32Path([i1, i2], False)))):
            try:
                got = node_out(f())
            except Exception as ex:  # noqa
                got = type(ex).__name__
            if got != ref:
                rep("p then q through an index whose child object was converted to public-only differs (%s)" % what, "%s %d/%d" % (c, i1, i2), got, ref)
        two = m.ChildKey(i1)
        if two is again:
            rep("two derivations of the same index return the same object (changes to one affect the other)", "%s idx=%d" % (c, i1), "same object", "independent objects")
    # the same clauses for the Substrate wrapper (junction paths): parent object (key and path) unchanged by derivation, siblings
    # independent of each other, p then q == p++q == chain of single junctions (keys and reported paths)
    from bip_utils import Substrate, SubstrateCoins, SubstratePath, SubstratePathElem

    def sview(o):
        return (o.PublicKey().RawCompressed().ToBytes().hex(), o.Path().ToStr(), o.IsPublicOnly())
    for i in range(12 if tier == "quick" else 300):
        seed = bytes(rng.randrange(256) for _ in range(32))
        parent = Substrate.FromSeed(seed, SubstrateCoins.POLKADOT)
        if i % 3 == 0:
            parent = parent.ChildKey("//base")
        if i % 4 == 3:
            parent.ConvertToPublic()
        before = sview(parent)
        j1, j2, j3 = "/a%d" % rng.randrange(100), "/%d" % rng.randrange(10**6), "/stash"
        if i % 2:      # junction names are any slash-free text: blanks, digits with blanks, Unicode are significant characters
            j1, j2, j3 = (rng.choice(["/"] if parent.IsPublicOnly() else ["/", "//"]) + rng.choice(["a ", " a", "7 ", " 7", "a\t", "0 ", "x\n", "\u00a0b", "12\u2003", "polkadot ", " "]) for _ in range(3))
        c1 = sview(parent.ChildKey(j1))
        c2 = sview(parent.ChildKey(j2))
        c2_fresh_order = sview(parent.ChildKey(j2))
        c1_again = sview(parent.ChildKey(j1))
        n += 1
        if sview(parent) != before:
            rep("Substrate parent object changed by deriving children", seed.hex(), str(sview(parent)), str(before))
        if c1 != c1_again or c2 != c2_fresh_order or not c2[1].endswith(j2) or c2[1] != before[1] + j2:
            rep("a Substrate child depends on the siblings derived before it", "%s %s %s" % (seed.hex(), j1, j2), str((c1_again, c2)), str((c1, (c2[0], before[1] + j2, c2[2]))))
        a = sview(parent.DerivePath(j1 + j2).DerivePath(j3))
        b = sview(parent.DerivePath(j1 + j2 + j3))
        c = sview(parent.ChildKey(j1).ChildKey(j2).ChildKey(j3))
        if not (a == b == c):
            rep("Substrate: derive p then q / p++q / junction chain disagree", "%s %s" % (seed.hex(), j1 + j2 + j3), str((a, b, c)), str(a))
        # single-element APIs accept exactly one junction: text with a further slash is a path, not an element
        for bad_elem in (j1 + j2, j1 + "/", "/a/b", "//a/b", "/a//b", "a", "", "/", "//", "///a"):
            for what, f in (("SubstratePathElem", lambda: SubstratePathElem(bad_elem)), ("Substrate.ChildKey", lambda: parent.ChildKey(bad_elem)),
                            ("SubstratePath([elem])", lambda: SubstratePath([bad_elem])), ("SubstratePath.AddElem", lambda: SubstratePath().AddElem(bad_elem))):
                try:
                    r = f()
                    rep("%s accepts %r, which is not a single junction" % (what, bad_elem), bad_elem, str(getattr(r, "ToStr", lambda: r)() if hasattr(r, "ToStr") else "ok"), "SubstratePathError")
                except Exception as ex:  # noqa
                    if type(ex).__name__ != "SubstratePathError":
                        rep("%s refuses %r with the wrong error" % (what, bad_elem), bad_elem, type(ex).__name__, "SubstratePathError")
        pth = SubstratePath([SubstratePathElem(j1)])
        p_before = pth.ToStr()
        q1, q2 = pth.AddElem(j2).ToStr(), pth.AddElem(j3).ToStr()
        if pth.ToStr() != p_before or q1 != j1 + j2 or q2 != j1 + j3:
            rep("SubstratePath.AddElem changes its receiver", j1, str((pth.ToStr(), q1, q2)), str((p_before, j1 + j2, j1 + j3)))
    from harness.props.accessors_common import bip32_utils_clauses
    for what, inp, got, want in bip32_utils_clauses(rng):
        rep(what, inp, got, want)
    rpt.extra["impl_relation_checks"] = n
    return bad[:5]
