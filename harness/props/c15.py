"""C15 — results depend only on arguments, not on history, caches, threads or toggles.

Random histories over a catalogue of operations on SHARED long-lived objects (derivations for several coins, cached look-ups,
failed calls, word-list loads, toggle set/restore, ConvertToPublic at any point). Every observation is compared with the
Lean model evaluated on the pure description of that observation (coin, seed, operation list, toggle position) — the model
has no state, so any dependence on history shows up as a disagreement. The same observations are then repeated (a) from
several threads with a minimal switch interval and (b) in fresh interpreters; caller-supplied mutable arguments and parent
objects are compared before/after each call."""
import copy, json, os, subprocess, sys, threading
from harness.core import Case, VERIF
from harness.canon import hx, tx, unhx, untx, exc_kind
from harness.props.bip44_common import IMPL as B44_IMPL, FAM, apply_op, b44_out, Toggle
from harness.props.c07 import pre_build as _pre07


def pre_build():
    from gen import gen_caches
    _pre07()
    gen_caches.main()
from bip_utils import (Bip39MnemonicDecoder, Bip39MnemonicEncoder, Bip39Languages, MoneroMnemonicEncoder, MoneroLanguages, Bip32Path,
                       Bip39Mnemonic, SplToken, Bip44Changes)
from bip_utils.utils.misc.cbor_indefinite_len_array import CborIndefiniteLenArrayEncoder

LEAN_MODULES = ["BipVerif.Props.C15"]
IMPL = dict(B44_IMPL)

COINS = [("Bip44", "BITCOIN"), ("Bip44", "BITCOIN_CASH"), ("Bip44", "LITECOIN"), ("Bip44", "ETHEREUM"), ("Bip44", "SOLANA"), ("Bip49", "BITCOIN_CASH"),
         ("Bip84", "LITECOIN"), ("Bip44", "CARDANO_BYRON_ICARUS"), ("Cip1852", "CARDANO_ICARUS"), ("Bip86", "BITCOIN"), ("Bip44", "NEO"), ("Bip44", "DOGECOIN")]
TOGGLES = {"BITCOIN_CASH": ["legacy"], "LITECOIN": ["depraddr"]}   # address toggles are read at call time; the key-net-version toggle is captured at construction (covered by C08 rows)
SEEDS = [bytes([i]) * 32 for i in (1, 2, 3)]
STEPS = ["P", "C", "A0", "X0", "I0"]


class World:
    """shared objects + the pure description of each"""
    def __init__(self):
        self.objs = {}        # key -> (impl object, fam, mem, seed, ops list)
        self.variant = {}     # (fam, mem) -> active toggle or ""

    def conf(self, fam, mem):
        cls, en, getter = FAM[fam]
        return getter.GetConfig(en[mem])

    def master(self, fam, mem, si):
        key = (fam, mem, si, ())
        if key not in self.objs:
            cls, en, _ = FAM[fam]
            self.objs[key] = [cls.FromSeed(SEEDS[si], en[mem]), fam, mem, si, []]
        return key

    def derive(self, key, op):
        o, fam, mem, si, ops = self.objs[key]
        cls, en, _ = FAM[fam]
        nk = (fam, mem, si, tuple(ops + [op]))
        if op == "N":
            o.Bip32Object().ConvertToPublic()       # mutates the shared object in place
            ops.append("N")
            return key
        if nk not in self.objs:
            self.objs[nk] = [apply_op(cls, en[mem], o, op), fam, mem, si, ops + [op]]
        return nk

    def observe(self, key):
        o, fam, mem, si, ops = self.objs[key]
        try:
            return "ok " + b44_out(o)
        except Exception as ex:  # noqa
            return "err " + exc_kind(ex)

    def line(self, key):
        o, fam, mem, si, ops = self.objs[key]
        var = self.variant.get(mem, "") or "-"
        if var != "-" and not Toggle(self.conf(fam, mem), var).supported():
            var = "-"          # this family's configuration has no such toggle
        return "bip44 %s %s %s %s %s" % (fam, mem, var, hx(SEEDS[si]), ",".join(ops) if ops else "-")


def run_history(rng, length, record):
    """execute one random history; record(line, impl_observation)"""
    w = World()
    keys = []
    try:
        for step in range(length):
            r = rng.random()
            if r < 0.35 or not keys:
                fam, mem = COINS[rng.randrange(len(COINS))]
                k = w.master(fam, mem, rng.randrange(len(SEEDS)))
                depth = rng.randrange(0, 6)
                try:
                    for s in STEPS[:depth]:
                        s2 = s if s[0] not in "AI" else s[0] + str(rng.choice([0, 1, 7]))
                        k = w.derive(k, s2)
                except Exception:  # noqa
                    pass
                keys.append(k)
                record(w.line(k), w.observe(k))
            elif r < 0.5:        # observe an old object again (cached look-ups)
                k = rng.choice(keys)
                record(w.line(k), w.observe(k))
            elif r < 0.6:        # failed call on a shared object
                k = rng.choice(keys)
                try:
                    w.derive(k, rng.choice(["P", "C", "X0", "I0", "A4294967296"]))
                except Exception:  # noqa
                    pass
                record(w.line(k), w.observe(k))
            elif r < 0.72:       # toggle set / restored around observations
                mem = rng.choice(list(TOGGLES))
                t = rng.choice(TOGGLES[mem])
                fams = [f for f, m in COINS if m == mem]
                confs = [w.conf(f, mem) for f in fams]
                cand = [k for k in keys if w.objs[k][2] == mem]
                for c in confs:
                    Toggle(c, t)._set(True)
                w.variant[mem] = t
                # only the matching family's rows carry this variant; observe those
                for k in cand[:3]:
                    record(w.line(k), w.observe(k))
                for c in confs:
                    Toggle(c, t)._set(False)
                w.variant[mem] = ""
                for k in cand[:3]:
                    record(w.line(k), w.observe(k))
            elif r < 0.82:       # conversion to public-only at an arbitrary point
                k = rng.choice(keys)
                if w.objs[k][4] and w.objs[k][4][-1] != "N":
                    before = w.observe(k)
                    w.derive(k, "N")
                    record(w.line(k), w.observe(k))
            elif r < 0.9:        # unrelated work: word-list loads in other languages, other decoders
                lang = rng.choice(list(Bip39Languages))
                m = Bip39MnemonicEncoder(lang).Encode(bytes(rng.randrange(256) for _ in range(16)))
                assert Bip39MnemonicDecoder().Decode(m.ToStr()) is not None
                MoneroMnemonicEncoder(rng.choice(list(MoneroLanguages))).EncodeNoChecksum(bytes(16))
            else:                # derive a child and check the parent is unchanged
                k = rng.choice(keys)
                before = w.observe(k)
                try:
                    w.derive(k, rng.choice(["P", "C", "A1", "X1", "I5"]))
                except Exception:  # noqa
                    pass
                after = w.observe(k)
                record(w.line(k), after)
                if before != after:
                    record("PARENT-CHANGED " + w.line(k), before + " -> " + after)
    finally:
        for mem, ts in TOGGLES.items():
            for f in [f for f, m in COINS if m == mem]:
                for t in ts:
                    Toggle(w.conf(f, mem), t)._set(False)
    return w


OBS = {}     # request line -> implementation observations (all of them must agree with the model)


def gen(rng, tier):
    n_hist = 12 if tier == "quick" else 300
    for h in range(n_hist):
        recs = []
        run_history(rng, 40, lambda l, o: recs.append((l, o)))
        for l, o in recs:
            if l.startswith("PARENT-CHANGED"):
                OBS.setdefault(l, []).append(o)
                continue
            OBS.setdefault(l, []).append(o)
    for l in list(OBS):
        if l.startswith("PARENT-CHANGED"):
            continue
        parts = l.split(" ")
        fam, mem, var = parts[1], parts[2], parts[3]
        # rows exist only for variants configured for that family/member
        yield Case(parts[0], parts[1:], "history")


def _impl_from_history(*args):
    l = "bip44 " + " ".join(args)
    outs = OBS.get(l)
    if not outs:
        return B44_IMPL["bip44"](*args)
    first = outs[0]
    for o in outs:
        if o != first:
            return "HISTORY-DEPENDENT " + first[:60] + " | " + o[:60]
    return "\x00" + first


IMPL["bip44"] = _impl_from_history


def relations(rng, tier, rpt):
    bad = []

    def rep(what, inp, got, want):
        bad.append({"property": "C15", "entry_point": what, "request_lines": [], "relation": what, "input": inp,
                    "impl_output": got, "model_output": want, "no_failing_input": False})

    for l, outs in OBS.items():
        if l.startswith("PARENT-CHANGED"):
            rep("a parent object changed when a child was derived from it", l, outs[0], "unchanged")
    # (a) threads: the same observations from 4 threads with a minimal switch interval
    lines = [l for l in OBS if not l.startswith("PARENT")][: (60 if tier == "quick" else 600)]
    single = {}
    for l in lines:
        a = l.split(" ")[1:]
        try:
            single[l] = "ok " + B44_IMPL["bip44"](*a)
        except Exception as ex:  # noqa
            single[l] = "err " + exc_kind(ex)
    old = sys.getswitchinterval()
    sys.setswitchinterval(1e-6)
    results = [dict() for _ in range(4)]

    def worker(i):
        for l in lines[i::2] + lines[(i + 1) % 2::2]:
            a = l.split(" ")[1:]
            try:
                results[i][l] = "ok " + B44_IMPL["bip44"](*a)
            except Exception as ex:  # noqa
                results[i][l] = "err " + exc_kind(ex)
    # toggles are process-global: the threaded run uses toggle-free observations only
    lines_t = [l for l in lines if l.split(" ")[3] == "-"]
    lines, keep = lines_t, lines
    ths = [threading.Thread(target=worker, args=(i,)) for i in range(4)]
    for t in ths:
        t.start()
    for t in ths:
        t.join()
    sys.setswitchinterval(old)
    for i in range(4):
        for l, v in results[i].items():
            if v != single[l]:
                rep("result differs when computed concurrently from several threads", l, v, single[l])
    rpt.extra["threaded_observations"] = sum(len(r) for r in results)
    # (b) fresh interpreters
    nproc = 6 if tier == "quick" else 60
    sample = rng.sample(keep, min(len(keep), nproc * 4))
    n_fresh = 0
    for i in range(0, len(sample), 4):
        chunk = sample[i:i + 4]
        code = ("import sys, json\nsys.path.insert(0, %r)\nfrom harness.props.bip44_common import IMPL\nfrom harness.canon import exc_kind\nout=[]\n"
                "for l in json.loads(sys.argv[1]):\n    a=l.split(' ')[1:]\n    try: out.append('ok '+IMPL['bip44'](*a))\n    except Exception as ex: out.append('err '+exc_kind(ex))\nprint(json.dumps(out))\n") % VERIF
        p = subprocess.run([sys.executable, "-c", code, json.dumps(chunk)], stdout=subprocess.PIPE, stderr=subprocess.PIPE, text=True, timeout=300,
                           env=dict(os.environ, PYTHONPATH=VERIF + ":" + os.environ.get("VERIF_REPO", "/repo")))
        if p.returncode != 0:
            rep("fresh interpreter failed", chunk[0], p.stderr[-300:], "ok")
            continue
        for l, v in zip(chunk, json.loads(p.stdout.strip().split("\n")[-1])):
            n_fresh += 1
            if v != single[l]:
                rep("result differs in a fresh interpreter", l, single[l], v)
    rpt.extra["fresh_interpreter_observations"] = n_fresh
    # (b') order independence over the whole catalogue of public-API observations (harness/c15_catalogue.py): every entry's result as
    # the first call of a fresh interpreter is the reference; random histories (fresh interpreter each) and threaded runs must reproduce it
    bad += _reused_objects(rng, tier, rpt)
    bad += _thread_codec_stress(rng, tier, rpt)
    bad += _order_independence(rng, tier, rpt)
    # (c) caller-supplied mutable arguments are not mutated
    elems = [0, 2**31, 5]
    e0 = list(elems)
    Bip32Path(elems, True).AddElem(7)
    words = Bip39MnemonicEncoder().Encode(bytes(16)).ToList()
    w0 = list(words)
    Bip39MnemonicDecoder().Decode(Bip39Mnemonic.FromList(words))
    ints = [1, 2, 300]
    i0 = list(ints)
    CborIndefiniteLenArrayEncoder.Encode(ints)
    seeds = [bytes(32), bytes(3)]
    s0 = list(seeds)
    SplToken.FindPda(seeds, "ATokenGPvbdGVxr1b2hvZbsiqW5xWH25efTNsLJA8knL")
    # (c') a caller-supplied PATH OBJECT is an input too: after a call that failed part-way through it (a hardened element on a public-only
    #      object), or after a partial iteration by the caller, the same object still denotes the same path — for Bip32Path and SubstratePath
    import bip_utils as _BU
    pobj = _BU.Bip32PathParser.Parse("m/0'/1'/2")
    p_list = pobj.ToList()
    m_priv = _BU.Bip32Slip10Secp256k1.FromSeed(bytes(range(16)))
    m_pub = _BU.Bip32Slip10Secp256k1.FromSeed(bytes(range(16)))
    m_pub.ConvertToPublic()
    want_po = m_priv.DerivePath("m/0'/1'/2").PublicKey().RawCompressed().ToHex()
    for r_ in range(2):
        try:
            m_pub.DerivePath(pobj)
        except Exception:  # noqa  (refused at the first hardened element)
            pass
        it_ = iter(pobj)
        next(it_)                      # the caller looks at the first element only
        got_po = _BU.Bip32Slip10Secp256k1.FromSeed(bytes(range(16))).DerivePath(pobj).PublicKey().RawCompressed().ToHex()
        if got_po != want_po or pobj.ToList() != p_list or [int(e) for e in pobj] != p_list or pobj.Length() != 3:
            rep("a Bip32Path object re-used after a call that failed part-way (and a partial iteration) no longer denotes the same path",
                "m/0'/1'/2 round %d" % r_, "%s list=%s iter=%s" % (got_po, pobj.ToList(), [int(e) for e in pobj]), "%s list=%s" % (want_po, p_list))
            break
    sp_obj = _BU.SubstratePathParser.Parse("/soft//hard/x")
    sp_txt = sp_obj.ToStr()
    s_pub = _BU.Substrate.FromSeed(bytes(range(32)), _BU.SubstrateCoins.POLKADOT)
    s_pub.ConvertToPublic()
    want_sp = _BU.Substrate.FromSeed(bytes(range(32)), _BU.SubstrateCoins.POLKADOT).DerivePath("/soft//hard/x").PublicKey().RawCompressed().ToHex()
    for r_ in range(2):
        try:
            s_pub.DerivePath(sp_obj)
        except Exception:  # noqa
            pass
        next(iter(sp_obj))
        got_sp = _BU.Substrate.FromSeed(bytes(range(32)), _BU.SubstrateCoins.POLKADOT).DerivePath(sp_obj).PublicKey().RawCompressed().ToHex()
        if got_sp != want_sp or sp_obj.ToStr() != sp_txt or "".join(e.ToStr() for e in sp_obj) != sp_txt:
            rep("a SubstratePath object re-used after a call that failed part-way no longer denotes the same path", sp_txt,
                "%s %s" % (got_sp, sp_obj.ToStr()), "%s %s" % (want_sp, sp_txt))
            break
    # (d) parent objects are not mutated by deriving children (every wrapper with a derivation method): observable state before == after,
    #     and a child derived after its siblings equals the child derived first
    from bip_utils import (Substrate, SubstrateCoins, Bip32Slip10Secp256k1, Bip32KholawEd25519, Bip44, Bip44Coins, Cip1852, Cip1852Coins, CardanoShelley, Monero,
                           ElectrumV1, ElectrumV2Standard, SubstratePath, SubstratePathElem)
    sd = bytes(range(1, 33))

    def st_sub(o):
        return (o.PublicKey().RawCompressed().ToBytes(), o.Path().ToStr(), o.IsPublicOnly())

    def st_b32(o):
        return (o.PublicKey().RawCompressed().ToBytes(), o.ChainCode().ToBytes(), int(o.Depth()), int(o.Index()), o.ParentFingerPrint().ToBytes(), o.IsPublicOnly())

    def st_b44(o):
        return st_b32(o.Bip32Object()) + (int(o.Level()),)
    acc = Cip1852.FromSeed(sd, Cip1852Coins.CARDANO_ICARUS).Purpose().Coin().Account(0)
    parents = [
        ("Substrate", Substrate.FromSeed(sd, SubstrateCoins.POLKADOT).ChildKey("//p"), st_sub, [lambda o: o.ChildKey("/a"), lambda o: o.ChildKey("//b"), lambda o: o.DerivePath("/c//d")]),
        ("Bip32Slip10Secp256k1", Bip32Slip10Secp256k1.FromSeed(sd).ChildKey(3), st_b32, [lambda o: o.ChildKey(0), lambda o: o.ChildKey(2**31 + 1), lambda o: o.DerivePath("5/6'")]),
        ("Bip32KholawEd25519", Bip32KholawEd25519.FromSeed(sd), st_b32, [lambda o: o.ChildKey(0), lambda o: o.ChildKey(2**31), lambda o: o.DerivePath("1/2")]),
        ("Bip44 account", Bip44.FromSeed(sd, Bip44Coins.LITECOIN).Purpose().Coin().Account(0), st_b44, [lambda o: o.Change(Bip44Changes.CHAIN_EXT), lambda o: o.Change(Bip44Changes.CHAIN_INT)]),
        ("Cip1852 account", acc, st_b44, [lambda o: o.Change(Bip44Changes.CHAIN_EXT), lambda o: CardanoShelley.FromCip1852Object(o).Change(Bip44Changes.CHAIN_EXT).AddressIndex(0)]),
    ]
    n_par = 0
    for name, par, view, kids in parents:
        before = view(par)
        first = []
        for kfun in kids:
            k = kfun(par)
            first.append(repr(k.PublicKey().RawCompressed().ToBytes() if hasattr(k, "PublicKey") and not hasattr(k, "PublicKeys") else k.PublicKeys().AddressKey().RawCompressed().ToBytes()) +
                         (k.Path().ToStr() if hasattr(k, "Path") else ""))
        again = []
        for kfun in reversed(kids):
            k = kfun(par)
            again.append(repr(k.PublicKey().RawCompressed().ToBytes() if hasattr(k, "PublicKey") and not hasattr(k, "PublicKeys") else k.PublicKeys().AddressKey().RawCompressed().ToBytes()) +
                         (k.Path().ToStr() if hasattr(k, "Path") else ""))
        n_par += 1
        if view(par) != before:
            rep("%s: the parent object changed when children were derived from it" % name, name, str(view(par)), str(before))
        if first != again[::-1]:
            rep("%s: a child depends on the siblings derived before it" % name, name, str(again[::-1]), str(first))
    pth = SubstratePath([SubstratePathElem("/x")])
    q1, q2 = pth.AddElem("/y").ToStr(), pth.AddElem("//z").ToStr()
    if (pth.ToStr(), q1, q2) != ("/x", "/x/y", "/x//z"):
        rep("SubstratePath.AddElem changes its receiver", "/x", str((pth.ToStr(), q1, q2)), "('/x', '/x/y', '/x//z')")
    b32p = Bip32Path([1, 2], True)
    r1, r2 = b32p.AddElem(3).ToList(), b32p.AddElem(4).ToList()
    if (b32p.ToList(), r1, r2) != ([1, 2], [1, 2, 3], [1, 2, 4]):
        rep("Bip32Path.AddElem changes its receiver", "m/1/2", str((b32p.ToList(), r1, r2)), "([1, 2], [1, 2, 3], [1, 2, 4])")
    rpt.extra["parent_unchanged_checks"] = n_par
    # (e) mnemonic objects and word lists handed to decoders / validators / seed generators are left as they were, whether the call
    #     succeeds or fails, and asking twice gives the same answer
    from bip_utils import (Bip39MnemonicValidator, Bip39SeedGenerator, MoneroMnemonicDecoder, MoneroMnemonicValidator, MoneroSeedGenerator, MoneroMnemonic,
                           AlgorandMnemonicEncoder, AlgorandMnemonicDecoder, AlgorandMnemonic, ElectrumV1MnemonicEncoder, ElectrumV1MnemonicDecoder, ElectrumV1Mnemonic,
                           ElectrumV2MnemonicGenerator, ElectrumV2MnemonicDecoder, ElectrumV2MnemonicTypes, ElectrumV2Mnemonic)
    from bip_utils.utils.mnemonic import Mnemonic
    e32 = bytes(range(32))
    phrases = [
        ("Bip39", Bip39Mnemonic, Bip39MnemonicEncoder().Encode(e32).ToList(), [lambda m: Bip39MnemonicDecoder().Decode(m), lambda m: Bip39MnemonicValidator().IsValid(m), lambda m: Bip39SeedGenerator(m).Generate()]),
        ("Monero25", MoneroMnemonic, MoneroMnemonicEncoder().EncodeWithChecksum(e32).ToList(), [lambda m: MoneroMnemonicDecoder().Decode(m), lambda m: MoneroMnemonicValidator().IsValid(m), lambda m: MoneroSeedGenerator(m).Generate()]),
        ("Monero13", MoneroMnemonic, MoneroMnemonicEncoder().EncodeWithChecksum(e32[:16]).ToList(), [lambda m: MoneroMnemonicDecoder().Decode(m), lambda m: MoneroMnemonicValidator().IsValid(m)]),
        ("Monero24", MoneroMnemonic, MoneroMnemonicEncoder().EncodeNoChecksum(e32).ToList(), [lambda m: MoneroMnemonicDecoder().Decode(m)]),
        ("Algorand", AlgorandMnemonic, AlgorandMnemonicEncoder().Encode(e32).ToList(), [lambda m: AlgorandMnemonicDecoder().Decode(m)]),
        ("ElectrumV1", ElectrumV1Mnemonic, ElectrumV1MnemonicEncoder().Encode(e32[:16]).ToList(), [lambda m: ElectrumV1MnemonicDecoder().Decode(m)]),
        ("ElectrumV2", ElectrumV2Mnemonic, ElectrumV2MnemonicGenerator(ElectrumV2MnemonicTypes.STANDARD).FromEntropy((1 << 131 | 777).to_bytes(17, "big")).ToList(),
         [lambda m: ElectrumV2MnemonicDecoder().Decode(m)]),
    ]
    n_mn = 0
    for name, mcls, good_words, fns in phrases:
        variants = [("valid", list(good_words)), ("last word wrong", list(good_words[:-1]) + [good_words[0]]), ("one word short", list(good_words[:-1]))]
        for vname, wlist in variants:
            for mk_name, mk in (("%s.FromList" % mcls.__name__, mcls.FromList), ("Mnemonic.FromList", Mnemonic.FromList)):
                for fi, fn in enumerate(fns):
                    caller_list = list(wlist)
                    obj = mk(caller_list)
                    before = (list(caller_list), obj.ToList(), obj.ToStr(), obj.WordsCount())
                    outs = []
                    for _ in range(2):
                        try:
                            r = fn(obj)
                            outs.append(r.hex() if isinstance(r, bytes) else str(r))
                        except Exception as ex:  # noqa
                            outs.append(type(ex).__name__)
                    after = (list(caller_list), obj.ToList(), obj.ToStr(), obj.WordsCount())
                    n_mn += 1
                    if after != before:
                        rep("%s: the caller's mnemonic object (or list) was modified by call #%d on a %s phrase given as %s" % (name, fi, vname, mk_name), " ".join(wlist), str(after[2]), str(before[2]))
                    elif outs[0] != outs[1]:
                        rep("%s: the same mnemonic object gives different answers when asked twice (call #%d, %s phrase)" % (name, fi, vname), " ".join(wlist), outs[1][:80], outs[0][:80])
    rpt.extra["mnemonic_object_checks"] = n_mn
    def run_(f):
        try:
            return f()
        except Exception as ex:  # noqa
            return "!" + type(ex).__name__

    # (f) an object converted to public-only behaves as public-only whatever was called on it before (every wrapper with ConvertToPublic)
    from bip_utils import Bip32KeyError
    conv = [("Bip32Slip10Secp256k1", lambda: Bip32Slip10Secp256k1.FromSeed(sd), [3, 2**31 + 3]), ("Bip32KholawEd25519", lambda: Bip32KholawEd25519.FromSeed(sd), [3, 2**31 + 3])]
    n_cv = 0
    for name, mk, idxs in conv:
        o = mk()
        kids_before = [o.ChildKey(i) for i in idxs]
        try:
            o.DerivePath("0/1")
        except Exception:  # noqa
            pass
        o.ConvertToPublic()
        n_cv += 1
        for i in idxs:
            try:
                k = o.ChildKey(i)
                if i >= 2**31:
                    rep("%s: after ConvertToPublic a hardened child (derived before the conversion) is still handed out" % name, str(i), "ok", "Bip32KeyError")
                elif not k.IsPublicOnly():
                    rep("%s: after ConvertToPublic a child derived before the conversion still holds a private key" % name, str(i), "private", "public-only")
            except Bip32KeyError:
                if i < 2**31:
                    rep("%s: after ConvertToPublic a soft child is refused" % name, str(i), "Bip32KeyError", "public child")
        if any(k.IsPublicOnly() for k in kids_before):
            rep("%s: converting the parent changed child objects derived earlier" % name, name, "public-only", "unchanged")
    # ... and through the wallet wrappers that hold a hierarchy object: after wallet.Bip32Object().ConvertToPublic() every private
    # accessor refuses with Bip32KeyError and every public accessor answers what it answered before, whether or not it was used earlier
    import bip_utils as _B
    ElectrumV2Segwit, ElectrumV2Standard, CardanoByronLegacy = _B.ElectrumV2Segwit, _B.ElectrumV2Standard, _B.CardanoByronLegacy
    el_priv = [("GetPrivateKey(0, 1)", lambda o: o.GetPrivateKey(0, 1)), ("GetPrivateKey(1, 7)", lambda o: o.GetPrivateKey(1, 7)), ("MasterPrivateKey()", lambda o: o.MasterPrivateKey())]
    el_pub = [("GetAddress(0, 1)", lambda o: o.GetAddress(0, 1)), ("MasterPublicKey()", lambda o: o.MasterPublicKey().RawCompressed().ToHex()),
              ("GetPublicKey(1, 2)", lambda o: o.GetPublicKey(1, 2).RawCompressed().ToHex())]
    b_priv = [("PrivateKey()", lambda o: o.PrivateKey().Raw().ToHex()), ("Change(EXT).PrivateKey()", lambda o: o.Change(Bip44Changes.CHAIN_EXT).PrivateKey().Raw().ToHex())]
    b_pub = [("PublicKey()", lambda o: o.PublicKey().RawCompressed().ToHex()),
             ("Change(EXT).AddressIndex(3).PublicKey()", lambda o: o.Change(Bip44Changes.CHAIN_EXT).AddressIndex(3).PublicKey().RawCompressed().ToHex())]
    by_priv = [("GetPrivateKey(0, 1)", lambda o: o.GetPrivateKey(0, 1).Raw().ToHex()), ("MasterPrivateKey()", lambda o: o.MasterPrivateKey().Raw().ToHex())]
    by_pub = [("MasterPublicKey()", lambda o: o.MasterPublicKey().RawCompressed().ToHex())]
    wrappers = [("ElectrumV2Segwit", lambda: ElectrumV2Segwit(Bip32Slip10Secp256k1.FromSeed(sd)), el_priv, el_pub),
                ("ElectrumV2Standard", lambda: ElectrumV2Standard(Bip32Slip10Secp256k1.FromSeed(sd)), el_priv, el_pub),
                ("CardanoByronLegacy", lambda: CardanoByronLegacy.FromSeed(sd[:32]), by_priv, by_pub)]
    for cls, coin in ((_B.Bip44, _B.Bip44Coins.BITCOIN), (_B.Bip44, _B.Bip44Coins.ETHEREUM), (_B.Bip49, _B.Bip49Coins.LITECOIN), (_B.Bip84, _B.Bip84Coins.BITCOIN),
                      (_B.Bip86, _B.Bip86Coins.BITCOIN), (_B.Cip1852, _B.Cip1852Coins.CARDANO_ICARUS), (_B.Bip44, _B.Bip44Coins.SOLANA)):
        wrappers.append(("%s[%s] account" % (cls.__name__, coin.name), (lambda cls=cls, coin=coin: cls.FromSeed(sd, coin).Purpose().Coin().Account(0)), b_priv,
                         b_pub if coin != _B.Bip44Coins.SOLANA else b_pub[:1]))
    def mk_shelley():
        acc = _B.Cip1852.FromSeed(sd, _B.Cip1852Coins.CARDANO_ICARUS).Purpose().Coin().Account(0)
        sh = _B.CardanoShelley.FromCip1852Object(acc)
        sh.verif_account = acc          # the object the caller converts: the Shelley wrapper holds it (and a staking object derived from it)
        return sh
    sh_priv = [("StakingObject().PrivateKey()", lambda o: o.StakingObject().PrivateKey().Raw().ToHex()), ("RewardObject().PrivateKey()", lambda o: o.RewardObject().PrivateKey().Raw().ToHex()),
               ("Change(EXT).AddressIndex(0).PrivateKeys()", lambda o: o.Change(Bip44Changes.CHAIN_EXT).AddressIndex(0).PrivateKeys().AddressKey().Raw().ToHex())]
    sh_pub = [("StakingObject().PublicKey().ToAddress()", lambda o: o.StakingObject().PublicKey().ToAddress()),
              ("Change(EXT).AddressIndex(0).PublicKeys().ToAddress()", lambda o: o.Change(Bip44Changes.CHAIN_EXT).AddressIndex(0).PublicKeys().ToAddress())]
    wrappers.append(("CardanoShelley", mk_shelley, sh_priv, sh_pub))
    for wname, mk, privs, pubs in wrappers:
        for used_before in (True, False):
            o = mk()
            ref_pub = [run_(lambda: f(mk())) for _, f in pubs]
            if used_before:
                for _, f in privs + pubs:
                    run_(lambda: f(o))
            (o.verif_account if hasattr(o, "verif_account") else o).Bip32Object().ConvertToPublic()
            n_cv += 1
            for an, f in privs:
                r = run_(lambda: f(o))
                if r != "!Bip32KeyError":
                    rep("%s: after Bip32Object().ConvertToPublic() (%s earlier use) %s still answers" % (wname, "with" if used_before else "without", an), an, str(r)[:80], "Bip32KeyError")
            for (an, f), want in zip(pubs, ref_pub):
                r = run_(lambda: f(o))
                if r != want:
                    rep("%s: after Bip32Object().ConvertToPublic() %s changed" % (wname, an), an, str(r)[:80], str(want)[:80])
    rpt.extra["converted_after_use_checks"] = n_cv
    for name, a, b in (("Bip32Path(elems)", elems, e0), ("Mnemonic.FromList(words)", words, w0), ("CborIndefiniteLenArrayEncoder.Encode(list)", ints, i0),
                       ("SplToken.FindPda(seeds)", seeds, s0)):
        if a != b:
            rep("caller-supplied list mutated by " + name, str(b), str(a), str(b))
    return bad[:8]


def _reuse_pools(rng, tier):
    """per mnemonic family: the classes whose objects are reused (with the constructor argument lists to try: automatic detection first) and a
    pool of questions — valid sentences in several languages, sentences that fail (last word wrong, a word of no list, one word short, two
    languages mixed), sentences valid in two word lists, Mnemonic objects — and entropies of good and bad lengths for the encoders"""
    import bip_utils as B
    from harness.c15_catalogue import _shared_words
    quick = tier == "quick"

    def rb(n):
        return bytes(rng.randrange(256) for _ in range(n))

    def spoil(sentence):
        ws = sentence.split(" ")
        other = next(w for w in ws if w != ws[-1])
        return [" ".join(ws[:-1] + [other]), " ".join(ws[:-1]), " ".join(ws[:-1] + ["zzzzzz"])]

    def E(en, mem):
        return "E:%s.%s" % (en, mem.name)
    fams = []
    # BIP-39
    langs = list(B.Bip39Languages)
    pick = langs if not quick else rng.sample(langs, 5)
    sent = {l: [B.Bip39MnemonicEncoder(l).Encode(rb(rng.choice([16, 20, 24, 28, 32]))).ToStr() for _ in range(2)] for l in pick}
    qs = [x for l in pick for x in sent[l]] + [y for l in pick[:3] for y in spoil(sent[l][0])]
    a, b = sent[pick[0]][0].split(" "), sent[pick[1]][0].split(" ")
    qs.append(" ".join(a[:6] + b[6:12]))
    for la, lb in (("english", "french"), ("french", "english")):
        sw = _shared_words(la, lb)
        if sw:
            qs.append(sw)
    ctor = [[], [], [], [E("Bip39Languages", pick[0])], [E("Bip39Languages", pick[1])], [None]]
    fams.append(("BIP-39", [("Bip39MnemonicDecoder", ctor, ["Decode", "DecodeWithChecksum"]), ("Bip39MnemonicValidator", ctor, ["IsValid", "Validate"])], qs))
    fams.append(("BIP-39 encoder", [("Bip39MnemonicEncoder", [[E("Bip39Languages", l)] for l in pick[:3]] + [[]], ["Encode"])], ["b:" + rb(n).hex() for n in (16, 20, 24, 28, 32, 16, 15, 17, 0, 33)]))
    # Monero
    langs = list(B.MoneroLanguages)
    pick = langs if not quick else rng.sample(langs, 5)
    sent = {l: [B.MoneroMnemonicEncoder(l).EncodeWithChecksum(rb(rng.choice([16, 32]))).ToStr(), B.MoneroMnemonicEncoder(l).EncodeNoChecksum(rb(rng.choice([16, 32]))).ToStr()] for l in pick}
    qs = [x for l in pick for x in sent[l]] + [y for l in pick[:3] for y in spoil(sent[l][0])]
    ctor = [[], [], [], [E("MoneroLanguages", pick[0])], [E("MoneroLanguages", pick[1])], [None]]
    fams.append(("Monero", [("MoneroMnemonicDecoder", ctor, ["Decode"]), ("MoneroMnemonicValidator", ctor, ["IsValid", "Validate"])], qs))
    fams.append(("Monero encoder", [("MoneroMnemonicEncoder", [[E("MoneroLanguages", l)] for l in pick[:3]] + [[]], ["EncodeWithChecksum", "EncodeNoChecksum"])],
                 ["b:" + rb(n).hex() for n in (16, 32, 16, 32, 15, 24, 0)]))
    # Electrum v2 (BIP-39 word lists, seed-version test instead of a checksum; type and language both optional)
    combos = [(B.ElectrumV2MnemonicTypes.STANDARD, l) for l in (rng.sample(list(B.ElectrumV2Languages), 3) if quick else list(B.ElectrumV2Languages))]
    if not quick:
        combos += [(t, rng.choice(list(B.ElectrumV2Languages))) for t in list(B.ElectrumV2MnemonicTypes)[1:]]
    sent2 = [(t, l, B.ElectrumV2MnemonicGenerator(t, l).FromEntropy((1 << 131 | rng.getrandbits(131)).to_bytes(17, "big")).ToStr()) for t, l in combos]
    qs = [x for _, _, x in sent2] + spoil(sent2[0][2]) + [fams[0][2][0]]
    ctor = [[], [], [None, None], [E("ElectrumV2MnemonicTypes", sent2[0][0])], [None, E("ElectrumV2Languages", sent2[0][1])], [E("ElectrumV2MnemonicTypes", sent2[1][0]), E("ElectrumV2Languages", sent2[1][1])]]
    fams.append(("Electrum v2", [("ElectrumV2MnemonicDecoder", ctor, ["Decode"]), ("ElectrumV2MnemonicValidator", ctor, ["IsValid", "Validate"])], qs))
    # Algorand, Electrum v1 (one language; its default, the explicit one and None = automatic detection)
    al = [B.AlgorandMnemonicEncoder().Encode(rb(32)).ToStr() for _ in range(2)]
    ctor = [[], [None], [E("AlgorandLanguages", B.AlgorandLanguages.ENGLISH)]]
    fams.append(("Algorand", [("AlgorandMnemonicDecoder", ctor, ["Decode"]), ("AlgorandMnemonicValidator", ctor, ["IsValid", "Validate"])], al + spoil(al[0]) + [fams[0][2][0]]))
    e1 = [B.ElectrumV1MnemonicEncoder().Encode(rb(16)).ToStr() for _ in range(2)]
    ctor = [[], [None], [E("ElectrumV1Languages", B.ElectrumV1Languages.ENGLISH)]]
    fams.append(("Electrum v1", [("ElectrumV1MnemonicDecoder", ctor, ["Decode"]), ("ElectrumV1MnemonicValidator", ctor, ["IsValid", "Validate"])], e1 + spoil(e1[0]) + [fams[0][2][0]]))
    return fams


def _reused_objects(rng, tier, rpt):
    """Every decoding / validation / encoding result is the same whether the object that computes it is fresh or was asked anything else
    before (other languages, failed calls, the same question): random call histories on ONE decoder / validator / encoder object per history,
    every answer compared with the answer of a fresh object built with the same arguments. A departure is minimised (a two-call history
    when one earlier call suffices, otherwise calls are dropped one by one) and reported with the history and a one-line replay command."""
    import shlex
    from harness.c15_catalogue import reuse_make, reuse_call, reuse_run
    bad = []
    n_hist = n_calls = 0
    per_cls = 40 if tier == "quick" else 400
    for fam, classes, questions in _reuse_pools(rng, tier):
        for cls_name, ctors, methods in classes:
            hit = False
            for h in range(per_cls):
                args = ctors[h % len(ctors)] if h < len(ctors) else rng.choice(ctors)
                k = rng.choice([2, 3, 4, 6, 9])
                calls = []
                for _ in range(k):
                    q = rng.choice(questions)
                    if not q.startswith("b:"):
                        q = ("m:" if rng.random() < 0.15 else "s:") + q
                    calls.append([rng.choice(methods), q])
                if h % 4 == 3 and k >= 2:
                    calls[-1] = list(calls[rng.randrange(k - 1)])       # the same question again
                spec = {"cls": cls_name, "args": args, "calls": calls}
                n_hist += 1
                shared = reuse_make(spec)
                for j, (m, a) in enumerate(calls):
                    n_calls += 1
                    got, want = reuse_call(shared, m, a), reuse_call(reuse_make(spec), m, a)
                    if got == want:
                        continue
                    # minimise: one earlier call + the target, else drop earlier calls one by one

                    def departs(pre):
                        r = reuse_run({"cls": cls_name, "args": args, "calls": pre + [calls[j]]})[-1]
                        return r[0] != r[1]
                    pre = [c for c in calls[:j]]
                    small = next(([c] for c in pre if departs([c])), None)
                    if small is None:
                        i = 0
                        while i < len(pre):
                            cand = pre[:i] + pre[i + 1:]
                            if departs(cand):
                                pre = cand
                            else:
                                i += 1
                        small = pre
                    mini = {"cls": cls_name, "args": args, "calls": small + [calls[j]]}
                    res = reuse_run(mini)
                    if res[-1][0] == res[-1][1]:
                        mini, res = {"cls": cls_name, "args": args, "calls": calls[:j + 1]}, None
                        got_m, want_m = got, want
                    else:
                        got_m, want_m = res[-1]
                    bad.append({"property": "C15", "entry_point": "%s.%s" % (cls_name, m), "request_lines": [], "reuse_history": mini,
                                "replay_cmd": "cd /verif && PYTHONPATH=/verif:%s /venv/bin/python -m harness.c15_catalogue --reuse %s" % (os.environ.get("VERIF_REPO", "/repo"), shlex.quote(json.dumps(mini, ensure_ascii=False))),
                                "relation": "%s: %s(%s) object asked %d question(s) before gives, for %s(%s), a different answer than a fresh %s(%s) "
                                            "(earlier calls: %s)" % (fam, cls_name, ", ".join(str(x) for x in args), len(mini["calls"]) - 1, m, a[:60], cls_name,
                                                                     ", ".join(str(x) for x in args), "; ".join("%s(%s)" % (mm, aa[:50]) for mm, aa in mini["calls"][:-1])),
                                "input": json.dumps(mini, ensure_ascii=False), "impl_output": got_m[:300], "model_output": want_m[:300], "no_failing_input": False})
                    hit = True
                    break
                if hit:
                    break
    rpt.extra["reused_object_histories"] = n_hist
    rpt.extra["reused_object_calls"] = n_calls
    return bad[:4]


def _cat(names, threads=0):
    cmd = [sys.executable, "-m", "harness.c15_catalogue"] + (["--threads", str(threads)] if threads else []) + [json.dumps(names)]
    p = subprocess.run(cmd, stdout=subprocess.PIPE, stderr=subprocess.PIPE, text=True, timeout=600, cwd=VERIF,
                       env=dict(os.environ, PYTHONPATH=VERIF + ":" + os.environ.get("VERIF_REPO", "/repo"), PYTHONDONTWRITEBYTECODE="1"))
    if p.returncode != 0:
        raise RuntimeError("catalogue run failed: " + p.stderr[-400:])
    return json.loads(p.stdout.strip().split("\n")[-1])


def _order_independence(rng, tier, rpt):
    from concurrent.futures import ThreadPoolExecutor
    bad = []
    names = json.loads(subprocess.run([sys.executable, "-m", "harness.c15_catalogue", "--list"], stdout=subprocess.PIPE, text=True, cwd=VERIF,
                                      env=dict(os.environ, PYTHONPATH=VERIF + ":" + os.environ.get("VERIF_REPO", "/repo"))).stdout)
    with ThreadPoolExecutor(16) as ex:
        ref = dict(zip(names, [r[0] for r in ex.map(lambda n: _cat([n]), names)]))
        n_hist = 24 if tier == "quick" else 400
        hists = []
        for h in range(n_hist):
            k = rng.choice([6, 12, 25, 40])
            hs = [rng.choice(names) for _ in range(k)]
            if h % 3 == 0:       # some histories are permutations of the whole catalogue
                hs = rng.sample(names, len(names))
            hists.append(hs)
        outs = list(ex.map(_cat, hists))
        # the option toggles are documented process-wide switches: a thread that flips one is visible to the others while it is set,
        # so the threaded runs leave the toggle entries out (they are covered by the sequential histories: set, observe, restore)
        quiet = [n for n in names if not n.startswith(("toggle.", "threadtoggle."))]
        thr = [rng.sample(quiet, len(quiet)) for _ in range(3 if tier == "quick" else 30)]
        touts = list(ex.map(lambda hs: _cat(hs, 4), thr))
        tseq = _toggle_sequence_histories(rng, tier)
        tseq_outs = list(ex.map(_cat, tseq))

    def minimise(hs, j):
        """smallest history (in the fresh-interpreter sense) on which entry hs[j] still departs from its reference"""
        target = hs[j]
        for x in dict.fromkeys(hs[:j]):
            if _cat([x, target])[1] != ref[target]:
                return [x, target]
        pre = list(hs[:j])
        i = 0
        while i < len(pre):
            cand = pre[:i] + pre[i + 1:]
            if _cat(cand + [target])[-1] != ref[target]:
                pre = cand
            else:
                i += 1
        return pre + [target]

    # a toggle set in one thread and observed from another gives the single-threaded toggled observation (and the restored one after)
    for tt, single, plain in (("threadtoggle.bch.legacy", "toggle.bch.legacy", "derive.Bip44.BITCOIN_CASH"), ("threadtoggle.bch49.legacy", "toggle.bch49.legacy", "derive.Bip49.BITCOIN_CASH"),
                              ("threadtoggle.ltc.depr", "toggle.ltc.depr", "derive.Bip44.LITECOIN")):
        if tt in ref and single in ref and plain in ref:
            body = ref[tt]
            for k, want in (("worker-sees-main", ref[single]), ("main-sees-worker", ref[single]), ("restored", ref[plain])):
                frag = "%s:%s" % (k, want)
                if frag not in body:
                    bad.append({"property": "C15", "entry_point": tt, "request_lines": [], "catalogue_history": [tt, single, plain],
                                "replay_cmd": "cd /verif && PYTHONPATH=/verif:/repo /venv/bin/python -m harness.c15_catalogue '%s'" % json.dumps([tt, single, plain]),
                                "relation": "an option toggle set in one thread is not what another thread observes (%s)" % k,
                                "impl_output": body[:400], "model_output": frag[:300], "no_failing_input": False})
                    break
    bad += _toggle_sequence_verdicts(tseq, tseq_outs, rpt)
    seen = set()
    for kind, runs, results in (("after a history of other calls", hists, outs), ("when issued concurrently from 4 threads", thr, touts)):
        for hs, out in zip(runs, results):
            for j, (n, o) in enumerate(zip(hs, out)):
                if o != ref[n] and n not in seen:
                    seen.add(n)
                    if len(seen) > 6:
                        continue
                    small = minimise(hs, j) if kind.startswith("after") and len(seen) <= 2 else hs[:j + 1]
                    bad.append({"property": "C15", "entry_point": n, "request_lines": [], "catalogue_history": small,
                                "replay_cmd": "cd /verif && PYTHONPATH=/verif:/repo /venv/bin/python -m harness.c15_catalogue '%s'" % json.dumps(small),
                                "relation": "catalogue entry %s gives a different result %s than as the first call of a fresh interpreter" % (n, kind),
                                "impl_output": o[:300], "model_output": ref[n][:300], "no_failing_input": False})
    rpt.extra["catalogue_entries"] = len(names)
    rpt.extra["catalogue_histories"] = len(hists)
    rpt.extra["catalogue_history_observations"] = sum(len(h) for h in hists)
    rpt.extra["catalogue_threaded_observations"] = sum(len(h) for h in thr)
    return bad[:6]


def option_setters():
    """every (family, coin, setter) of the hierarchy classes whose shared configuration object has a boolean option method (`Use…(value)`),
    found by walking the public coin enumerations"""
    out = []
    for fam in sorted(FAM):
        cls, en, getter = FAM[fam]
        for coin in en:
            conf = getter.GetConfig(coin)
            for n in sorted(dir(conf)):
                if n.startswith("Use") and callable(getattr(conf, n)):
                    out.append((fam, coin.name, n))
    return out


def _toggle_sequence_histories(rng, tier):
    """An option is a documented boolean switch `Use…(value)`: what the coin answers depends on the LAST value given, not on how many times or
    in which order values were given before (set twice then restored, restored twice, re-set after a restore, …). One fresh interpreter per
    (family, coin, setter): plain observation, observation under a single True (then restored), observation after each sequence of calls
    (restored after each), plain observation again. Sequences: all the short ones with a repeated value, in random order, and random ones. Quick tier: up to four coins
    per setter name; thorough: every (family, coin, setter)."""
    allset = option_setters()
    by_setter = {}
    for t in allset:
        by_setter.setdefault(t[2], []).append(t)
    if tier == "quick":
        chosen = [t for name in sorted(by_setter) for t in rng.sample(by_setter[name], min(4, len(by_setter[name])))]
    else:
        chosen = allset
    # sequences with a repeated value (set twice, restored twice, re-set after a restore, …) plus random ones; each starts from the restored state
    repeated = ["TTF", "TFF", "TFTTF", "TFFT", "FTTF", "FFT", "TTTFF", "TT", "TTFT"]
    hists = []
    for fam, mem, setter in chosen:
        base = "toggleseq.%s.%s.%s." % (fam, mem, setter)
        pats = rng.sample(repeated, len(repeated)) + ["".join(rng.choice("TF") for _ in range(rng.randrange(2, 9))) for _ in range(2 if tier == "quick" else 8)]
        hists.append([base, base + "T"] + [base + p_ for p_ in pats] + [base])
    return hists


def _toggle_sequence_verdicts(hists, outs, rpt):
    bad = []
    n = 0
    for hs, out in zip(hists, outs):
        plain, single = out[0], out[1]
        for name, o in list(zip(hs, out))[2:]:
            n += 1
            pattern = name.rsplit(".", 1)[1]
            want = single if pattern.endswith("T") else plain
            if o != want:
                what = ("after the option calls %s (last value %s)" % (",".join("True" if c == "T" else "False" for c in pattern), pattern[-1] == "T")) if pattern else \
                    "after the option was set and restored (sequences %s)" % [h.rsplit(".", 1)[1] for h in hs[1:-1]]
                bad.append({"property": "C15", "entry_point": name, "request_lines": [], "catalogue_history": hs[:hs.index(name) + 1] if pattern else hs,
                            "replay_cmd": "cd /verif && PYTHONPATH=/verif:/repo /venv/bin/python -m harness.c15_catalogue '%s'" % json.dumps(hs),
                            "relation": "%s %s: the coin's results %s are not those of %s" % (
                                name.split(".")[1] + "[" + name.split(".")[2] + "]", name.split(".")[3], what,
                                "a single True" if pattern.endswith("T") else "the untouched configuration"),
                            "impl_output": o[:500], "model_output": want[:500], "no_failing_input": False})
                break
    rpt.extra["option_sequence_observations"] = n
    return bad[:3]


def _codec_groups(rng, n_threads, per_thread):
    """groups of pure public-API computations that share code (one address format, one checksum/hash utility, one text codec, one mnemonic
    scheme); inside a group every thread gets its OWN inputs. -> [(group name, [thread -> [(description, thunk)]])]"""
    import bip_utils as B
    import bip_utils.utils.crypto as UC
    from harness.props.addr_common import fmt_table, conv_kw, pub_forms, rand_priv
    groups = []

    def rbytes(n):
        return bytes(rng.randrange(256) for _ in range(n))

    def group(name, make):
        groups.append((name, [[it for _ in range(per_thread) for it in make()] for _ in range(n_threads)]))

    def once(f):
        try:
            return f()
        except Exception:  # noqa
            return None
    for fmt, (curve, enc, dec, psets) in sorted(fmt_table().items()):
        kw = dict(psets[rng.randrange(len(psets))])

        def make(fmt=fmt, curve=curve, enc=enc, dec=dec, kw=kw):
            pub = pub_forms(curve, rand_priv(rng, curve))[0]
            ekw = conv_kw(fmt, dict(kw))
            if fmt in ("xmr", "xmrint"):
                ekw["pub_vkey"] = pub_forms(curve, rand_priv(rng, curve))[0]
                if fmt == "xmrint":
                    ekw["payment_id"] = rbytes(8)
            dkw = {k: v for k, v in ekw.items() if k not in ("pub_key_mode", "trim_zeroes", "pub_vkey")}
            addr = once(lambda: enc.EncodeKey(pub, **ekw))
            its = [("%s.EncodeKey(%s, %s)" % (enc.__name__, pub.hex(), kw), lambda: enc.EncodeKey(pub, **ekw))]
            if addr is not None:
                its.append(("%s.DecodeAddr(%s, %s)" % (dec.__name__, addr, kw), lambda: dec.DecodeAddr(addr, **dkw)))
            return its
        group("address format " + fmt, make)
    # every digest utility of the package (one-argument and keyed forms)
    for name in sorted(dir(UC)):
        cls = getattr(UC, name)
        qd = getattr(cls, "QuickDigest", None)
        if not isinstance(cls, type) or qd is None:
            continue
        d0 = rbytes(20)
        arity = 1 if once(lambda: qd(d0)) is not None else 2 if once(lambda: qd(d0, d0)) is not None else 0
        if not arity:
            continue

        def make(name=name, qd=qd, arity=arity):
            data = rbytes(rng.choice([1, 20, 33, 35, 64, 200]))
            key = rbytes(16)
            return [("%s.QuickDigest(%s)" % (name, data.hex()), lambda: qd(data))] if arity == 1 else \
                [("%s.QuickDigest(%s, %s)" % (name, key.hex(), data.hex()), lambda: qd(key, data))]
        group("digest " + name, make)
    # text codecs
    def pair(label, encode, decode, mk_in):
        def make():
            x = mk_in()
            txt = once(lambda: encode(x))
            its = [("%s encode %s" % (label, x.hex() if isinstance(x, bytes) else x), lambda: encode(x))]
            if txt is not None:
                its.append(("%s decode %s" % (label, txt), lambda: decode(txt)))
            return its
        group("codec " + label, make)
    pair("Base58Check", B.Base58Encoder.CheckEncode, B.Base58Decoder.CheckDecode, lambda: rbytes(rng.choice([1, 21, 33, 78])))
    pair("Base58Check(ripple alphabet)", lambda b: B.Base58Encoder.CheckEncode(b, B.Base58Alphabets.RIPPLE), lambda t: B.Base58Decoder.CheckDecode(t, B.Base58Alphabets.RIPPLE), lambda: rbytes(21))
    pair("Base58", B.Base58Encoder.Encode, B.Base58Decoder.Decode, lambda: rbytes(rng.choice([1, 32, 64])))
    pair("Base58Xmr", B.Base58XmrEncoder.Encode, B.Base58XmrDecoder.Decode, lambda: rbytes(rng.choice([8, 69, 77])))
    pair("Base32", B.Base32Encoder.Encode, B.Base32Decoder.Decode, lambda: rbytes(rng.choice([5, 35, 36])))
    pair("Bech32", lambda b: B.Bech32Encoder.Encode("cosmos", b), lambda t: B.Bech32Decoder.Decode("cosmos", t), lambda: rbytes(20))
    pair("SegwitBech32 v0", lambda b: B.SegwitBech32Encoder.Encode("bc", 0, b), lambda t: B.SegwitBech32Decoder.Decode("bc", t), lambda: rbytes(20))
    pair("SegwitBech32 v1", lambda b: B.SegwitBech32Encoder.Encode("tb", 1, b), lambda t: B.SegwitBech32Decoder.Decode("tb", t), lambda: rbytes(32))
    pair("BchBech32", lambda b: B.BchBech32Encoder.Encode("bitcoincash", b"\x00", b), lambda t: B.BchBech32Decoder.Decode("bitcoincash", t), lambda: rbytes(20))
    pair("SS58", lambda b: B.SS58Encoder.Encode(b, 42), B.SS58Decoder.Decode, lambda: rbytes(32))
    pair("WIF", lambda b: B.WifEncoder.Encode(b, b"\x80", B.WifPubKeyModes.COMPRESSED), lambda t: B.WifDecoder.Decode(t, b"\x80"), lambda: rand_priv(rng, "secp256k1"))
    # mnemonic schemes (word lists are loaded by the single-threaded reference pass)
    l39 = list(B.Bip39Languages)
    pair("BIP-39", lambda e: B.Bip39MnemonicEncoder(l39[e[0] % len(l39)]).Encode(e).ToStr(), lambda m: B.Bip39MnemonicDecoder().Decode(m), lambda: rbytes(rng.choice([16, 24, 32])))
    lxm = list(B.MoneroLanguages)
    pair("Monero mnemonic", lambda e: B.MoneroMnemonicEncoder(lxm[e[0] % len(lxm)]).EncodeWithChecksum(e).ToStr(), lambda m: B.MoneroMnemonicDecoder().Decode(m), lambda: rbytes(rng.choice([16, 32])))
    pair("Algorand mnemonic", lambda e: B.AlgorandMnemonicEncoder().Encode(e).ToStr(), lambda m: B.AlgorandMnemonicDecoder().Decode(m), lambda: rbytes(32))
    pair("Electrum v1 mnemonic", lambda e: B.ElectrumV1MnemonicEncoder().Encode(e).ToStr(), lambda m: B.ElectrumV1MnemonicDecoder().Decode(m), lambda: rbytes(16))
    # extended keys
    def make_xkey():
        sd = rbytes(32)
        xprv = B.Bip32Slip10Secp256k1.FromSeed(sd).PrivateKey().ToExtended()
        return [("Bip32Slip10Secp256k1.FromSeed(%s) extended keys" % sd.hex(), lambda: (lambda o: o.PrivateKey().ToExtended() + " " + o.PublicKey().ToExtended())(B.Bip32Slip10Secp256k1.FromSeed(sd))),
                ("Bip32Slip10Secp256k1.FromExtendedKey(%s)" % xprv, lambda: B.Bip32Slip10Secp256k1.FromExtendedKey(xprv).ChildKey(1).PublicKey().RawCompressed().ToBytes())]
    group("extended keys", make_xkey)
    return groups


def _thread_codec_stress(rng, tier, rpt):
    """Every encoding / decoding / digest result is the same when issued concurrently from several threads. For each group of computations
    that share code, 8 threads (minimal switch interval, released together by a barrier) keep computing — each on its own inputs — for a
    time slice; every answer is compared with the answer the same call gave single-threaded beforehand."""
    import time
    n_threads = 8
    groups = _codec_groups(rng, n_threads, 2 if tier == "quick" else 4)
    slice_s = 0.025 if tier == "quick" else 0.3

    def canon(f):
        try:
            r = f()
            return r.hex() if isinstance(r, (bytes, bytearray)) else str(r)
        except Exception as ex:  # noqa
            return "!" + exc_kind(ex)
    want = [[[canon(f) for _, f in items] for items in per] for _, per in groups]
    bar = threading.Barrier(n_threads)
    found = {}
    calls = [0] * n_threads

    def worker(t):
        try:
            for gi, (gname, per) in enumerate(groups):
                items, ws = per[t], want[gi][t]
                bar.wait(120)
                end = time.monotonic() + slice_s
                n = 0
                while time.monotonic() < end and gname not in found:
                    for ii, (desc, f) in enumerate(items):
                        g = canon(f)
                        n += 1
                        if g != ws[ii]:
                            found.setdefault(gname, (desc, g, ws[ii], f))
                calls[t] += n
        except BaseException:  # noqa  (never leave the other workers waiting at the barrier)
            bar.abort()
            raise
    old = sys.getswitchinterval()
    sys.setswitchinterval(1e-6)
    try:
        ths = [threading.Thread(target=worker, args=(t,)) for t in range(n_threads)]
        for th in ths:
            th.start()
        for th in ths:
            th.join()
    finally:
        sys.setswitchinterval(old)
    if bar.broken:
        raise RuntimeError("thread stress: a worker thread died")
    bad = []
    for gname, (desc, g, w, f) in sorted(found.items()):
        if canon(f) != w or canon(f) != w:
            continue      # does not repeat itself single-threaded either: not a matter of threads (the history relations own that)
        bad.append({"property": "C15", "entry_point": desc.split("(")[0].split(" ")[0], "request_lines": [],
                    "relation": "%s: a result computed while %d threads do the same kind of computation on their own inputs differs from the single-threaded result" % (gname, n_threads),
                    "input": desc, "impl_output": g[:300], "model_output": w[:300], "no_failing_input": False})
    rpt.extra["thread_stress_groups"] = len(groups)
    rpt.extra["thread_stress_calls"] = sum(calls)
    return bad[:3]
