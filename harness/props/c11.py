"""C11 — binary-to-text and wire codecs are exact inverses on their whole domain."""
import itertools
from harness.core import Case
from harness.canon import hx, tx, unhx, untx, nats, unnats

from bip_utils import (Base58Alphabets, Base58Decoder, Base58Encoder, Base58XmrDecoder, Base58XmrEncoder,
                       Bech32Decoder, Bech32Encoder, SS58Decoder, SS58Encoder)
from bip_utils.bech32.bech32_base import Bech32BaseUtils
from bip_utils.utils.misc import Base32Decoder, Base32Encoder, BytesUtils, IntegerUtils
from bip_utils.utils.misc.cbor_indefinite_len_array import CborIndefiniteLenArrayDecoder, CborIndefiniteLenArrayEncoder
from bip_utils.substrate.scale import (SubstrateScaleBytesEncoder, SubstrateScaleCUintEncoder, SubstrateScaleU8Encoder,
                                       SubstrateScaleU16Encoder, SubstrateScaleU32Encoder, SubstrateScaleU64Encoder,
                                       SubstrateScaleU128Encoder, SubstrateScaleU256Encoder)

LEAN_MODULES = ["BipVerif.Props.C11"]
ALPH = {"btc": Base58Alphabets.BITCOIN, "xrp": Base58Alphabets.RIPPLE}
SCALE_U = {1: SubstrateScaleU8Encoder, 2: SubstrateScaleU16Encoder, 4: SubstrateScaleU32Encoder,
           8: SubstrateScaleU64Encoder, 16: SubstrateScaleU128Encoder, 32: SubstrateScaleU256Encoder}
CUSTOM_ALPHABETS = ["13456789abcdefghijkmnopqrstuwxyz",     # Nano
                    "abcdefghijklmnopqrstuvwxyz234567",     # Filecoin / lower-case RFC 4648
                    "0123456789ABCDEFGHJKLMNPQRSTUVXY"]     # Nimiq


def _opt_alpha(f):
    return None if f == "none" else untx(f)


def _cbordec(d):
    out = CborIndefiniteLenArrayDecoder.Decode(unhx(d))
    return nats(out) if all(isinstance(x, int) and not isinstance(x, bool) and x >= 0 for x in out) else \
        ",".join(str(x) if isinstance(x, int) and not isinstance(x, bool) and x >= 0 else "x" for x in out)


def _convbits(d, f, t, p):
    r = Bech32BaseUtils.ConvertBits(unnats(d), int(f), int(t), p == "1")
    return "none" if r is None else nats(r)


def _tobytes(v, n, e):
    return hx(IntegerUtils.ToBytes(int(v), None if n == "none" else int(n), endianness=e))


def _scalebytes(b):
    """the encoder documents `bytes or str`: the text form of a UTF-8 payload must give the same encoding as its bytes"""
    out = SubstrateScaleBytesEncoder.Encode(b)
    try:
        t = b.decode("utf-8")
    except UnicodeDecodeError:
        return hx(out)
    out_t = SubstrateScaleBytesEncoder.Encode(t)
    if out_t != out:
        return "ARGUMENT-FORM-DEPENDENT bytes: %s | str: %s" % (out.hex()[:80], out_t.hex()[:80])
    return hx(out)


IMPL = {
    "b58enc": lambda al, d: tx(Base58Encoder.Encode(unhx(d), ALPH[al])),
    "b58dec": lambda al, s: hx(Base58Decoder.Decode(untx(s), ALPH[al])),
    "b58chkenc": lambda al, d: tx(Base58Encoder.CheckEncode(unhx(d), ALPH[al])),
    "b58chkdec": lambda al, s: hx(Base58Decoder.CheckDecode(untx(s), ALPH[al])),
    "xmrenc": lambda d: tx(Base58XmrEncoder.Encode(unhx(d))),
    "xmrdec": lambda s: hx(Base58XmrDecoder.Decode(untx(s))),
    "convbits": _convbits,
    "b32enc": lambda d, c: tx(Base32Encoder.Encode(unhx(d), _opt_alpha(c))),
    "b32encnp": lambda d, c: tx(Base32Encoder.EncodeNoPadding(unhx(d), _opt_alpha(c))),
    "b32dec": lambda s, c: hx(Base32Decoder.Decode(untx(s), _opt_alpha(c))),
    "bech32enc": lambda h, d: tx(Bech32Encoder.Encode(untx(h), unhx(d))),
    "bech32dec": lambda h, s: hx(Bech32Decoder.Decode(untx(h), untx(s))),
    "tobytes": _tobytes,
    "frombytes": lambda d, e: str(BytesUtils.ToInteger(unhx(d), endianness=e)),
    "tobin": lambda d, p: BytesUtils.ToBinaryStr(unhx(d), int(p)),
    "scalecuint": lambda v: hx(SubstrateScaleCUintEncoder.Encode(int(v))),
    "scaleuint": lambda v, n: hx(SCALE_U[int(n)].Encode(int(v))),
    "scalebytes": lambda d: _scalebytes(unhx(d)),
    "cborenc": lambda l: hx(CborIndefiniteLenArrayEncoder.Encode(unnats(l))),
    "cbordec": _cbordec,
    "ss58enc": lambda d, f: tx(SS58Encoder.Encode(unhx(d), int(f))),
    "ss58dec": lambda s: (lambda r: "%d %s" % (r[0], hx(r[1])))(SS58Decoder.Decode(untx(s))),
}

RULE = ("byte strings: exhaustive lengths 0..1 (quick: + sampled length 2; thorough: all 65 536 of length 2), random "
        "lengths to 200 with leading-zero / all-0xFF / block-boundary classes; integers at every width threshold +-1; "
        "each byte string goes through encode on both sides and the encoded text through decode on both sides; in "
        "addition decode(encode(b)) == b is evaluated on the implementation's own outputs (relations). distinct = "
        "distinct request lines with a non-error implementation result or from a negative class")


def byte_strings(rng, tier):
    out = [b""] + [bytes([i]) for i in range(256)]
    if tier == "thorough":
        out += [bytes([i, j]) for i in range(256) for j in range(256)]
    else:
        out += [bytes([rng.randrange(256), rng.randrange(256)]) for _ in range(300)]
        out += [bytes([0, j]) for j in range(0, 256, 5)] + [bytes([i, 0]) for i in range(0, 256, 5)]
    n = 4000 if tier == "thorough" else 250
    for _ in range(n):
        ln = rng.choice([3, 4, 5, 7, 8, 9, 15, 16, 17, 20, 21, 24, 25, 31, 32, 33, 34, 40, 64, 65, 69, 77, rng.randrange(1, 200)])
        cls = rng.randrange(6)
        if cls == 0:
            b = bytes(rng.randrange(256) for _ in range(ln))
        elif cls == 1:
            z = rng.randrange(1, ln + 1)
            b = bytes(z) + bytes(rng.randrange(256) for _ in range(ln - z))
        elif cls == 2:
            b = b"\xff" * ln
        elif cls == 3:
            b = bytes(rng.randrange(256) for _ in range(ln - 1)) + b"\x00"
        elif cls == 4:
            b = bytes(ln)
        else:
            b = bytes([rng.choice([0, 1, 0x7f, 0x80, 0xff]) for _ in range(ln)])
        out.append(b)
    return out


def int_values(rng, tier):
    vals = set()
    for k in [0, 6, 8, 14, 16, 24, 30, 32, 56, 62, 64, 127, 128, 255, 256, 528, 535, 536, 537]:
        for d in (-2, -1, 0, 1, 2):
            v = (1 << k) + d
            if v >= 0:
                vals.add(v)
    vals |= {0, 1, 2, 23, 24, 25, 63, 64, 65, 255, 256, 257, 16383, 16384, 65535, 65536}
    for _ in range(2000 if tier == "thorough" else 150):
        vals.add(rng.getrandbits(rng.choice([5, 7, 13, 15, 29, 31, 33, 63, 65, 100, 256, 300, 535, 540])))
    return sorted(vals)


# ---- long inputs: "every length" includes lengths beyond any table, buffer or counter width an implementation may size for "the longest
# ---- address": raw AND encoded lengths around 2^8 … 2^12 (thorough: … 2^16) for every expansion ratio of the codecs of the statement
_RATIOS = (1.0, 1.365658237, 1.375, 1.6, 2.0)     # raw bytes, Base58 (log 256 / log 58), Monero blocks (11/8), Base32 (8/5), hex
B58_LONG_CAP = {"quick": 1100, "thorough": 4200}        # radix conversion is super-quadratic in the library: longer strings skip Base58 only


def long_lengths(tier):
    out = set()
    for k in range(8, 13 if tier == "quick" else 17):
        for r in _RATIOS:
            c = int((1 << k) / r)
            # quick: the last length at or below and the first above each threshold up to 2^10, the first above beyond (the model run's wire
            # time grows with the total size)
            out |= {c - 1, c, c + 1, c + 2} if tier == "thorough" else {c, c + 1} if k <= 10 else {c + 1}
    return sorted(out)


def long_byte_strings(rng, tier):
    out = []
    for i, ln in enumerate(long_lengths(tier)):
        cls = (i + rng.randrange(2)) % 4
        if cls == 0 or cls == 1:
            b = bytes(rng.getrandbits(8) for _ in range(ln))
        elif cls == 2:
            z = rng.randrange(1, 9)
            b = bytes(z) + bytes(rng.getrandbits(8) for _ in range(ln - z))
        else:
            b = b"\xff" * ln
        out.append(b)
    return out


def _long_cases(b, tier):
    cls = "long-%d" % (len(b).bit_length() - 1)
    if len(b) <= B58_LONG_CAP[tier]:
        for al in ("btc", "xrp"):
            yield Case("b58enc", [al, hx(b)], cls)
            yield Case("b58dec", [al, tx(Base58Encoder.Encode(b, ALPH[al]))], cls)
        yield Case("b58chkenc", ["btc", hx(b)], cls)
        yield Case("b58chkdec", ["btc", tx(Base58Encoder.CheckEncode(b))], cls)
        yield Case("b58chkdec", ["xrp", tx(Base58Encoder.CheckEncode(b, Base58Alphabets.RIPPLE))], cls)
    yield Case("xmrenc", [hx(b)], cls)
    yield Case("xmrdec", [tx(Base58XmrEncoder.Encode(b))], cls)
    yield Case("b32enc", [hx(b), "none"], cls)
    yield Case("b32dec", [tx(Base32Encoder.Encode(b)), "none"], cls)
    ca = CUSTOM_ALPHABETS[len(b) % 3]
    yield Case("b32encnp", [hx(b), tx(ca)], cls)
    yield Case("b32dec", [tx(Base32Encoder.EncodeNoPadding(b, ca)), tx(ca)], cls)
    if len(b) <= 4200:          # the model's regrouping of a decimal list is quadratic (65 536 values: a minute); relations() covers the longer ones
        yield Case("convbits", [nats(b), 8, 5, 1], cls)
        yield Case("convbits", [nats(Bech32BaseUtils.ConvertBits(b, 8, 5)), 5, 8, 0], cls)
    yield Case("scalebytes", [hx(b)], cls)
    if len(b) <= 1700:          # integers travel as decimal text on the request line (CPython refuses conversions beyond 4300 digits)
        yield Case("frombytes", [hx(b), "big"], cls)
        yield Case("frombytes", [hx(b), "little"], cls)
        v = int.from_bytes(b, "big")
        yield Case("tobytes", [v, len(b), "little"], cls)
        yield Case("tobytes", [v, "none", "big"], cls)


def gen(rng, tier):
    yield from _gen_short(rng, tier)
    for b in long_byte_strings(rng, tier):
        yield from _long_cases(b, tier)
    # SCALE byte strings around the 2^14 length threshold of the compact length prefix (two-byte -> four-byte mode)
    for ln in (16382, 16383, 16384, 16385) + (() if tier == "quick" else (65535, 65536, 70000)):
        yield Case("scalebytes", [hx(bytes(rng.getrandbits(8) for _ in range(ln)))], "scale-long")


def _gen_short(rng, tier):
    bs = byte_strings(rng, tier)
    for b in bs:
        for al in ("btc", "xrp"):
            yield Case("b58enc", [al, hx(b)], "b58")
            yield Case("b58dec", [al, tx(Base58Encoder.Encode(b, ALPH[al]))], "b58")
        yield Case("b58chkenc", ["btc", hx(b)], "b58chk")
        yield Case("b58chkdec", ["btc", tx(Base58Encoder.CheckEncode(b))], "b58chk")
        yield Case("xmrenc", [hx(b)], "xmr")
        yield Case("xmrdec", [tx(Base58XmrEncoder.Encode(b))], "xmr")
        yield Case("b32enc", [hx(b), "none"], "b32")
        yield Case("b32dec", [tx(Base32Encoder.Encode(b)), "none"], "b32")
        yield Case("b32dec", [tx(Base32Encoder.EncodeNoPadding(b)), "none"], "b32")
        ca = CUSTOM_ALPHABETS[len(b) % 3]
        yield Case("b32encnp", [hx(b), tx(ca)], "b32custom")
        yield Case("b32dec", [tx(Base32Encoder.EncodeNoPadding(b, ca)), tx(ca)], "b32custom")
        yield Case("convbits", [nats(b), 8, 5, 1], "convbits")
        c5 = Bech32BaseUtils.ConvertBits(b, 8, 5)
        yield Case("convbits", [nats(c5), 5, 8, 0], "convbits")
        if len(b) <= 90:
            yield Case("bech32enc", [tx("bc"), hx(b)], "bech32")
            yield Case("bech32dec", [tx("bc"), tx(Bech32Encoder.Encode("bc", b))], "bech32")
        yield Case("frombytes", [hx(b), "big"], "int")
        yield Case("frombytes", [hx(b), "little"], "int")
        yield Case("tobin", [hx(b), (len(b) * 8) if len(b) % 2 else 0], "int")
        if len(b) <= 70:
            yield Case("scalebytes", [hx(b)], "scale")
            if len(b) in (3, 16, 31, 32, 33, 63, 64):        # UTF-8 text payloads (character count != byte count) around the mode thresholds
                for ch in ("é", "日", "😀", "a"):
                    t = (ch * 70).encode("utf-8")[:len(b) + 4]
                    t = t.decode("utf-8", "ignore").encode("utf-8")
                    yield Case("scalebytes", [hx(t)], "scale-text")
        if len(b) == 32:
            for f in (0, 1, 42, 63, 64, 65, 127, 128, 255, 256, 16383, rng.randrange(16384)):
                yield Case("ss58enc", [hx(b), f], "ss58")
                if f not in (46, 47):
                    yield Case("ss58dec", [tx(SS58Encoder.Encode(b, f))], "ss58")
    # negative / boundary classes for convbits: 5-bit groups with non-zero padding, values out of range
    for _ in range(3000 if tier == "thorough" else 300):
        l = [rng.randrange(32) for _ in range(rng.randrange(0, 20))]
        yield Case("convbits", [nats(l), 5, 8, 0], "neg-convbits")
        l2 = [rng.randrange(300) for _ in range(rng.randrange(1, 8))]
        yield Case("convbits", [nats(l2), 8, 5, 1], "neg-convbits")
    vals = int_values(rng, tier)
    for v in vals:
        yield Case("scalecuint", [v], "scale")
        yield Case("tobytes", [v, "none", "big"], "int")
        yield Case("tobytes", [v, "none", "little"], "int")
        nb = max(1, (v.bit_length() + 7) // 8)
        for n in {nb, nb + 1, nb + 5, 32, max(1, nb - 1)}:
            yield Case("tobytes", [v, n, rng.choice(["big", "little"])], "int" if n >= nb else "neg-int")
        for n in SCALE_U:
            yield Case("scaleuint", [v, n], "scale" if v < (1 << 8 * n) else "neg-scale")
    # SS58: every format value (thorough) / a spread (quick) with one payload
    pay = bytes(rng.randrange(256) for _ in range(32))
    fmts = range(0, 16390) if tier == "thorough" else list(range(0, 130)) + list(range(130, 16390, 97)) + [16382, 16383, 16384]
    for f in fmts:
        yield Case("ss58enc", [hx(pay), f], "ss58" if f <= 16383 and f not in (46, 47) else "neg-ss58")
    for ln in (0, 1, 31, 33, 64):
        yield Case("ss58enc", [hx(bytes(ln)), 0], "neg-ss58")
    # CBOR indefinite arrays
    edge = [0, 1, 23, 24, 25, 255, 256, 65535, 65536, 2**32 - 1, 2**32, 2**63, 2**64 - 1]
    lists = [[], [e for e in edge]] + [[e] for e in edge] + [[a, b] for a, b in itertools.product(edge[:7], edge[5:])]
    for _ in range(1500 if tier == "thorough" else 120):
        lists.append([rng.choice(edge + [rng.getrandbits(rng.choice([4, 8, 16, 32, 64]))]) for _ in range(rng.randrange(0, 6))])
    # element counts around the CBOR head-size thresholds of a *definite* array (23/24, 255/256): the indefinite form has no count
    for ln in (22, 23, 24, 25, 26, 100, 255, 256, 257, 300) if tier == "quick" else (22, 23, 24, 25, 26, 31, 32, 100, 255, 256, 257, 300, 1000, 65535, 65536):
        lists.append([rng.choice(edge[:8] + [rng.getrandbits(16)]) for _ in range(ln)])
    for l in lists:
        yield Case("cborenc", [nats(l)], "cbor")
        yield Case("cbordec", [hx(CborIndefiniteLenArrayEncoder.Encode(l))], "cbor")
    # malformed / non-integer element streams
    for _ in range(4000 if tier == "thorough" else 400):
        n = rng.randrange(0, 6)
        b = bytes([0x9f]) + bytes(rng.choice([rng.randrange(256), 0x18, 0x19, 0x1a, 0x1b, 0xff, 0x20, 0x38]) for _ in range(n)) + bytes([rng.choice([0xff, 0xff, 0])])
        yield Case("cbordec", [hx(b)], "neg-cbor")


def relations(rng, tier, rpt):
    """decode(encode(b)) == b evaluated on the implementation alone (the literal property clause)."""
    bad = []
    n = nchk = 0
    for b in byte_strings(rng, "quick") + long_byte_strings(rng, tier):
        n += 1
        checks = [] if len(b) > B58_LONG_CAP[tier] else [
            ("b58-btc", lambda: Base58Decoder.Decode(Base58Encoder.Encode(b))),
            ("b58-xrp", lambda: Base58Decoder.Decode(Base58Encoder.Encode(b, Base58Alphabets.RIPPLE), Base58Alphabets.RIPPLE)),
            ("b58chk", lambda: Base58Decoder.CheckDecode(Base58Encoder.CheckEncode(b))),
            ("b58chk-xrp", lambda: Base58Decoder.CheckDecode(Base58Encoder.CheckEncode(b, Base58Alphabets.RIPPLE), Base58Alphabets.RIPPLE)),
        ]
        checks += [
            ("xmr", lambda: Base58XmrDecoder.Decode(Base58XmrEncoder.Encode(b))),
            ("b32", lambda: Base32Decoder.Decode(Base32Encoder.Encode(b))),
            ("b32np", lambda: Base32Decoder.Decode(Base32Encoder.EncodeNoPadding(b, CUSTOM_ALPHABETS[0]), CUSTOM_ALPHABETS[0])),
            ("bits", lambda: bytes(Bech32BaseUtils.ConvertFromBase32(Bech32BaseUtils.ConvertToBase32(b)))),
            ("hex", lambda: BytesUtils.FromHexString(BytesUtils.ToHexString(b))),
            # the text is the standard base-16 text, and both documented argument types (str, bytes) and both letter cases decode back
            ("hex-standard-text", lambda: b if BytesUtils.ToHexString(b) == "".join("%02x" % x for x in b) else BytesUtils.ToHexString(b)),
            ("hex-bytes-argument", lambda: BytesUtils.FromHexString(BytesUtils.ToHexString(b).encode("ascii"))),
            ("hex-upper-case", lambda: BytesUtils.FromHexString(BytesUtils.ToHexString(b).upper())),
            ("hex-upper-case-bytes", lambda: BytesUtils.FromHexString(BytesUtils.ToHexString(b).upper().encode("ascii"))),
            ("binary-text", lambda: BytesUtils.FromBinaryStr(BytesUtils.ToBinaryStr(b, 8 * len(b)), 2 * len(b)) if b else b),
            ("binary-text-bytes-argument", lambda: BytesUtils.FromBinaryStr(BytesUtils.ToBinaryStr(b, 8 * len(b)).encode("ascii"), 2 * len(b)) if b else b),
        ]
        nchk += len(checks)
        for name, f in checks:
            try:
                r = f()
            except Exception as ex:  # noqa
                r = "raised %s" % type(ex).__name__
            if r != b:
                bad.append({"property": "C11", "entry_point": name, "request_lines": [],
                            "relation": "decode(encode(b)) != b on the implementation",
                            "input": b.hex(), "impl_output": r.hex() if isinstance(r, bytes) else str(r),
                            "model_output": b.hex(), "no_failing_input": False})
    rpt.extra["impl_roundtrips"] = nchk
    bad = bad[:10]
    bad += _integer_byte_helpers(rng, tier, rpt)
    return bad[:16]


def _integer_byte_helpers(rng, tier, rpt):
    """The integer/byte helpers are exact inverses and equal the standard conversion in EVERY representation their documented parameters select:
    both byte orders x unsigned / two's complement (`signed`), fixed and automatic widths, every argument given by position or by name; the
    list and binary-text forms likewise. CPython's own int.from_bytes / int.to_bytes / format are the reference."""
    bad = []
    seen = set()
    n = 0

    def rep(what, inp, got, want):
        if what not in seen:
            seen.add(what)
            bad.append({"property": "C11", "entry_point": what, "request_lines": [], "relation": what, "input": inp,
                        "impl_output": str(got)[:300], "model_output": str(want)[:300], "no_failing_input": False})

    def call(f):
        try:
            return f()
        except Exception as ex:  # noqa
            return "raised %s" % type(ex).__name__

    # byte strings -> integers -> byte strings: all of length 0..1, a spread of length 2 (thorough: all), sign-bit / 0x00 / 0xff patterns at
    # the widths the library uses (4, 8, 16, 32, 33, 64) and random ones
    bs = [b""] + [bytes([i]) for i in range(256)]
    bs += [bytes([i, j]) for i in range(256) for j in range(256)] if tier == "thorough" else \
        [bytes([i, j]) for i in (0, 1, 0x7f, 0x80, 0xfe, 0xff) for j in (0, 1, 0x7f, 0x80, 0xfe, 0xff)] + [bytes([rng.getrandbits(8), rng.getrandbits(8)]) for _ in range(60)]
    for ln in (3, 4, 8, 16, 32, 33, 64, rng.randrange(5, 100)):
        for first in (0x00, 0x7f, 0x80, 0xff):
            for last in (0x00, 0x7f, 0x80, 0xff):
                bs.append(bytes([first]) + bytes(rng.getrandbits(8) for _ in range(ln - 2)) + bytes([last]))
        bs += [b"\xff" * ln, bytes(ln), b"\x80" + bytes(ln - 1), bytes(ln - 1) + b"\x80", b"\x7f" + b"\xff" * (ln - 1)]
    for b in bs:
        for e in ("big", "little"):
            for sg in (False, True):
                n += 1
                want = int.from_bytes(b, byteorder=e, signed=sg)
                forms = [("ToInteger(b, endianness=, signed=)", lambda: BytesUtils.ToInteger(b, endianness=e, signed=sg)),
                         ("ToInteger(b, e, s) positional", lambda: BytesUtils.ToInteger(b, e, sg))]
                if not sg:
                    forms.append(("ToInteger(b, endianness=) signed omitted", lambda: BytesUtils.ToInteger(b, endianness=e)))
                if e == "big":
                    forms.append(("ToInteger(b, signed=) endianness omitted", lambda: BytesUtils.ToInteger(b, signed=sg)))
                for name, f in forms:
                    got = call(f)
                    if got != want:
                        rep("BytesUtils.%s is not the standard %s-endian %s value of the bytes" % (name, e, "two's complement" if sg else "unsigned"),
                            "b=%s endianness=%s signed=%s" % (b.hex() or "(empty)", e, sg), got, want)
                if b:
                    back = call(lambda: IntegerUtils.ToBytes(want, len(b), endianness=e, signed=sg))
                    if back != b:
                        rep("IntegerUtils.ToBytes(BytesUtils.ToInteger(b)) != b (%s-endian, signed=%s)" % (e, sg), "b=%s" % b.hex(),
                            back.hex() if isinstance(back, bytes) else back, b.hex())
                    via = call(lambda: IntegerUtils.ToBytes(BytesUtils.ToInteger(b, endianness=e, signed=sg), len(b), e, sg))
                    if via != b:
                        rep("the helpers' own round trip ToBytes(ToInteger(b, e, signed), len(b), e, signed) != b (%s-endian, signed=%s)" % (e, sg), "b=%s" % b.hex(),
                            via.hex() if isinstance(via, bytes) else via, b.hex())
        # list and reversal forms
        n += 1
        if call(lambda: BytesUtils.ToList(b)) != list(b) or call(lambda: BytesUtils.FromList(list(b))) != b:
            rep("BytesUtils.ToList / FromList are not the byte values in order", b.hex(), "%s / %s" % (call(lambda: BytesUtils.ToList(b)), call(lambda: BytesUtils.FromList(list(b)))), list(b))
        if call(lambda: BytesUtils.Reverse(b)) != b[::-1]:
            rep("BytesUtils.Reverse is not the reversed byte string", b.hex(), call(lambda: BytesUtils.Reverse(b)), b[::-1].hex())
    # integers -> byte strings -> integers: the whole two's complement range of width 1, edges and random values of the other widths
    ints = [(v, 1) for v in range(-128, 128)]
    for w in (2, 3, 4, 8, 16, 32, 33, 64):
        lo, hi = -(1 << (8 * w - 1)), (1 << (8 * w - 1)) - 1
        ints += [(v, w) for v in (lo, lo + 1, -257, -256, -255, -129, -128, -127, -2, -1, 0, 1, 127, 128, 255, 256, hi - 1, hi) if lo <= v <= hi]
        ints += [(rng.randrange(lo, hi + 1), w) for _ in range(6 if tier == "quick" else 200)]
    for v, w in ints:
        for e in ("big", "little"):
            n += 1
            want = v.to_bytes(w, byteorder=e, signed=True)
            got = call(lambda: IntegerUtils.ToBytes(v, w, endianness=e, signed=True))
            if got != want:
                rep("IntegerUtils.ToBytes(v, n, %s, signed=True) is not the standard two's complement encoding" % e, "v=%d n=%d" % (v, w), got.hex() if isinstance(got, bytes) else got, want.hex())
            back = call(lambda: BytesUtils.ToInteger(want, endianness=e, signed=True))
            if back != v:
                rep("BytesUtils.ToInteger(IntegerUtils.ToBytes(v, n, signed=True), signed=True) != v (%s-endian)" % e, "v=%d n=%d bytes=%s" % (v, w, want.hex()), back, v)
            if v >= 0:
                # the same non-negative value in the unsigned representation of the same width, and in the automatic (minimal) width
                u = call(lambda: IntegerUtils.ToBytes(v, w, endianness=e))
                if u != v.to_bytes(w, byteorder=e):
                    rep("IntegerUtils.ToBytes(v, n, %s) is not the standard unsigned encoding" % e, "v=%d n=%d" % (v, w), u.hex() if isinstance(u, bytes) else u, v.to_bytes(w, byteorder=e).hex())
                mw = max(1, (v.bit_length() + 7) // 8)
                a = call(lambda: IntegerUtils.ToBytes(v, endianness=e))
                if a != v.to_bytes(mw, byteorder=e) or call(lambda: IntegerUtils.GetBytesNumber(v)) != mw:
                    rep("IntegerUtils.ToBytes(v) with automatic width is not the minimal-width unsigned encoding (%s-endian)" % e, "v=%d" % v,
                        a.hex() if isinstance(a, bytes) else a, v.to_bytes(mw, byteorder=e).hex())
                if call(lambda: BytesUtils.ToInteger(v.to_bytes(mw, byteorder=e), endianness=e)) != v:
                    rep("BytesUtils.ToInteger(IntegerUtils.ToBytes(v)) != v (automatic width, %s-endian)" % e, "v=%d" % v,
                        call(lambda: BytesUtils.ToInteger(v.to_bytes(mw, byteorder=e), endianness=e)), v)
    # binary text of integers: standard digits, zero padded on the left to the asked width, and back (str and bytes argument)
    for v, pad in [(0, 0), (0, 8), (1, 0), (1, 11), (255, 8), (255, 4), (256, 8), (2**32 - 1, 32), (2**32, 32)] + \
            [(rng.getrandbits(rng.choice([1, 7, 8, 11, 33, 64, 256])), rng.choice([0, 8, 11, 32, 264])) for _ in range(40 if tier == "quick" else 600)]:
        n += 1
        want = format(v, "b").zfill(pad)
        got = call(lambda: IntegerUtils.ToBinaryStr(v, pad))
        if got != want or (pad == 0 and call(lambda: IntegerUtils.ToBinaryStr(v)) != want):
            rep("IntegerUtils.ToBinaryStr is not the zero-padded standard binary text", "v=%d zero_pad_bit_len=%d" % (v, pad), got, want)
        for form, arg in (("str", want), ("bytes", want.encode("ascii"))):
            if call(lambda: IntegerUtils.FromBinaryStr(arg)) != v:
                rep("IntegerUtils.FromBinaryStr(ToBinaryStr(v)) != v (%s argument)" % form, "v=%d text=%s" % (v, want), call(lambda: IntegerUtils.FromBinaryStr(arg)), v)
    rpt.extra["integer_byte_helper_checks"] = n
    return bad[:6]
