"""C09 — address encoders produce the address the coin's format specifies."""
from harness.core import Case
from harness.canon import hx, tx, unhx, untx
from harness.props.addr_common import IMPL, fmt_table, kwfields, rand_priv, pub_forms, conv_kw, PRIV, PUB
from bip_utils import Secp256k1PrivateKey, Ed25519PrivateKey, Nist256p1PrivateKey

LEAN_MODULES = ["BipVerif.Props.C09", "BipVerif.Props.C09Tables"]


def pre_build():
    from gen import gen_consts, gen_unicode
    gen_unicode.main()
    gen_consts.main()


def gen(rng, tier):
    T = fmt_table()
    per = 6 if tier == "quick" else 120
    for fmt, (curve, enc, dec, params) in T.items():
        for i in range(per):
            kw = dict(params[0] if i == 0 else params[-1] if i == 1 else params[rng.randrange(len(params))])   # first, last, then random rows of the parameter space
            priv = rand_priv(rng, curve)
            forms = pub_forms(curve, priv)
            pub = forms[i % len(forms)]
            if fmt in ("xmr", "xmrint"):
                kw["pub_vkey"] = hx(pub_forms(curve, rand_priv(rng, curve))[0])
                if fmt == "xmrint":
                    kw["payment_id"] = hx(bytes(rng.randrange(256) for _ in range(8)))
            yield Case("addrenc", [fmt, hx(pub)] + kwfields(kw), "enc-" + fmt)
            addr = enc.EncodeKey(pub, **conv_kw(fmt, kw))
            yield Case("addrdec", [fmt, tx(addr)] + kwfields(kw), "dec-" + fmt)
        # output-dependent cases: pre-scan many keys on the implementation and send to the model those whose address has an unusual
        # length, whose decoded payload starts with a zero byte, or whose own decoder refuses / changes them (fixed-width slips)
        scan = 250 if tier == "quick" else 4000
        lens, picked = {}, []
        kw0 = dict(params[0])
        for j in range(scan):
            pub = pub_forms(curve, rand_priv(rng, curve))[0]
            kw = dict(kw0 if j % 2 == 0 else params[-1])
            if fmt in ("xmr", "xmrint"):
                kw["pub_vkey"] = hx(pub_forms(curve, rand_priv(rng, curve))[0])
                if fmt == "xmrint":
                    kw["payment_id"] = hx(bytes(rng.randrange(256) for _ in range(8)))
            ckw = conv_kw(fmt, kw)
            try:
                addr = enc.EncodeKey(pub, **ckw)
            except Exception:  # noqa
                picked.append((0, pub, kw)); continue
            lens.setdefault(len(addr), []).append((pub, kw))
            try:
                pay = dec.DecodeAddr(addr, **{k: v for k, v in ckw.items() if k not in ("pub_key_mode", "trim_zeroes", "pub_vkey", "pub_skey", "compressed")})
            except Exception:  # noqa
                picked.append((0, pub, kw)); continue
            if isinstance(pay, bytes) and pay[:1] == b"\x00":
                picked.append((1, pub, kw))
        modal = max(lens, key=lambda k: len(lens[k])) if lens else None
        for ln, lst in lens.items():
            if ln != modal:
                picked += [(0, pub, kw) for pub, kw in lst[:2]]
        picked.sort(key=lambda t: t[0])
        for _, pub, kw in picked[:6 if tier == "quick" else 40]:
            yield Case("addrenc", [fmt, hx(pub)] + kwfields(kw), "enc-outputdep")
            try:
                yield Case("addrdec", [fmt, tx(enc.EncodeKey(pub, **conv_kw(fmt, kw)))] + kwfields(kw), "dec-outputdep")
            except Exception:  # noqa
                pass
        if fmt == "aptos":
            import hashlib
            got = 0
            for j in range(20000):
                pub = pub_forms(curve, rand_priv(rng, curve))[0]
                h = hashlib.sha3_256(pub[1:] + b"\x00").digest()
                if h[0] == 0:          # two or more trimmed digits in the short form
                    for kw in params:
                        yield Case("addrenc", [fmt, hx(pub)] + kwfields(kw), "enc-aptos-leading-zero-byte")
                        yield Case("addrdec", [fmt, tx(enc.EncodeKey(pub, **conv_kw(fmt, kw)))] + kwfields(kw), "dec-aptos-leading-zero-byte")
                    got += 1
                    if got >= 2:
                        break
        if fmt == "nim":
            import hashlib
            from harness.props.c10 import _nim_checksum, NIM_ALPHABET
            found = {}
            for j in range(20000):
                pub = pub_forms(curve, rand_priv(rng, curve))[0]
                hsh = hashlib.blake2b(pub[1:], digest_size=32).digest()[:20]
                v = int.from_bytes(hsh, "big")
                body = "".join(NIM_ALPHABET[(v >> (5 * (31 - t))) & 31] for t in range(32))
                ck = _nim_checksum(body)
                cls_ = "98" if ck == "98" else "97" if ck == "97" else "0x" if ck < "10" else None
                if cls_ and cls_ not in found:
                    found[cls_] = pub
                    yield Case("addrenc", [fmt, hx(pub)], "enc-nim-check-" + cls_)
                if len(found) == 3:
                    break
        if fmt == "xlm":
            import binascii
            got = 0
            for j in range(20000):
                pub = pub_forms(curve, rand_priv(rng, curve))[0]
                for ver in (6 << 3, 16 << 3):
                    if binascii.crc_hqx(bytes([ver]) + pub[1:], 0) < 0x100:
                        yield Case("addrenc", [fmt, hx(pub)] + kwfields(dict(params[0] if ver == 6 << 3 else params[-1])), "enc-xlm-crc-leading-zero")
                        got += 1
                if got >= 2:
                    break
        # byte strings that are not valid keys
        xy = []
        if curve.startswith("ed25519"):
            # the 64-byte x || y form of a REAL curve point (accepted by the point classes, never a public key encoding)
            from harness.props.addr_common import PUB as _PUB
            try:
                xy = [_PUB[curve].FromBytes(pub_forms(curve, rand_priv(rng, curve))[0]).Point().Raw().ToBytes()]
            except Exception:  # noqa
                xy = []
        for bad in xy + list((b"", b"\x02" + bytes(32), b"\x05" + bytes(32), bytes(33), b"\x02" + b"\xff" * 32, bytes(31), bytes(65), b"\x04" + bytes(64),
                    bytes(rng.randrange(256) for _ in range(33)), bytes(rng.randrange(256) for _ in range(32)))):
            kw = dict(params[0])
            if fmt in ("xmr", "xmrint"):
                kw["pub_vkey"] = hx(pub_forms(curve, rand_priv(rng, curve))[0])
                if fmt == "xmrint":
                    kw["payment_id"] = hx(bytes(8))
            yield Case("addrenc", [fmt, hx(bad)] + kwfields(kw), "neg-badkey")
    # key layer: public key parsing in every input form
    for curve in PUB:
        for i in range(20 if tier == "quick" else 400):
            priv = rand_priv(rng, curve)
            for f in pub_forms(curve, priv):
                yield Case("pubkey", [curve, hx(f)], "pubkey")
            yield Case("privkey", [curve, hx(priv)], "privkey")


def relations(rng, tier, rpt):
    """wrong-curve key objects are refused with TypeError; decode(encode(k)) returns the format's payload (implementation only)."""
    bad = []
    T = fmt_table()
    n = 0
    objs = {"secp256k1": Secp256k1PrivateKey.FromBytes(bytes(31) + b"\x01").PublicKey(),
            "ed25519": Ed25519PrivateKey.FromBytes(bytes(32)).PublicKey(),
            "nist256p1": Nist256p1PrivateKey.FromBytes(bytes(31) + b"\x01").PublicKey()}
    for fmt, (curve, enc, dec, params) in T.items():
        for oc, obj in objs.items():
            if oc == curve or (curve.startswith("ed25519") and oc == "ed25519" and curve == "ed25519"):
                continue
            kw = dict(params[0])
            if fmt in ("xmr", "xmrint"):
                kw["pub_vkey"] = hx(pub_forms(curve, rand_priv(rng, curve))[0])
                if fmt == "xmrint":
                    kw["payment_id"] = hx(bytes(8))
            n += 1
            try:
                enc.EncodeKey(obj, **conv_kw(fmt, kw))
                got = "ok"
            except TypeError:
                continue
            except Exception as ex:  # noqa
                got = type(ex).__name__
            bad.append({"property": "C09", "entry_point": enc.__name__, "request_lines": [],
                        "relation": "key object of the wrong curve is not refused with TypeError", "input": "%s key to %s" % (oc, fmt),
                        "impl_output": got, "model_output": "TypeError", "no_failing_input": False})
    # encoders that take a SECOND key (Shelley staking key, Monero view key): the same refusals apply to it
    from bip_utils import AdaShelleyAddrEncoder, XmrAddrEncoder, Ed25519MoneroPrivateKey, Ed25519Blake2bPrivateKey, Ed25519PublicKey
    ed_ok = Ed25519PrivateKey.FromBytes(bytes(range(32))).PublicKey()
    xm_ok = Ed25519MoneroPrivateKey.FromBytes((12345).to_bytes(32, "little")).PublicKey()
    foreign = dict(objs)
    foreign["ed25519blake2b"] = Ed25519Blake2bPrivateKey.FromBytes(bytes(32)).PublicKey()
    foreign["ed25519monero"] = xm_ok
    second = [("AdaShelleyAddrEncoder(pub_skey)", "ed25519", lambda k2: AdaShelleyAddrEncoder.EncodeKey(ed_ok, pub_skey=k2)),
              ("XmrAddrEncoder(pub_vkey)", "ed25519monero", lambda k2: XmrAddrEncoder.EncodeKey(xm_ok, pub_vkey=k2, net_ver=b"\x12"))]
    for name, own, f in second:
        for oc, obj in foreign.items():
            if oc == own or (own == "ed25519" and oc == "ed25519monero"):     # the Monero key class is a subclass of the ed25519 one
                continue
            n += 1
            try:
                f(obj)
                got = "ok"
            except TypeError:
                continue
            except Exception as ex:  # noqa
                got = type(ex).__name__
            bad.append({"property": "C09", "entry_point": name, "request_lines": [], "relation": "second key object of the wrong curve is not refused with TypeError",
                        "input": "%s key" % oc, "impl_output": got, "model_output": "TypeError", "no_failing_input": False})
        for junk in (b"", bytes(31), b"\x05" + bytes(32), bytes(34), bytes(64) + b"\x01"):        # wrong lengths / prefix (point validity is C12's business)
            n += 1
            try:
                f(junk)
                got = "ok"
            except ValueError:
                continue
            except Exception as ex:  # noqa
                got = type(ex).__name__
            if True:
                bad.append({"property": "C09", "entry_point": name, "request_lines": [], "relation": "second key bytes that are not a valid key are not refused with ValueError",
                            "input": junk.hex(), "impl_output": got, "model_output": "ValueError", "no_failing_input": False})
    rpt.extra["wrong_curve_checks"] = n
    return bad[:6]


def _b58(b, alphabet="123456789ABCDEFGHJKLMNPQRSTUVWXYZabcdefghijkmnopqrstuvwxyz"):
    n, out = int.from_bytes(b, "big"), ""
    while n:
        n, r = divmod(n, 58)
        out = alphabet[r] + out
    return alphabet[0] * (len(b) - len(b.lstrip(b"\0"))) + out


def search_broken(broken, rng):
    """the constants table theorem failed: name the constant whose value differs from the pinned one and, where an address depends on
    it through a simple published rule, exhibit a key whose address differs from that rule evaluated with the registered constant."""
    import hashlib, json, os
    from harness.core import VERIF
    from gen.gen_consts import coins_conf, proto_enums
    g = json.load(open(os.path.join(VERIF, "golden", "consts.json")))
    cur_e = {(c, m): (k, list(v)) for c, m, k, v in proto_enums()}
    for c, m, k, v in g["protoEnums"]:
        got = cur_e.get((c, m))
        if got == (k, list(v)):
            continue
        if c == "XtzAddrPrefixes" and got is not None:
            from bip_utils import XtzAddrEncoder, XtzAddrPrefixes, Ed25519PrivateKey
            pub = Ed25519PrivateKey.FromBytes(rand_priv(rng, "ed25519")).PublicKey()
            addr = XtzAddrEncoder.EncodeKey(pub, prefix=XtzAddrPrefixes[m])
            payload = bytes(v) + hashlib.blake2b(pub.RawCompressed().ToBytes()[1:], digest_size=20).digest()
            want = _b58(payload + hashlib.sha256(hashlib.sha256(payload).digest()).digest()[:4])
            if addr != want:
                return {"relation": "Tezos address with prefix %s differs from Base58Check(registered prefix %s || BLAKE2b-160(key))" % (m, bytes(v).hex()),
                        "entry_point": "XtzAddrEncoder.EncodeKey(pub, prefix=XtzAddrPrefixes.%s)" % m, "input": pub.RawCompressed().ToHex(),
                        "impl_output": addr, "model_output": want}
        return {"relation": "public enumeration member %s.%s no longer has its registered protocol value" % (c, m), "entry_point": "%s.%s.value" % (c, m),
                "input": "%s.%s" % (c, m), "impl_output": "missing" if got is None else repr(got[1]), "model_output": repr(list(v))}
    cur_c = {n: (nm, ab, [(k, kind, list(val)) for k, kind, val in ps]) for n, nm, ab, ps in coins_conf()}
    for n, nm, ab, ps in g["coinsConf"]:
        got = cur_c.get(n)
        want = (nm, ab, [(k, kind, list(val)) for k, kind, val in ps])
        if got != want:
            what = "names" if got is not None and got[2] == want[2] else "parameters"
            return {"relation": "raw coin configuration CoinsConf.%s: %s differ from the registered ones" % (n, what), "entry_point": "CoinsConf.%s" % n,
                    "input": n, "impl_output": repr(got), "model_output": repr(want)}
    return None
