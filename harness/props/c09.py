"""C09 — address encoders produce the address the coin's format specifies."""
from harness.core import Case
from harness.canon import hx, tx, unhx, untx
from harness.props.addr_common import IMPL, fmt_table, kwfields, rand_priv, pub_forms, conv_kw, PRIV, PUB
from bip_utils import Secp256k1PrivateKey, Ed25519PrivateKey, Nist256p1PrivateKey

LEAN_MODULES = ["BipVerif.Props.C09", "BipVerif.Props.C09Tables", "BipVerif.Props.C09Group"]


def pre_build():
    from gen import gen_consts, gen_unicode
    gen_unicode.main()
    gen_consts.main()


WEIER = {   # p, a, b, Gx, Gy, n  (SEC 2 / FIPS 186-4)
    "secp256k1": (2**256 - 2**32 - 977, 0, 7,
                  0x79BE667EF9DCBBAC55A06295CE870B07029BFCDB2DCE28D959F2815B16F81798, 0x483ADA7726A3C4655DA4FBFC0E1108A8FD17B448A68554199C47D08FFB10D4B8,
                  0xFFFFFFFFFFFFFFFFFFFFFFFFFFFFFFFEBAAEDCE6AF48A03BBFD25E8CD0364141),
    "nist256p1": (0xFFFFFFFF00000001000000000000000000000000FFFFFFFFFFFFFFFFFFFFFFFF, -3, 0x5AC635D8AA3A93E7B3EBBD55769886BC651D06B0CC53B0F63BCE3C3E27D2604B,
                  0x6B17D1F2E12C4247F8BCE6E563A440F277037D812DEB33A0F4A13945D898C296, 0x4FE342E2FE1A7F9B8EE7EB4A7C0F9E162BCE33576B315ECECBB6406837BF51F5,
                  0xFFFFFFFF00000000FFFFFFFFFFFFFFFFBCE6FAADA7179E84F3B9CAC2FC632551),
}


def _wadd(cv, P1, P2):
    """affine addition on a short Weierstrass curve (plain integers; None is the point at infinity)"""
    p, a = cv[0], cv[1]
    if P1 is None:
        return P2
    if P2 is None:
        return P1
    (x1, y1), (x2, y2) = P1, P2
    if x1 == x2 and (y1 + y2) % p == 0:
        return None
    lam = ((3 * x1 * x1 + a) * pow(2 * y1, -1, p) if P1 == P2 else (y2 - y1) * pow(x2 - x1, -1, p)) % p
    x3 = (lam * lam - x1 - x2) % p
    return x3, (lam * (x1 - x3) - y1) % p


def _wmul(cv, k, P1):
    R = None
    while k:
        if k & 1:
            R = _wadd(cv, R, P1)
        P1 = _wadd(cv, P1, P1)
        k >>= 1
    return R


def zero_byte_keys(rng, tier):
    """input-dependent fixed-width slips: valid public keys whose OWN encoding has zero bytes where a minimal-length integer conversion
    would drop them. Weierstrass curves: points k·G, (k+1)·G, ... from a random k (computed here with plain integer arithmetic, not by
    the library) whose x-coordinate or y-coordinate starts with a zero byte — about 1 key in 256 each, so never met by a handful of
    random keys; ed25519 family: keys whose 32-byte encoding starts or ends with a zero byte. Returns curve -> [(kind, [input forms])]."""
    from harness.core import HarnessError
    out = {}
    want = 2 if tier == "quick" else 8
    for curve, cv in WEIER.items():
        p, a, b, gx, gy, n = cv
        G = (gx, gy)
        k = rng.randrange(1, n - 400000)
        pt = _wmul(cv, k, G)
        found = {"x-leading-zero": [], "y-leading-zero": [], "x-two-leading-zeros": []}
        for step in range(3000 if tier == "quick" else 120000):
            x, y = pt
            kind = "x-two-leading-zeros" if x >> 240 == 0 else "x-leading-zero" if x >> 248 == 0 else "y-leading-zero" if y >> 248 == 0 else None
            if kind and len(found[kind]) < want:
                if (y * y - (x * x * x + a * x + b)) % p:
                    raise HarnessError("zero_byte_keys: point arithmetic left the curve")
                xb, yb = x.to_bytes(32, "big"), y.to_bytes(32, "big")
                found[kind].append((kind, [bytes([2 + (y & 1)]) + xb, b"\x04" + xb + yb]))
                if tier == "quick" and all(len(found[t]) >= want for t in ("x-leading-zero", "y-leading-zero")):
                    break
            pt = _wadd(cv, pt, G)
        out[curve] = found["x-two-leading-zeros"] + [kv for pair in zip(found["x-leading-zero"], found["y-leading-zero"]) for kv in pair] \
            + found["x-leading-zero"][len(found["y-leading-zero"]):]
    for curve in PRIV:
        if curve in WEIER:
            continue
        lst, kinds = [], {"first-byte-zero": 0, "last-byte-zero": 0}
        for j in range(4000 if tier == "quick" else 40000):
            comp = pub_forms(curve, rand_priv(rng, curve))[0]
            raw = comp[-32:]
            kind = "first-byte-zero" if raw[0] == 0 else "last-byte-zero" if raw[-1] == 0 else None
            if kind and kinds[kind] < want:
                kinds[kind] += 1
                lst.append((kind, [comp] if curve == "ed25519monero" else [comp, raw]))
                if min(kinds.values()) >= want:
                    break
        out[curve] = lst
    return out


def gen(rng, tier):
    T = fmt_table()
    per = 6 if tier == "quick" else 120
    zkeys = zero_byte_keys(rng, tier)
    for fmt, (curve, enc, dec, params) in T.items():
        # input-dependent cases: keys whose own coordinates / encoding carry leading (or trailing) zero bytes, every input form, first and
        # last parameter rows; the expected address comes from the model
        for j, (kind, forms) in enumerate(zkeys.get(curve, [])[:4 if tier == "quick" else 40]):
            for fi, pub in enumerate(forms):
                kw = dict(params[0] if (j + fi) % 2 == 0 else params[-1])
                if fmt in ("xmr", "xmrint"):
                    kw["pub_vkey"] = hx(pub_forms(curve, rand_priv(rng, curve))[0])
                    if fmt == "xmrint":
                        kw["payment_id"] = hx(bytes(rng.randrange(256) for _ in range(8)))
                yield Case("addrenc", [fmt, hx(pub)] + kwfields(kw), "enc-key-" + kind)
                try:
                    yield Case("addrdec", [fmt, tx(enc.EncodeKey(pub, **conv_kw(fmt, kw)))] + kwfields(kw), "dec-key-" + kind)
                except Exception:  # noqa  (the encoder's answer is judged by the request above)
                    pass
        for i in range(per):
            kw = dict(params[0] if i == 0 else params[-1] if i == 1 else params[rng.randrange(len(params))])   # first, last, then random rows of the parameter space
            priv = rand_priv(rng, curve)
            forms = pub_forms(curve, priv)
            pub = forms[i % len(forms)]
            if fmt in ("xmr", "xmrint"):
                kw["pub_vkey"] = hx(pub_forms(curve, rand_priv(rng, curve))[0])
                if fmt == "xmrint":
                    kw["payment_id"] = hx(bytes(rng.randrange(256) for _ in range(8)))
            yield Case("addrenc", [fmt, hx(pub)] + kwfields(kw), "enc-" + fmt)
            addr = enc.EncodeKey(pub, **conv_kw(fmt, kw))
            yield Case("addrdec", [fmt, tx(addr)] + kwfields(kw), "dec-" + fmt)
        # output-dependent cases: pre-scan many keys on the implementation and send to the model those whose address has an unusual
        # length, whose decoded payload starts with a zero byte, or whose own decoder refuses / changes them (fixed-width slips)
        scan = 250 if tier == "quick" else 4000
        lens, picked = {}, []
        kw0 = dict(params[0])
        for j in range(scan):
            pub = pub_forms(curve, rand_priv(rng, curve))[0]
            kw = dict(kw0 if j % 2 == 0 else params[-1])
            if fmt in ("xmr", "xmrint"):
                kw["pub_vkey"] = hx(pub_forms(curve, rand_priv(rng, curve))[0])
                if fmt == "xmrint":
                    kw["payment_id"] = hx(bytes(rng.randrange(256) for _ in range(8)))
            ckw = conv_kw(fmt, kw)
            try:
                addr = enc.EncodeKey(pub, **ckw)
            except Exception:  # noqa
                picked.append((0, pub, kw)); continue
            lens.setdefault(len(addr), []).append((pub, kw))
            try:
                pay = dec.DecodeAddr(addr, **{k: v for k, v in ckw.items() if k not in ("pub_key_mode", "trim_zeroes", "pub_vkey", "pub_skey", "compressed")})
            except Exception:  # noqa
                picked.append((0, pub, kw)); continue
            if isinstance(pay, bytes) and pay[:1] == b"\x00":
                picked.append((1, pub, kw))
        modal = max(lens, key=lambda k: len(lens[k])) if lens else None
        for ln, lst in lens.items():
            if ln != modal:
                picked += [(0, pub, kw) for pub, kw in lst[:2]]
        picked.sort(key=lambda t: t[0])
        for _, pub, kw in picked[:6 if tier == "quick" else 40]:
            yield Case("addrenc", [fmt, hx(pub)] + kwfields(kw), "enc-outputdep")
            try:
                yield Case("addrdec", [fmt, tx(enc.EncodeKey(pub, **conv_kw(fmt, kw)))] + kwfields(kw), "dec-outputdep")
            except Exception:  # noqa
                pass
        if fmt == "aptos":
            import hashlib
            got = 0
            for j in range(20000):
                pub = pub_forms(curve, rand_priv(rng, curve))[0]
                h = hashlib.sha3_256(pub[1:] + b"\x00").digest()
                if h[0] == 0:          # two or more trimmed digits in the short form
                    for kw in params:
                        yield Case("addrenc", [fmt, hx(pub)] + kwfields(kw), "enc-aptos-leading-zero-byte")
                        yield Case("addrdec", [fmt, tx(enc.EncodeKey(pub, **conv_kw(fmt, kw)))] + kwfields(kw), "dec-aptos-leading-zero-byte")
                    got += 1
                    if got >= 2:
                        break
        if fmt == "nim":
            import hashlib
            from harness.props.c10 import _nim_checksum, NIM_ALPHABET
            found = {}
            for j in range(20000):
                pub = pub_forms(curve, rand_priv(rng, curve))[0]
                hsh = hashlib.blake2b(pub[1:], digest_size=32).digest()[:20]
                v = int.from_bytes(hsh, "big")
                body = "".join(NIM_ALPHABET[(v >> (5 * (31 - t))) & 31] for t in range(32))
                ck = _nim_checksum(body)
                cls_ = "98" if ck == "98" else "97" if ck == "97" else "0x" if ck < "10" else None
                if cls_ and cls_ not in found:
                    found[cls_] = pub
                    yield Case("addrenc", [fmt, hx(pub)], "enc-nim-check-" + cls_)
                if len(found) == 3:
                    break
        if fmt == "xlm":
            import binascii
            got = 0
            for j in range(20000):
                pub = pub_forms(curve, rand_priv(rng, curve))[0]
                for ver in (6 << 3, 16 << 3):
                    if binascii.crc_hqx(bytes([ver]) + pub[1:], 0) < 0x100:
                        yield Case("addrenc", [fmt, hx(pub)] + kwfields(dict(params[0] if ver == 6 << 3 else params[-1])), "enc-xlm-crc-leading-zero")
                        got += 1
                if got >= 2:
                    break
        # byte strings that are not valid keys
        xy = []
        if curve.startswith("ed25519"):
            # the 64-byte x || y form of a REAL curve point (accepted by the point classes, never a public key encoding)
            from harness.props.addr_common import PUB as _PUB
            try:
                xy = [_PUB[curve].FromBytes(pub_forms(curve, rand_priv(rng, curve))[0]).Point().Raw().ToBytes()]
            except Exception:  # noqa
                xy = []
        for bad in xy + list((b"", b"\x02" + bytes(32), b"\x05" + bytes(32), bytes(33), b"\x02" + b"\xff" * 32, bytes(31), bytes(65), b"\x04" + bytes(64),
                    bytes(rng.randrange(256) for _ in range(33)), bytes(rng.randrange(256) for _ in range(32)))):
            kw = dict(params[0])
            if fmt in ("xmr", "xmrint"):
                kw["pub_vkey"] = hx(pub_forms(curve, rand_priv(rng, curve))[0])
                if fmt == "xmrint":
                    kw["payment_id"] = hx(bytes(8))
            yield Case("addrenc", [fmt, hx(bad)] + kwfields(kw), "neg-badkey")
    # key layer: public key parsing in every input form
    for curve in PUB:
        for i in range(20 if tier == "quick" else 400):
            priv = rand_priv(rng, curve)
            for f in pub_forms(curve, priv):
                yield Case("pubkey", [curve, hx(f)], "pubkey")
            yield Case("privkey", [curve, hx(priv)], "privkey")


def relations(rng, tier, rpt):
    """wrong-curve key objects are refused with TypeError; decode(encode(k)) returns the format's payload (implementation only)."""
    bad = []
    T = fmt_table()
    n = 0
    objs = {"secp256k1": Secp256k1PrivateKey.FromBytes(bytes(31) + b"\x01").PublicKey(),
            "ed25519": Ed25519PrivateKey.FromBytes(bytes(32)).PublicKey(),
            "nist256p1": Nist256p1PrivateKey.FromBytes(bytes(31) + b"\x01").PublicKey()}
    for fmt, (curve, enc, dec, params) in T.items():
        for oc, obj in objs.items():
            if oc == curve or (curve.startswith("ed25519") and oc == "ed25519" and curve == "ed25519"):
                continue
            kw = dict(params[0])
            if fmt in ("xmr", "xmrint"):
                kw["pub_vkey"] = hx(pub_forms(curve, rand_priv(rng, curve))[0])
                if fmt == "xmrint":
                    kw["payment_id"] = hx(bytes(8))
            n += 1
            try:
                enc.EncodeKey(obj, **conv_kw(fmt, kw))
                got = "ok"
            except TypeError:
                continue
            except Exception as ex:  # noqa
                got = type(ex).__name__
            bad.append({"property": "C09", "entry_point": enc.__name__, "request_lines": [],
                        "relation": "key object of the wrong curve is not refused with TypeError", "input": "%s key to %s" % (oc, fmt),
                        "impl_output": got, "model_output": "TypeError", "no_failing_input": False})
    # encoders that take a SECOND key (Shelley staking key, Monero view key): the same refusals apply to it
    from bip_utils import AdaShelleyAddrEncoder, XmrAddrEncoder, Ed25519MoneroPrivateKey, Ed25519Blake2bPrivateKey, Ed25519PublicKey
    ed_ok = Ed25519PrivateKey.FromBytes(bytes(range(32))).PublicKey()
    xm_ok = Ed25519MoneroPrivateKey.FromBytes((12345).to_bytes(32, "little")).PublicKey()
    foreign = dict(objs)
    foreign["ed25519blake2b"] = Ed25519Blake2bPrivateKey.FromBytes(bytes(32)).PublicKey()
    foreign["ed25519monero"] = xm_ok
    second = [("AdaShelleyAddrEncoder(pub_skey)", "ed25519", lambda k2: AdaShelleyAddrEncoder.EncodeKey(ed_ok, pub_skey=k2)),
              ("XmrAddrEncoder(pub_vkey)", "ed25519monero", lambda k2: XmrAddrEncoder.EncodeKey(xm_ok, pub_vkey=k2, net_ver=b"\x12"))]
    for name, own, f in second:
        for oc, obj in foreign.items():
            if oc == own or (own == "ed25519" and oc == "ed25519monero"):     # the Monero key class is a subclass of the ed25519 one
                continue
            n += 1
            try:
                f(obj)
                got = "ok"
            except TypeError:
                continue
            except Exception as ex:  # noqa
                got = type(ex).__name__
            bad.append({"property": "C09", "entry_point": name, "request_lines": [], "relation": "second key object of the wrong curve is not refused with TypeError",
                        "input": "%s key" % oc, "impl_output": got, "model_output": "TypeError", "no_failing_input": False})
        for junk in (b"", bytes(31), b"\x05" + bytes(32), bytes(34), bytes(64) + b"\x01"):        # wrong lengths / prefix (point validity is C12's business)
            n += 1
            try:
                f(junk)
                got = "ok"
            except ValueError:
                continue
            except Exception as ex:  # noqa
                got = type(ex).__name__
            if True:
                bad.append({"property": "C09", "entry_point": name, "request_lines": [], "relation": "second key bytes that are not a valid key are not refused with ValueError",
                            "input": junk.hex(), "impl_output": got, "model_output": "ValueError", "no_failing_input": False})
    rpt.extra["wrong_curve_checks"] = n
    # input forms: the address is a function of the public key, not of the form it is handed over in (compressed bytes, uncompressed /
    # raw bytes, key object) — on the keys with zero bytes in their own encoding, where a form-dependent width slip would show
    nf = 0
    zk = zero_byte_keys(rng, tier)
    for fmt, (curve, enc, dec, params) in T.items():
        for j, (kind, forms) in enumerate(zk.get(curve, [])[:3 if tier == "quick" else 24]):
            kw = dict(params[j % len(params)])
            if fmt in ("xmr", "xmrint"):
                kw["pub_vkey"] = hx(pub_forms(curve, rand_priv(rng, curve))[0])
                if fmt == "xmrint":
                    kw["payment_id"] = hx(bytes(8))
            ckw = conv_kw(fmt, kw)
            views = [("bytes form %d" % i, f) for i, f in enumerate(forms)] + [("key object", PUB[curve].FromBytes(forms[0]))]
            got = {}
            for name, k in views:
                try:
                    got[name] = enc.EncodeKey(k, **ckw)
                except Exception as ex:  # noqa
                    got[name] = "!" + type(ex).__name__
            nf += 1
            if len(set(got.values())) != 1:
                bad.append({"property": "C09", "entry_point": enc.__name__, "request_lines": [], "no_failing_input": False,
                            "relation": "the same public key gives different addresses in different input forms (key with %s)" % kind,
                            "input": "%s %s %s" % (fmt, forms[0].hex(), kwfields(kw)), "impl_output": str(got), "model_output": "one address"})
    rpt.extra["input_form_checks"] = nf
    return bad[:6]


def _b58(b, alphabet="123456789ABCDEFGHJKLMNPQRSTUVWXYZabcdefghijkmnopqrstuvwxyz"):
    n, out = int.from_bytes(b, "big"), ""
    while n:
        n, r = divmod(n, 58)
        out = alphabet[r] + out
    return alphabet[0] * (len(b) - len(b.lstrip(b"\0"))) + out


def search_broken(broken, rng):
    """the constants table theorem failed: name the constant whose value differs from the pinned one and, where an address depends on
    it through a simple published rule, exhibit a key whose address differs from that rule evaluated with the registered constant."""
    import hashlib, json, os
    from harness.core import VERIF
    from gen.gen_consts import coins_conf, proto_enums
    g = json.load(open(os.path.join(VERIF, "golden", "consts.json")))
    cur_e = {(c, m): (k, list(v)) for c, m, k, v in proto_enums()}
    for c, m, k, v in g["protoEnums"]:
        got = cur_e.get((c, m))
        if got == (k, list(v)):
            continue
        if c == "XtzAddrPrefixes" and got is not None:
            from bip_utils import XtzAddrEncoder, XtzAddrPrefixes, Ed25519PrivateKey
            pub = Ed25519PrivateKey.FromBytes(rand_priv(rng, "ed25519")).PublicKey()
            addr = XtzAddrEncoder.EncodeKey(pub, prefix=XtzAddrPrefixes[m])
            payload = bytes(v) + hashlib.blake2b(pub.RawCompressed().ToBytes()[1:], digest_size=20).digest()
            want = _b58(payload + hashlib.sha256(hashlib.sha256(payload).digest()).digest()[:4])
            if addr != want:
                return {"relation": "Tezos address with prefix %s differs from Base58Check(registered prefix %s || BLAKE2b-160(key))" % (m, bytes(v).hex()),
                        "entry_point": "XtzAddrEncoder.EncodeKey(pub, prefix=XtzAddrPrefixes.%s)" % m, "input": pub.RawCompressed().ToHex(),
                        "impl_output": addr, "model_output": want}
        return {"relation": "public enumeration member %s.%s no longer has its registered protocol value" % (c, m), "entry_point": "%s.%s.value" % (c, m),
                "input": "%s.%s" % (c, m), "impl_output": "missing" if got is None else repr(got[1]), "model_output": repr(list(v))}
    cur_c = {n: (nm, ab, [(k, kind, list(val)) for k, kind, val in ps]) for n, nm, ab, ps in coins_conf()}
    for n, nm, ab, ps in g["coinsConf"]:
        got = cur_c.get(n)
        want = (nm, ab, [(k, kind, list(val)) for k, kind, val in ps])
        if got != want:
            what = "names" if got is not None and got[2] == want[2] else "parameters"
            return {"relation": "raw coin configuration CoinsConf.%s: %s differ from the registered ones" % (n, what), "entry_point": "CoinsConf.%s" % n,
                    "input": n, "impl_output": repr(got), "model_output": repr(want)}
    return None
