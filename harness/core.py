"""Check runner: regenerate tables, build Lean, audit axioms, run the correspondence, report.

Exit codes: 0 property held on everything explored (possibly with KNOWN-FINDING lines),
1 violation (a `VIOLATION property=<id> replay=<path>` line is printed), 2 harness error/timeout.
"""
import fcntl, hashlib, importlib, json, os, random, re, subprocess, sys, time, traceback

VERIF = os.path.dirname(os.path.dirname(os.path.abspath(__file__)))
LEAN = os.path.join(VERIF, "lean")
DRV = os.path.join(LEAN, ".lake", "build", "bin", "bipdrv")
STD_AXIOMS = {"propext", "Classical.choice", "Quot.sound"}
FORBIDDEN = re.compile(r"\bsorry\b|\badmit\b|^axiom\s|native_decide|bv_decide|implemented_by|\bunsafe\s|maxHeartbeats\s+0\b", re.M)

TRUSTED_BASE = [
    "Lean 4.33.0 kernel (thorough tier: also leanchecker on the compiled .olean files)",
    "axioms propext, Classical.choice, Quot.sound only (audited per theorem on every run)",
    "translators gen/*.py (tables regenerated from /repo on every run)",
    "correspondence harness harness/*.py, its generators and canonicalisation",
    "CPython int/bytes/str/unicodedata semantics and the third-party C libraries (modelled or oracle, not verified)",
    "Prim/*.lean hash and curve arithmetic (differentially tested against the libraries on every run, not proved)",
]


class HarnessError(Exception):
    pass


class Case:
    """one request line; `cls` labels the generator class for the histogram; `expect` may pin the
    reply demanded by the property when it differs from 'model == impl' (e.g. relation checks)."""
    __slots__ = ("op", "args", "cls", "note", "oracle")

    def __init__(self, op, args, cls="gen", note=None):
        self.op, self.args, self.cls, self.note = op, [str(a) for a in args], cls, note
        self.oracle = []      # answered third-party oracle queries "fn:hexin=hexout" (model side only)

    @property
    def line(self):
        return " ".join([self.op] + self.args)

    @property
    def model_line(self):
        return self.line + ((" | " + " ".join(self.oracle)) if self.oracle else "")


def sh(cmd, cwd=None, timeout=3600, env=None):
    p = subprocess.run(cmd, cwd=cwd, shell=isinstance(cmd, str), stdout=subprocess.PIPE,
                       stderr=subprocess.STDOUT, text=True, timeout=timeout, env=env)
    return p.returncode, p.stdout


def write_if_changed(path, content):
    try:
        if open(path).read() == content:
            return False
    except FileNotFoundError:
        pass
    os.makedirs(os.path.dirname(path), exist_ok=True)
    tmp = path + ".tmp%d" % os.getpid()
    open(tmp, "w").write(content)
    os.replace(tmp, path)
    return True


class LeanLock:
    def __enter__(self):
        self.f = open(os.path.join(LEAN, ".lock"), "w")
        fcntl.flock(self.f, fcntl.LOCK_EX)
        return self

    def __exit__(self, *a):
        fcntl.flock(self.f, fcntl.LOCK_UN)
        self.f.close()


def lake_build(targets, timeout=3000):
    """returns (ok, output)."""
    with LeanLock():
        rc, out = sh(["lake", "build"] + list(targets), cwd=LEAN, timeout=timeout)
    return rc == 0, out


def strip_comments(src):
    # remove /- ... -/ (nested not handled beyond one level; our sources do not nest) and -- ...
    src = re.sub(r"/-.*?-/", "", src, flags=re.S)
    src = re.sub(r"--.*", "", src)
    return src


def theorem_names(module):
    """theorem names declared in a Props module, with their namespace."""
    path = os.path.join(LEAN, *module.split(".")) + ".lean"
    src = strip_comments(open(path).read())
    names, ns = [], []
    for m in re.finditer(r"^(namespace|end|theorem)\s+(\S+)", src, re.M):
        kw, nm = m.group(1), m.group(2)
        if kw == "namespace":
            ns.append(nm)
        elif kw == "end":
            if ns and ns[-1] == nm:
                ns.pop()
        else:
            names.append(".".join(ns + [nm]))
    return names


def source_closure(module, seen=None):
    """all BipVerif.* modules imported (transitively) by `module`."""
    seen = seen if seen is not None else set()
    if module in seen:
        return seen
    seen.add(module)
    path = os.path.join(LEAN, *module.split(".")) + ".lean"
    for m in re.finditer(r"^import\s+(BipVerif\.\S+)", open(path).read(), re.M):
        source_closure(m.group(1), seen)
    return seen


def audit(prop_id, modules):
    """#print axioms for every theorem of the property modules; forbidden-token grep over the
    whole import closure. Returns dict(theorems=[...], axioms={thm: [...]}, bad=[...])."""
    thms = []
    for mod in modules:
        thms += theorem_names(mod)
    bad = []
    closure = set()
    for mod in modules:
        source_closure(mod, closure)
    for mod in sorted(closure):
        path = os.path.join(LEAN, *mod.split(".")) + ".lean"
        m = FORBIDDEN.search(strip_comments(open(path).read()))
        if m:
            bad.append("forbidden token %r in %s" % (m.group(0), mod))
    audit_dir = os.path.join(LEAN, ".audit")
    os.makedirs(audit_dir, exist_ok=True)
    f = os.path.join(audit_dir, prop_id + ".lean")
    body = "".join("import %s\n" % m for m in modules) + "".join("#print axioms %s\n" % t for t in thms)
    open(f, "w").write(body)
    rc, out = sh(["lake", "env", "lean", f], cwd=LEAN, timeout=1800)
    axioms = {}
    for m in re.finditer(r"^'(\S+)' (does not depend on any axioms|depends on axioms: \[([^\]]*)\])", out, re.M):
        axioms[m.group(1)] = [] if m.group(3) is None else [a.strip() for a in m.group(3).replace("\n", " ").split(",")]
    for t in thms:
        if t not in axioms:
            bad.append("no axiom report for theorem %s" % t)
        elif not set(axioms[t]) <= STD_AXIOMS:
            bad.append("theorem %s depends on non-standard axioms %s" % (t, axioms[t]))
    if rc != 0:
        bad.append("audit file failed to elaborate: " + out[-2000:])
    return {"theorems": thms, "axioms": axioms, "bad": bad}


def run_driver(lines, timeout=3000):
    if not lines:
        return []
    p = subprocess.run([DRV], input="\n".join(lines) + "\n", stdout=subprocess.PIPE, stderr=subprocess.PIPE,
                       text=True, timeout=timeout)
    out = p.stdout.split("\n")
    if out and out[-1] == "":
        out.pop()
    if p.returncode != 0 or len(out) != len(lines):
        raise HarnessError("driver failed rc=%s got %d replies for %d lines: %s" % (p.returncode, len(out), len(lines), p.stderr[-500:]))
    return out


class Hang(BaseException):
    """raised by the interval timer inside an implementation call that overran its time limit (BaseException: not swallowed by the
    library's own `except Exception` clauses)"""


class time_limit:
    """promptness watchdog for in-process implementation calls: SIGALRM after `sec` seconds raises Hang in the running call
    (CPython's regular-expression engine and every pure-Python loop poll for signals)"""

    fired = 0          # hangs seen so far in this process: after three, later calls get a short limit (a hanging library is already a
    #                    violation with three witnesses; waiting a full limit for every further input only delays the verdict)

    def __init__(self, sec):
        self.sec = sec if time_limit.fired < 3 else min(sec, 3.0)

    def _fire(self, signum, frame):
        time_limit.fired += 1
        raise Hang()

    def __enter__(self):
        import signal, threading
        self.on = threading.current_thread() is threading.main_thread()
        if self.on:
            self.old = signal.signal(signal.SIGALRM, self._fire)
            signal.setitimer(signal.ITIMER_REAL, self.sec)
        return self

    def __exit__(self, *a):
        import signal
        if self.on:
            signal.setitimer(signal.ITIMER_REAL, 0)
            signal.signal(signal.SIGALRM, self.old)
        return False


CALL_TIME_LIMIT = float(os.environ.get("VERIF_CALL_TIME_LIMIT", "60"))


def run_impl(mod, case):
    from harness.canon import exc_kind
    fn = mod.IMPL.get(case.op)
    if fn is None:
        raise HarnessError("no implementation adapter for op " + case.op)
    try:
        with time_limit(CALL_TIME_LIMIT):
            r = fn(*case.args)
        if isinstance(r, str) and r.startswith("\x00"):
            return r[1:]            # adapter supplies the complete reply (e.g. a recorded history observation)
        return "ok" if r is None or r == "" else "ok " + r
    except HarnessError:
        raise
    except RecursionError:
        return "err Other:RecursionError"
    except Hang:
        return "err Hang:no-answer-within-%ds" % CALL_TIME_LIMIT
    except Exception as ex:  # noqa
        return "err " + exc_kind(ex)


def load_findings():
    p = os.path.join(VERIF, "known_findings.json")
    try:
        return json.load(open(p))["findings"]
    except FileNotFoundError:
        return []


class Report:
    def __init__(self, prop, tier, seed):
        self.prop, self.tier, self.seed = prop, tier, seed
        self.t0 = time.time()
        self.violations = []      # (replay dict)
        self.known = []
        self.evals = 0
        self.distinct = set()
        self.hist = {}
        self.errkinds = {}
        self.samples = []
        self.extra = {}
        self.exhaustive = False

    def count(self, case, impl_out, model_out):
        self.evals += 1
        self.hist[case.cls] = self.hist.get(case.cls, 0) + 1
        k = impl_out.split(" ")[1] if impl_out.startswith("err ") else "ok"
        self.errkinds[k] = self.errkinds.get(k, 0) + 1
        if not impl_out.startswith("err ") or case.cls.startswith("neg"):
            self.distinct.add(hashlib.sha1(case.line.encode()).digest()[:8])
        if len(self.samples) < 12 and (self.evals % 97 == 1):
            self.samples.append({"request": case.line, "impl": impl_out, "model": model_out, "class": case.cls})


def write_replay(prop, rep):
    d = os.path.join(VERIF, "replays", prop)
    os.makedirs(d, exist_ok=True)
    h = hashlib.sha1(json.dumps(rep, sort_keys=True).encode()).hexdigest()[:12]
    p = os.path.join(d, h + ".json")
    json.dump(rep, open(p, "w"), indent=1, sort_keys=True)
    return os.path.relpath(p, VERIF)


def _library_exception(where, ex, prop, seed):
    """the implementation raised, on an input the harness constructs as valid, an exception the harness did not expect.
    If the innermost frames are library code this is a behavioural witness (replayable with the same VERIF_SEED); otherwise it is a
    defect of the harness and is re-raised (exit 2)."""
    import traceback
    tb = traceback.extract_tb(ex.__traceback__)
    in_lib = bool(tb) and any("/bip_utils/" in fr.filename for fr in tb[-6:])
    if not in_lib:
        raise ex
    return {"property": prop, "entry_point": "%s:%d %s" % (tb[-1].filename, tb[-1].lineno, tb[-1].name), "request_lines": [],
            "relation": "the implementation raised %s %s" % (type(ex).__name__, where), "input": "VERIF_SEED=%d (deterministic)" % seed,
            "impl_output": "%s: %s" % (type(ex).__name__, str(ex)[:300]), "model_output": "a result",
            "traceback": "".join(traceback.format_list(tb[-8:])), "no_failing_input": False}


def finding_matches(f, case_line):
    return f.get("request") == case_line


def main(argv=None):
    import argparse
    ap = argparse.ArgumentParser()
    ap.add_argument("prop")
    ap.add_argument("--tier", default=os.environ.get("VERIF_TIER", "quick"), choices=["quick", "thorough"])
    ap.add_argument("--replay")
    ap.add_argument("--no-build", action="store_true")
    a = ap.parse_args(argv)
    seed = int(os.environ.get("VERIF_SEED", "0") or 0)
    prop = a.prop.upper()
    sys.path.insert(0, VERIF)
    try:
        mod = importlib.import_module("harness.props." + prop.lower())
    except ModuleNotFoundError as ex:
        print("no harness for", prop, ex)
        return 2
    try:
        if a.replay:
            return replay(mod, prop, a.replay)
        return check(mod, prop, a.tier, seed, a.no_build)
    except HarnessError as ex:
        print("HARNESS-ERROR:", ex)
        return 2
    except subprocess.TimeoutExpired as ex:
        print("TIMEOUT:", ex)
        return 2
    except Exception:  # noqa  a crash of the machinery is neither a pass nor a violation
        import traceback
        traceback.print_exc()
        print("HARNESS-ERROR: uncaught exception in the check (exit 2)")
        return 2


def replay(mod, prop, path):
    rep = json.load(open(path if os.path.isabs(path) else os.path.join(VERIF, path)))
    lines = rep.get("request_lines", [])
    cases = []
    for l in lines:
        req, _, ora = l.partition(" | ")
        c = Case(req.split(" ")[0], req.split(" ")[1:], "replay")
        c.oracle = [x for x in ora.split(" ") if x]
        cases.append(c)
    if hasattr(mod, "pre_build"):
        mod.pre_build()
    ok, out = lake_build(["bipdrv"])
    model = run_driver([c.model_line for c in cases]) if ok else ["<driver build failed>"] * len(cases)
    bad = 0
    for c, m in zip(cases, model):
        i = run_impl(mod, c)
        same = (i == m) or mod_equiv(mod, c, i, m)
        print("request:", c.line)
        print("  impl :", i)
        print("  model:", m, "" if same else "   <-- DIFFERS")
        bad += (not same)
    if rep.get("broken_obligation"):
        print("broken obligation:", rep["broken_obligation"])
    return 1 if bad else 0


def mod_equiv(mod, case, i, m):
    f = getattr(mod, "equiv", None)
    return bool(f and f(case, i, m))


def check(mod, prop, tier, seed, no_build=False):
    rpt = Report(prop, tier, seed)
    rng = random.Random(seed * 1000003 + sum(map(ord, prop)))
    findings = [f for f in load_findings() if f["property"] == prop]
    open_findings = [f for f in findings if f.get("status") == "open"]
    broken = []   # broken proof obligations / build problems

    # 1. regenerate tables from /repo
    if hasattr(mod, "pre_build"):
        mod.pre_build()
    # 2. build
    modules = list(getattr(mod, "LEAN_MODULES", ["BipVerif.Props." + prop]))
    build_ok, build_out = (True, "")
    if not no_build:
        build_ok, build_out = lake_build(modules + ["bipdrv"])
    if not build_ok:
        # which part failed?
        failed = re.findall(r"^- (\S+)", build_out, re.M)
        errs = re.findall(r"^error: (.*)", build_out, re.M)
        broken.append({"kind": "lake build failed", "targets": failed, "errors": errs[:20]})
        # the driver may still build without the Props modules
        drv_ok, _ = lake_build(["bipdrv"])
        if not drv_ok:
            raise HarnessError("driver does not build:\n" + build_out[-3000:])
    # 3. audit
    aud = {"theorems": [], "axioms": {}, "bad": []}
    if build_ok:
        aud = audit(prop, modules)
        if aud["bad"]:
            # a forbidden token or non-standard axiom is a defect of /verif itself
            raise HarnessError("audit failed: " + "; ".join(aud["bad"]))
        if tier == "thorough" and getattr(mod, "LEANCHECKER", True):
            with LeanLock():
                rc, out = sh(["lake", "env", "leanchecker"] + modules, cwd=LEAN, timeout=3000)
            rpt.extra["leanchecker_rc"] = rc
            if rc != 0:
                raise HarnessError("leanchecker rejected the compiled modules: " + out[-2000:])
    # 4. correspondence
    cases = []
    corpus_dir = os.path.join(VERIF, "corpus", prop)
    if os.path.isdir(corpus_dir):
        for fn in sorted(os.listdir(corpus_dir)):
            for l in json.load(open(os.path.join(corpus_dir, fn))).get("request_lines", []):
                cases.append(Case(l.split(" ")[0], l.split(" ")[1:], "corpus"))
    for f in open_findings:
        if f.get("request"):
            l = f["request"]
            cases.append(Case(l.split(" ")[0], l.split(" ")[1:], "finding"))
    lib_raised = []
    try:
        cases += list(mod.gen(rng, tier))
    except Exception as ex:  # noqa
        lib_raised.append(_library_exception("while the case generator was building valid inputs with the implementation", ex, prop, seed))
    if hasattr(mod, "prepare"):
        cases = mod.prepare(cases)       # e.g. attach oracle tables
    model_out = run_driver([c.model_line for c in cases])
    # third-party oracle: answer the queries the model reports (computed by calling the third-party
    # library directly, never through bip_utils) and re-run those requests until none is pending
    oracles = getattr(mod, "ORACLES", None)
    for _round in range(64):
        pending = [i for i, m in enumerate(model_out) if m.startswith("err OracleMiss ")]
        if not pending or oracles is None:
            break
        for i in pending:
            q = model_out[i].split(" ")[2]
            fn, inp = q.split(":")
            if fn not in oracles:
                raise HarnessError("no oracle for query %s (request %s)" % (q, cases[i].line))
            from harness.canon import hx as _hx, unhx as _unhx
            cases[i].oracle.append("%s:%s=%s" % (fn, inp, _hx(oracles[fn](_unhx(inp)))))
        redo = run_driver([cases[i].model_line for i in pending])
        for i, m in zip(pending, redo):
            model_out[i] = m
    diffs = []
    for c, m in zip(cases, model_out):
        if m in ("bad-op", "bad-args", "bad-oracle"):
            raise HarnessError("driver rejected request %r: %s" % (c.line, m))
        if m.startswith("err OracleMiss") and not getattr(mod, "ORACLE_MISS_OK", False) and c.op not in getattr(mod, "ORACLE_MISS_OPS", ()):
            raise HarnessError("oracle miss on " + c.line)
        i = run_impl(mod, c)
        rpt.count(c, i, m)
        if i != m and not mod_equiv(mod, c, i, m):
            diffs.append((c, i, m))
    # 5. relational checks on the implementation itself (property clauses that are not a diff)
    if hasattr(mod, "relations"):
        try:
            for rel in mod.relations(rng, tier, rpt):
                diffs.append(rel)
        except Exception as ex:  # noqa
            lib_raised.append(_library_exception("inside a relation check, on an input the relation constructs as valid", ex, prop, seed))
    diffs += lib_raised
    # 6. classify
    reported_known = set()
    for f in open_findings:
        # an open finding reproduces when the implementation still shows the recorded behaviour
        if f.get("request"):
            l = f["request"]
            c = Case(l.split(" ")[0], l.split(" ")[1:], "finding")
            i = run_impl(mod, c)
            if i == f.get("observed"):
                print("KNOWN-FINDING: property=%s %s" % (prop, f["what"]))
                reported_known.add(f["id"])
    nviol = 0
    seen_sig = set()
    for d in diffs:
        if isinstance(d, dict):
            rep = d
            if any(rep.get("finding_id") == f["id"] for f in open_findings):
                fid = rep.get("finding_id")
                if fid not in reported_known:
                    print("KNOWN-FINDING: property=%s %s" % (prop, [f for f in open_findings if f["id"] == fid][0]["what"]))
                    reported_known.add(fid)
                continue
        else:
            c, i, m = d
            if any(finding_matches(f, c.line) and f.get("observed") == i for f in open_findings):
                continue
            if hasattr(mod, "shrink"):
                c, i, m = mod.shrink(c, i, m, lambda cc: (run_impl(mod, cc), run_driver([cc.line])[0]))
            rep = {"property": prop, "tier": tier, "seed": seed, "entry_point": c.op, "request_lines": [c.model_line],
                   "class": c.cls, "impl_output": i, "model_output": m,
                   "relation": "implementation output differs from the model output the theorems are about",
                   "theorems": aud["theorems"][:40], "no_failing_input": False}
        sig = (rep.get("entry_point"), rep.get("impl_output"), rep.get("model_output"), rep.get("relation"))
        if sig in seen_sig and nviol >= 5:
            nviol += 1
            continue
        seen_sig.add(sig)
        nviol += 1
        if nviol <= 25:
            path = write_replay(prop, rep)
            print("VIOLATION property=%s replay=%s" % (prop, path))
    if broken and nviol == 0:
        # a proof obligation no longer checks and no behavioural witness was found
        witness = None
        if hasattr(mod, "search_broken"):
            witness = mod.search_broken(broken, rng)
        rep = {"property": prop, "tier": tier, "seed": seed, "broken_obligation": broken,
               "request_lines": witness.get("request_lines", []) if witness else [],
               "no_failing_input": witness is None}
        if witness:
            rep.update(witness)
        path = write_replay(prop, rep)
        nviol += 1
        print("VIOLATION property=%s replay=%s%s" % (prop, path, "" if witness else " no-failing-input-found"))
    # 7. evidence
    wall = time.time() - rpt.t0
    ev = {
        "property_id": prop, "tier": tier, "seed": seed, "level": "proof",
        "coverage": {
            "obligations": len(aud["theorems"]), "discharged": len(aud["axioms"]) if not broken else 0,
            "checker_cmd": "cd lean && lake build %s && lake env lean .audit/%s.lean  (#print axioms per theorem)%s" % (
                " ".join(modules), prop, "; lake env leanchecker " + " ".join(modules) if tier == "thorough" else ""),
            "trusted_base": TRUSTED_BASE + list(getattr(mod, "TRUSTED_EXTRA", [])),
            "theorems": aud["theorems"],
            "axioms_used": sorted({a for v in aud["axioms"].values() for a in v}),
            "evaluations": rpt.evals, "distinct_nontrivial": len(rpt.distinct),
            "rule": getattr(mod, "RULE", "generated request lines run on the implementation and on the compiled Lean model; "
                            "distinct = distinct request lines whose implementation result is not an error (or that belong to a negative class)"),
            "histogram": rpt.hist, "result_kinds": rpt.errkinds, "samples": rpt.samples or [{"note": "no correspondence cases"}],
            "exhaustive": bool(rpt.exhaustive), "known_findings_reproduced": sorted(reported_known),
            **rpt.extra,
        },
        "assumptions": list(getattr(mod, "ASSUMPTIONS", [])),
        "wall_s": round(wall, 2), "violations": nviol,
    }
    os.makedirs(os.path.join(VERIF, "evidence"), exist_ok=True)
    json.dump(ev, open(os.path.join(VERIF, "evidence", prop + ".json"), "w"), indent=1, sort_keys=True)
    print("%s tier=%s seed=%d theorems=%d evaluations=%d distinct=%d violations=%d wall=%.1fs" % (
        prop, tier, seed, len(aud["theorems"]), rpt.evals, len(rpt.distinct), nviol, wall))
    return 1 if nviol else 0


def _cover_main():
    """VERIF_COVER=<file>: record which functions of the library are entered during the run (generator-quality instrument, not part of
    any registered command): appends "module:qualname" lines to <file>."""
    import threading
    seen = set()
    src = os.path.join(os.environ.get("VERIF_REPO", "/repo"), "bip_utils")

    def prof(frame, event, arg):
        if event == "call":
            co = frame.f_code
            if co.co_filename.startswith(src):
                seen.add((co.co_filename[len(src) + 1:], getattr(co, "co_qualname", co.co_name)))
    sys.setprofile(prof)
    threading.setprofile(prof)
    try:
        return main()
    finally:
        sys.setprofile(None)
        with open(os.environ["VERIF_COVER"], "a") as f:
            for fn, q in sorted(seen):
                f.write("%s:%s\n" % (fn, q))


if __name__ == "__main__":
    sys.exit(_cover_main() if os.environ.get("VERIF_COVER") else main())
