"""Canonicalisation shared by all property harnesses: exception -> error kind, hex helpers."""
import binascii

def hx(b):
    """bytes -> protocol field"""
    b = bytes(b)
    return b.hex() if b else "-"

def tx(s):
    """text -> protocol field (hex of UTF-8)"""
    return hx(s.encode("utf-8"))

def unhx(f):
    return b"" if f == "-" else bytes.fromhex(f)

def untx(f):
    return unhx(f).decode("utf-8")

def nats(l):
    l = list(l)
    return ",".join(str(int(x)) for x in l) if l else "-"

def unnats(f):
    return [] if f == "-" else [int(x) for x in f.split(",")]

def exc_kind(ex):
    """Map a Python exception to the Err enum of BipVerif/Model/Basic.lean."""
    import bip_utils
    from bip_utils.bip.bip32 import Bip32KeyError, Bip32PathError
    from bip_utils.bip.bip44_base import Bip44DepthError
    from bip_utils.utils.mnemonic import MnemonicChecksumError
    from bip_utils.base58 import Base58ChecksumError
    from bip_utils.bech32 import Bech32ChecksumError
    from bip_utils.ss58 import SS58ChecksumError
    from bip_utils.monero import MoneroKeyError
    from bip_utils.substrate import SubstrateKeyError, SubstratePathError
    if isinstance(ex, (Base58ChecksumError, Bech32ChecksumError, SS58ChecksumError, MnemonicChecksumError)):
        return "Checksum"
    if isinstance(ex, (Bip32KeyError, MoneroKeyError, SubstrateKeyError)):
        return "Key"
    if isinstance(ex, (Bip32PathError, SubstratePathError)):
        return "Path"
    if isinstance(ex, Bip44DepthError):
        return "Depth"
    mod = type(ex).__module__ or ""
    if not (mod == "builtins" or mod.startswith("bip_utils") or mod in ("binascii", "json", "unicodedata")):
        # exception classes of third-party packages (cbor2, coincurve, ecdsa, nacl, Crypto, ...)
        if not isinstance(ex, ValueError) or mod.split(".")[0] in ("cbor2", "_cbor2"):
            return "ThirdParty"
    if isinstance(ex, ValueError):          # includes UnicodeError, binascii.Error
        return "Value"
    if isinstance(ex, TypeError):
        return "Type"
    if isinstance(ex, IndexError):
        return "Index"
    if isinstance(ex, KeyError):
        return "KeyErr"
    if isinstance(ex, OverflowError):
        return "Overflow"
    if isinstance(ex, AttributeError):
        return "Attr"
    if isinstance(ex, AssertionError):
        return "Assert"
    return "Other:" + type(ex).__name__

DOCUMENTED = {"Value", "Checksum", "Key", "Path", "Depth"}


def conf_params(c):
    """the parameter dictionary of a CoinConf object, found structurally (no dependence on a private attribute name)"""
    ds = [v for v in vars(c).values() if isinstance(v, dict)]
    if len(ds) != 1:
        raise RuntimeError("cannot locate the parameter dictionary of %r" % (c,))
    return ds[0]


def fct_call_names(v):
    """the accessor names of a BipCoinFctCallsConf object, found structurally"""
    ts = [x for x in vars(v).values() if isinstance(x, tuple) and x and all(isinstance(t, str) for t in x)]
    if len(ts) != 1:
        raise RuntimeError("cannot locate the call names of %r" % (v,))
    return ts[0]


def kholaw_rounds(seed):
    """number of HMAC-SHA512 links the Ledger (Khovratovich-Law) master-key search takes for `seed`, from the scheme's definition with
    hmac/hashlib only: the candidate I = HMAC-SHA512("ed25519 seed", data) is rejected, and becomes the next data, while bit 5 of I[31] is set"""
    import hmac, hashlib
    data, r = seed, 1
    while True:
        data = hmac.new(b"ed25519 seed", data, hashlib.sha512).digest()
        if not data[31] & 0x20:
            return r
        r += 1


def kholaw_long_round_seeds(rng, thresholds, tries, lengths=(16, 32, 64)):
    """seeds whose Ledger master-key search needs at least t links, one per threshold t (where found within `tries` random seeds)"""
    out, left = [], sorted(thresholds)
    for j in range(tries):
        if not left:
            break
        seed = rng.getrandbits(8 * lengths[j % len(lengths)]).to_bytes(lengths[j % len(lengths)], "big")
        r = kholaw_rounds(seed)
        hit = [t for t in left if r >= t]
        if hit:
            out.append((max(hit), seed))
            left.remove(max(hit))
    return out


def routes(label, rs):
    """every documented route to one result: all must give the same answer, or all must refuse with the same error class; otherwise the
    reply is an ARGUMENT-FORM-DEPENDENT string (never equal to a model reply), naming each route's outcome"""
    outs = []
    for name, f in rs:
        try:
            outs.append((name, f()))
        except Exception as ex:  # noqa
            outs.append((name, "!" + exc_kind(ex)))
    if len({o for _, o in outs}) != 1:
        return "ARGUMENT-FORM-DEPENDENT " + label + ": " + " | ".join("%s: %s" % (n, str(o)[:100]) for n, o in outs)
    if isinstance(outs[0][1], str) and outs[0][1].startswith("!"):
        rs[0][1]()          # re-raise for the caller's error classification
    return outs[0][1]
